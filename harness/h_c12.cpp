// C12 harness: the real lookup tables of the freshly generated UTEST schema (F8MetaCntx: _bme,
// _be, _flu/find_be, reverse name maps; every message / group FieldTraits with its hash array)
// and the real presorted_set (the FieldTrait specialisation of traits.hpp and the generic template
// of f8types.hpp) under operation sequences.  See ocaml/c12_driver.ml for the line formats.
#include "hcommon.hpp"
#include <fix8/f8includes.hpp>
#include <memory>
#include <cstdint>
#include "utest_types.hpp"
#include "utest_router.hpp"
#include "utest_classes.hpp"
#if defined C12_BOTH	// thorough tier: the FIX44 schema as well (ops with suffix 4)
#include "fix44_types.hpp"
#include "fix44_router.hpp"
#include "fix44_classes.hpp"
#endif
using namespace FIX8;

struct Schema
{
	const F8MetaCntx *ctx;
	std::vector<const FieldTraits *> tables;			// every trait table, in discovery order
	std::vector<std::string> table_names;
	std::vector<std::unique_ptr<MessageBase>> keep;	// owners of the tables
	bool built;
	Schema() : ctx(), built() {}

	void walk(MessageBase *m, const std::string& name)
	{
		tables.push_back(&m->get_fp());
		table_names.push_back(name);
		for (auto& pp : m->get_groups())
		{
			MessageBase *g(pp.second->create_group(true));
			keep.push_back(std::unique_ptr<MessageBase>(g));
			std::ostringstream os; os << name << '/' << pp.first;
			walk(g, os.str());
		}
	}

	void build(const F8MetaCntx& c)
	{
		ctx = &c;
		for (const auto *pp(c._bme.begin()); pp != c._bme.end(); ++pp)
		{
			Message *m(pp->_value._create._do(true));
			keep.push_back(std::unique_ptr<MessageBase>(m));
			walk(m, pp->_key);
		}
		built = true;
	}
};

static Schema& schema(bool second)
{
	static Schema s1, s2;
#if defined C12_BOTH
	if (second) { if (!s2.built) s2.build(FIX8::FIX44::ctx()); return s2; }
#endif
	if (!s1.built) s1.build(FIX8::UTEST::ctx());
	return s1;
}

// ---------------------------------------------------------------------------- static tables
static std::string trait_query(const FieldTraits& fp, unsigned lo, unsigned hi);

static std::string trait_query(Schema& sc, size_t idx, unsigned lo, unsigned hi)
{
	if (idx >= sc.tables.size()) return "BAD-CASE";
	return trait_query(*sc.tables[idx], lo, hi);
}

// a synthetic trait table built with the real classes: FieldTrait array -> FieldTrait_Hash_Array ->
// FieldTraits (hash-array constructor of the presence set), exactly as a generated message class does
static std::string synthetic_trait_query(const std::string& tab, unsigned lo, unsigned hi)
{
	std::vector<FieldTrait> v;
	for (const std::string& e : split(tab, ','))
	{
		if (e.empty()) continue;
		const std::vector<std::string> f(split(e, ':'));
		if (f.size() != 4) return "BAD-CASE";
		v.push_back(FieldTrait(static_cast<unsigned short>(strtoul(f[0].c_str(), 0, 10)), static_cast<unsigned>(FieldTrait::ft_int),
			static_cast<unsigned short>(strtoul(f[1].c_str(), 0, 10)), static_cast<unsigned short>(strtoul(f[2].c_str(), 0, 10)),
			static_cast<unsigned short>(strtoul(f[3].c_str(), 0, 10))));
	}
	if (v.empty()) return "BAD-CASE";
	std::unique_ptr<FieldTrait[]> arr(new FieldTrait[v.size()]);	// exactly sized heap block
	for (size_t j(0); j < v.size(); ++j) memcpy(&arr[j], &v[j], sizeof(FieldTrait));
	const FieldTrait_Hash_Array ftha(arr.get(), v.size());
	const FieldTraits fp(static_cast<const FieldTrait *>(arr.get()), v.size(), &ftha);
	return trait_query(fp, lo, hi);
}

static std::string trait_query(const FieldTraits& fp, unsigned lo, unsigned hi)
{
	std::ostringstream os;
	os << "T=";
	const Presence& pr(fp.get_presence());
	for (Presence::const_iterator it(pr.begin()); it != pr.end(); ++it)
		os << (it == pr.begin() ? "" : ",") << it->_fnum << ':' << it->_pos << ':' << it->_component << ':' << it->_field_traits.get();
	os << " H=";
	unsigned misses(0); bool first(true);
	FieldTraits& nfp(const_cast<FieldTraits&>(fp));	// getval() is not const
	for (unsigned t(lo); t <= hi && t <= 65535; ++t)
	{
		const unsigned short tag(static_cast<unsigned short>(t));
		const bool has(fp.has(tag));
		Presence::const_iterator hint(pr.end());
		const bool has2(fp.has(tag, hint));
		if (has != has2) return "INCONSISTENT has/has(itr)";
		if (!has)
		{
			// every accessor must report "nothing" for an absent field
			if (fp.getPos(tag) || fp.getComp(tag) || nfp.getval(tag) || fp.get(tag, FieldTrait::mandatory)
				|| fp.is_group(tag) || fp.is_component(tag) || fp.is_present(tag))
				return "GHOST-TRAIT";
			++misses;
			continue;
		}
		os << (first ? "" : ",") << t << ':' << (hint - pr.begin()) << ':' << fp.getPos(tag) << ':' << fp.getComp(tag)
			<< ':' << nfp.getval(tag) << ':' << (fp.is_mandatory(tag) ? 1 : 0) << (fp.is_group(tag) ? 1 : 0);
		first = false;
	}
	os << " M=" << misses;
	return os.str();
}

static long be_index(const F8MetaCntx& c, const BaseEntry *be)
{
	if (!be) return -1;
	for (size_t i(0); i < c._be.size(); ++i)
		if (&c._be.at(i)->_value == be) return static_cast<long>(i);
	return -2;	// a pointer that is not an entry of the table
}
static long bme_index(const F8MetaCntx& c, const BaseMsgEntry *be)
{
	if (!be) return -1;
	for (size_t i(0); i < c._bme.size(); ++i)
		if (&c._bme.at(i)->_value == be) return static_cast<long>(i);
	return -2;
}

static std::string field_query(const F8MetaCntx& c, unsigned lo, unsigned hi)
{
	std::ostringstream os;
	os << "K=";
	for (const auto *pp(c._be.begin()); pp != c._be.end(); ++pp)
		os << (pp == c._be.begin() ? "" : ",") << pp->_key;
	os << " H=";
	unsigned misses(0); bool first(true);
	for (unsigned t(lo); t <= hi && t <= 65535; ++t)
	{
		const long i1(be_index(c, c.find_be(static_cast<unsigned short>(t))));
		const FieldTable::Pair *pr(c._be.find_pair_ptr(t));
		const long i2(pr ? pr - c._be.begin() : -1);
		const long i3(be_index(c, c._be.find_ptr(t)));
		if (i1 == -1 && i2 == -1 && i3 == -1) { ++misses; continue; }
		os << (first ? "" : ",") << t << ':' << i1 << ':' << i2 << ':' << i3;
		first = false;
	}
	os << " M=" << misses;
	return os.str();
}

static std::string msg_query(const F8MetaCntx& c, const std::vector<std::string>& w)
{
	std::ostringstream os;
	os << "K=";
	for (const auto *pp(c._bme.begin()); pp != c._bme.end(); ++pp)
		os << (pp == c._bme.begin() ? "" : ",") << tohex(pp->_key);
	os << " R=";
	for (size_t i(1); i < w.size(); ++i)
	{
		const std::string probe(unhex(w[i]));
		const MsgTable::Pair *pr(c._bme.find_pair_ptr(probe.c_str()));
		const long i1(pr ? pr - c._bme.begin() : -1);
		const long i2(bme_index(c, c.find_bme(probe.c_str())));
		os << (i == 1 ? "" : ",") << i1 << ':' << i2;
	}
	return os.str();
}

static std::string reverse_query(const F8MetaCntx& c, bool fields, const std::vector<std::string>& w)
{
	std::ostringstream os;
	os << "K=";
	if (fields)
		for (const auto *pp(c._be.begin()); pp != c._be.end(); ++pp)
			os << (pp == c._be.begin() ? "" : ",") << tohex(pp->_value._name);
	else
		for (const auto *pp(c._bme.begin()); pp != c._bme.end(); ++pp)
			os << (pp == c._bme.begin() ? "" : ",") << tohex(pp->_value._name);
	if (fields)
	{
		os << " N=";		// the _fnum member of every entry (what reverse_find_fnum reports)
		for (const auto *pp(c._be.begin()); pp != c._be.end(); ++pp)
			os << (pp == c._be.begin() ? "" : ",") << pp->_value._fnum;
	}
	os << " R=";
	for (size_t i(1); i < w.size(); ++i)
	{
		const std::string probe(unhex(w[i]));
		if (fields)
		{
			const BaseEntry *be(c.reverse_find_be(probe.c_str()));
			os << (i == 1 ? "" : ",") << be_index(c, be) << ':' << c.reverse_find_fnum(probe.c_str());
		}
		else
			os << (i == 1 ? "" : ",") << bme_index(c, c.reverse_find_bme(probe.c_str()));
	}
	return os.str();
}

// ---------------------------------------------------------------------------- presorted_set
// element of the generic instantiation: key and payload, trivially copyable
struct GElem
{
	int _k, _p;
	GElem() : _k(-1), _p(-1) {}
	GElem(short k) : _k(k), _p(-1) {}
	GElem(int k, int p) : _k(k), _p(p) {}
	struct Less { bool operator()(const GElem& a, const GElem& b) const { return a._k < b._k; } };
};
typedef presorted_set<short, GElem, GElem::Less> GSet;

static FieldTrait mk_ft(unsigned k, unsigned p) { return FieldTrait(static_cast<unsigned short>(k), FieldTrait::ft_int, static_cast<unsigned short>(p)); }
static GElem mk_ge(unsigned k, unsigned p) { return GElem(static_cast<int>(k), static_cast<int>(p)); }
static void show(std::ostream& os, const FieldTrait& e) { os << e._fnum << '.' << e._pos; }
static void show(std::ostream& os, const GElem& e) { os << e._k << '.' << e._p; }

static bool parse_kp(const std::string& s, unsigned& k, unsigned& p)
{
	const size_t d(s.find('.'));
	if (d == std::string::npos) return false;
	k = strtoul(s.substr(0, d).c_str(), 0, 10); p = strtoul(s.substr(d + 1).c_str(), 0, 10);
	return true;
}

template<typename Set, typename Elem, typename Key, typename Mk>
static std::string run_ops(Set& set, bool hash, const std::vector<std::string>& w, size_t from, Mk mk)
{
	std::ostringstream os;
	for (size_t i(from); i < w.size(); ++i)
	{
		const std::string& o(w[i]);
		if (i > from) os << ',';
		switch (o[0])
		{
		case 'f':
			{
				const Set& cs(set);
				typename Set::const_iterator it(cs.find(static_cast<Key>(strtoul(o.c_str() + 1, 0, 10))));
				if (it == cs.end()) os << '-'; else os << (it - cs.begin());
			}
			break;
		case 'a':
			{
				bool answer(false);
				typename Set::iterator it(set.find(static_cast<Key>(strtoul(o.c_str() + 1, 0, 10)), answer));
				// a null iterator from a set that owns a block is the hash-array "no position" answer
				if (!it && set.begin()) os << '-'; else os << (it - set.begin());
				os << ':' << (answer ? 1 : 0);
			}
			break;
		case 't':
			{
				const Set& cs(set);
				typename Set::const_iterator it(cs.at(strtoul(o.c_str() + 1, 0, 10)));
				if (it == cs.end()) os << '-'; else show(os, *it);
			}
			break;
		case 'i':
			{
				unsigned k, p;
				if (!parse_kp(o.substr(1), k, p)) return "BAD-CASE";
				const Elem e(mk(k, p));
				typename Set::result r(set.insert(&e));
				os << (r.second ? 1 : 0) << '@';
				if (r.first == set.end()) os << '-';
				else if (r.first >= set.begin() && r.first < set.end())
					{ os << (r.first - set.begin()) << '='; show(os, *r.first); }	// index and the element it points to
				else os << "STALE";
			}
			break;
		case 'r':
			{
				std::vector<Elem> v;
				for (const std::string& kp : split(o.substr(1), '/'))
				{
					unsigned k, p;
					if (kp.empty()) continue;
					if (!parse_kp(kp, k, p)) return "BAD-CASE";
					v.push_back(mk(k, p));
				}
				// exactly sized heap block for the source range
				std::unique_ptr<Elem[]> src(new Elem[v.size()]);
				for (size_t j(0); j < v.size(); ++j) memcpy(&src[j], &v[j], sizeof(Elem));
				set.insert(src.get(), src.get() + v.size());
				os << 'R';
			}
			break;
		case 'c': set.clear(); os << 'C'; break;
		default: return "BAD-CASE";
		}
		os << '/' << set.size() << '/';
		os << set.rsize();	// initialised by every constructor since b713cdd
	}
	return os.str();
}

template<typename Set, typename Elem, typename Key, typename Mk>
static std::string presorted(const std::vector<std::string>& w, Mk mk, bool allow_hash)
{
	if (w.size() < 2) return "BAD-CASE";
	const std::vector<std::string> c(split(w[1], ':'));
	if (c[0] == "E" && c.size() == 3)
	{
		Set set(strtoul(c[1].c_str(), 0, 10), strtoul(c[2].c_str(), 0, 10));
		return run_ops<Set, Elem, Key>(set, false, w, 2, mk);
	}
	if ((c[0] == "A" && c.size() == 3) || (c[0] == "H" && c.size() == 2))
	{
		std::vector<Elem> v;
		for (const std::string& kp : split(c.back(), ','))
		{
			unsigned k, p;
			if (kp.empty()) continue;
			if (!parse_kp(kp, k, p)) return "BAD-CASE";
			v.push_back(mk(k, p));
		}
		std::unique_ptr<Elem[]> tab(new Elem[v.size()]);
		for (size_t j(0); j < v.size(); ++j) memcpy(&tab[j], &v[j], sizeof(Elem));
		if (c[0] == "A")
		{
			Set set(tab.get(), v.size(), strtoul(c[1].c_str(), 0, 10));
			return run_ops<Set, Elem, Key>(set, false, w, 2, mk);
		}
		return "BAD-CASE";
	}
	return "BAD-CASE";
}

static std::string presorted_hash(const std::vector<std::string>& w)
{
	const std::vector<std::string> c(split(w[1], ':'));
	std::vector<FieldTrait> v;
	for (const std::string& kp : split(c.back(), ','))
	{
		unsigned k, p;
		if (kp.empty()) continue;
		if (!parse_kp(kp, k, p)) return "BAD-CASE";
		v.push_back(mk_ft(k, p));
	}
	// an empty table is allowed: the hash array constructor then reads the element before the block
	std::unique_ptr<FieldTrait[]> tab(new FieldTrait[v.size()]);
	for (size_t j(0); j < v.size(); ++j) memcpy(&tab[j], &v[j], sizeof(FieldTrait));
	const FieldTrait_Hash_Array ftha(tab.get(), v.size());
	Presence set(tab.get(), v.size(), &ftha);
	return run_ops<Presence, FieldTrait, unsigned short>(set, true, w, 2, mk_ft);
}

static std::string do_line(const std::string& line)
{
	std::vector<std::string> w;
	{ std::istringstream is(line); std::string x; while (is >> x) w.push_back(x); }
	if (w.empty()) return "BAD-CASE";
	std::string op(w[0]);
	bool second(false);
	if (op.size() > 1 && op[op.size() - 1] == '4') { second = true; op.erase(op.size() - 1); }
#if !defined C12_BOTH
	if (second) return "BAD-CASE";
#endif
	if (op == "PS")
	{
		if (w.size() >= 2 && w[1][0] == 'H') return presorted_hash(w);
		return presorted<Presence, FieldTrait, unsigned short>(w, mk_ft, true);
	}
	if (op == "PG") return presorted<GSet, GElem, short>(w, mk_ge, false);
	if (op == "TS" && w.size() == 4)
		return synthetic_trait_query(w[1], strtoul(w[2].c_str(), 0, 10), strtoul(w[3].c_str(), 0, 10));
	Schema& sc(schema(second));
	if (op == "T" && w.size() == 4)
		return trait_query(sc, strtoul(w[1].c_str(), 0, 10), strtoul(w[2].c_str(), 0, 10), strtoul(w[3].c_str(), 0, 10));
	if (op == "F" && w.size() == 3)
		return field_query(*sc.ctx, strtoul(w[1].c_str(), 0, 10), strtoul(w[2].c_str(), 0, 10));
	if (op == "M") return msg_query(*sc.ctx, w);
	if (op == "RF") return reverse_query(*sc.ctx, true, w);
	if (op == "RM") return reverse_query(*sc.ctx, false, w);
	return "BAD-CASE";
}

int main(int argc, char **argv)
{
	if (argc > 1 && std::string(argv[1]).compare(0, 6, "--dump") == 0)
	{
		// "<n tables>", then one line per table "<idx> <name> <size> <maxfnum>", then msgtypes, field and message names
		Schema& sc(schema(std::string(argv[1]) == "--dump4"));
		for (size_t i(0); i < sc.tables.size(); ++i)
		{
			const Presence& pr(sc.tables[i]->get_presence());
			std::cout << "T " << i << ' ' << sc.table_names[i] << ' ' << pr.size() << ' ' << (pr.size() ? (pr.end() - 1)->_fnum : 0) << std::endl;
		}
		const F8MetaCntx& c(*sc.ctx);
		for (const auto *pp(c._bme.begin()); pp != c._bme.end(); ++pp)
			std::cout << "M " << tohex(pp->_key) << ' ' << tohex(pp->_value._name) << std::endl;
		for (const auto *pp(c._be.begin()); pp != c._be.end(); ++pp)
			std::cout << "F " << pp->_key << ' ' << tohex(pp->_value._name) << std::endl;
		return 0;
	}
	std::string line;
	while (std::getline(std::cin, line))
	{
		std::string r;
		try { r = do_line(line); }
		catch (const f8Exception& e) { r = std::string("EXC f8Exception ") + e.what(); }
		catch (const std::exception& e) { r = std::string("EXC ") + e.what(); }
		std::cout << r << std::endl;
	}
	return 0;
}
