// C08 harness: the real itoa<int>/itoa<unsigned>/fast_atoi<T> templates, modp_dtoa and fast_atof,
// and the same conversions through Field<int,N> / Field<fp_type,N> (print + string ctor).
//   itoa <v>                       -> "<text> <parsed>"
//   utoa <v>                       -> "<text> <parsed>"
//   atoi <i|u|s> <term> <hex text> -> "<value>"
//   dtoa <p> <hex16 bits>          -> "<text> <hex16 bits of fast_atof(text)>"
//   atof <hex text>                -> "<hex16 bits>"
// Texts: printable characters as they are, everything else \xHH; doubles: 16 hex digits of the
// bit pattern ("nan" for any NaN).  If the Field<> route gives another answer than the direct
// call, " FIELD:<text>/<value>" is appended.
#include "hcommon.hpp"
#include <fix8/f8includes.hpp>
#include <cstdint>
#include <cinttypes>
#include <cmath>
#include <limits>

using namespace FIX8;

static std::string show_text(const char *s, size_t n)
{
	if (!n) return "<>";
	std::string r;
	char b[8];
	for (size_t i = 0; i < n; ++i)
	{
		const unsigned char c(s[i]);
		if (c >= 0x21 && c <= 0x7e && c != '\\') r.push_back(static_cast<char>(c));
		else { snprintf(b, sizeof b, "\\x%02x", c); r += b; }
	}
	return r;
}
static std::string show_f64(double d)
{
	if (d != d) return "nan";
	uint64_t u; memcpy(&u, &d, 8);
	char b[32]; snprintf(b, sizeof b, "%016" PRIx64, u);
	return b;
}
static double read_f64(const std::string& s)
{
	const uint64_t u(strtoull(s.c_str(), nullptr, 16));
	double d; memcpy(&d, &u, 8);
	return s == "nan" ? std::numeric_limits<double>::quiet_NaN() : d;
}

int main()
{
	std::string line;
	while (std::getline(std::cin, line))
	{
		try
		{
			std::istringstream is(line);
			std::string kind;
			is >> kind;
			std::ostringstream os;
			if (kind == "itoa")
			{
				long long v; is >> v;
				// exactly sized heap buffer: 11 characters + NUL for "-2147483648"
				char *buf(static_cast<char *>(malloc(12)));
				const size_t n(itoa<int>(static_cast<int>(v), buf, 10));
				const int back(fast_atoi<int>(buf));
				os << show_text(buf, n) << ' ' << back;
				Field<int, 38> f(static_cast<int>(v));
				char *fb(static_cast<char *>(malloc(12)));
				const size_t fn(f.print(fb));
				Field<int, 38> g(fb);
				const std::string gs(fb, fn);
				Field<int, 38> h(gs);
				if (fn != n || memcmp(fb, buf, n) || g.get() != back || h.get() != back)
					os << " FIELD:" << show_text(fb, fn) << '/' << g.get() << '/' << h.get();
				free(buf); free(fb);
			}
			else if (kind == "utoa")
			{
				unsigned long long v; is >> v;
				char *buf(static_cast<char *>(malloc(11)));	// "4294967295" + NUL
				const size_t n(itoa<unsigned int>(static_cast<unsigned>(v), buf, 10));
				const unsigned back(fast_atoi<unsigned>(buf));
				os << show_text(buf, n) << ' ' << back;
				free(buf);
			}
			else if (kind == "atoi")
			{
				std::string ty, hx; int term; is >> ty >> term >> hx;
				const std::string txt(unhex(hx));
				char *buf(static_cast<char *>(malloc(txt.size() + 1)));
				memcpy(buf, txt.data(), txt.size()); buf[txt.size()] = 0;
				if (ty == "i") os << fast_atoi<int>(buf, static_cast<char>(term));
				else if (ty == "u") os << fast_atoi<unsigned>(buf, static_cast<char>(term));
				else os << fast_atoi<unsigned short>(buf, static_cast<char>(term));
				if (ty == "i" && term == 0)
				{
					Field<int, 38> g(buf);
					if (g.get() != fast_atoi<int>(buf)) os << " FIELD:" << g.get();
				}
				free(buf);
			}
			else if (kind == "dtoa")
			{
				int p; std::string bits; is >> p >> bits;
				const double v(read_f64(bits));
				char buf[512];	// "%e" output and 10+1+9+1 digits fit easily
				const size_t n(modp_dtoa(v, buf, p));
				const double back(fast_atof(buf));
				os << show_text(buf, n) << ' ' << show_f64(back);
				Field<fp_type, 44> f(v, p);
				char fb[512];
				const size_t fn(f.print(fb));
				Field<fp_type, 44> g(fb);
				if (fn != n || memcmp(fb, buf, n) || show_f64(g.get()) != show_f64(back))
					os << " FIELD:" << show_text(fb, fn) << '/' << show_f64(g.get());
			}
			else if (kind == "atof")
			{
				std::string hx; is >> hx;
				const std::string txt(unhex(hx));
				char *buf(static_cast<char *>(malloc(txt.size() + 1)));
				memcpy(buf, txt.data(), txt.size()); buf[txt.size()] = 0;
				const double d(fast_atof(buf));
				os << show_f64(d);
				Field<fp_type, 44> g(buf);
				if (show_f64(g.get()) != show_f64(d)) os << " FIELD:" << show_f64(g.get());
				free(buf);
			}
			else
				os << "BAD-CASE";
			std::cout << os.str() << std::endl;
		}
		catch (std::exception& e)
		{
			std::cout << "EXC " << typeid(e).name() << std::endl;
		}
	}
	return 0;
}
