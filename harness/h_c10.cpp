// C10 harness: realm lookups of the real RealmBase (include/fix8/field.hpp) on the realms of the
// freshly generated UTEST schema (reached through F8MetaCntx::find_be -> BaseEntry::_rlm), the
// printer path (create_field, virtual get_rlm_idx, MessageBase::print_field / print), and
// synthetic realms constructed from the case.  See ocaml/c10_driver.ml for the line formats.
#include "hcommon.hpp"
#include <fix8/f8includes.hpp>
#include <memory>
#include <cstdint>
#include "utest_types.hpp"
#include "utest_router.hpp"
#include "utest_classes.hpp"
#if defined C10_BOTH	// thorough tier: the FIX44 schema as well (ops "D4" / "P4")
#include "fix44_types.hpp"
#include "fix44_router.hpp"
#include "fix44_classes.hpp"
#endif
using namespace FIX8;

static const F8MetaCntx *pick_ctx(bool second)
{
#if defined C10_BOTH
	if (second) return &FIX8::FIX44::ctx();
#else
	if (second) return nullptr;
#endif
	return &FIX8::UTEST::ctx();
}

// order-preserving integer key of a double (sign-magnitude of the IEEE bit pattern)
static int64_t key_of_double(double d)
{
	uint64_t b; memcpy(&b, &d, 8);
	return (b >> 63) ? -static_cast<int64_t>(b & 0x7fffffffffffffffULL) : static_cast<int64_t>(b);
}
static double double_of_key(int64_t k)
{
	uint64_t b(k < 0 ? (0x8000000000000000ULL | static_cast<uint64_t>(-k)) : static_cast<uint64_t>(k));
	double d; memcpy(&d, &b, 8); return d;
}

// Field<T, N>::is_valid() is not virtual: reach it through the exact class of the object the
// metadata created (dynamic_cast, no layout assumptions).  One instantiation per tag 0..FV_MAX-1.
// result: 1 / 0, or -1 when the object's class has no is_valid() (Field<Boolean, N>, time types, ...)
static const unsigned FV_MAX = 1024;
struct FieldProbe { int valid, idx; char cls; };
template<unsigned short N>
static FieldProbe field_probe(const BaseField *bf)
{
	FieldProbe r = { -1, -2, '?' };
	if (const Field<f8String, N> *p = dynamic_cast<const Field<f8String, N> *>(bf)) { r.valid = p->is_valid(); r.idx = p->get_rlm_idx(); r.cls = 's'; }
	else if (const Field<int, N> *p = dynamic_cast<const Field<int, N> *>(bf)) { r.valid = p->is_valid(); r.idx = p->get_rlm_idx(); r.cls = 'i'; }
	else if (const Field<char, N> *p = dynamic_cast<const Field<char, N> *>(bf)) { r.valid = p->is_valid(); r.idx = p->get_rlm_idx(); r.cls = 'c'; }
	else if (const Field<fp_type, N> *p = dynamic_cast<const Field<fp_type, N> *>(bf)) { r.valid = p->is_valid(); r.idx = p->get_rlm_idx(); r.cls = 'd'; }
	else if (const Field<Boolean, N> *p = dynamic_cast<const Field<Boolean, N> *>(bf)) { r.idx = p->get_rlm_idx(); r.cls = 'b'; }
	return r;
}
typedef FieldProbe (*field_probe_fn)(const BaseField *);
// a string field of tag N built through the typed API from a length-carrying std::string (a NUL byte in
// the value survives, unlike the const char * route of create_field); 0 unless the metadata creates
// exactly this class for the tag
template<unsigned short N>
static BaseField *make_string_field(const BaseField *like, const f8String& v, const RealmBase *rlm)
{
	if (typeid(*like) != typeid(Field<f8String, N>)) return nullptr;
	Field<f8String, N> *f(new Field<f8String, N>(f8String(), rlm));
	f->set(v);		// the typed setter
	Field<f8String, N> *g(new Field<f8String, N>(v, rlm));	// and the value constructor: both must hold the same bytes
	const bool same(f->get() == g->get() && g->get().size() == v.size());
	delete f;
	if (!same) { delete g; return nullptr; }
	return g;
}
typedef BaseField *(*make_string_fn)(const BaseField *, const f8String&, const RealmBase *);
static make_string_fn g_make_string[FV_MAX];
template<unsigned B, unsigned L> struct FillProbe
	{ static void fill(field_probe_fn *t) { FillProbe<B, L / 2>::fill(t); FillProbe<B + L / 2, L - L / 2>::fill(t); } };
template<unsigned B> struct FillProbe<B, 1>
	{ static void fill(field_probe_fn *t)
		{ t[B] = field_probe<static_cast<unsigned short>(B)>; g_make_string[B] = make_string_field<static_cast<unsigned short>(B)>; } };
static const field_probe_fn *probe_table()
{
	static field_probe_fn tab[FV_MAX];
	static bool done(false);
	if (!done) { FillProbe<0, FV_MAX>::fill(tab); done = true; }
	return tab;
}

static char type_letter(FieldTrait::FieldType ft)
{
	if (ft == FieldTrait::ft_Boolean) return 'b';
	return FieldTrait::is_int(ft) ? 'i' : FieldTrait::is_char(ft) ? 'c' : FieldTrait::is_float(ft) ? 'd'
		: FieldTrait::is_string(ft) ? 's' : '?';
}

static std::string dump(const BaseEntry *be)
{
	const RealmBase *r(be->_rlm);
	std::ostringstream os;
	const char ty(type_letter(r->_ftype));
	os << "K=" << (r->_dtype == RealmBase::dt_set ? 's' : 'r') << " T=" << ty << " N=" << be->_name << " M=";
	for (int i(0); i < r->_sz; ++i)
	{
		if (i) os << ',';
		switch (ty)
		{
		case 'i': os << r->get_rlm_val<int>(i); break;
		case 'c': case 'b': os << static_cast<int>(static_cast<signed char>(r->get_rlm_val<char>(i))); break;
		case 'd': os << key_of_double(r->get_rlm_val<fp_type>(i)); break;
		case 's': os << tohex(r->get_rlm_val<f8String>(i)); break;
		default: os << '?';
		}
	}
	os << " D=";
	for (int i(0); i < r->_sz; ++i)
		os << (i ? "," : "") << tohex(r->_descriptions[i]);
	return os.str();
}

static bool g_with_field(false);	// S lines: also through a typed field object holding the value

template<typename T>
static void direct(std::ostream& os, const RealmBase& r, const T& v, bool first)
{
	os << (first ? "" : ",") << r.get_rlm_idx<T>(v) << ':' << (r.is_valid<T>(v) ? 1 : 0);
	if (g_with_field)
	{
		// the field object's own wrappers (value constructor of the specialisation for T)
		const Field<T, 7777> fld(v, &r);
		const BaseField& bf(fld);
		os << ':' << bf.get_rlm_idx() << ':' << (fld.is_valid() ? 1 : 0);
		const Field<T, 7778> bare(v);		// no realm: always valid, no index
		os << ':' << static_cast<const BaseField&>(bare).get_rlm_idx() << ':' << (bare.is_valid() ? 1 : 0);
	}
}

static void direct_all(std::ostream& os, const RealmBase& r, char ty, const std::vector<std::string>& w, size_t from)
{
	for (size_t i(from); i < w.size(); ++i)
	{
		const bool first(i == from);
		switch (ty)
		{
		case 'i': direct<int>(os, r, static_cast<int>(strtoll(w[i].c_str(), 0, 10)), first); break;
		case 'c': case 'b': direct<char>(os, r, static_cast<char>(strtol(w[i].c_str(), 0, 10)), first); break;
		case 'd': direct<fp_type>(os, r, double_of_key(strtoll(w[i].c_str(), 0, 10)), first); break;
		case 's': direct<f8String>(os, r, unhex(w[i]), first); break;
		}
	}
}

// text after "(<fnum>): " in a printer output
static std::string tail_after(const std::string& s, unsigned fnum, bool drop_newline)
{
	std::ostringstream k; k << '(' << fnum << "): ";
	const size_t p(s.find(k.str()));
	if (p == std::string::npos) return "?" + s;
	std::string t(s.substr(p + k.str().size()));
	if (drop_newline && !t.empty() && t[t.size() - 1] == '\n') t.erase(t.size() - 1);
	return t;
}

static std::string do_line(const std::string& line)
{
	std::vector<std::string> w;
	{ std::istringstream is(line); std::string x; while (is >> x) w.push_back(x); }
	if (w.empty()) return "BAD-CASE";
	std::ostringstream os;
	if (w[0] == "D" || w[0] == "P" || w[0] == "D4" || w[0] == "P4")
	{
		const F8MetaCntx *pctx(pick_ctx(w[0].size() == 2));
		if (!pctx || w.size() < 2) return "BAD-CASE";
		const F8MetaCntx& ctx(*pctx);
		const unsigned fnum(strtoul(w[1].c_str(), 0, 10));
		const BaseEntry *be(ctx.find_be(fnum));
		if (!be) return "NOFIELD";
		if (w[0][0] == 'D')
		{
			if (!be->_rlm) return "NOREALM";
			os << dump(be) << " R=";
			direct_all(os, *be->_rlm, type_letter(be->_rlm->_ftype), w, 2);
			return os.str();
		}
		if (fnum >= FV_MAX) return "BAD-CASE";
		char ty('?');
		if (be->_rlm)
		{
			ty = type_letter(be->_rlm->_ftype);
			os << dump(be) << " R=";
		}
		else
		{
			// a field without a realm: the class of the object decides how the value is given
			std::unique_ptr<BaseField> probe(ctx.create_field(static_cast<unsigned short>(fnum), "1"));
			ty = probe_table()[fnum](probe.get()).cls;
			if (ty != 's' && ty != 'i' && ty != 'c') return "NOREALM";
			os << "K=n T=" << ty << " N=" << be->_name << " M= D= R=";
		}
		for (size_t i(2); i < w.size(); ++i)
		{
			std::string from;
			switch (ty)
			{
			case 'c': case 'b': { const char c(static_cast<char>(strtol(w[i].c_str(), 0, 10))); if (c) from.assign(1, c); } break;
			case 'i': from = w[i]; break;
			case 's': from = unhex(w[i]); break;
			default: return "BAD-CASE";
			}
			std::unique_ptr<Message> msg(ctx.create_msg("0"));
			BaseField *fld(ctx.create_field(static_cast<unsigned short>(fnum), from.c_str()));
			if (ty == 's' && from.find('\0') != std::string::npos)
			{
				// the const char * route cut the value at its first NUL: rebuild the field through the typed API
				probe_table();
				BaseField *typed(g_make_string[fnum](fld, from, be->_rlm));
				delete fld;
				if (!typed) return "NO-TYPED-STRING-FIELD";
				fld = typed;
			}
			const int idx(fld->get_rlm_idx());				// virtual, through BaseField
			const FieldProbe fp(probe_table()[fnum](fld));	// the object's own is_valid() / get_rlm_idx()
			if (fp.idx != idx) { delete fld; return "INCONSISTENT get_rlm_idx"; }
			msg->add_field_decoder(fnum, 1, fld);	// owned by the message from here on
			std::ostringstream p1, p2;
			msg->print_field(fnum, p1);
			msg->MessageBase::print(p2, 0);
			os << (i == 2 ? "" : ",") << idx << ':';
			if (fp.valid < 0) os << '-'; else os << fp.valid;
			os << ':' << tohex(tail_after(p1.str(), fnum, false))
				<< ':' << tohex(tail_after(p2.str(), fnum, true));
		}
		return os.str();
	}
	if (w[0] == "S" && w.size() >= 4)
	{
		struct WF { WF() { g_with_field = true; } ~WF() { g_with_field = false; } } wf;
		const RealmBase::RealmType kd(w[1] == "r" ? RealmBase::dt_range : RealmBase::dt_set);
		const char ty(w[2][0]);
		const size_t n(strtoul(w[3].c_str(), 0, 10));
		if (w.size() < 4 + n) return "BAD-CASE";
		os << "R=";
		// exactly sized heap arrays: ASan traps any read outside the realm
		switch (ty)
		{
		case 'i':
			{
				std::unique_ptr<int[]> a(new int[n]);
				for (size_t i(0); i < n; ++i) a[i] = static_cast<int>(strtoll(w[4 + i].c_str(), 0, 10));
				RealmBase r(a.get(), kd, FieldTrait::ft_int, static_cast<int>(n), nullptr);
				direct_all(os, r, ty, w, 4 + n);
			}
			break;
		case 'c':
			{
				std::unique_ptr<char[]> a(new char[n]);
				for (size_t i(0); i < n; ++i) a[i] = static_cast<char>(strtol(w[4 + i].c_str(), 0, 10));
				RealmBase r(a.get(), kd, FieldTrait::ft_char, static_cast<int>(n), nullptr);
				direct_all(os, r, ty, w, 4 + n);
			}
			break;
		case 'd':
			{
				std::unique_ptr<fp_type[]> a(new fp_type[n]);
				for (size_t i(0); i < n; ++i) a[i] = double_of_key(strtoll(w[4 + i].c_str(), 0, 10));
				RealmBase r(a.get(), kd, FieldTrait::ft_float, static_cast<int>(n), nullptr);
				direct_all(os, r, ty, w, 4 + n);
			}
			break;
		case 's':
			{
				std::unique_ptr<f8String[]> a(new f8String[n]);
				for (size_t i(0); i < n; ++i) a[i] = unhex(w[4 + i]);
				RealmBase r(a.get(), kd, FieldTrait::ft_string, static_cast<int>(n), nullptr);
				direct_all(os, r, ty, w, 4 + n);
			}
			break;
		default: return "BAD-CASE";
		}
		return os.str();
	}
	return "BAD-CASE";
}

int main(int argc, char **argv)
{
	if (argc > 1 && std::string(argv[1]).compare(0, 6, "--dump") == 0)
	{
		// every field of the compiled schema that has a realm: "<fnum> <dump>"
		const F8MetaCntx *pctx(pick_ctx(std::string(argv[1]) == "--dump4"));
		if (!pctx) return 2;
		const F8MetaCntx& ctx(*pctx);
		for (const auto *pp(ctx._be.begin()); pp != ctx._be.end(); ++pp)
			if (pp->_value._rlm)
				std::cout << pp->_key << ' ' << dump(&pp->_value) << std::endl;
		return 0;
	}
	std::string line;
	while (std::getline(std::cin, line))
	{
		std::string r;
		try { r = do_line(line); }
		catch (const f8Exception& e) { r = std::string("EXC f8Exception ") + e.what(); }
		catch (const std::exception& e) { r = std::string("EXC ") + e.what(); }
		std::cout << r << std::endl;
	}
	return 0;
}
