// C07 harness: the real Message::calc_chksum on an exactly-sized heap block (ASan traps any
// read outside it).  case: "<hex mem> <sz> <offset> <len>"  ->  "<value>"
#include "hcommon.hpp"
#include <fix8/f8includes.hpp>
#include <fix8/message.hpp>

int main()
{
	std::string line;
	while (std::getline(std::cin, line))
	{
		std::istringstream is(line);
		std::string hx; unsigned long sz; unsigned offset; int len;
		is >> hx >> sz >> offset >> len;
		const std::string bytes(unhex(hx));
		// exact heap block: no terminating NUL, no slack
		char *blk(static_cast<char *>(malloc(bytes.size() ? bytes.size() : 1)));
		memcpy(blk, bytes.data(), bytes.size());
		const unsigned r(FIX8::Message::calc_chksum(blk, sz, offset, len));
		free(blk);
		std::cout << r << std::endl;
	}
	return 0;
}
