// See vclock.hpp.  The definitions below live in the executable, which precedes every shared
// object (libstdc++, libPoco*, libasan) in the dynamic symbol search order, so calls made from
// those libraries bind here as well.
#include "vclock.hpp"
#include <atomic>
#include <ctime>
#include <sys/time.h>
#include <sys/syscall.h>
#include <unistd.h>
#include <sched.h>

static std::atomic<int64_t> g_vclock_ns(VCLOCK_T0);

extern "C" {

void vclock_set(int64_t ns) { g_vclock_ns.store(ns, std::memory_order_seq_cst); }
int64_t vclock_get() { return g_vclock_ns.load(std::memory_order_seq_cst); }

void vclock_real_sleep_us(unsigned us)
{
	struct timespec ts;
	ts.tv_sec = us / 1000000u;
	ts.tv_nsec = static_cast<long>(us % 1000000u) * 1000L;
	syscall(SYS_nanosleep, &ts, static_cast<struct timespec *>(nullptr));
}

int64_t vclock_real_ns()
{
	struct timespec ts;
	syscall(SYS_clock_gettime, CLOCK_MONOTONIC, &ts);
	return static_cast<int64_t>(ts.tv_sec) * 1000000000LL + ts.tv_nsec;
}

int64_t vclock_real_wall_ns()
{
	struct timespec ts;
	syscall(SYS_clock_gettime, CLOCK_REALTIME, &ts);
	return static_cast<int64_t>(ts.tv_sec) * 1000000000LL + ts.tv_nsec;
}

int clock_gettime(clockid_t, struct timespec *ts) noexcept
{
	const int64_t v(vclock_get());
	if (ts)
	{
		ts->tv_sec = static_cast<time_t>(v / 1000000000LL);
		ts->tv_nsec = static_cast<long>(v % 1000000000LL);
	}
	return 0;
}

int gettimeofday(struct timeval *tv, void *) noexcept
{
	const int64_t v(vclock_get());
	if (tv)
	{
		tv->tv_sec = static_cast<time_t>(v / 1000000000LL);
		tv->tv_usec = static_cast<suseconds_t>((v % 1000000000LL) / 1000);
	}
	return 0;
}

time_t time(time_t *t) noexcept
{
	const time_t v(static_cast<time_t>(vclock_get() / 1000000000LL));
	if (t)
		*t = v;
	return v;
}

// Sleeps: the requested duration is measured on the virtual clock (hypersleep computes an
// absolute CLOCK_MONOTONIC deadline from the interposed clock_gettime); the thread sleeps that
// long in REAL time but at most 200 us, so that pollers (Logger 200 us, Timer 10 ms) neither spin
// nor slow the harness down, and Session::stop() (250 ms) / ~Session() (1 s) cost 0.2 ms.
static void capped_real_sleep(int64_t want_ns)
{
	if (want_ns <= 0)
	{
		sched_yield();
		return;
	}
	const int64_t cap(200000);
	vclock_real_sleep_us(static_cast<unsigned>((want_ns < cap ? want_ns : cap) / 1000 + 1));
}

int clock_nanosleep(clockid_t, int flags, const struct timespec *req, struct timespec *)
{
	int64_t want(0);
	if (req)
	{
		want = static_cast<int64_t>(req->tv_sec) * 1000000000LL + req->tv_nsec;
		if (flags & TIMER_ABSTIME)
			want -= vclock_get();
	}
	capped_real_sleep(want);
	return 0;
}

int nanosleep(const struct timespec *req, struct timespec *)
{
	capped_real_sleep(req ? static_cast<int64_t>(req->tv_sec) * 1000000000LL + req->tv_nsec : 0);
	return 0;
}

} // extern "C"
