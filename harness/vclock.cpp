// See vclock.hpp.  The definitions below live in the executable, which precedes every shared
// object (libstdc++, libPoco*, libasan) in the dynamic symbol search order, so calls made from
// those libraries bind here as well.
#include "vclock.hpp"
#include <atomic>
#include <ctime>
#include <sys/time.h>
#include <sys/syscall.h>
#include <unistd.h>

static std::atomic<int64_t> g_vclock_ns(VCLOCK_T0);

extern "C" {

void vclock_set(int64_t ns) { g_vclock_ns.store(ns, std::memory_order_seq_cst); }
int64_t vclock_get() { return g_vclock_ns.load(std::memory_order_seq_cst); }

void vclock_real_sleep_us(unsigned us)
{
	struct timespec ts;
	ts.tv_sec = us / 1000000u;
	ts.tv_nsec = static_cast<long>(us % 1000000u) * 1000L;
	syscall(SYS_nanosleep, &ts, static_cast<struct timespec *>(nullptr));
}

int64_t vclock_real_ns()
{
	struct timespec ts;
	syscall(SYS_clock_gettime, CLOCK_MONOTONIC, &ts);
	return static_cast<int64_t>(ts.tv_sec) * 1000000000LL + ts.tv_nsec;
}

int clock_gettime(clockid_t, struct timespec *ts) noexcept
{
	const int64_t v(vclock_get());
	if (ts)
	{
		ts->tv_sec = static_cast<time_t>(v / 1000000000LL);
		ts->tv_nsec = static_cast<long>(v % 1000000000LL);
	}
	return 0;
}

int gettimeofday(struct timeval *tv, void *) noexcept
{
	const int64_t v(vclock_get());
	if (tv)
	{
		tv->tv_sec = static_cast<time_t>(v / 1000000000LL);
		tv->tv_usec = static_cast<suseconds_t>((v % 1000000000LL) / 1000);
	}
	return 0;
}

time_t time(time_t *t) noexcept
{
	const time_t v(static_cast<time_t>(vclock_get() / 1000000000LL));
	if (t)
		*t = v;
	return v;
}

int clock_nanosleep(clockid_t, int, const struct timespec *, struct timespec *)
{
	vclock_real_sleep_us(100);
	return 0;
}

int nanosleep(const struct timespec *, struct timespec *)
{
	vclock_real_sleep_us(100);
	return 0;
}

} // extern "C"
