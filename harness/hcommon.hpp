// Shared helpers for the /verif harnesses (line protocol, hex).
#pragma once
#include <iostream>
#include <sstream>
#include <string>
#include <vector>
#include <cstring>
#include <cstdlib>
#include <cstdio>

static inline int hexv(char c) { return c <= '9' ? c - '0' : (c | 0x20) - 'a' + 10; }
static inline std::string unhex(const std::string& h)
{
	std::string r;
	if (h == "-") return r;
	r.reserve(h.size() / 2);
	for (size_t i = 0; i + 1 < h.size(); i += 2)
		r.push_back(static_cast<char>(hexv(h[i]) * 16 + hexv(h[i + 1])));
	return r;
}
static inline std::string tohex(const std::string& s)
{
	static const char *d = "0123456789abcdef";
	if (s.empty()) return "-";
	std::string r;
	r.reserve(s.size() * 2);
	for (unsigned char c : s) { r.push_back(d[c >> 4]); r.push_back(d[c & 15]); }
	return r;
}
static inline std::vector<std::string> split(const std::string& s, char sep)
{
	std::vector<std::string> out;
	std::string cur;
	for (char c : s) { if (c == sep) { out.push_back(cur); cur.clear(); } else cur.push_back(c); }
	out.push_back(cur);
	return out;
}

// A private path for fix8's GlobalLogger / FileLogger.  NEVER give fix8 a device or shared path
// (FileLogger rotates = renames its file on construction: as root "/dev/null" gets renamed away),
// and never rely on the default name (created and rotated in the cwd).
#include <sys/stat.h>
#include <unistd.h>
static inline std::string verif_logfile(const char *stem = "glog")
{
	const char *d(getenv("VERIF_RUN_DIR"));
	std::string dir(d && *d ? d : "/tmp/verif-run");
	mkdir(dir.c_str(), 0777);
	std::ostringstream os;
	os << dir << '/' << stem << '-' << getpid() << ".log";
	return os.str();
}
