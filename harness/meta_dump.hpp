// Dump of the compiled schema metadata, taken from the REAL generated code (F8MetaCntx, the
// message table's constructors, each object's FieldTraits copy, create_nested_group /
// create_group of the generated group classes).  Text format (one record per line, fields
// separated by one space; documented in coq/Codec/READY.md):
//   V <version> <beginStr hex> <preamble_sz>
//   F <fnum> <ftype> <name>
//   M <msgtype> <name> <admin 0|1>
//   T <owner> <fnum> <ftype> <pos> <comp> <flags decimal>
//   G <owner> <fnum> -> <owner>/<fnum> <deep 0|1>
//   I <owner> <pos> <fnum> <value hex>          (fields present right after construction)
// owner = header | trailer | <msgtype> | <owner>/<group fnum>
#pragma once
#include "hcommon.hpp"
#include <fix8/f8includes.hpp>
#include <map>
#include <set>
#include <functional>
#include <memory>

namespace codec_meta {

inline std::string printed(const FIX8::BaseField *bf)
{
	std::vector<char> buf(FIX8_MAX_FLD_LENGTH * 4 + 64);
	const size_t n(bf->print(buf.data()));
	return std::string(buf.data(), n);
}

struct Dumper
{
	const FIX8::F8MetaCntx& ctx;
	std::ostream& os;
	std::map<unsigned, unsigned> ftypes;	// fnum -> ftype as seen in trait tables
	std::ostringstream body;

	Dumper(const FIX8::F8MetaCntx& c, std::ostream& o) : ctx(c), os(o) {}

	void owner(const std::string& name, FIX8::MessageBase *mb, std::function<FIX8::GroupBase *(unsigned short)> nested)
	{
		const FIX8::Presence& pr(mb->get_fp().get_presence());
		for (FIX8::Presence::const_iterator itr(pr.begin()); itr != pr.end(); ++itr)
		{
			body << "T " << name << ' ' << itr->_fnum << ' ' << static_cast<unsigned>(itr->_ftype) << ' ' << itr->_pos
				<< ' ' << itr->_component << ' ' << itr->_field_traits.get() << '\n';
			ftypes.insert({itr->_fnum, static_cast<unsigned>(itr->_ftype)});
		}
		for (const auto& pp : mb->get_positions())
			body << "I " << name << ' ' << pp.first << ' ' << pp.second->get_tag() << ' ' << tohex(printed(pp.second)) << '\n';
		for (FIX8::Presence::const_iterator itr(pr.begin()); itr != pr.end(); ++itr)
		{
			if (!itr->_field_traits.has(FIX8::FieldTrait::group))
				continue;
			std::unique_ptr<FIX8::GroupBase> gb(nested(itr->_fnum));
			if (!gb)
			{
				body << "# nogroup " << name << ' ' << itr->_fnum << '\n';
				continue;
			}
			const bool deep(mb->get_groups().find(itr->_fnum) != mb->get_groups().end());
			std::ostringstream sub;
			sub << name << '/' << itr->_fnum;
			body << "G " << name << ' ' << itr->_fnum << " -> " << sub.str() << ' ' << (deep ? 1 : 0) << '\n';
			std::unique_ptr<FIX8::MessageBase> el(gb->create_group(true));
			FIX8::GroupBase *gbp(gb.get());
			owner(sub.str(), el.get(), [gbp](unsigned short f) { return gbp->create_nested_group(f); });
		}
	}

	void run()
	{
		os << "V " << ctx.version() << ' ' << tohex(ctx._beginStr) << ' ' << ctx._preamble_sz << '\n';
		for (auto itr(ctx._bme.begin()); itr != ctx._bme.end(); ++itr)
		{
			const std::string key(itr->_key);
			if (key == "header" || key == "trailer")
				continue;
			std::unique_ptr<FIX8::Message> msg(itr->_value._create._do(true));
			body << "M " << key << ' ' << itr->_value._name << ' ' << (msg->is_admin() ? 1 : 0) << '\n';
			FIX8::Message *mp(msg.get());
			owner(key, mp, [mp](unsigned short f) { return mp->create_nested_group(f); });
		}
		{
			std::unique_ptr<FIX8::MessageBase> hdr(reinterpret_cast<FIX8::MessageBase *>(ctx._mk_hdr(true)));
			FIX8::MessageBase *hp(hdr.get());
			owner("header", hp, [hp](unsigned short f) { return hp->create_nested_group(f); });
			std::unique_ptr<FIX8::MessageBase> trl(reinterpret_cast<FIX8::MessageBase *>(ctx._mk_trl(true)));
			FIX8::MessageBase *tp(trl.get());
			owner("trailer", tp, [tp](unsigned short f) { return tp->create_nested_group(f); });
		}
		for (auto itr(ctx._be.begin()); itr != ctx._be.end(); ++itr)
		{
			// the C++ class of the field object (Field<T>) decides how a value is parsed/printed and what
			// has_group_count reads; the trait tables carry their own ftype (f8c hard-codes ft_int for
			// group count traits).  Report the trait type unless the object's class contradicts it
			// (FIX44 field 604 NoLegSecurityAltID: STRING in the schema, ft_int in the trait).
			std::unique_ptr<FIX8::BaseField> bf(itr->_value._create._do("", itr->_value._rlm, -1));
			const unsigned ut(static_cast<unsigned>(bf->get_underlying_type()));
			unsigned ft(ut == FIX8::FieldTrait::ft_data ? static_cast<unsigned>(FIX8::FieldTrait::ft_string) : ut);
			auto fi(ftypes.find(itr->_key));
			if (fi != ftypes.end())
			{
				const FIX8::FieldTrait::FieldType tt(static_cast<FIX8::FieldTrait::FieldType>(fi->second));
				const unsigned tu(static_cast<unsigned>(FIX8::FieldTrait::underlying_type(tt)));
				const bool agree(tu == ut || (tu == FIX8::FieldTrait::ft_string && (ut == FIX8::FieldTrait::ft_data || ut == FIX8::FieldTrait::ft_string)));
				if (agree)
					ft = fi->second;
				else
					body << "# classmismatch " << itr->_key << " trait " << fi->second << " class " << ut << '\n';
			}
			os << "F " << itr->_key << ' ' << ft << ' ' << itr->_value._name << '\n';
		}
		os << body.str();
		os << "END" << std::endl;
	}
};

inline void dump(const FIX8::F8MetaCntx& ctx, std::ostream& os) { Dumper(ctx, os).run(); }

} // namespace codec_meta
