// C24 harness: the real FIX8::Schedule::test under a virtual clock, the real FIX8::decode_dow and
// the real Configuration::create_schedule on generated XML.
//
// Schedule::test reads the time itself (Tickval(true) -> std::chrono::system_clock::now() ->
// clock_gettime(CLOCK_REALTIME)); this executable defines clock_gettime, so the instant is whatever
// the case line says.  Case lines:
//   D <hex>,<hex>,...                                 -> "<dow>,<dow>,..."          (decode_dow)
//   S <start> <end|E> <utc_min> <sd> <ed> <prev0> <t0> <n> <gap>,<gap>,...
//        Schedule(start,end,0,utc_min,sd,ed); n polls, first at t0, then t += gaps[i mod len];
//        the result of each poll is fed back as `prev` (as Session::activation_service does)
//                                                      -> run-length encoded bits "0*120 1*30 ..."
//   X <start_time> <end_time> <utc_offset_mins> <duration> <start_day> <end_day>   (hex, '-' = empty string, '~' = attribute absent)
//        Configuration::create_schedule on <schedule .../>
//                                                      -> "INVALID" | "EXC ConfigurationError" |
//                                                         "<start> <end|E> <duration> <utc> <sd> <ed> <toffset>"
//   W <the six X fields> <prev0> <t0> <n> <gap>,<gap>,...
//        the configured path: Configuration(istream).process(), create_session_schedule and
//        create_login_schedule of a <session schedule=.. login=..>, then polling as in S
//                                                      -> "INVALID" | "EXC ConfigurationError" | bits
//   C <t>                                              -> "<ticks> <wday> <secs>"   (clock self test)
#include "hcommon.hpp"
#include <time.h>
#include <unistd.h>
#include <sys/syscall.h>
#include <fix8/f8includes.hpp>

static long long g_virtual_ns = 0;

extern "C" int clock_gettime(clockid_t id, struct timespec *ts)
{
	if (id == CLOCK_REALTIME)
	{
		long long s(g_virtual_ns / 1000000000LL), n(g_virtual_ns % 1000000000LL);
		if (n < 0) { n += 1000000000LL; --s; }
		ts->tv_sec = s;
		ts->tv_nsec = n;
		return 0;
	}
	return static_cast<int>(syscall(SYS_clock_gettime, id, ts));
}

using namespace FIX8;

static std::string show_ticks(Tickval::ticks t)
{
	return t == Tickval::errorticks() ? std::string("E") : std::to_string(t);
}

static Tickval::ticks read_ticks(const std::string& s)
{
	return s == "E" ? Tickval::errorticks() : std::stoll(s);
}

static std::string run_decode(std::istringstream& is)
{
	std::string all, out;
	is >> all;
	bool first(true);
	for (const auto& h : split(all, ','))
	{
		if (!first) out.push_back(',');
		first = false;
		out += std::to_string(decode_dow(unhex(h)));
	}
	return out;
}

static std::string poll(const Schedule& sch, int prev0, long long t0, unsigned long n, const std::string& gapstr);

static std::string run_sched(std::istringstream& is)
{
	std::string start, end, gapstr;
	int utc, sd, ed, prev0;
	long long t0;
	unsigned long n;
	is >> start >> end >> utc >> sd >> ed >> prev0 >> t0 >> n >> gapstr;
	const Schedule sch(Tickval(read_ticks(start)), Tickval(read_ticks(end)), Tickval(), utc, sd, ed);
	return poll(sch, prev0, t0, n, gapstr);
}

static std::string poll(const Schedule& sch, int prev0, long long t0, unsigned long n, const std::string& gapstr)
{
	std::vector<long long> gaps;
	for (const auto& g : split(gapstr, ','))
		gaps.push_back(std::stoll(g));
	std::string out;
	bool prev(prev0 != 0), cur(false);
	unsigned long runlen(0);
	long long t(t0);
	for (unsigned long i(0); i < n; ++i)
	{
		g_virtual_ns = t;
		const bool r(sch.test(prev));
		if (runlen && r != cur)
		{
			out += (cur ? "1*" : "0*") + std::to_string(runlen) + ' ';
			runlen = 0;
		}
		cur = r;
		++runlen;
		prev = r;
		t += gaps[i % gaps.size()];
	}
	if (runlen)
		out += (cur ? "1*" : "0*") + std::to_string(runlen);
	if (!out.empty() && out.back() == ' ')
		out.pop_back();
	return out.empty() ? "-" : out;
}

static std::string xml_attr(const char *name, const std::string& hx)
{
	if (hx == "~")
		return std::string();
	return std::string(" ") + name + "=\"" + unhex(hx) + "\"";
}

static std::string run_xml(std::istringstream& is)
{
	std::string st, en, utc, dur, sd, ed;
	is >> st >> en >> utc >> dur >> sd >> ed;
	const std::string doc("<?xml version='1.0' encoding='ISO-8859-1'?>\n<fix8>\n<schedule name=\"s\""
		+ xml_attr("start_time", st) + xml_attr("end_time", en) + xml_attr("utc_offset_mins", utc)
		+ xml_attr("duration", dur) + xml_attr("start_day", sd) + xml_attr("end_day", ed) + " />\n</fix8>\n");
	std::istringstream cs(doc), es(doc);
	const Configuration conf(cs);
	std::unique_ptr<XmlElement> root(XmlElement::Factory(es, "stream"));
	if (!root)
		return "NOXML";
	const XmlElement *which(root->find("fix8/schedule"));
	if (!which)
		return "NOELEMENT";
	const Schedule sch(conf.create_schedule(which));
	if (!sch.is_valid())
		return "INVALID";
	std::ostringstream os;
	os << show_ticks(sch._start.get_ticks()) << ' ' << show_ticks(sch._end.get_ticks()) << ' '
		<< sch._duration.get_ticks() << ' ' << sch._utc_offset << ' ' << sch._start_day << ' '
		<< sch._end_day << ' ' << sch._toffset;
	return os.str();
}

static bool same(const Schedule& a, const Schedule& b)
{
	return a._start == b._start && a._end == b._end && a._duration == b._duration && a._utc_offset == b._utc_offset
		&& a._start_day == b._start_day && a._end_day == b._end_day && (!a.is_valid() || a._toffset == b._toffset);
}

static std::string run_configured(std::istringstream& is)
{
	std::string st, en, utc, dur, sd, ed, gapstr;
	int prev0;
	long long t0;
	unsigned long n;
	is >> st >> en >> utc >> dur >> sd >> ed >> prev0 >> t0 >> n >> gapstr;
	const std::string attrs(xml_attr("start_time", st) + xml_attr("end_time", en) + xml_attr("utc_offset_mins", utc)
		+ xml_attr("duration", dur) + xml_attr("start_day", sd) + xml_attr("end_day", ed));
	const std::string doc("<?xml version='1.0' encoding='ISO-8859-1'?>\n<fix8>\n"
		"<session name=\"S1\" role=\"acceptor\" fix_version=\"1100\" active=\"true\" ip=\"127.0.0.1\" port=\"11001\" "
		"sender_comp_id=\"A\" target_comp_id=\"B\" schedule=\"sch\" login=\"lg\" />\n"
		"<schedule name=\"sch\"" + attrs + " />\n<login name=\"lg\"" + attrs + " />\n</fix8>\n");
	g_virtual_ns = t0;
	std::istringstream cs(doc);
	const Configuration conf(cs, true);
	const XmlElement *ses(conf.get_session(0));
	if (!ses)
		return "NOSESSION";
	std::unique_ptr<Session_Schedule> ss(conf.create_session_schedule(ses));
	if (!ss)
		return "NOSCHEDULE";
	const Schedule lg(conf.create_login_schedule(ses));
	if (lg.is_valid() != ss->_sch.is_valid() || !same(lg, ss->_sch))
		return "LOGIN-DIFFERS";
	if (!ss->_sch.is_valid())
		return "INVALID";
	return poll(ss->_sch, prev0, t0, n, gapstr);
}

static std::string run_clock(std::istringstream& is)
{
	long long t;
	is >> t;
	g_virtual_ns = t;
	const Tickval now(true);
	const tm r(now.get_tm());
	std::ostringstream os;
	os << now.get_ticks() << ' ' << r.tm_wday << ' ' << now.secs();
	return os.str();
}

int main()
{
	std::string line;
	while (std::getline(std::cin, line))
	{
		std::string res;
		try
		{
			std::istringstream is(line);
			std::string kind;
			is >> kind;
			if (kind == "D") res = run_decode(is);
			else if (kind == "S") res = run_sched(is);
			else if (kind == "X") res = run_xml(is);
			else if (kind == "W") res = run_configured(is);
			else if (kind == "C") res = run_clock(is);
			else res = "BAD-CASE";
		}
		catch (ConfigurationError&) { res = "EXC ConfigurationError"; }
		catch (f8Exception&) { res = "EXC f8Exception"; }
		catch (std::invalid_argument&) { res = "EXC invalid_argument"; }
		catch (std::out_of_range&) { res = "EXC out_of_range"; }
		catch (std::exception&) { res = "EXC std::exception"; }
		std::cout << res << std::endl;
	}
	return 0;
}
