// C23 harness, second executable (the session histories of C23 run on h_sess): the REAL comparison members of
// FIX8::SessionID (include/fix8/session.hpp) on two identities built with the three-string constructor.
//   case   "SID <sender1> <target1> <sender2> <target2>"      (hex, "-" = empty)
//   result "EQ <a==b> NE <a!=b> SEQ <a==a> SNE <a!=a> MIR <a.same_sender_comp_id(target2)> <a.same_target_comp_id(sender2)>
//           SIDE <a.same_side_sender_comp_id(sender2)> <a.same_side_target_comp_id(target2)> ID <hex a.get_id()> <hex b.get_id()>"
#include "hcommon.hpp"
#include <fix8/f8includes.hpp>

using namespace FIX8;

static std::string run(const std::string& line)
{
	std::vector<std::string> t;
	for (const auto& w : split(line, ' ')) if (!w.empty()) t.push_back(w);
	if (t.size() != 5 || t[0] != "SID")
		return "BAD";
	const std::string s1(unhex(t[1])), t1(unhex(t[2])), s2(unhex(t[3])), t2(unhex(t[4]));
	SessionID a("FIX.4.2", s1, t1), b("FIX.4.2", s2, t2);
	std::ostringstream os;
	os << "EQ " << (a == b ? 1 : 0) << " NE " << (a != b ? 1 : 0)
		<< " SEQ " << (a == a ? 1 : 0) << " SNE " << (a != a ? 1 : 0)
		<< " MIR " << (a.same_sender_comp_id(target_comp_id(t2)) ? 1 : 0) << ' ' << (a.same_target_comp_id(sender_comp_id(s2)) ? 1 : 0)
		<< " SIDE " << (a.same_side_sender_comp_id(sender_comp_id(s2)) ? 1 : 0) << ' ' << (a.same_side_target_comp_id(target_comp_id(t2)) ? 1 : 0)
		<< " ID " << tohex(a.get_id()) << ' ' << tohex(b.get_id());
	return os.str();
}

int main()
{
	GlobalLogger::set_global_filename(verif_logfile());
	std::string line;
	while (std::getline(std::cin, line))
	{
		std::string r;
		try { r = run(line); }
		catch (f8Exception& e) { r = "EXC f8Exception"; }
		catch (std::exception& e) { r = "EXC std::exception"; }
		std::cout << r << std::endl;
	}
	return 0;
}
