// C13 / C14 harness: reads the metadata back from the code f8c generated for ONE schema (linked
// into this executable, namespace C13S, reached through the generated extern "C" C13S_ctx())
// using only the runtime's own structures (F8MetaCntx, MsgTable, FieldTable, RealmBase,
// FieldTraits, GroupBase), and round-trips probe messages through the generated codec.
//
//  "T <ncomps>"                                      -> tables dump
//  "M <ncomps> <msgtype> <nprobes> {probe}"          -> trait tree of that message table entry
//                                                       " | " one outcome digit per probe
//  probe  := <pnodes header> <pnodes body>
//  pnodes := <count> {pnode}
//  pnode  := f <num> <hex value>  |  g <num> <nelems> {pnodes}
//
// outcome: 0 exact round trip, 1 cannot be built through the API, 2 encoded field order differs
// from the probe's, 3 decoder throws, 4 a value came back changed, 5 re-encoding differs.
#include "hcommon.hpp"
#include <fix8/f8includes.hpp>
#include <fix8/message.hpp>
#include <typeinfo>
#include <cxxabi.h>
#include <map>
#include <cmath>

using namespace FIX8;
extern "C" const F8MetaCntx& C13S_ctx();

static bool verbose(getenv("C13_VERBOSE") != nullptr);

struct PNode
{
	bool grp;
	unsigned num;
	std::string val;
	std::vector<std::vector<PNode>> elems;
};

static std::vector<PNode> read_pnodes(std::istringstream& is)
{
	unsigned cnt(0);
	is >> cnt;
	std::vector<PNode> out;
	for (unsigned ii(0); ii < cnt && is; ++ii)
	{
		std::string kind;
		PNode p;
		is >> kind >> p.num;
		p.grp = kind == "g";
		if (p.grp)
		{
			unsigned ne(0);
			is >> ne;
			for (unsigned jj(0); jj < ne && is; ++jj)
				p.elems.push_back(read_pnodes(is));
		}
		else
		{
			std::string hx;
			is >> hx;
			p.val = unhex(hx);
		}
		out.push_back(p);
	}
	return out;
}

// ---------------------------------------------------------------------------------- dumps
static std::string comp_name(const F8MetaCntx& ctx, unsigned idx, unsigned ncomps)
{
	if (!idx)
		return "-";
	if (idx > ncomps)
		return "?" + std::to_string(idx);
	return ctx._cn[idx];
}

// the group class a level reaches for a count field, the way decode does (find_add_group): the
// GroupBase its constructor made, else create_nested_group of the message / of the enclosing group
static GroupBase *reach_group(const MessageBase *mb, const GroupBase *parent, unsigned short fnum, std::unique_ptr<GroupBase>& own)
{
	GroupBase *gb(mb->find_group(fnum));
	if (!gb)
	{
		own.reset(parent ? parent->create_nested_group(fnum) : mb->create_nested_group(fnum));
		gb = own.get();
	}
	return gb;
}

static void dump_node(const F8MetaCntx& ctx, const MessageBase *mb, const GroupBase *parent, unsigned ncomps, std::ostream& os, int depth)
{
	if (depth > 40)
	{
		os << " DEEP";
		return;
	}
	const Presence& pr(mb->get_fp().get_presence());
	for (Presence::const_iterator itr(pr.begin()); itr != pr.end(); ++itr)
	{
		os << ' ' << itr->_fnum << ',' << static_cast<unsigned>(itr->_ftype) << ',' << itr->_pos << ','
			<< comp_name(ctx, itr->_component, ncomps) << ',' << std::hex
			<< (itr->_field_traits.get() & ~(1u << FieldTrait::present)) << std::dec;	// `present` is run-time state
		std::unique_ptr<GroupBase> own;
		GroupBase *gb(reach_group(mb, parent, itr->_fnum, own));
		if (gb)
		{
			std::unique_ptr<MessageBase> el(gb->create_group(true));
			os << " {";
			if (el.get())
				dump_node(ctx, el.get(), gb, ncomps, os, depth + 1);
			else
				os << " NULL";
			os << " }";
		}
	}
}

static const char *sample_for(unsigned ft)
{
	switch (ft)
	{
	case 1: case 2: case 3: case 4: case 5: case 6: return "1";
	case 7: return "A";
	case 8: return "Y";
	case 9: case 10: case 11: case 12: case 13: case 14: return "1.5";
	case 21: return "202401";
	case 22: return "20240102-03:04:05";
	case 23: return "03:04:05";
	case 24: case 25: return "20240102";
	case 26: return "03:04:05Z";
	case 27: return "20240102-03:04:05Z";
	default: return "a";
	}
}

static unsigned class_code(const BaseField *bf)
{
	int status(0);
	char *dm(abi::__cxa_demangle(typeid(*bf).name(), nullptr, nullptr, &status));
	std::string nm(dm ? dm : typeid(*bf).name());
	free(dm);
	const std::string::size_type p(nm.find("Field<"));
	if (p == std::string::npos)
		return 999;
	const std::string arg(nm.substr(p + 6));
	if (arg.compare(0, 4, "int,") == 0) return 1;
	if (arg.compare(0, 7, "double,") == 0 || arg.compare(0, 6, "float,") == 0) return 2;
	if (arg.compare(0, 5, "char,") == 0) return 3;
	if (arg.compare(0, 4, "std:") == 0) return 4;
	if (arg.compare(0, 6, "char*,") == 0) return 5;
	const std::string et("FIX8::EnumType<");
	if (arg.compare(0, et.size(), et) == 0)
	{
		size_t q(et.size());
		while (q < arg.size() && !isdigit(static_cast<unsigned char>(arg[q])) && arg[q] != '>')
			++q;
		return 100 + static_cast<unsigned>(atoi(arg.c_str() + q));
	}
	if (verbose) std::cerr << "class: " << nm << std::endl;
	return 998;
}

static void collect_types(const MessageBase *mb, const GroupBase *parent, std::map<unsigned, unsigned>& ftypes, int depth)
{
	if (depth > 40)
		return;
	const Presence& pr(mb->get_fp().get_presence());
	for (Presence::const_iterator itr(pr.begin()); itr != pr.end(); ++itr)
	{
		if (!(itr->_field_traits.has(FieldTrait::group)))
			ftypes.insert({itr->_fnum, static_cast<unsigned>(itr->_ftype)});
		std::unique_ptr<GroupBase> own;
		GroupBase *gb(reach_group(mb, parent, itr->_fnum, own));
		if (gb)
		{
			std::unique_ptr<MessageBase> el(gb->create_group(true));
			if (el.get())
				collect_types(el.get(), gb, ftypes, depth + 1);
		}
	}
}

static MessageBase *make_entry(const MsgTable::Pair *pp)
{
	// header and trailer are MessageBase objects behind a reinterpret_cast (see Minst::_gen::_make)
	return reinterpret_cast<MessageBase *>(pp->_value._create._do(true));
}

static bool is_ht(const char *key) { return !strcmp(key, "header") || !strcmp(key, "trailer"); }

static std::string dump_tables(const F8MetaCntx& ctx, unsigned ncomps)
{
	std::ostringstream os;
	os << "V " << ctx._version << ' ' << tohex(ctx._beginStr);
	// field types as declared in the traits of the messages (to pick a sample text per field)
	std::map<unsigned, unsigned> ftypes;
	for (MsgTable::const_iterator mi(ctx._bme.begin()); mi != ctx._bme.end(); ++mi)
	{
		std::unique_ptr<MessageBase> mb(make_entry(mi));
		collect_types(mb.get(), nullptr, ftypes, 0);
		if (!is_ht(mi->_key))
		{
			const Message *msg(static_cast<const Message *>(mb.get()));
			if (msg->Header())
				collect_types(msg->Header(), nullptr, ftypes, 0);
		}
	}
	os << " | F";
	for (FieldTable::const_iterator fi(ctx._be.begin()); fi != ctx._be.end(); ++fi)
	{
		const BaseEntry& be(fi->_value);
		os << ' ' << fi->_key << ',' << be._fnum << ',' << be._name << ',';
		const auto ft(ftypes.find(be._fnum));
		std::unique_ptr<BaseField> bf(be._create._do(sample_for(ft == ftypes.end() ? 1 : ft->second), be._rlm, -1));
		os << class_code(bf.get()) << ',';
		if (!be._rlm)
			os << '-';
		else
		{
			const RealmBase& rb(*be._rlm);
			os << (rb._dtype == RealmBase::dt_set ? 'S' : 'R') << ':' << static_cast<unsigned>(rb._ftype) << ':' << rb._sz << ':';
			for (int ii(0); ii < rb._sz; ++ii)
			{
				if (ii)
					os << ';';
				if (FieldTrait::is_int(rb._ftype))
					os << 'i' << rb.get_rlm_val<int>(ii);
				else if (FieldTrait::is_char(rb._ftype))
					os << 'c' << static_cast<unsigned>(static_cast<unsigned char>(rb.get_rlm_val<char>(ii)));
				else if (FieldTrait::is_float(rb._ftype))
					os << 'd' << static_cast<long long>(llround(static_cast<double>(rb.get_rlm_val<fp_type>(ii)) * 10000.0));	// value * 10^4
				else
					os << 'x' << tohex(rb.get_rlm_val<f8String>(ii));
				os << '=' << tohex(rb._descriptions[ii] ? rb._descriptions[ii] : "");
			}
		}
	}
	os << " | M";
	for (MsgTable::const_iterator mi(ctx._bme.begin()); mi != ctx._bme.end(); ++mi)
	{
		bool admin(false);
		if (!is_ht(mi->_key))
		{
			std::unique_ptr<Message> msg(mi->_value._create._do(false));
			admin = msg->is_admin();
		}
		os << ' ' << tohex(mi->_key) << ',' << mi->_value._name << ',' << (admin ? 1 : 0);
	}
	os << " | C";
	for (unsigned ii(1); ii <= ncomps; ++ii)
		os << ' ' << ctx._cn[ii];
	return os.str();
}

// ---------------------------------------------------------------------------------- probes
static bool build(const F8MetaCntx& ctx, MessageBase *mb, GroupBase *parent, const std::vector<PNode>& ps)
{
	for (const PNode& p : ps)
	{
		std::string text(p.val);
		if (p.grp)
		{
			// = find_add_group, which would dereference a null create_nested_group result
			GroupBase *gb(mb->find_group(static_cast<unsigned short>(p.num)));
			if (!gb)
			{
				gb = parent ? parent->create_nested_group(static_cast<unsigned short>(p.num))
					: mb->create_nested_group(static_cast<unsigned short>(p.num));
				if (!gb)
					return false;
				mb->add_group(gb);
			}
			for (const auto& el : p.elems)
			{
				std::unique_ptr<MessageBase> e(gb->create_group(true));
				if (!e.get() || !build(ctx, e.get(), gb, el))
					return false;
				*gb += e.release();
			}
			text = std::to_string(p.elems.size());
		}
		std::unique_ptr<BaseField> bf(ctx.create_field(static_cast<unsigned short>(p.num), text.c_str()));
		if (!bf.get())
			return false;
		try
		{
			mb->add_field(bf.get());
			bf.release();
		}
		catch (InvalidField&)
		{
			return false;
		}
	}
	return true;
}

static void flatten(const std::vector<PNode>& ps, std::vector<std::pair<unsigned, std::string>>& out)
{
	for (const PNode& p : ps)
	{
		out.push_back({p.num, p.grp ? std::to_string(p.elems.size()) : p.val});
		if (p.grp)
			for (const auto& el : p.elems)
				flatten(el, out);
	}
}

static int run_probe(const F8MetaCntx& ctx, const MsgTable::Pair *pp, const std::vector<PNode>& ph, const std::vector<PNode>& pb)
{
	std::unique_ptr<Message> msg(pp->_value._create._do(true));
	if (!msg->Header() || !build(ctx, msg->Header(), nullptr, ph) || !build(ctx, msg.get(), nullptr, pb))
		return 1;
	f8String wire;
	msg->encode(wire);
	std::vector<std::pair<unsigned, std::string>> want, got;
	flatten(ph, want);
	flatten(pb, want);
	for (const std::string& tv : split(wire, '\x01'))
	{
		if (tv.empty())
			continue;
		const std::string::size_type eq(tv.find('='));
		got.push_back({static_cast<unsigned>(atoi(tv.c_str())), eq == std::string::npos ? std::string() : tv.substr(eq + 1)});
	}
	// 8, 9, 35 in front and 10 at the end are produced by the runtime itself
	if (got.size() != want.size() + 4 || got[0].first != 8 || got[1].first != 9 || got[2].first != 35 || got.back().first != 10)
	{
		if (verbose) std::cerr << "shape: " << tohex(wire) << std::endl;
		return 2;
	}
	for (size_t ii(0); ii < want.size(); ++ii)
		if (got[ii + 3].first != want[ii].first)
		{
			if (verbose) std::cerr << "order at " << ii << ": " << got[ii + 3].first << " vs " << want[ii].first << std::endl;
			return 2;
		}
	for (size_t ii(0); ii < want.size(); ++ii)
		if (got[ii + 3].second != want[ii].second)
		{
			if (verbose) std::cerr << "value of " << want[ii].first << ": " << got[ii + 3].second << " vs " << want[ii].second << std::endl;
			return 4;
		}
	std::unique_ptr<Message> back;
	try
	{
		back.reset(Message::factory(ctx, wire));
	}
	catch (f8Exception& e)
	{
		if (verbose) std::cerr << "decode: " << e.what() << std::endl;
		return 3;
	}
	if (!back.get())
		return 3;
	f8String wire2;
	back->encode(wire2);
	if (wire2 != wire)
	{
		if (verbose) std::cerr << "re-encode: " << tohex(wire2) << " vs " << tohex(wire) << std::endl;
		return 5;
	}
	return 0;
}

int main()
{
	const F8MetaCntx& ctx(C13S_ctx());
	std::string line;
	while (std::getline(std::cin, line))
	{
		std::ostringstream os;
		try
		{
			std::istringstream is(line);
			std::string kind;
			unsigned ncomps(0);
			is >> kind >> ncomps;
			if (kind == "T")
				os << dump_tables(ctx, ncomps);
			else if (kind == "M")
			{
				std::string mtype;
				unsigned nprobes(0);
				is >> mtype >> nprobes;
				const MsgTable::Pair *pp(ctx._bme.find_pair_ptr(mtype.c_str()));
				if (!pp)
					os << "NO-SUCH-MESSAGE";
				else
				{
					std::unique_ptr<MessageBase> mb(make_entry(pp));
					os << "N";
					dump_node(ctx, mb.get(), nullptr, ncomps, os, 0);
					os << " |";
					for (unsigned ii(0); ii < nprobes; ++ii)
					{
						const std::vector<PNode> ph(read_pnodes(is)), pb(read_pnodes(is));
						os << ' ' << run_probe(ctx, pp, ph, pb);
					}
				}
			}
			else
				os << "BAD-CASE";
		}
		catch (f8Exception& e)
		{
			os.str("");
			os << "EXC f8Exception " << e.what();
		}
		catch (std::exception& e)
		{
			os.str("");
			os << "EXC " << e.what();
		}
		std::string out(os.str());
		for (char& c : out)
			if (c == '\t' || c == '\n' || c == '\r')
				c = '?';
		std::cout << out << std::endl;
	}
	return 0;
}
