// C09 harness: the real date/time field classes, Tickval and GetTimeAsStringMS.
//   "T <ticks>"                  for each of UTCTimestamp, UTCTimeOnly, UTCDateOnly, LocalMktDate,
//                                MonthYear(6), MonthYear(8): print() of a field holding Tickval(ticks),
//                                then the string constructor on that text
//                                -> "TS=<text>,<ticks> TO=.. DO=.. LD=.. M6=.. M8=.."
//   "P <TS|TO|DO|LD|MY> <hex>"   const char* constructor on an exactly sized NUL terminated heap
//                                block, then print()            -> "<ticks> <text>" | "NOW"
//   "L <secs> <nsecs> <dplaces>" GetTimeAsStringMS(Tickval(secs, nsecs), dplaces, gm and localtime)
//                                -> "<gm text>|<local text>"
//   "S <secs>,<nsecs>,<dplaces>,<gm> ..."  the same renderer called once per item, in order, in this
//                                process (the function is specified as stateless)
//                                -> "<text>|<text>|..."
//   "C <iters> <t,t,..>;<t,t,..>;..."  one REAL thread per ';'-separated list, all started together; each
//                                thread has its own Field objects and renders (print) and parses back
//                                its own instants <iters> times, rotating over the five field types,
//                                and compares with the single-threaded rendering of the same instant
//                                made before the threads start
//                                -> "K0=<mismatches>[:<ticks>:<kind>:<wrong text>,<ticks back>] K1=..."
//   "G <day>"                    Tickval(day * Tickval::day).get_tm()  (gmtime_r)
//                                -> "<year> <month> <day> <hour> <min> <sec>"
// Signed overflow / negative shift in the inline codecs is reported by UBSan and execution
// continues (recover mode for these two checks only, set by the suite) so that the wrapped value
// the hardware produces is observable; everything else still traps.
#include "hcommon.hpp"
#include <fix8/f8includes.hpp>
#include <iomanip>
#include <thread>
#include <atomic>

using namespace FIX8;

static std::string esc(const std::string& s, bool space = false)
{
	std::string r;
	char b[8];
	for (unsigned char c : s)
	{
		if ((c > 32 && c < 127 && c != '\\' && c != '|') || (space && c == ' '))
			r.push_back(static_cast<char>(c));
		else
		{
			snprintf(b, sizeof(b), "\\x%02x", c);
			r += b;
		}
	}
	return r;
}

template<typename F>
static std::string printed(const F& f)
{
	char buf[128] = {};
	const size_t n(f.print(buf));
	std::ostringstream os;
	f.print(os);
	const std::string viabuf(buf, n);
	if (os.str() != std::string(buf))		// the stream form prints the NUL terminated buffer
		return "STREAM-MISMATCH:" + viabuf;
	return viabuf;
}

static std::string ticks_or_now(Tickval::ticks t)
{
	const Tickval::ticks now(Tickval(true).get_ticks());
	if (t <= now && t >= now - 5 * Tickval::second)
		return "NOW";
	return std::to_string(t);
}

// print a field holding `held`, then build a second field of the same type from the text
template<typename F>
static std::string roundtrip(F& held, const char *tag)
{
	const std::string text(printed(held));
	const F back(text);		// f8String constructor
	return std::string(tag) + '=' + esc(text) + ',' + std::to_string(back.get().get_ticks());
}

template<typename F>
static std::string parse_print(const char *blk)
{
	const F f(blk);			// const char * constructor (strlen)
	const std::string t(ticks_or_now(f.get().get_ticks()));
	if (t == "NOW")
		return t;
	return t + ' ' + esc(printed(f));
}

// ---- concurrent rendering ------------------------------------------------------------------
struct Rendering { std::string text; long long back; };
static const char *const conc_kinds[] = { "TS", "TO", "DO", "LD", "M6", "M8" };
enum { conc_nkinds = 6 };

// print() of a fresh field of the given type holding ticks, and the ticks of a second field built from that text
static Rendering render_kind(int kind, Tickval::ticks ticks)
{
	const Tickval tv(ticks);
	char buf[64] = {};
	Rendering r;
	switch (kind)
	{
	case 0: { Field<UTCTimestamp, 52> f(tv); r.text.assign(buf, f.print(buf));
				 r.back = Field<UTCTimestamp, 52>(r.text).get().get_ticks(); break; }
	case 1: { Field<UTCTimeOnly, 273> f; f.set(tv); r.text.assign(buf, f.print(buf));
				 r.back = Field<UTCTimeOnly, 273>(r.text).get().get_ticks(); break; }
	case 2: { Field<UTCDateOnly, 272> f; f.set(tv); r.text.assign(buf, f.print(buf));
				 r.back = Field<UTCDateOnly, 272>(r.text).get().get_ticks(); break; }
	case 3: { Field<LocalMktDate, 75> f; f.set(tv); r.text.assign(buf, f.print(buf));
				 r.back = Field<LocalMktDate, 75>(r.text).get().get_ticks(); break; }
	case 4: { Field<MonthYear, 200> f(f8String("197001")); f.set(tv); r.text.assign(buf, f.print(buf));
				 r.back = Field<MonthYear, 200>(r.text).get().get_ticks(); break; }
	default: { Field<MonthYear, 200> f(f8String("19700101")); f.set(tv); r.text.assign(buf, f.print(buf));
				 r.back = Field<MonthYear, 200>(r.text).get().get_ticks(); break; }
	}
	return r;
}

struct ConcThread
{
	std::vector<long long> instants;
	std::vector<Rendering> reference;	// [instant * conc_nkinds + kind], made single-threaded
	unsigned long mismatches = 0;
	std::string first;
};

static std::string run_concurrent(unsigned long iters, std::vector<ConcThread>& th)
{
	for (auto& t : th)
		for (long long ticks : t.instants)
			for (int k = 0; k < conc_nkinds; ++k)
				t.reference.push_back(render_kind(k, ticks));
	std::atomic<unsigned> ready(0);
	std::atomic<bool> go(false);
	std::vector<std::thread> workers;
	for (size_t j = 0; j < th.size(); ++j)
		workers.emplace_back([&, j]()
		{
			ConcThread& me(th[j]);		// nothing of `me` is touched by another thread
			++ready;
			while (!go.load()) std::this_thread::yield();
			const size_t n(me.instants.size());
			for (unsigned long i = 0; i < iters; ++i)
			{
				const size_t idx(i % n);
				const int kind(static_cast<int>((i / n) % conc_nkinds));
				const Rendering r(render_kind(kind, me.instants[idx]));
				const Rendering& ref(me.reference[idx * conc_nkinds + kind]);
				if (r.text != ref.text || r.back != ref.back)
					if (me.mismatches++ == 0)
						me.first = std::to_string(me.instants[idx]) + ':' + conc_kinds[kind] + ':' + esc(r.text) + ','
							+ std::to_string(r.back);
			}
		});
	while (ready.load() < th.size()) std::this_thread::yield();
	go.store(true);
	for (auto& w : workers)
		w.join();
	std::string out;
	for (size_t j = 0; j < th.size(); ++j)
	{
		if (j) out += ' ';
		out += "K" + std::to_string(j) + "=" + std::to_string(th[j].mismatches);
		if (th[j].mismatches)
			out += ':' + th[j].first;
	}
	return out;
}

int main()
{
	std::string line;
	while (std::getline(std::cin, line))
	{
		std::istringstream is(line);
		std::string what;
		is >> what;
		std::string out;
		try
		{
			if (what == "T")
			{
				long long ticks;
				is >> ticks;
				const Tickval tv(static_cast<Tickval::ticks>(ticks));
				Field<UTCTimestamp, 52> ts(tv);
				Field<UTCTimeOnly, 273> to; to.set(tv);
				Field<UTCDateOnly, 272> dd; dd.set(tv);
				Field<LocalMktDate, 75> ld; ld.set(tv);
				Field<MonthYear, 200> m6(f8String("197001")); m6.set(tv);
				Field<MonthYear, 200> m8(f8String("19700101")); m8.set(tv);
				out = roundtrip(ts, "TS") + ' ' + roundtrip(to, "TO") + ' ' + roundtrip(dd, "DO") + ' '
					+ roundtrip(ld, "LD") + ' ' + roundtrip(m6, "M6") + ' ' + roundtrip(m8, "M8");
			}
			else if (what == "P")
			{
				std::string kind, hx;
				is >> kind >> hx;
				const std::string bytes(unhex(hx));
				char *blk(static_cast<char *>(malloc(bytes.size() + 1)));	// exact: text + NUL
				memcpy(blk, bytes.data(), bytes.size());
				blk[bytes.size()] = 0;
				if (kind == "TS") out = parse_print<Field<UTCTimestamp, 52>>(blk);
				else if (kind == "TO") out = parse_print<Field<UTCTimeOnly, 273>>(blk);
				else if (kind == "DO") out = parse_print<Field<UTCDateOnly, 272>>(blk);
				else if (kind == "LD") out = parse_print<Field<LocalMktDate, 75>>(blk);
				else if (kind == "MY") out = parse_print<Field<MonthYear, 200>>(blk);
				else out = "BAD-CASE";
				free(blk);
			}
			else if (what == "L")
			{
				long long secs, nsecs; unsigned dplaces;
				is >> secs >> nsecs >> dplaces;
				const Tickval tv(static_cast<time_t>(secs), static_cast<long>(nsecs));
				std::string gm, local;
				GetTimeAsStringMS(gm, &tv, dplaces, true);
				GetTimeAsStringMS(local, &tv, dplaces, false);
				if (dplaces == 9)	// Tickval's stream operators use the same renderer at 9 places
				{
					std::ostringstream o1, o2;
					o1 >> tv;
					o2 << tv;
					if (o1.str() != gm || o2.str() != local)
						gm = "OPERATOR-MISMATCH:" + gm;
				}
				out = esc(gm, true) + '|' + esc(local, true);
			}
			else if (what == "S")
			{
				std::string item;
				bool first(true);
				while (is >> item)
				{
					const std::vector<std::string> f(split(item, ','));
					if (f.size() != 4) { out = "BAD-CASE"; break; }
					const Tickval tv(static_cast<time_t>(std::stoll(f[0])), static_cast<long>(std::stoll(f[1])));
					std::string text;
					GetTimeAsStringMS(text, &tv, static_cast<unsigned>(std::stoul(f[2])), f[3] == "1");
					if (!first) out += '|';
					out += esc(text, true);
					first = false;
				}
			}
			else if (what == "C")
			{
				unsigned long iters; std::string lists;
				is >> iters >> lists;
				std::vector<ConcThread> th;
				for (const std::string& l : split(lists, ';'))
				{
					ConcThread t;
					for (const std::string& x : split(l, ','))
						t.instants.push_back(std::stoll(x));
					th.push_back(t);
				}
				out = run_concurrent(iters, th);
			}
			else if (what == "G")
			{
				long long day;
				is >> day;
				const Tickval tv(static_cast<Tickval::ticks>(day) * Tickval::day);
				const tm r(tv.get_tm());
				std::ostringstream os;
				os << r.tm_year + 1900 << ' ' << r.tm_mon + 1 << ' ' << r.tm_mday << ' ' << r.tm_hour << ' '
					<< r.tm_min << ' ' << r.tm_sec;
				out = os.str();
			}
			else
				out = "BAD-CASE";
		}
		catch (f8Exception& e) { out = std::string("EXC f8Exception ") + e.what(); }
		catch (std::exception& e) { out = std::string("EXC std::exception ") + e.what(); }
		catch (...) { out = "EXC unknown"; }
		std::cout << out << std::endl;
	}
	return 0;
}
