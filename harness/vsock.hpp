// In-memory stream socket for the /verif session harnesses.
//
// VSockImpl subclasses Poco::Net::StreamSocketImpl and overrides every virtual the fix8
// Connection/FIXReader/FIXWriter touch, so that a REAL Poco::Net::StreamSocket (constructed with
// `Poco::Net::StreamSocket(impl)`) -- and on top of it the REAL fix8 ClientConnection /
// ServerConnection, FIXReader, FIXWriter -- works without any file descriptor:
//   * every sendBytes() call is recorded byte-exactly (on_write callback + `writes`);
//   * inbound bytes are queued in chunks by the harness (push_in); one receiveBytes() call never
//     returns bytes of more than one chunk, so chunk boundaries are under the harness' control;
//   * receiveBytes() blocks (condition variable, no time-outs) while nothing is queued; it
//     returns 0 after shutdown()/close(), as a TCP socket does, which makes FIXReader throw
//     PeerResetConnection and leave its loop exactly as in production;
//   * idle() tells the harness that a reader thread is blocked in receiveBytes() with nothing
//     left to read, i.e. that everything pushed so far has been consumed AND processed (in
//     pm_thread the reader calls Session::process synchronously before it reads again).
// Usage:
//     VSockImpl *impl = new VSockImpl;            // refcount 1
//     impl->duplicate();                          // keep a reference for the harness
//     Poco::Net::StreamSocket *sock = new Poco::Net::StreamSocket(impl);   // takes one ref
//     ... ClientConnection conn(sock, addr, session, hb, pm_thread, ...) ...
//     impl->release();                            // when the harness is done
#pragma once
#include <Poco/Net/StreamSocketImpl.h>
#include <Poco/Net/StreamSocket.h>
#include <Poco/Net/SocketAddress.h>
#include <Poco/Net/NetException.h>
#include <Poco/Timespan.h>
#include <condition_variable>
#include <mutex>
#include <deque>
#include <string>
#include <vector>
#include <functional>
#include <cstring>
#include <pthread.h>
#include "vclock.hpp"

class VSockImpl : public Poco::Net::StreamSocketImpl
{
	mutable std::mutex _m;
	std::condition_variable _cv_data;
	std::condition_variable _cv_idle;    // signalled when a reader starts waiting and on close
	std::deque<std::string> _chunks;     // inbound, not yet consumed
	size_t _front_off = 0;               // consumed prefix of _chunks.front()
	bool _closed = false;                // shutdown()/close() called by fix8
	bool _peer_closed = false;           // harness simulated the peer closing the connection
	int _readers_waiting = 0;
	bool _blocking = true;
	Poco::Net::SocketAddress _peer, _self;

public:
	std::vector<std::string> writes;                        // every sendBytes() call, in order
	std::function<void(const std::string&)> on_write;       // called (unlocked) per sendBytes()
	unsigned long n_recv_calls = 0, n_send_calls = 0, n_setopt = 0;
	bool connected = false;

	VSockImpl() : Poco::Net::StreamSocketImpl(), _peer("127.0.0.1", 34567), _self("127.0.0.1", 34568) {}

	// ---- harness side -------------------------------------------------------------------
	void push_in(const std::string& bytes)
	{
		if (bytes.empty())
			return;
		std::lock_guard<std::mutex> g(_m);
		_chunks.push_back(bytes);
		_cv_data.notify_all();
	}
	void peer_close()       // the counterparty closes: pending data is still delivered, then EOF
	{
		std::lock_guard<std::mutex> g(_m);
		_peer_closed = true;
		_cv_data.notify_all();
	}
	bool idle() const
	{
		std::lock_guard<std::mutex> g(_m);
		return _readers_waiting > 0 && _chunks.empty() && !_closed && !_peer_closed;
	}
	/// block (REAL time, at most `us` microseconds) until idle() may have become true or the socket was
	/// closed; returns idle().  Uses pthread_cond_timedwait with an absolute CLOCK_REALTIME deadline
	/// taken from the real clock, so the virtual clock does not interfere.
	bool wait_idle(unsigned us)
	{
		std::unique_lock<std::mutex> lk(_m);
		if (_readers_waiting > 0 && _chunks.empty() && !_closed && !_peer_closed)
			return true;
		int64_t dl(vclock_real_wall_ns() + static_cast<int64_t>(us) * 1000);
		struct timespec abs;
		abs.tv_sec = static_cast<time_t>(dl / 1000000000LL);
		abs.tv_nsec = static_cast<long>(dl % 1000000000LL);
		pthread_cond_timedwait(_cv_idle.native_handle(), _m.native_handle(), &abs);
		// after a close (by fix8 or by the simulated peer) the reader is about to see EOF and leave:
		// not idle, the caller waits until the reader thread has ended
		return _readers_waiting > 0 && _chunks.empty() && !_closed && !_peer_closed;
	}
	bool is_closed() const { std::lock_guard<std::mutex> g(_m); return _closed; }
	size_t pending_in() const
	{
		std::lock_guard<std::mutex> g(_m);
		size_t n(0);
		for (const auto& c : _chunks) n += c.size();
		return n - _front_off;
	}
	void set_peer_address(const Poco::Net::SocketAddress& a) { _peer = a; }

	// ---- Poco::Net::SocketImpl virtuals -------------------------------------------------
	void connect(const Poco::Net::SocketAddress& a) override { _peer = a; connected = true; }
	void connect(const Poco::Net::SocketAddress& a, const Poco::Timespan&) override { _peer = a; connected = true; }
	void connectNB(const Poco::Net::SocketAddress& a) override { _peer = a; connected = true; }
	void close() override { mark_closed(); }
	void shutdownReceive() override { mark_closed(); }
	void shutdownSend() override { mark_closed(); }
	void shutdown() override { mark_closed(); }

	int sendBytes(const void *buffer, int length, int = 0) override
	{
		{
			std::lock_guard<std::mutex> g(_m);
			++n_send_calls;
			if (_closed || _peer_closed)
				throw Poco::IOException("Broken pipe");       // what SocketImpl::error(EPIPE) throws
		}
		std::string s(static_cast<const char *>(buffer), static_cast<size_t>(length));
		writes.push_back(s);
		if (on_write)
			on_write(s);
		return length;
	}

	int receiveBytes(void *buffer, int length, int = 0) override
	{
		std::unique_lock<std::mutex> lk(_m);
		++n_recv_calls;
		while (_chunks.empty() && !_closed && !_peer_closed)
		{
			if (!_blocking)
				return -1;
			++_readers_waiting;
			_cv_idle.notify_all();
			_cv_data.wait(lk);
			--_readers_waiting;
		}
		if (_chunks.empty())
			return 0;                                          // orderly EOF
		std::string& f(_chunks.front());
		const size_t avail(f.size() - _front_off), n(avail < static_cast<size_t>(length) ? avail : static_cast<size_t>(length));
		std::memcpy(buffer, f.data() + _front_off, n);
		_front_off += n;
		if (_front_off == f.size())
		{
			_chunks.pop_front();
			_front_off = 0;
		}
		return static_cast<int>(n);
	}

	int available() override { return static_cast<int>(pending_in()); }

	bool poll(const Poco::Timespan&, int mode) override
	{
		std::lock_guard<std::mutex> g(_m);
		if (mode & 1 /* SELECT_READ */)
			return !_chunks.empty() || _closed || _peer_closed;
		return true;                                          // always writable
	}

	void setSendBufferSize(int) override {}
	int getSendBufferSize() override { return 65536; }
	void setReceiveBufferSize(int) override {}
	int getReceiveBufferSize() override { return 65536; }
	void setSendTimeout(const Poco::Timespan&) override {}
	Poco::Timespan getSendTimeout() override { return Poco::Timespan(); }
	void setReceiveTimeout(const Poco::Timespan&) override {}
	Poco::Timespan getReceiveTimeout() override { return Poco::Timespan(); }
	Poco::Net::SocketAddress address() override { return _self; }
	Poco::Net::SocketAddress peerAddress() override { return _peer; }
	void setRawOption(int, int, const void *, poco_socklen_t) override { ++n_setopt; }
	void getRawOption(int, int, void *value, poco_socklen_t& length) override
	{
		if (value && length > 0)
			std::memset(value, 0, static_cast<size_t>(length));
	}
	void setBlocking(bool flag) override { _blocking = flag; }
	bool getBlocking() const override { return _blocking; }
	bool secure() const override { return false; }

protected:
	~VSockImpl() override {}

private:
	void mark_closed()
	{
		std::lock_guard<std::mutex> g(_m);
		_closed = true;
		_cv_data.notify_all();
		_cv_idle.notify_all();
	}
};
