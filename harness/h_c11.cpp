// C11 harness: Message::clone / MessageBase::copy_legal / MessageBase::move_legal of the REAL fix8
// code on generated schema classes.  Same msgspec, dump and exception vocabulary as the shared
// codec harness h_codec.cpp (see coq/Codec/READY.md); the message building code follows its pattern.
//
// One case per line:
//   CLONE <msgspec>        source built through the generic API
//   COPY  <msgspec>
//   MOVE  <msgspec>
//   (a float field value "~<p>~<decimal text>" = API-built Field<fp_type,N>(value, precision p), see make_field)
//   DCLONE <mode> <hex>    source = Message::factory(ctx, bytes, no_chksum, permissive); mode = s|p [n]
//   DCOPY  <mode> <hex>
//   DMOVE  <mode> <hex>
//   SEQ <case> || <case> ...   several operations in a row in this process (two-schema build: each may start with
//                              "@utest " / "@fix44 "); result = the results joined by " || "
//   RENDER <fnum> <hex text>   print() of a fresh field (API-built float with precision when marked): "OK <hex>"
//   SCOPY / SMOVE <msgspec>, DSCOPY / DSMOVE <mode> <hex>: as COPY / MOVE into a SHALLOW-constructed target
// Result line: stages separated by " | "; the line stops at the first failing stage (EXC ...).
//   source fails                          -> "<EXC ...>"
//   CLONE/DCLONE: OK <dump src> | OK <dump clone> | <enc clone> | <enc src>
//   COPY/DCOPY  : OK <dump src> | OK <nb> <nh> <nt> <dump tgt> | OK <dump src after> | <enc tgt> | <enc src>
//   MOVE/DMOVE  : OK <dump src> | OK <nb> <nh> <nt> <dump tgt> | OK <husk src after> | <enc tgt> | <enc ref>
//   where <enc x> = "OK <hex>" or "EXC ...", nb/nh/nt = the counts returned for body, header and
//   trailer, the target is a fresh deep message of the same type (create_msg), and for MOVE the
//   reference encoding comes from a second, identically constructed source (the moved-from source
//   must not be encoded: its _fields hold null pointers).  The moved-from source is dumped with
//   "null" for the null pointers left in _fields / _groups and then deleted (under ASan).
#include "meta_dump.hpp"
#if defined C11_BOTH	// FIX42UTEST and FIX44 in ONE process: a case (or SEQ sub-operation) selects its schema with "@utest " / "@fix44 "
#include "utest_types.hpp"
#include "utest_router.hpp"
#include "utest_classes.hpp"
#include "fix44_types.hpp"
#include "fix44_router.hpp"
#include "fix44_classes.hpp"
#define CODEC_NS FIX8::UTEST
#elif __has_include("utest_types.hpp")
#include "utest_types.hpp"
#include "utest_router.hpp"
#include "utest_classes.hpp"
#define CODEC_NS FIX8::UTEST
#elif __has_include("fix44_types.hpp")
#include "fix44_types.hpp"
#include "fix44_router.hpp"
#include "fix44_classes.hpp"
#define CODEC_NS FIX8::FIX44
#else
#error "no generated schema on the include path"
#endif

using namespace FIX8;

namespace {

// the schema of the operation being run (default: the first one)
const F8MetaCntx *g_ctx(nullptr);
const F8MetaCntx& mctx() { return g_ctx ? *g_ctx : CODEC_NS::ctx(); }
bool select_schema(const std::string& name)
{
#if defined C11_BOTH
	if (name == "fix44") { g_ctx = &FIX8::FIX44::ctx(); return true; }
	if (name == "utest") { g_ctx = &FIX8::UTEST::ctx(); return true; }
	return false;
#else
	(void)name;
	g_ctx = &CODEC_NS::ctx();
	return true;
#endif
}

// ---------------------------------------------------------------------------- spec parser (as h_codec.cpp)
struct Parser
{
	const std::string& s;
	size_t i;
	explicit Parser(const std::string& str) : s(str), i(0) {}
	bool more() const { return i < s.size(); }
	char peek() const { return i < s.size() ? s[i] : 0; }
	unsigned number()
	{
		unsigned v(0);
		if (!isdigit(peek())) throw std::runtime_error("spec: number expected");
		while (isdigit(peek())) v = v * 10 + (s[i++] - '0');
		return v;
	}
	std::string hexval()
	{
		if (peek() == '-') { ++i; return std::string(); }
		size_t j(i);
		while (isxdigit(peek())) ++i;
		return unhex(s.substr(j, i - j));
	}
};

// A value text "~<digit p>~<decimal text>" on a floating point field (Price, Qty, Amt, PriceOffset,
// Percentage: every Field<fp_type, N>) asks for the API-built object Field<fp_type, N>(value, p):
// the generic instantiator builds the field from the decimal text (_value = fast_atof(text), as the
// (value, precision) constructor would be given) and its precision is then set with the class's own
// set_precision().  set_precision is not virtual: it is reached through Field<fp_type, 0>, whose
// layout every Field<fp_type, N> shares -- the same cast fix8 itself uses in has_group_count().
// On any other field the text is taken literally.
BaseField *make_field(unsigned short fnum, const std::string& val)
{
	if (val.size() >= 3 && val[0] == '~' && val[2] == '~' && isdigit(static_cast<unsigned char>(val[1])))
	{
		BaseField *probe(mctx().create_field(fnum, val.c_str() + 3));
		if (probe && probe->get_underlying_type() == FieldTrait::ft_float)
		{
			static_cast<Field<fp_type, 0> *>(probe)->set_precision(val[1] - '0');
			return probe;
		}
		delete probe;
	}
	return mctx().create_field(fnum, val.c_str());
}

void fill(Parser& p, MessageBase *mb, GroupBase *owner_gb)
{
	while (p.more() && p.peek() != ')')
	{
		const unsigned fnum(p.number());
		if (p.peek() != '=') throw std::runtime_error("spec: = expected");
		++p.i;
		const std::string val(p.hexval());
		BaseField *bf(make_field(static_cast<unsigned short>(fnum), val));
		if (!bf) throw std::runtime_error("spec: no such field");
		mb->add_field(bf);
		if (p.peek() == '[')
		{
			++p.i;
			GroupBase *gb(mb->find_add_group(static_cast<unsigned short>(fnum), owner_gb));
			if (!gb) throw InvalidRepeatingGroup(fnum);
			while (p.peek() == '(')
			{
				++p.i;
				MessageBase *el(gb->create_group(true));
				gb->add(el);
				fill(p, el, gb);
				if (p.peek() != ')') throw std::runtime_error("spec: ) expected");
				++p.i;
			}
			if (p.peek() != ']') throw std::runtime_error("spec: ] expected");
			++p.i;
		}
		if (p.peek() == ',') ++p.i;
	}
}

Message *build(const std::string& spec)
{
	const std::vector<std::string> parts(split(spec, ';'));
	if (parts.size() != 4) throw std::runtime_error("spec: 4 parts expected");
	Message *msg(mctx().create_msg(parts[0].c_str()));
	if (!msg) throw std::runtime_error("spec: unknown msgtype");
	std::unique_ptr<Message> guard(msg);
	{ Parser p(parts[1]); fill(p, msg->Header(), nullptr); }
	{ Parser p(parts[2]); fill(p, msg, nullptr); }
	{ Parser p(parts[3]); fill(p, msg->Trailer(), nullptr); }
	return guard.release();
}

// ---------------------------------------------------------------------------- dump (as h_codec.cpp)
void dump_mb(std::ostream& os, const MessageBase *mb)
{
	os << "{p:";
	bool first(true);
	for (const auto& pp : mb->get_positions())
	{
		os << (first ? "" : ",") << pp.first << ':' << pp.second->get_tag() << '=' << tohex(codec_meta::printed(pp.second));
		first = false;
	}
	os << ";f:";
	first = true;
	for (Fields::const_iterator itr(mb->fields_begin()); itr != mb->fields_end(); ++itr)
	{
		os << (first ? "" : ",") << itr->first << '=' << (itr->second ? tohex(codec_meta::printed(itr->second)) : std::string("null"));
		first = false;
	}
	os << ";g:";
	first = true;
	Groups& grps(const_cast<MessageBase *>(mb)->get_groups());
	for (const auto& gg : grps)
	{
		os << (first ? "" : ",") << gg.first << '[';
		if (gg.second)
			for (size_t k(0); k < gg.second->size(); ++k)
				dump_mb(os, gg.second->get_element(static_cast<unsigned>(k)));
		else
			os << "null";
		os << ']';
		first = false;
	}
	os << ";u:" << tohex(mb->get_unknown()) << ";pr:";
	const Presence& pr(mb->get_fp().get_presence());
	first = true;
	for (Presence::const_iterator itr(pr.begin()); itr != pr.end(); ++itr)
		if (itr->_field_traits.has(FieldTrait::present)) { os << (first ? "" : ",") << itr->_fnum; first = false; }
	os << ";su:";
	first = true;
	for (Presence::const_iterator itr(pr.begin()); itr != pr.end(); ++itr)
		if (itr->_field_traits.has(FieldTrait::suppress)) { os << (first ? "" : ",") << itr->_fnum; first = false; }
	os << '}';
}

std::string dump_msg(const Message *msg)
{
	std::ostringstream os;
	os << "T=" << msg->get_msgtype() << " H";
	dump_mb(os, msg->Header());
	os << " B";
	dump_mb(os, msg);
	os << " T";
	dump_mb(os, msg->Trailer());
	return os.str();
}

std::string enc(Message *msg)
{
	f8String out;
	msg->encode(out);
	return tohex(out);
}

template<typename F>
bool stage(std::ostream& os, F f)
{
	try
	{
		f();
		return true;
	}
	catch (DuplicateField& e) { os << "EXC DuplicateField " << e._tagid; }
	catch (UnknownField& e) { os << "EXC UnknownField " << e._tagid; }
	catch (InvalidField& e) { os << "EXC InvalidField " << e._tagid; }
	catch (MissingRepeatingGroupField& e) { os << "EXC MissingRepeatingGroupField " << e._tagid; }
	catch (InvalidRepeatingGroup& e) { os << "EXC InvalidRepeatingGroup " << e._tagid; }
	catch (BadCheckSum& e) { os << "EXC BadCheckSum " << e._chkval; }
	catch (MissingMessageComponent&) { os << "EXC MissingMessageComponent"; }
	catch (MissingMandatoryField& e)
	{
		const std::string w(e.what());
		const size_t a(w.rfind('(')), b(w.rfind(')'));
		if (e._tagid)
			os << "EXC MissingMandatoryField " << e._tagid;
		else if (a != std::string::npos && b != std::string::npos && b > a)
			os << "EXC MissingMandatoryField " << w.substr(a + 1, b - a - 1);
		else
			os << "EXC MissingMandatoryField fixedwidth";
	}
	catch (InvalidMessage&) { os << "EXC InvalidMessage"; }
	catch (f8Exception& e) { os << "EXC f8Exception " << (std::string(e.what()) == "Value size too large" ? "ValueTooLarge" : "other"); }
	catch (std::runtime_error& e) { os << "BAD-CASE " << e.what(); }
	catch (std::exception& e) { os << "EXC std::exception"; }
	return false;
}

struct Mode { bool permissive, no_chksum; };
Mode parse_mode(const std::string& m)
{
	Mode r{false, false};
	for (char c : m) { if (c == 'p') r.permissive = true; if (c == 'n') r.no_chksum = true; }
	return r;
}

void enc_stage(std::ostream& os, Message *msg)
{
	std::string h;
	if (stage(os, [&] { h = enc(msg); }))
		os << "OK " << h;
}

void run_case(const std::string& line0, std::ostream& os)
{
	// SEQ <case> || <case> || ...: the operations run one after the other in this process, on this
	// thread (results joined by " || "): state kept between calls inside fix8 would show here
	if (line0.compare(0, 4, "SEQ ") == 0)
	{
		size_t i(4);
		bool first(true);
		while (i <= line0.size())
		{
			size_t j(line0.find(" || ", i));
			if (j == std::string::npos) j = line0.size();
			if (!first) os << " || ";
			first = false;
			run_case(line0.substr(i, j - i), os);
			i = j + 4;
		}
		return;
	}
	std::string line(line0);
	select_schema("utest");
	if (!line.empty() && line[0] == '@')
	{
		const size_t sp(line.find(' '));
		const std::string name(line.substr(1, sp == std::string::npos ? std::string::npos : sp - 1));
		if (!select_schema(name))
		{
			os << "BAD-CASE schema not linked";
			return;
		}
		line = sp == std::string::npos ? std::string() : line.substr(sp + 1);
	}
	std::istringstream is(line);
	std::string op, a1, a2;
	is >> op >> a1 >> a2;
	if (op == "RENDER")
	{
		// RENDER <fnum> <hex text>: print() of a fresh field made by make_field (no copy involved)
		std::string h;
		if (stage(os, [&] {
				std::unique_ptr<BaseField> bf(make_field(static_cast<unsigned short>(atoi(a1.c_str())), unhex(a2)));
				if (!bf) throw std::runtime_error("no such field");
				h = tohex(codec_meta::printed(bf.get())); }))
			os << "OK " << h;
		return;
	}
	const bool decoded(!op.empty() && op[0] == 'D');
	std::string what(decoded ? op.substr(1) : op);
	// SCOPY / SMOVE: the target is SHALLOW-constructed (create_msg(type, false)): its body has no
	// pre-created group objects, so move_legal takes its "*to += group" branch
	const bool shallow(what == "SCOPY" || what == "SMOVE");
	if (shallow)
		what = what.substr(1);
	if (what != "CLONE" && what != "COPY" && what != "MOVE")
	{
		os << "BAD-CASE unknown op";
		return;
	}
	const Mode md(parse_mode(a1));
	const std::string bytes(decoded ? unhex(a2) : std::string());
	auto make_source = [&]() -> Message * {
		return decoded ? Message::factory(mctx(), bytes, md.no_chksum, md.permissive) : build(a1);
	};

	std::unique_ptr<Message> src, tgt, ref;
	std::string d;
	if (!stage(os, [&] { src.reset(make_source()); d = dump_msg(src.get()); }))
		return;
	os << "OK " << d << " | ";

	if (what == "CLONE")
	{
		if (!stage(os, [&] { tgt.reset(src->clone()); d = dump_msg(tgt.get()); }))
			return;
		os << "OK " << d << " | ";
		enc_stage(os, tgt.get());
		os << " | ";
		enc_stage(os, src.get());
		return;
	}

	unsigned nb(0), nh(0), nt(0);
	if (!stage(os, [&] {
			tgt.reset(mctx().create_msg(src->get_msgtype().c_str(), !shallow));
			if (what == "COPY")
			{
				nb = src->copy_legal(tgt.get());
				nh = src->Header()->copy_legal(tgt->Header());
				nt = src->Trailer()->copy_legal(tgt->Trailer());
			}
			else
			{
				ref.reset(make_source());
				nb = src->move_legal(tgt.get());
				nh = src->Header()->move_legal(tgt->Header());
				nt = src->Trailer()->move_legal(tgt->Trailer());
			}
			d = dump_msg(tgt.get()); }))
		return;
	os << "OK " << nb << ' ' << nh << ' ' << nt << ' ' << d << " | ";
	if (!stage(os, [&] { d = dump_msg(src.get()); }))
		return;
	os << "OK " << d << " | ";
	if (what == "MOVE")
		src.reset();	// "Source message is invalidated (but can be deleted)"
	enc_stage(os, tgt.get());
	os << " | ";
	enc_stage(os, what == "COPY" ? src.get() : ref.get());
}

} // namespace

int main(int argc, char **argv)
{
	if (argc > 1 && std::string(argv[1]) == "--meta")
	{
		codec_meta::dump(mctx(), std::cout);
		return 0;
	}
	std::string line;
	while (std::getline(std::cin, line))
	{
		std::ostringstream os;
		run_case(line, os);
		std::cout << os.str() << std::endl;
	}
	return 0;
}
