// Virtual clock for the /verif harnesses.
//
// Linking vclock.cpp into a harness executable interposes clock_gettime / gettimeofday / time
// (every clock id) so that libstdc++'s std::chrono clocks -- hence FIX8::Tickval(true),
// Tickval::now(), sending_time's default constructor, Session::heartbeat_service,
// Schedule::test, Timer -- read a clock that only the harness moves.  nanosleep and
// clock_nanosleep are interposed as well: they sleep the requested time in REAL time, capped at
// 200 us, so that Session::stop() (250 ms) and ~Session() (1 s) cost nothing and threads that
// poll with hypersleep do not spin.  Nothing in /repo is changed.
//
// The virtual time is a process-wide atomic; it does not advance by itself.
#pragma once
#include <cstdint>

extern "C" {
// set / read the virtual time in nanoseconds since the Unix epoch
void vclock_set(int64_t ns);
int64_t vclock_get();
// sleep a real interval (microseconds), bypassing the interposed functions
void vclock_real_sleep_us(unsigned us);
// real monotonic time in nanoseconds (for harness-side timeouts)
int64_t vclock_real_ns();
// real wall-clock time (CLOCK_REALTIME) in nanoseconds, for absolute pthread deadlines
int64_t vclock_real_wall_ns();
}

// default start of the virtual time: 2026-09-22 00:00:00 UTC
static const int64_t VCLOCK_T0 = 1790035200LL * 1000000000LL;
