// C15 harness: the REAL FIX8::FIXReader (threaded process model, FIXReader::execute -> read ->
// sockRead -> MessageBase::extract_element / fast_atoi) on the in-memory Poco socket of vsock.hpp.
//
// case  : "<closed 0|1> <mode 0|1> <hex chunk>,<hex chunk>,..."      ("-" = no chunk at all)
//           closed = the peer closes the connection after the last chunk (reader sees EOF)
//           mode 0 = all chunks are queued before the reader thread starts
//           mode 1 = one chunk at a time: the next chunk is queued only when the reader thread is
//                    blocked in receiveBytes() on an empty socket (exercises the blocking path)
//         One receiveBytes() call never returns bytes of more than one chunk.
// result: "D <hex>,<hex>,...|<END>"      D - = nothing handed to Session::process
//           the byte strings handed to Session::process (recorded BEFORE any decoding: the
//           Session subclass below only records and returns true), in order, and how the reader
//           ended:  WAIT                      blocked in receiveBytes, nothing left, peer still there
//                   PEERRESET                 PeerResetConnection (EOF)
//                   ILLEGAL <hex text>        IllegalMessage; text = what() without the FILE_LINE suffix
//                   BADVERSION <hex text>     InvalidVersion
//                   BADLEN <n>                InvalidBodyLength
//                   OTHER <hex of what()>     anything else the reader logged as an error
//         The kind of exception is taken from what FIXReader::execute itself reports
//         (scout_error << e.what()) through a recording Logger attached to the session; what() is
//         a C string, so the texts end at their first NUL byte.
//         A memory error kills the process (ASan); the framework records CRASH for that case.
// One FIXReader + socket per case; the recording session, its logger and the thread that runs the
// reader's thread function (FIXReader::operator()()) live for the whole run (see ReaderThread).
// No fix8 logger is given a device or shared path (global logger: verif_logfile()).
#include "hcommon.hpp"
#include "vclock.hpp"
#include "vsock.hpp"
#include <fix8/f8includes.hpp>
#include "utest_types.hpp"
#include "utest_router.hpp"
#include "utest_classes.hpp"
#include <mutex>
#include <thread>
#include <condition_variable>

using namespace FIX8;

// ---------------------------------------------------------------------------------------------
struct Recorder
{
	std::mutex m;
	std::vector<std::string> delivered;            // arguments of Session::process
	std::vector<std::pair<int, std::string>> log;  // (level, text) of every session log line
};

/// session logger: keeps the raw text of every line (no formatting, no file)
class RecLogger : public Logger
{
	Recorder& _rec;

public:
	explicit RecLogger(Recorder& rec) : Logger(LogFlags(), Levels(All)), _rec(rec) {}
	~RecLogger() override { stop(); }
	void process_logline(LogElement *le) override
	{
		std::lock_guard<std::mutex> g(_rec.m);
		_rec.log.push_back({static_cast<int>(le->_level), le->_str});
	}
};

/// the narrowest interception point: Session::process(const f8String&) is what FIXReader::execute
/// calls in pm_thread; it is virtual.  Nothing is decoded here.
class RecSession : public Session
{
	Recorder& _rec;

public:
	RecSession(const F8MetaCntx& ctx, const SessionID& sid, Logger *logger, Recorder& rec)
		: Session(ctx, sid, nullptr, logger, nullptr), _rec(rec)
	{
		_timer.clear(); _timer.stop(); _timer.join();
	}
	bool handle_application(const unsigned, const Message *&) override { return true; }
	bool process(const f8String& from) override
	{
		std::lock_guard<std::mutex> g(_rec.m);
		_rec.delivered.push_back(from);
		return true;
	}
};

// ---------------------------------------------------------------------------------------------
static bool starts_with(const std::string& s, const char *p) { return s.compare(0, strlen(p), p) == 0; }

static std::string classify(const std::string& what)
{
	static const char *ill = "Illegal FIX Message: ", *ver = "Invalid FIX Version: ",
		*len = "Invalid BodyLength: ", *peer = "Peer reset connection: ";
	if (starts_with(what, ill))
	{
		std::string t(what.substr(strlen(ill)));
		const size_t at(t.rfind(" at: "));        // FILE_LINE of the tree under test: dropped
		if (at != std::string::npos)
			t.erase(at);
		return "ILLEGAL " + tohex(t);
	}
	if (starts_with(what, ver))
		return "BADVERSION " + tohex(what.substr(strlen(ver)));
	if (starts_with(what, len))
		return "BADLEN " + what.substr(strlen(len));
	if (starts_with(what, peer))
		return "PEERRESET";
	return "OTHER " + tohex(what);
}

// ---------------------------------------------------------------------------------------------
/// The reader thread.  fix8 starts one thread per FIXReader whose body is FIXReader::operator()()
/// (= execute(_cancellation_token)).  Creating a thread per case costs ~30 ms here (FastFlow sets
/// up a per-thread allocator at the first log line), so ONE thread lives for the whole run and
/// calls that same thread function for the reader of each case.
class ReaderThread
{
	std::mutex _m;
	std::condition_variable _cv;
	FIXReader *_job = nullptr;
	bool _done = true, _quit = false;
	int _ret = 0;
	std::thread _th;

	void loop()
	{
		std::unique_lock<std::mutex> lk(_m);
		for (;;)
		{
			_cv.wait(lk, [this] { return _job || _quit; });
			if (_quit)
				return;
			FIXReader *r(_job);
			_job = nullptr;
			lk.unlock();
			const int ret((*r)());          // FIXReader::operator()() -> execute() -> read() ...
			lk.lock();
			_ret = ret;
			_done = true;
		}
	}

public:
	ReaderThread() : _th([this] { loop(); }) {}
	~ReaderThread()
	{
		{ std::lock_guard<std::mutex> g(_m); _quit = true; }
		_cv.notify_all();
		_th.join();
	}
	void run(FIXReader& r)
	{
		{ std::lock_guard<std::mutex> g(_m); _job = &r; _done = false; }
		_cv.notify_all();
	}
	bool done() { std::lock_guard<std::mutex> g(_m); return _done; }
	int ret() { std::lock_guard<std::mutex> g(_m); return _ret; }
};

struct Harness
{
	Recorder rec;
	RecLogger logger;
	RecSession ss;
	ReaderThread th;

	Harness() : logger(rec), ss(UTEST::ctx(), SessionID(UTEST::ctx()._beginStr, "CLI", "SRV"), &logger, rec) {}

	/// wait until the log line that FIXReader::execute writes last has reached the recorder
	bool wait_final_logline(int64_t t0)
	{
		for (;;)
		{
			{
				std::lock_guard<std::mutex> g(rec.m);
				for (const auto& l : rec.log)
					if (starts_with(l.second, "FIXReader: "))
						return true;
			}
			vclock_real_sleep_us(20);
			if (vclock_real_ns() - t0 > 15000000000LL)
				return false;
		}
	}

	std::string run_case(const std::string& line)
	{
		const std::vector<std::string> tok(split(line, ' '));
		if (tok.size() != 3)
			return "BAD-CASE";
		const bool closed(tok[0] == "1"), stepwise(tok[1] == "1");
		std::vector<std::string> chunks;
		if (tok[2] != "-")
			for (const auto& h : split(tok[2], ','))
				chunks.push_back(unhex(h));

		vclock_set(VCLOCK_T0);
		{
			std::lock_guard<std::mutex> g(rec.m);
			rec.delivered.clear();
			rec.log.clear();
		}
		// the session is only the sink of the reader: put it back into its initial state
		// (a reader error leaves it in st_session_terminated, which would stop the next reader at once)
		ss.do_state_change(States::st_none);

		std::string result;
		VSockImpl *impl(new VSockImpl);
		impl->duplicate();
		Poco::Net::StreamSocket *sock(new Poco::Net::StreamSocket(impl));
		{
			FIXReader reader(sock, ss, pm_thread);
			const int64_t t0(vclock_real_ns());
			bool stuck(false);
			auto wait_until = [&](bool also_idle)
			{
				while (!th.done() && !(also_idle && impl->idle()))
				{
					vclock_real_sleep_us(20);
					if (vclock_real_ns() - t0 > 15000000000LL) { stuck = true; break; }
				}
			};
			if (!stepwise)
			{
				for (const auto& c : chunks)
					impl->push_in(c);
				if (closed)
					impl->peer_close();
				th.run(reader);
				wait_until(true);
			}
			else
			{
				th.run(reader);
				wait_until(true);
				for (const auto& c : chunks)
				{
					if (th.done() || stuck)
						break;                        // the reader has left its loop: nobody reads any more
					impl->push_in(c);
					wait_until(true);
				}
				if (closed && !th.done() && !stuck)
				{
					impl->peer_close();               // EOF: the reader must leave its loop
					wait_until(false);
				}
			}
			std::string end;
			const bool finished(th.done());
			if (stuck)
				end = "NOTQUIET";
			else if (!finished)
				end = "WAIT";
			else
			{
				const bool ok(wait_final_logline(t0));
				std::lock_guard<std::mutex> g(rec.m);
				for (const auto& l : rec.log)
					if (l.first == Logger::Error && end.empty())
						end = classify(l.second);
				if (end.empty())
					end = ok ? "STOPPED" : "NOLOG";
			}
			{
				std::lock_guard<std::mutex> g(rec.m);
				result = "D ";
				if (rec.delivered.empty())
					result += "-";
				for (size_t i(0); i < rec.delivered.size(); ++i)
				{
					if (i) result += ',';
					result += tohex(rec.delivered[i]);
				}
				result += "|" + end;
			}
			if (!finished)
			{
				// let the blocked reader leave (EOF) and drain what it logs on the way out
				impl->peer_close();
				while (!th.done())
					vclock_real_sleep_us(20);
				wait_final_logline(vclock_real_ns());
			}
		}
		delete sock;
		impl->release();
		return result;
	}
};

int main()
{
	GlobalLogger::set_global_filename(verif_logfile());
	GlobalLogger::set_levels(Logger::Levels());
	Harness h;
	std::string line;
	while (std::getline(std::cin, line))
		std::cout << h.run_case(line) << std::endl;
	return 0;
}
