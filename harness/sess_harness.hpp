// Session harness shared by C16..C23 and C25 (see coq/Sess/READY.md for the full description).
//
// One case line = one HISTORY: operations separated by '|', tokens inside an operation by ' '.
// The harness runs the history against a REAL FIX8::Session (subclass HSession below: recording
// handle_application in the canonical `enforce(seqnum,msg) || msg->process(router)` form) over the
// REAL ClientConnection/ServerConnection + FIXReader + FIXWriter on an in-memory Poco socket
// (vsock.hpp), the UTEST schema (FIX8::UTEST::ctx()), a Memory/File/no persister and the virtual
// clock (vclock.hpp).  The timer thread is stopped in the constructor (as utests/session_test.cpp
// does), so heartbeat_service runs only when the history says TICK.
//
// Operations
//   START <I|A> <mem|file|none> [k=v ...]   create session + connection and Session::start(conn,false,ss,rs)
//        keys: sid=<sender>:<target> (default I: CLI:SRV, A: SRV:CLI; the acceptor's sci is <sender>)
//              asa=0|1 always_seqnum_assign (default 0; ALWAYS set explicitly, F23)   ec=0|1 enforce_compids (1)
//              sd=0|1 silent_disconnect (0)   rsn=0|1 reset_sequence_numbers (0)   hb=<secs> (30)
//              pm=thread|coro (thread)   ss=<n> rs=<n> send/recv seqnum arguments of start (0)
//              t=<ns> set the virtual clock first    clients=<id,id,...> LoginParameters::_clients (empty)
//   IN <hex>[,<hex>...]     queue the chunks on the socket; wait until the real reader thread has consumed and
//                           processed everything (pm_coro: call reader_execute until nothing is pending)
//   SEND <msgspec>          Session::send(Message*, true, custom, no_increment)
//   BATCH <msgspec;...>     Session::send_batch(vector, true)
//   TICK <ns>               virtual clock := ns; heartbeat_service()
//   CLOCK <ns>              virtual clock := ns
//   RESTART                 stop + destroy session/connection/persister object, then START again with the same
//                           parameters (file persister: same files; mem: a new empty one)
//   STOP                    Session::stop()
//   PEERCLOSE               the counterparty closes the connection (reader sees EOF)
//   msgspec = <msgtype>[/H<tag>=<hex>,...][/B<tag>=<hex>,...][/c<custom_seqnum>][/n]
//             H = header fields, B = body fields (values hex, built with F8MetaCntx::create_field), /n = no_increment
// Events (chronological within an operation, then the snapshot), joined by ';', operations joined by ' | '
//   OUT <hex>               one FIX message written to the socket (a sendBytes buffer is split on BodyLength framing;
//                           OUTRAW <hex> if it cannot be framed)
//   DELIVER <msgtype> <seq> <possdup 0|1>    handle_application passed enforce: router call
//   RET <n>                 return value of process (per inbound message) / send / send_batch / heartbeat_service / start
//   EXC <class>             exception escaping the operation
//   snapshot:  STATE <n>;SEQ <next_send> <next_recv>;CTRL <a> <b> | CTRL -;STORE <seq> <hex|-|GONE> ...
//              (STORE lists only entries that differ from the previous snapshot; CTRL - = no control record
//               readable, no persister, or MemoryPersister whose control get is F30 garbage)
#pragma once
#include "hcommon.hpp"
#include "vclock.hpp"
#include "vsock.hpp"
#include <fix8/f8includes.hpp>
#include "utest_types.hpp"
#include "utest_router.hpp"
#include "utest_classes.hpp"
#include <map>
#include <set>
#include <memory>
#include <mutex>
#include <sys/stat.h>
#include <dirent.h>
#include <unistd.h>
#include <sched.h>

namespace vsess {

using namespace FIX8;

// ---------------------------------------------------------------------------------------------
struct EventLog
{
	std::mutex m;
	std::vector<std::string> ev;
	void add(const std::string& s) { std::lock_guard<std::mutex> g(m); ev.push_back(s); }
	std::string take()
	{
		std::lock_guard<std::mutex> g(m);
		std::string r;
		for (size_t i(0); i < ev.size(); ++i) { if (i) r += ';'; r += ev[i]; }
		ev.clear();
		return r;
	}
};

// split one sendBytes buffer into FIX messages using the BodyLength framing
static inline void split_fix(const std::string& buf, std::vector<std::string>& msgs, std::string& rest)
{
	size_t p(0);
	while (p < buf.size())
	{
		if (buf.compare(p, 2, "8=") != 0) break;
		const size_t s1(buf.find('\x01', p));
		if (s1 == std::string::npos || buf.compare(s1 + 1, 2, "9=") != 0) break;
		const size_t s2(buf.find('\x01', s1 + 1));
		if (s2 == std::string::npos) break;
		size_t n(0);
		bool ok(s2 > s1 + 3);
		for (size_t i(s1 + 3); i < s2; ++i) { if (buf[i] < '0' || buf[i] > '9') { ok = false; break; } n = n * 10 + (buf[i] - '0'); if (n > 1000000) { ok = false; break; } }
		if (!ok) break;
		const size_t end(s2 + 1 + n + 7);
		if (end > buf.size() || buf.compare(s2 + 1 + n, 3, "10=") != 0 || buf[end - 1] != '\x01') break;
		msgs.push_back(buf.substr(p, end - p));
		p = end;
	}
	rest = buf.substr(p);
}

// ---------------------------------------------------------------------------------------------
/// Saves the file positions of every descriptor this process holds on files under `dir` and restores them
/// on destruction.  The snapshot reads the stored records back through the session's OWN FilePersister
/// (Persister::get(seq) lseeks its data descriptor); without this guard the read-back would leave that
/// descriptor somewhere else than fix8 left it and so repair -- or break -- the persister's state behind
/// fix8's back (a put() that relied on the current position would go unnoticed).
class FdPosGuard
{
	std::vector<std::pair<int, off_t>> _saved;
public:
	explicit FdPosGuard(const std::string& dir)
	{
		if (dir.empty())
			return;
		if (DIR *dp = opendir("/proc/self/fd"))
		{
			const int self(dirfd(dp));
			while (dirent *de = readdir(dp))
			{
				if (de->d_name[0] < '0' || de->d_name[0] > '9') continue;
				const int fd(atoi(de->d_name));
				if (fd == self) continue;
				char buf[4096];
				const std::string lnk(std::string("/proc/self/fd/") + de->d_name);
				const ssize_t n(readlink(lnk.c_str(), buf, sizeof(buf) - 1));
				if (n <= 0) continue;
				buf[n] = 0;
				if (strncmp(buf, dir.c_str(), dir.size()) == 0 && buf[dir.size()] == '/')
				{
					const off_t pos(lseek(fd, 0, SEEK_CUR));
					if (pos >= 0)
						_saved.push_back(std::make_pair(fd, pos));
				}
			}
			closedir(dp);
		}
	}
	~FdPosGuard()
	{
		for (const auto& fp : _saved)
			lseek(fp.first, fp.second, SEEK_SET);
	}
	size_t count() const { return _saved.size(); }
};

// ---------------------------------------------------------------------------------------------
/// application router of the harness: three application types are "handled" (return true)
class HRouter : public UTEST::utest_Router
{
public:
	bool operator() (const UTEST::NewOrderSingle *) const override { return true; }
	bool operator() (const UTEST::ExecutionReport *) const override { return true; }
	bool operator() (const UTEST::OrderCancelRequest *) const override { return true; }
};

// ---------------------------------------------------------------------------------------------
class HSession : public Session
{
	HRouter _router;
	EventLog& _log;

	void neutralise_timer() { _timer.clear(); _timer.stop(); _timer.join(); }

public:
	HSession(const F8MetaCntx& ctx, const SessionID& sid, Persister *persist, EventLog& log)
		: Session(ctx, sid, persist, nullptr, nullptr), _log(log) { neutralise_timer(); }
	HSession(const F8MetaCntx& ctx, const sender_comp_id& sci, Persister *persist, EventLog& log)
		: Session(ctx, sci, persist, nullptr, nullptr), _log(log) { neutralise_timer(); }

	bool handle_application(const unsigned seqnum, const Message *&msg) override
	{
		// == return enforce(seqnum, msg) || msg->process(_router);   with the delivery recorded
		if (enforce(seqnum, msg))
			return true;
		poss_dup_flag pdf(false);
		msg->Header()->get(pdf);
		std::ostringstream os;
		os << "DELIVER " << msg->get_msgtype() << ' ' << seqnum << ' ' << (pdf() ? 1 : 0);
		_log.add(os.str());
		return msg->process(_router);
	}

	bool process(const f8String& from) override
	{
		const bool r(Session::process(from));
		_log.add(r ? "RET 1" : "RET 0");
		return r;
	}

	bool tick() { return heartbeat_service(); }
	int state() const { return static_cast<int>(static_cast<States::SessionStates>(_state)); }
	unsigned next_send() const { return _next_send_seq; }
	unsigned next_recv() const { return _next_receive_seq; }
	bool active() const { return _active; }
	Persister *persister() { return _persist; }
	const std::string& batch_buffer() const { return _batchmsgs_buffer; }
};

struct HClientConn : ClientConnection
{
	HClientConn(Poco::Net::StreamSocket *sock, Poco::Net::SocketAddress& addr, Session& s, unsigned hb, ProcessModel pm)
		: ClientConnection(sock, addr, s, hb, pm, true, false) {}
	bool reader_started() { return _reader.started(); }
};
struct HServerConn : ServerConnection
{
	HServerConn(Poco::Net::StreamSocket *sock, Poco::Net::SocketAddress& addr, Session& s, unsigned hb, ProcessModel pm)
		: ServerConnection(sock, addr, s, hb, pm) {}
	bool reader_started() { return _reader.started(); }
};

// ---------------------------------------------------------------------------------------------
struct Params
{
	char role = 'I';
	std::string persist = "mem";
	std::string sender, target;
	bool asa = false, ec = true, sd = false, rsn = false;
	unsigned hb = 30, ss = 0, rs = 0;
	ProcessModel pm = pm_thread;
	std::vector<std::string> clients;
};

class SessHarness
{
protected:
	EventLog _log;
	Params _p;
	HSession *_ss = nullptr;
	Connection *_conn = nullptr;
	HClientConn *_cconn = nullptr;
	HServerConn *_sconn = nullptr;
	Poco::Net::StreamSocket *_sock = nullptr;
	VSockImpl *_impl = nullptr;
	Persister *_per = nullptr;
	std::string _dir;                              // directory of the file persister (per case)
	std::map<unsigned, std::string> _snap;         // last STORE snapshot
	std::set<unsigned> _cand;                      // sequence numbers that may have been used as store keys
	unsigned _ns_before = 0;                       // next_send before the current operation
	std::string _tmp_root;
	unsigned long _case_no = 0;

public:
	explicit SessHarness(const std::string& tmp_root) : _tmp_root(tmp_root)
	{
		// global logger: no file, nothing logged
		GlobalLogger::set_global_filename(verif_logfile());
		GlobalLogger::set_levels(Logger::Levels());
		GlobalLogger::stop();       // its thread polls every 200 us; nothing is loggable anyway
		mkdir(_tmp_root.c_str(), 0700);
	}
	virtual ~SessHarness() { teardown(); rmtree(_tmp_root); }

	HSession *session() { return _ss; }
	VSockImpl *sock() { return _impl; }
	EventLog& log() { return _log; }

	/// hook for derived harnesses: return true if the operation was handled
	virtual bool custom_op(const std::vector<std::string>&) { return false; }

	std::string run_case(const std::string& line)
	{
		++_case_no;
		_snap.clear();
		_cand.clear();
		_dir.clear();
		vclock_set(VCLOCK_T0);
		std::string result;
		const std::vector<std::string> ops(split(line, '|'));
		for (size_t i(0); i < ops.size(); ++i)
		{
			std::vector<std::string> toks;
			for (const auto& t : split(ops[i], ' ')) if (!t.empty()) toks.push_back(t);
			if (i) result += " | ";
			if (toks.empty()) { result += "EMPTY"; continue; }
			_ns_before = _ss ? _ss->next_send() : 0;
			try
			{
				run_op(toks);
			}
			catch (f8Exception& e) { _log.add(std::string("EXC f8Exception")); }
			catch (Poco::Exception& e) { _log.add(std::string("EXC Poco::") + e.name()); }
			catch (std::exception& e) { _log.add("EXC std::exception"); }
			const std::string evs(_log.take()), snap(snapshot());
			result += evs;
			if (!evs.empty() && !snap.empty()) result += ';';
			result += snap;
		}
		teardown();
		if (!_dir.empty()) rmtree(_dir);
		return result;
	}

protected:
	static void rmtree(const std::string& d)
	{
		if (DIR *dp = opendir(d.c_str()))
		{
			while (dirent *de = readdir(dp))
			{
				const std::string n(de->d_name);
				if (n == "." || n == "..") continue;
				const std::string p(d + "/" + n);
				struct stat st;
				if (!lstat(p.c_str(), &st) && S_ISDIR(st.st_mode)) rmtree(p); else unlink(p.c_str());
			}
			closedir(dp);
		}
		rmdir(d.c_str());
	}

	void run_op(const std::vector<std::string>& t)
	{
		const std::string& op(t[0]);
		if (op == "START") { parse_params(t); start(); }
		else if (op == "RESTART") { teardown(); start(); }
		else if (op == "CLOCK") { vclock_set(std::stoll(t.at(1))); }
		else if (custom_op(t)) {}
		else if (!_ss) { _log.add("NOSESSION"); }
		else if (op == "IN") { op_in(t.at(1)); }
		else if (op == "SEND")
		{
			unsigned custom(0); bool noinc(false);
			Message *m(build(t.at(1), custom, noinc));
			const bool r(_ss->send(m, true, custom, noinc));
			_log.add(r ? "RET 1" : "RET 0");
		}
		else if (op == "BATCH")
		{
			std::vector<Message *> v;
			for (const auto& s : split(t.at(1), ';'))
			{
				unsigned custom(0); bool noinc(false);
				Message *m(build(s, custom, noinc));
				if (custom) m->set_custom_seqnum(custom);
				if (noinc) m->set_no_increment(true);
				v.push_back(m);
			}
			const size_t r(_ss->send_batch(v, true));
			_log.add("RET " + std::to_string(r));
		}
		else if (op == "TICK")
		{
			vclock_set(std::stoll(t.at(1)));
			const bool r(_ss->tick());
			_log.add(r ? "RET 1" : "RET 0");
		}
		else if (op == "STOP") { _ss->stop(); }
		else if (op == "PEERCLOSE") { _impl->peer_close(); wait_quiet(); }
		else _log.add("BADOP");
	}

	void parse_params(const std::vector<std::string>& t)
	{
		_p = Params();
		_p.role = t.at(1).at(0);
		_p.persist = t.at(2);
		_p.sender = _p.role == 'I' ? "CLI" : "SRV";
		_p.target = _p.role == 'I' ? "SRV" : "CLI";
		for (size_t i(3); i < t.size(); ++i)
		{
			const size_t eq(t[i].find('='));
			if (eq == std::string::npos) continue;
			const std::string k(t[i].substr(0, eq)), v(t[i].substr(eq + 1));
			if (k == "sid") { const size_t c(v.find(':')); _p.sender = v.substr(0, c); _p.target = c == std::string::npos ? "" : v.substr(c + 1); }
			else if (k == "asa") _p.asa = v == "1";
			else if (k == "ec") _p.ec = v == "1";
			else if (k == "sd") _p.sd = v == "1";
			else if (k == "rsn") _p.rsn = v == "1";
			else if (k == "hb") _p.hb = static_cast<unsigned>(std::stoul(v));
			else if (k == "ss") _p.ss = static_cast<unsigned>(std::stoul(v));
			else if (k == "rs") _p.rs = static_cast<unsigned>(std::stoul(v));
			else if (k == "pm") _p.pm = v == "coro" ? pm_coro : v == "pipeline" ? pm_pipeline : pm_thread;
			else if (k == "t") vclock_set(std::stoll(v));
			else if (k == "clients") { for (const auto& c : split(v, ',')) if (!c.empty()) _p.clients.push_back(c); }
		}
	}

	virtual void start()
	{
		// persister
		if (_p.persist == "mem")
		{
			_per = new MemoryPersister;
		}
		else if (_p.persist == "file")
		{
			if (_dir.empty())
			{
				_dir = _tmp_root + "/c" + std::to_string(_case_no);
				mkdir(_dir.c_str(), 0700);
			}
			FilePersister *fp(new FilePersister(0));
			if (!fp->initialise(_dir, "sess.db", false))
				_log.add("PERSIST-INIT-FAILED");
			_per = fp;
		}
		else
			_per = nullptr;

		LoginParameters lp(defaults::retry_interval, 1, default_appl_ver_id(), defaults::connect_timeout,
			_p.rsn, _p.asa, _p.sd, false, false, false, _p.ec, 0, 0, _p.hb);
		for (const auto& c : _p.clients)
			lp._clients.insert({c, Client(c, Poco::Net::IPAddress())});

		_impl = new VSockImpl;
		_impl->duplicate();
		_impl->on_write = [this](const std::string& buf)
		{
			std::vector<std::string> msgs; std::string rest;
			split_fix(buf, msgs, rest);
			for (const auto& m : msgs) _log.add("OUT " + tohex(m));
			if (!rest.empty()) _log.add("OUTRAW " + tohex(rest));
		};
		_sock = new Poco::Net::StreamSocket(_impl);
		Poco::Net::SocketAddress addr("127.0.0.1", 34567);
		if (_p.role == 'I')
		{
			_ss = new HSession(UTEST::ctx(), SessionID(UTEST::ctx()._beginStr, _p.sender, _p.target), _per, _log);
			_ss->set_login_parameters(lp);
			_cconn = new HClientConn(_sock, addr, *_ss, _p.hb, _p.pm);
			_conn = _cconn;
		}
		else
		{
			_ss = new HSession(UTEST::ctx(), sender_comp_id(_p.sender), _per, _log);
			_ss->set_login_parameters(lp);
			_sconn = new HServerConn(_sock, addr, *_ss, _p.hb, _p.pm);
			_conn = _sconn;
		}
		const int r(_ss->start(_conn, false, _p.ss, _p.rs));
		_log.add("RET " + std::to_string(r));
		wait_quiet();
	}

	bool reader_started() { return _cconn ? _cconn->reader_started() : _sconn ? _sconn->reader_started() : false; }

	/// pm_thread: wait until the reader thread is blocked on an empty socket, or has left its loop
	void wait_quiet()
	{
		if (!_conn || _p.pm != pm_thread)
			return;
		const int64_t t0(vclock_real_ns());
		while (reader_started() && !_impl->wait_idle(200))
		{
			if (vclock_real_ns() - t0 > 25000000000LL) { _log.add("NOTQUIET"); break; }
		}
	}

	void op_in(const std::string& arg)
	{
		for (const auto& h : split(arg, ','))
			_impl->push_in(unhex(h));
		if (_p.pm == pm_thread)
			wait_quiet();
		else if (_p.pm == pm_coro)
		{
			for (int guard(0); guard < 10000 && _impl->pending_in() && !_ss->is_shutdown(); ++guard)
				_conn->reader_execute();
		}
	}

	Message *build(const std::string& spec, unsigned& custom, bool& noinc)
	{
		const std::vector<std::string> parts(split(spec, '/'));
		const BaseMsgEntry *bme(UTEST::ctx()._bme.find_ptr(parts.at(0).c_str()));
		if (!bme)
			throw InvalidMetadata<f8String>(parts.at(0));
		std::unique_ptr<Message> msg(bme->_create._do(true));
		for (size_t i(1); i < parts.size(); ++i)
		{
			const std::string& p(parts[i]);
			if (p.empty()) continue;
			if (p[0] == 'c') custom = static_cast<unsigned>(std::stoul(p.substr(1)));
			else if (p[0] == 'n') noinc = true;
			else if (p[0] == 'H' || p[0] == 'B')
			{
				for (const auto& fv : split(p.substr(1), ','))
				{
					if (fv.empty()) continue;
					const size_t eq(fv.find('='));
					const unsigned short tag(static_cast<unsigned short>(std::stoul(fv.substr(0, eq))));
					const std::string val(unhex(fv.substr(eq + 1)));
					BaseField *f(UTEST::ctx().create_field(tag, val.c_str()));
					if (!f)
						throw InvalidField(tag);
					std::unique_ptr<BaseField> guard(f);
					if (p[0] == 'H') msg->Header()->add_field(f); else msg->add_field(f);
					guard.release();
				}
			}
		}
		return msg.release();
	}

	std::string snapshot()
	{
		if (!_ss)
			return "";
		std::ostringstream os;
		os << "STATE " << _ss->state() << ";SEQ " << _ss->next_send() << ' ' << _ss->next_recv();
		Persister *per(_ss->persister());
		unsigned a(0), b(0);
		if (per && _p.persist == "file" && per->get(a, b))
			os << ";CTRL " << a << ' ' << b;
		else
			os << ";CTRL -";
		if (per)
		{
			// the read-back below must not disturb the persister: file positions are put back afterwards
			FdPosGuard guard(_p.persist == "file" ? _dir : std::string());
			// Persister::put is always keyed by _next_send_seq: the keys used during this operation lie between
			// the values next_send had before and after it (it moves by increments, or by one jump when numbers
			// are recovered / re-based).  Persister offers no key enumeration and get_last_seqnum can be 2^31,
			// so only these candidates, a margin around them, the 1024 numbers below the highest stored one
			// (and all earlier candidates) are read back.  A key outside would show up as a model/harness
			// disagreement (the model prints every delta), never silently.
			std::map<unsigned, std::string> now;
			unsigned last(0);
			per->get_last_seqnum(last);
			const unsigned a(_ns_before), b(_ss->next_send());
			unsigned lo(a < b ? a : b), hi(a < b ? b : a);
			if (lo == 0) lo = hi > 64 ? hi - 64 : 1;
			if (hi - lo > 4096)
			{
				for (unsigned k(lo); k <= lo + 64; ++k) _cand.insert(k);
				lo = hi - 64;
			}
			for (unsigned k(lo > 64 ? lo - 64 : 1); k <= hi + 64; ++k) _cand.insert(k);
			// next_send may also have gone up and come back within one operation (always_seqnum_assign resend):
			// everything just below the highest stored number is a candidate too
			for (unsigned k(last > 1024 ? last - 1024 : 1); k <= last; ++k) _cand.insert(k);
			for (const unsigned s : _cand)
			{
				f8String v;
				if (s && per->get(s, v))
					now[s] = v;
			}
			std::string d;
			for (const auto& kv : now)
			{
				auto it(_snap.find(kv.first));
				if (it == _snap.end() || it->second != kv.second)
					d += ' ' + std::to_string(kv.first) + ' ' + tohex(kv.second);
			}
			for (const auto& kv : _snap)
				if (!now.count(kv.first))
					d += ' ' + std::to_string(kv.first) + " GONE";
			if (!d.empty())
				os << ";STORE" << d;
			_snap.swap(now);
		}
		return os.str();
	}

	virtual void teardown()
	{
		if (_ss)
			_ss->stop();
		delete _conn;        // joins the reader; ~Connection clears the session's pointer
		_conn = nullptr; _cconn = nullptr; _sconn = nullptr;
		delete _ss;
		_ss = nullptr;
		delete _sock;
		_sock = nullptr;
		if (_impl) { _impl->release(); _impl = nullptr; }
		delete _per;
		_per = nullptr;
		_log.take();
	}
};

/// metadata dump: positions of the fields of the header, the trailer and every message, and the admin flag
///   "V <BeginString>"; "P <part> <tag>:<pos as FieldTraits::getPos gives it>:<ftype>:<mandatory> ..." part = header | trailer | <msgtype>; "A <msgtype> <0|1>";
///   "F <tag> <field name>";
///   "E factory_empty <hex of what() thrown by Message::factory(ctx, \"\")>"
static inline void dump_meta(std::ostream& os)
{
	const F8MetaCntx& c(UTEST::ctx());
	os << "V " << c._beginStr << '\n';
	auto traits = [&os](const std::string& k, const FieldTraits& fp)
	{
		os << "P " << k;
		for (auto f(fp.get_presence().begin()); f != fp.get_presence().end(); ++f)
			os << ' ' << f->_fnum << ':' << (f->_field_traits.has(FieldTrait::position) ? f->_pos : 0) << ':' << static_cast<int>(f->_ftype) << ':' << (f->_field_traits.has(FieldTrait::mandatory) ? 1 : 0);
		os << '\n';
	};
	bool hdr_done(false);
	for (auto itr(c._bme.begin()); itr != c._bme.end(); ++itr)
	{
		const std::string k(itr->_key);
		if (k == "header" || k == "trailer")
			continue;
		std::unique_ptr<Message> m(itr->_value._create._do(true));
		if (!hdr_done)
		{
			traits("header", m->Header()->get_fp());
			traits("trailer", m->Trailer()->get_fp());
			hdr_done = true;
		}
		os << "A " << k << ' ' << (m->is_admin() ? 1 : 0) << '\n';
		traits(k, m->get_fp());
	}
	for (auto itr(c._be.begin()); itr != c._be.end(); ++itr)
		os << "F " << itr->_key << ' ' << itr->_value._name << '\n';
	// texts that carry __FILE__:__LINE__ of the tree under test: obtained from the real code
	try { std::unique_ptr<Message> m(Message::factory(c, "")); os << "E factory_empty -\n"; }
	catch (f8Exception& e) { os << "E factory_empty " << tohex(e.what()) << '\n'; }
}

} // namespace vsess
