// Shared codec harness (C01..C06, C11): drives the REAL fix8 codec on generated schema classes.
//   h_codec --meta            dump the compiled schema's metadata (see meta_dump.hpp) and exit
//   h_codec                   line protocol: one case per line on stdin, one result line each
// Case vocabulary (documented in coq/Codec/READY.md):
//   ENC <msgspec>             build through the generic API, Message::encode(f8String&); a second object is encoded with encode(char**): both must agree
//   ENC2 <msgspec>            encode the same object twice
//   DEC <mode> <hex>          Message::factory on the bytes; mode = s|p (strict/permissive) [n = no_chksum]
//   REENC <mode> <hex>        factory, then encode the decoded object
//   RT <mode> <msgspec>       build, encode, factory on the bytes, dump, encode the decoded object
//   XCOPY <msgspec A> <msgspec B>  build A, create B of B's type (deep), A->copy_legal(B), then B's own insertions, encode B -> OK <hex>
//   RENDER <fnum> <hex>       Field<T>(text).print() for the field's class -> OK <hex>
//   CLONE|COPY|MOVE <msgspec> (C11) clone / copy_legal / move_legal into a fresh deep message; dump + encode
// msgspec = <msgtype>;<hdr fields>;<body fields>;<trl fields>
//   fields = [field{,field}]   field = <fnum>=[~]<hex|->[ '[' {'(' fields ')'} ']' ]   (~ = value handed over as std::string with its length)
//   (fields are inserted in the order written; '[' ']' = find_add_group, each '(' ')' = create_group(true) + add)
#include "meta_dump.hpp"
#if __has_include("utest_types.hpp")
#include "utest_types.hpp"
#include "utest_router.hpp"
#include "utest_classes.hpp"
#define CODEC_NS FIX8::UTEST
#elif __has_include("fix44_types.hpp")
#include "fix44_types.hpp"
#include "fix44_router.hpp"
#include "fix44_classes.hpp"
#define CODEC_NS FIX8::FIX44
#else
#error "no generated schema on the include path"
#endif

using namespace FIX8;

namespace {

const F8MetaCntx& mctx() { return CODEC_NS::ctx(); }

// ---------------------------------------------------------------------------- spec parser
struct Parser
{
	const std::string& s;
	size_t i;
	explicit Parser(const std::string& str) : s(str), i(0) {}
	bool more() const { return i < s.size(); }
	char peek() const { return i < s.size() ? s[i] : 0; }
	unsigned number()
	{
		unsigned v(0);
		if (!isdigit(peek())) throw std::runtime_error("spec: number expected");
		while (isdigit(peek())) v = v * 10 + (s[i++] - '0');
		return v;
	}
	// a value written "~<hex>" is handed to the field as a length-carrying std::string (the
	// Field<f8String>(const f8String&) constructor: NUL bytes survive); plain "<hex>" goes through
	// the generic create_field(fnum, const char *) and is cut at the first NUL
	bool tilde() { if (peek() == '~') { ++i; return true; } return false; }
	std::string hexval()
	{
		if (peek() == '-') { ++i; return std::string(); }
		size_t j(i);
		while (isxdigit(peek())) ++i;
		return unhex(s.substr(j, i - j));
	}
};

// Field<data, F> == Field<f8String, F>: the public constructor taking (const f8String&) for the
// data-typed fields of FIX 4.2 / 4.4
template<unsigned short F> BaseField *mk_str(const std::string& v) { return new Field<f8String, F>(v); }
BaseField *make_string_field(unsigned fnum, const std::string& v)
{
	switch (fnum)
	{
#define F8CASE(n) case n: return mk_str<n>(v);
	F8CASE(89) F8CASE(91) F8CASE(96) F8CASE(213) F8CASE(349) F8CASE(351) F8CASE(353) F8CASE(355) F8CASE(357)
	F8CASE(359) F8CASE(361) F8CASE(363) F8CASE(365) F8CASE(446) F8CASE(619) F8CASE(622)
#undef F8CASE
	default: throw std::runtime_error("spec: ~ value for a tag without string-constructor dispatch");
	}
}

// fields of one part / element, inserted in the order written
void fill(Parser& p, MessageBase *mb, GroupBase *owner_gb)
{
	while (p.more() && p.peek() != ')')
	{
		const unsigned fnum(p.number());
		if (p.peek() != '=') throw std::runtime_error("spec: = expected");
		++p.i;
		const bool raw(p.tilde());
		const std::string val(p.hexval());
		BaseField *bf(raw ? make_string_field(fnum, val) : mctx().create_field(static_cast<unsigned short>(fnum), val.c_str()));
		if (!bf) throw std::runtime_error("spec: no such field");
		mb->add_field(bf);
		if (p.peek() == '[')
		{
			++p.i;
			GroupBase *gb(mb->find_add_group(static_cast<unsigned short>(fnum), owner_gb));
			if (!gb) throw InvalidRepeatingGroup(fnum);
			while (p.peek() == '(')
			{
				++p.i;
				MessageBase *el(gb->create_group(true));
				gb->add(el);
				fill(p, el, gb);
				if (p.peek() != ')') throw std::runtime_error("spec: ) expected");
				++p.i;
			}
			if (p.peek() != ']') throw std::runtime_error("spec: ] expected");
			++p.i;
		}
		if (p.peek() == ',') ++p.i;
	}
}

Message *build(const std::string& spec)
{
	const std::vector<std::string> parts(split(spec, ';'));
	if (parts.size() != 4) throw std::runtime_error("spec: 4 parts expected");
	Message *msg(mctx().create_msg(parts[0].c_str()));
	if (!msg) throw std::runtime_error("spec: unknown msgtype");
	std::unique_ptr<Message> guard(msg);
	{ Parser p(parts[1]); fill(p, msg->Header(), nullptr); }
	{ Parser p(parts[2]); fill(p, msg, nullptr); }
	{ Parser p(parts[3]); fill(p, msg->Trailer(), nullptr); }
	return guard.release();
}

// ---------------------------------------------------------------------------- dump
void dump_mb(std::ostream& os, const MessageBase *mb)
{
	os << "{p:";
	bool first(true);
	for (const auto& pp : mb->get_positions())
	{
		os << (first ? "" : ",") << pp.first << ':' << pp.second->get_tag() << '=' << tohex(codec_meta::printed(pp.second));
		first = false;
	}
	os << ";f:";
	first = true;
	for (Fields::const_iterator itr(mb->fields_begin()); itr != mb->fields_end(); ++itr)
	{
		os << (first ? "" : ",") << itr->first << '=' << (itr->second ? tohex(codec_meta::printed(itr->second)) : std::string("null"));
		first = false;
	}
	os << ";g:";
	first = true;
	Groups& grps(const_cast<MessageBase *>(mb)->get_groups());
	for (const auto& gg : grps)
	{
		os << (first ? "" : ",") << gg.first << '[';
		if (gg.second)
			for (size_t k(0); k < gg.second->size(); ++k)
				dump_mb(os, gg.second->get_element(static_cast<unsigned>(k)));
		else
			os << "null";
		os << ']';
		first = false;
	}
	os << ";u:" << tohex(mb->get_unknown()) << ";pr:";
	const Presence& pr(mb->get_fp().get_presence());
	first = true;
	for (Presence::const_iterator itr(pr.begin()); itr != pr.end(); ++itr)
		if (itr->_field_traits.has(FieldTrait::present)) { os << (first ? "" : ",") << itr->_fnum; first = false; }
	os << ";su:";
	first = true;
	for (Presence::const_iterator itr(pr.begin()); itr != pr.end(); ++itr)
		if (itr->_field_traits.has(FieldTrait::suppress)) { os << (first ? "" : ",") << itr->_fnum; first = false; }
	os << '}';
}

std::string dump_msg(const Message *msg)
{
	std::ostringstream os;
	os << "T=" << msg->get_msgtype() << " H";
	dump_mb(os, msg->Header());
	os << " B";
	dump_mb(os, msg);
	os << " T";
	dump_mb(os, msg->Trailer());
	return os.str();
}

std::string enc(Message *msg)
{
	f8String out;
	msg->encode(out);
	return tohex(out);
}

// Message::encode(char **) -- the overload the session uses -- on a caller's buffer
std::string enc_ptr(Message *msg)
{
	std::vector<char> buf(FIX8_MAX_MSG_LENGTH + HEADER_CALC_OFFSET + 64);
	char *ptr(buf.data());
	const size_t n(msg->encode(&ptr));
	return tohex(std::string(ptr, n));
}

// run one stage, mapping exceptions to the canonical vocabulary
template<typename F>
bool stage(std::ostream& os, F f)
{
	try
	{
		f();
		return true;
	}
	catch (DuplicateField& e) { os << "EXC DuplicateField " << e._tagid; }
	catch (UnknownField& e) { os << "EXC UnknownField " << e._tagid; }
	catch (InvalidField& e) { os << "EXC InvalidField " << e._tagid; }
	catch (MissingRepeatingGroupField& e) { os << "EXC MissingRepeatingGroupField " << e._tagid; }
	catch (InvalidRepeatingGroup& e) { os << "EXC InvalidRepeatingGroup " << e._tagid; }
	catch (BadCheckSum& e) { os << "EXC BadCheckSum " << e._chkval; }
	catch (MissingMessageComponent&) { os << "EXC MissingMessageComponent"; }
	catch (MissingMandatoryField& e)
	{
		const std::string w(e.what());
		const size_t a(w.rfind('(')), b(w.rfind(')'));
		if (e._tagid)
			os << "EXC MissingMandatoryField " << e._tagid;
		else if (a != std::string::npos && b != std::string::npos && b > a)
			os << "EXC MissingMandatoryField " << w.substr(a + 1, b - a - 1);
		else
			os << "EXC MissingMandatoryField fixedwidth";
	}
	catch (InvalidMessage&) { os << "EXC InvalidMessage"; }
	catch (f8Exception& e) { os << "EXC f8Exception " << (std::string(e.what()) == "Value size too large" ? "ValueTooLarge" : "other"); }
	catch (std::runtime_error& e) { os << "BAD-CASE " << e.what(); }
	catch (std::exception& e) { os << "EXC std::exception"; }
	return false;
}

struct Mode { bool permissive, no_chksum; };
Mode parse_mode(const std::string& m)
{
	Mode r{false, false};
	for (char c : m) { if (c == 'p') r.permissive = true; if (c == 'n') r.no_chksum = true; }
	return r;
}

void run_case(const std::string& line, std::ostream& os)
{
	std::istringstream is(line);
	std::string op, a1, a2;
	is >> op >> a1 >> a2;
	if (op == "ENC" || op == "ENC2")
	{
		std::unique_ptr<Message> msg;
		std::string h1, h2;
		// ENC: both overloads, each on its own freshly built object, must give the same bytes
		std::string hp;
		if (stage(os, [&] {
				msg.reset(build(a1)); h1 = enc(msg.get());
				if (op == "ENC2") h2 = enc(msg.get());
				else { std::unique_ptr<Message> m2(build(a1)); hp = enc_ptr(m2.get()); } }))
		{
			if (op == "ENC" && hp != h1)
				os << "OK " << h1 << " OVERLOADS-DIFFER " << hp;
			else
				os << "OK " << h1 << (op == "ENC2" ? " " + h2 : std::string());
		}
	}
	else if (op == "DEC" || op == "REENC")
	{
		const Mode md(parse_mode(a1));
		const std::string bytes(unhex(a2));
		std::unique_ptr<Message> msg;
		std::string out;
		if (stage(os, [&] {
				msg.reset(Message::factory(mctx(), bytes, md.no_chksum, md.permissive));
				out = op == "DEC" ? dump_msg(msg.get()) : enc(msg.get()); }))
			os << "OK " << out;
	}
	else if (op == "RT")
	{
		const Mode md(parse_mode(a1));
		std::unique_ptr<Message> msg, dec;
		std::string h1, d, h2, raw;
		if (!stage(os, [&] { msg.reset(build(a2)); f8String o; msg->encode(o); raw = o; h1 = tohex(o); }))
			return;
		os << "OK " << h1 << " | ";
		if (!stage(os, [&] { dec.reset(Message::factory(mctx(), raw, md.no_chksum, md.permissive)); d = dump_msg(dec.get()); }))
			return;
		os << "OK " << d << " | ";
		if (stage(os, [&] { h2 = enc(dec.get()); }))
			os << "OK " << h2;
	}
	else if (op == "CLONE" || op == "COPY" || op == "MOVE")
	{
		std::unique_ptr<Message> msg, tgt;
		std::string d, h;
		if (stage(os, [&] {
				msg.reset(build(a1));
				if (op == "CLONE")
					tgt.reset(msg->clone());
				else
				{
					tgt.reset(mctx().create_msg(msg->get_msgtype().c_str()));
					if (op == "COPY")
					{
						msg->copy_legal(tgt.get());
						msg->Header()->copy_legal(tgt->Header());
						msg->Trailer()->copy_legal(tgt->Trailer());
					}
					else
					{
						msg->move_legal(tgt.get());
						msg->Header()->move_legal(tgt->Header());
						msg->Trailer()->move_legal(tgt->Trailer());
					}
				}
				d = dump_msg(tgt.get());
				h = enc(tgt.get()); }))
			os << "OK " << d << " | " << h;
	}
	else if (op == "XCOPY")	// XCOPY <msgspec A> <msgspec B>: build A; create B (deep); A->copy_legal(B) (body); then B's own insertions; encode B
	{
		std::unique_ptr<Message> src, tgt;
		std::string h;
		if (stage(os, [&] {
				src.reset(build(a1));
				const std::vector<std::string> parts(split(a2, ';'));
				if (parts.size() != 4) throw std::runtime_error("spec: 4 parts expected");
				tgt.reset(mctx().create_msg(parts[0].c_str()));
				if (!tgt) throw std::runtime_error("spec: unknown msgtype");
				src->copy_legal(tgt.get());
				{ Parser p(parts[1]); fill(p, tgt->Header(), nullptr); }
				{ Parser p(parts[2]); fill(p, tgt.get(), nullptr); }
				{ Parser p(parts[3]); fill(p, tgt->Trailer(), nullptr); }
				h = enc(tgt.get()); }))
			os << "OK " << h;
	}
	else if (op == "RENDER")	// RENDER <fnum> <hex text>: Field<T>(text).print() of the field's class
	{
		std::string out;
		if (stage(os, [&] {
				std::unique_ptr<BaseField> bf(mctx().create_field(static_cast<unsigned short>(std::stoul(a1)), unhex(a2).c_str()));
				if (!bf) throw std::runtime_error("no such field");
				out = tohex(codec_meta::printed(bf.get())); }))
			os << "OK " << out;
	}
	else
		os << "BAD-CASE unknown op";
}

} // namespace

int main(int argc, char **argv)
{
	if (argc > 1 && std::string(argv[1]) == "--meta")
	{
		codec_meta::dump(mctx(), std::cout);
		return 0;
	}
	std::string line;
	while (std::getline(std::cin, line))
	{
		std::ostringstream os;
		run_case(line, os);
		std::cout << os.str() << std::endl;
	}
	return 0;
}
