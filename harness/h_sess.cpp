// Session harness executable shared by C16..C23/C25 (all the logic is in sess_harness.hpp).
//   h_sess            : line protocol, one history per input line -> one trace line
//   h_sess --meta     : dump the field positions of the UTEST schema (input of the model driver)
#include "sess_harness.hpp"

int main(int argc, char **argv)
{
	if (argc > 1 && std::string(argv[1]) == "--meta")
	{
		vsess::dump_meta(std::cout);
		return 0;
	}
	const char *vrd(getenv("VERIF_RUN_DIR"));	// private per-run directory, removed by the framework
	const std::string root(std::string(vrd && *vrd ? vrd : "/tmp") + "/SESS-" + std::to_string(getpid()));
	vsess::SessHarness h(root);
	std::string line;
	while (std::getline(std::cin, line))
		std::cout << h.run_case(line) << std::endl;
	return 0;
}
