// C26 harness: the real MemoryPersister / FilePersister driven through their public API.
// case:   "<M|F> <op>;<op>;..."   ops:
//    P <seq> <hex>      put(seq, bytes)                     -> 1 | 0
//    G <seq>            get(seq, to)                        -> 1:<hex> | 0
//    C <s> <t>          put(sender, target)                 -> 1 | 0
//    c                  get(sender&, target&)               -> 1:<s>,<t> | 0
//    L                  get_last_seqnum                     -> <n>
//    N <req> <last>     find_nearest_highest_seqnum         -> <n>
//    R <from> <to> <k>  get(from,to,session,callback); the callback returns false at its k-th
//                       data record (k = 0: never)          -> <ret>[<seq>:<hex>:<nomore>,...]
//    O                  close + reopen (file persister only; no-op for the memory one) -> 1 | 0
// result: the op results joined by ';'
#include "hcommon.hpp"
#include <fix8/f8includes.hpp>
#include "utest_types.hpp"
#include "utest_router.hpp"
#include "utest_classes.hpp"
#include <unistd.h>
#include <sys/stat.h>
#include <dirent.h>
#include <memory>

using namespace FIX8;

struct RecSession : public Session
{
	std::ostringstream rec;
	unsigned abort_at = 0, seen = 0;
	bool first = true;
	RecSession() : Session(UTEST::ctx()) {}
	bool handle_application(const unsigned, const Message *&) { return true; }
	bool retrans_callback(const SequencePair& with, RetransmissionContext& rctx)
	{
		if (!first) rec << ',';
		first = false;
		rec << with.first << ':' << tohex(with.second) << ':' << (rctx._no_more_records ? 1 : 0);
		if (!rctx._no_more_records && with.first)
			return ++seen != abort_at;
		return true;
	}
	void reset(unsigned k) { rec.str(""); abort_at = k; seen = 0; first = true; }
};

static std::string g_dir;

static void rmdir_all(const std::string& d)
{
	if (DIR *dp = opendir(d.c_str()))
	{
		while (dirent *e = readdir(dp))
		{
			const std::string n(e->d_name);
			if (n != "." && n != "..")
				unlink((d + "/" + n).c_str());
		}
		closedir(dp);
	}
	rmdir(d.c_str());
}

int main()
{
	{
		std::ostringstream d;
		d << "/tmp/C26-" << getpid();
		g_dir = d.str();
		mkdir(g_dir.c_str(), 0700);
	}
	// The global logger ROTATES its file when it is constructed (rename name -> name.1 ...): the
	// name must be a private path, never a device such as /dev/null.
	GlobalLogger::set_global_filename(g_dir + "/global.log");
	GlobalLogger::set_levels(Logger::Levels());
	RecSession *sess(new RecSession);   // never destroyed: ~Session sleeps and touches the connection
	std::string line;
	unsigned caseno(0);
	while (std::getline(std::cin, line))
	{
		std::ostringstream out;
		try
		{
			const char kind(line.empty() ? '?' : line[0]);
			const std::string rest(line.size() > 2 ? line.substr(2) : std::string());
			std::unique_ptr<Persister> per;
			std::ostringstream fn;
			fn << "db" << ++caseno;
			if (kind == 'M')
			{
				per.reset(new MemoryPersister);
			}
			else
			{
				FilePersister *fp(new FilePersister);
				if (!fp->initialise(g_dir, fn.str(), true))
					throw std::runtime_error("initialise");
				per.reset(fp);
			}
			bool firstop(true);
			for (const std::string& ops : split(rest, ';'))
			{
				if (ops.empty())
					continue;
				if (!firstop) out << ';';
				firstop = false;
				std::istringstream is(ops);
				char op; is >> op;
				switch (op)
				{
				case 'P': { unsigned s; std::string hx; is >> s >> hx; out << (per->put(s, unhex(hx)) ? 1 : 0); break; }
				case 'G': { unsigned s; is >> s; f8String to; if (per->get(s, to)) out << "1:" << tohex(to); else out << 0; break; }
				case 'C': { unsigned s, t; is >> s >> t; out << (per->put(s, t) ? 1 : 0); break; }
				case 'c': { unsigned s(0), t(0); if (per->get(s, t)) out << "1:" << s << ',' << t; else out << 0; break; }
				case 'L': { unsigned l(77); const unsigned r(per->get_last_seqnum(l)); if (r != l) out << "MISMATCH"; out << l; break; }
				case 'N': { unsigned r, l; is >> r >> l; out << per->find_nearest_highest_seqnum(r, l); break; }
				case 'R':
				{
					unsigned f, t, k; is >> f >> t >> k;
					sess->reset(k);
					const unsigned n(per->get(f, t, *sess, &Session::retrans_callback));
					out << n << '[' << sess->rec.str() << ']';
					break;
				}
				case 'O':
					if (kind == 'M')
						out << 1;
					else
					{
						per.reset();
						FilePersister *fp(new FilePersister);
						const bool ok(fp->initialise(g_dir, fn.str(), false));
						per.reset(fp);
						out << (ok ? 1 : 0);
					}
					break;
				default: out << "BAD-OP"; break;
				}
			}
			per.reset();
			if (kind != 'M')
			{
				unlink((g_dir + "/" + fn.str()).c_str());
				unlink((g_dir + "/" + fn.str() + ".idx").c_str());
			}
		}
		catch (std::exception& e) { out.str(""); out << "EXC " << e.what(); }
		const std::string r(out.str());
		std::cout << (r.empty() ? "-" : r) << std::endl;
	}
	rmdir_all(g_dir);
	std::cout.flush();
	_exit(0);
}
