// C03 harness: the shared codec harness (h_codec.cpp: ENC / ENC2 / DEC / REENC / RT on the REAL
// Message::factory and Message::encode, compiled with ASan + UBSan) plus
//   ATOI <hex>        fast_atoi<int> on the text (standing UB site F09)          -> OK <value>
//   SEQ <mode> <N|S<byte>|M<hex>> <hex>  prime the stack (nothing / fill it with a byte / decode a message), then
//                     Message::factory on <hex> from the same frame -> OK <dump> | EXC InvalidMessage arg=<hex of
//                     the text the exception carries> | EXC ...   (history must not matter)
//   DTPARSE ts|time|date <hex>  date_time_parse / time_parse / date_parse on the text -> OK
//   CHKSUM <mis> <hex> Message::calc_chksum on the bytes at a 16-aligned address + mis -> OK <value>
//                     (this translation unit is compiled WITH -fsanitize=alignment)
//   !<case>           run <case> in a forked child and report how it ended:
//                       the child's result line, or
//                       CRASH asan <kind> <READ|WRITE> frame=<function owning the variable | +0xoffset> var=<name>
//                       CRASH ubsan <file> <message> [in <function>]
//                       CRASH signal <n> | CRASH exit <n>
//                       HANG   (more than 2 s CPU, or more than 1 GB above the parent's RSS: the
//                               no-progress loop of decode_group allocates without bound)
// Cases without '!' run in-process (fast path for the bulk that ends in OK / EXC); a CPU timer
// ends the process if such a case does not return, and the suite re-runs the culprit with '!'.
#define main h_codec_main
#include "h_codec.cpp"
#undef main

#include <fcntl.h>
#include <signal.h>
#include <sys/mman.h>
#include <sys/resource.h>
#include <sys/time.h>
#include <sys/wait.h>
#include <time.h>
#include <unistd.h>

namespace {

// ---- SEQ: history dependence.  Everything happens inside ONE frame (probe), so that the call under
// test runs at the same stack depth as the priming step and sees whatever that left on the stack.
__attribute__((noinline)) void spray(int c)
{
	volatile char buf[32768];
	for (size_t ii(0); ii < sizeof(buf); ++ii)
		buf[ii] = static_cast<char>(c);
}

struct SeqOut { Message *msg; bool invalid; std::string what; };

__attribute__((noinline)) void probe(int how, const std::string *primer, int spray_chr, const std::string& input,
	const Mode& md, Message *& primed, SeqOut& out)
{
	if (how == 1)
	{
		try { primed = Message::factory(mctx(), *primer, md.no_chksum, md.permissive); }
		catch (std::exception&) {}
	}
	else if (how == 2)
		spray(spray_chr);
	try
	{
		out.msg = Message::factory(mctx(), input, md.no_chksum, md.permissive);	// <<< the call under test
	}
	catch (InvalidMessage& e)
	{
		out.invalid = true;
		out.what = e.what();
	}
}

// "Invalid FIX Message: <arg> at: <file>:<line>" -> <arg>
std::string invalid_arg(const std::string& what)
{
	static const std::string pre("Invalid FIX Message: ");
	std::string a(what.compare(0, pre.size(), pre) == 0 ? what.substr(pre.size()) : what);
	const size_t at(a.rfind(" at: "));
	if (at != std::string::npos && a.find("message.cpp:", at) != std::string::npos && a.find(' ', at + 5) == std::string::npos)
		a.erase(at);
	return a;
}

void run_seq(const std::string& line, std::ostream& os)
{
	// SEQ <mode> <N | S<byte> | M<hex of a message decoded first>> <hex>
	std::istringstream is(line.substr(4));
	std::string mode, prime, hx;
	is >> mode >> prime >> hx;
	const Mode md(parse_mode(mode));
	const std::string input(unhex(hx));
	std::string primer;
	int how(0), chr(0);
	if (!prime.empty() && prime[0] == 'M') { how = 1; primer = unhex(prime.substr(1)); }
	else if (!prime.empty() && prime[0] == 'S') { how = 2; chr = atoi(prime.c_str() + 1); }
	Message *primed(nullptr);
	SeqOut out{nullptr, false, std::string()};
	std::unique_ptr<Message> g1, g2;
	const bool ok(stage(os, [&] { probe(how, how == 1 ? &primer : nullptr, chr, input, md, primed, out); }));
	g1.reset(primed);
	g2.reset(out.msg);
	if (!ok)
		return;
	if (out.invalid)
		os << "EXC InvalidMessage arg=" << tohex(invalid_arg(out.what));
	else
		os << "OK " << dump_msg(out.msg);
}

void run_case3(const std::string& line, std::ostream& os)
{
	if (line.compare(0, 4, "SEQ ") == 0)
	{
		run_seq(line, os);
		return;
	}
	if (line.compare(0, 5, "ATOI ") == 0)
	{
		const std::string txt(unhex(line.substr(5)));
		const int v(fast_atoi<int>(txt.c_str()));
		os << "OK " << v;
		return;
	}
	if (line.compare(0, 8, "DTPARSE ") == 0)
	{
		// the date/time parsers of field.hpp on the text: ts = date_time_parse (UTCTimestamp),
		// time = time_parse(.., true) (UTCTimeOnly), date = date_parse (UTCDateOnly, LocalMktDate, MonthYear)
		std::istringstream is(line.substr(8));
		std::string kind, hx;
		is >> kind >> hx;
		const std::string txt(unhex(hx));
		const size_t len(::strlen(txt.c_str()));
		volatile long long sink(0);	// the result must be used, or the overflow checks are dead code
		if (kind == "ts") sink = date_time_parse(txt.c_str(), len);
		else if (kind == "time") sink = time_parse(txt.c_str(), len, true);
		else if (kind == "date") sink = date_parse(txt.c_str(), len);
		else { os << "BAD-CASE kind"; return; }
		(void)sink;
		os << "OK";
		return;
	}
	if (line.compare(0, 7, "CHKSUM ") == 0)
	{
		// calc_chksum on a copy of the bytes placed <mis> bytes after a 16-aligned address
		std::istringstream is(line.substr(7));
		unsigned mis(0);
		std::string hx;
		is >> mis >> hx;
		const std::string data(unhex(hx));
		alignas(16) static char buf[65536 + 64];
		if (mis > 15 || data.size() > 65536) { os << "BAD-CASE chksum"; return; }
		memcpy(buf + mis, data.data(), data.size());
		os << "OK " << Message::calc_chksum(buf + mis, data.size());
		return;
	}
	run_case(line, os);
}

double now()
{
	timespec ts;
	clock_gettime(CLOCK_MONOTONIC, &ts);
	return ts.tv_sec + ts.tv_nsec * 1e-9;
}

std::string slurp_fd(int fd)
{
	std::string out;
	lseek(fd, 0, SEEK_SET);
	char buf[65536];
	ssize_t n;
	while ((n = read(fd, buf, sizeof buf)) > 0)
		out.append(buf, n);
	return out;
}

bool proc_usage(pid_t pid, double& cpu_s, long& rss_kb)
{
	char path[64], buf[2048];
	snprintf(path, sizeof path, "/proc/%d/stat", pid);
	int fd(open(path, O_RDONLY));
	if (fd < 0) return false;
	ssize_t n(read(fd, buf, sizeof buf - 1));
	close(fd);
	if (n <= 0) return false;
	buf[n] = 0;
	const char *p(strrchr(buf, ')'));
	if (!p) return false;
	// fields after ")": state(3) ... utime(14) stime(15) ... rss(24)
	unsigned long utime(0), stime(0);
	long rss(0);
	int field(2);
	for (++p; *p; )
	{
		while (*p == ' ') ++p;
		++field;
		if (field == 14) utime = strtoul(p, nullptr, 10);
		else if (field == 15) stime = strtoul(p, nullptr, 10);
		else if (field == 24) { rss = strtol(p, nullptr, 10); break; }
		while (*p && *p != ' ') ++p;
	}
	cpu_s = double(utime + stime) / sysconf(_SC_CLK_TCK);
	rss_kb = rss * (sysconf(_SC_PAGESIZE) / 1024);
	return true;
}

std::string word_after(const std::string& s, size_t pos)
{
	size_t e(pos);
	while (e < s.size() && !isspace(static_cast<unsigned char>(s[e]))) ++e;
	return s.substr(pos, e - pos);
}

// name of the function in a symbolised frame line "#0 0x.. in [type ]NAME(args) file:line"
std::string frame_function(const std::string& err, size_t from)
{
	const size_t eol(err.find('\n', err.find('#', from)));
	const size_t a(err.find(" in ", from));
	if (a == std::string::npos || (eol != std::string::npos && a > eol))
	{
		// not symbolised: "#0 0x... (/path/exe+0x1234)" -> "+0x1234" (resolved by the suite with nm)
		const size_t plus(err.find("+0x", from));
		if (plus == std::string::npos || (eol != std::string::npos && plus > eol)) return "?";
		size_t e(plus + 3);
		while (e < err.size() && isxdigit(static_cast<unsigned char>(err[e]))) ++e;
		return err.substr(plus, e - plus);
	}
	size_t b(a + 4), e(b), last_space(std::string::npos);
	int depth(0);
	while (e < err.size() && err[e] != '\n')
	{
		if (err[e] == '<') ++depth;
		else if (err[e] == '>') --depth;
		else if (err[e] == '(' && depth == 0) break;
		else if (err[e] == ' ' && depth == 0)
		{
			if (e + 1 < err.size() && err[e + 1] == '/') break;	// start of the file path
			last_space = e;
		}
		++e;
	}
	if (last_space != std::string::npos && last_space >= b)
		b = last_space + 1;
	return err.substr(b, e - b);
}

std::string summarize(const std::string& err, int status)
{
	size_t p;
	if ((p = err.find("ERROR: AddressSanitizer: ")) != std::string::npos)
	{
		std::string r("CRASH asan " + word_after(err, p + 25));
		const size_t w(err.find(" of size ", p));
		if (w != std::string::npos)
		{
			size_t b(err.rfind('\n', w));
			r += " " + err.substr(b + 1, w - b - 1);
		}
		const size_t fr(err.find("in frame", p));
		if (fr != std::string::npos)
			r += " frame=" + frame_function(err, fr);
		const size_t ma(err.find("<== Memory access"));
		if (ma != std::string::npos)
		{
			const size_t ls(err.rfind('\n', ma));
			const size_t q1(err.find('\'', ls)), q2(q1 == std::string::npos ? q1 : err.find('\'', q1 + 1));
			if (q2 != std::string::npos && q2 < ma)
				r += " var=" + err.substr(q1 + 1, q2 - q1 - 1);
		}
		return r;
	}
	if ((p = err.find("runtime error: ")) != std::string::npos)
	{
		const size_t ls(err.rfind('\n', p) == std::string::npos ? 0 : err.rfind('\n', p) + 1);
		std::string loc(err.substr(ls, p - ls));		// path:line:col:
		const size_t c1(loc.find(':'));
		std::string file(c1 == std::string::npos ? loc : loc.substr(0, c1));
		const size_t sl(file.rfind('/'));
		if (sl != std::string::npos) file = file.substr(sl + 1);
		size_t e(err.find('\n', p));
		std::string msg(err.substr(p + 15, (e == std::string::npos ? err.size() : e) - p - 15));
		std::string r("CRASH ubsan " + file + " " + msg);
		const size_t f0(err.find("#0 ", p));
		if (f0 != std::string::npos)
			r += " in " + frame_function(err, f0);
		for (char& ch : r) if (ch == '\t') ch = ' ';
		return r;
	}
	std::ostringstream os;
	if (WIFSIGNALED(status)) os << "CRASH signal " << WTERMSIG(status);
	else os << "CRASH exit " << (WIFEXITED(status) ? WEXITSTATUS(status) : -1);
	return os.str();
}

std::string run_isolated(const std::string& line)
{
	std::cout.flush();
	fflush(stdout);
	const int efd(memfd_create("c03err", 0)), ofd(memfd_create("c03out", 0));
	double cpu0(0);
	long rss0(0);
	proc_usage(getpid(), cpu0, rss0);
	const pid_t pid(fork());
	if (pid == 0)
	{
		dup2(efd, 2);
		struct rlimit rl; rl.rlim_cur = rl.rlim_max = 30;
		setrlimit(RLIMIT_CPU, &rl);
		std::ostringstream os;
		run_case3(line, os);
		const std::string r(os.str());
		if (write(ofd, r.data(), r.size())) {}
		_exit(0);
	}
	int status(0);
	bool hung(false);
	const double t0(now());
	for (;;)
	{
		const pid_t w(waitpid(pid, &status, WNOHANG));
		if (w == pid) break;
		double cpu(0);
		long rss(0);
		if (proc_usage(pid, cpu, rss) && (cpu > 2.0 || rss > rss0 + 1024 * 1024))
			hung = true;
		if (now() - t0 > 120) hung = true;
		if (hung)
		{
			kill(pid, SIGKILL);
			waitpid(pid, &status, 0);
			break;
		}
		usleep(1000);
	}
	std::string res;
	if (hung)
		res = "HANG";
	else
	{
		res = slurp_fd(ofd);
		if (!(WIFEXITED(status) && WEXITSTATUS(status) == 0 && !res.empty()))
			res = summarize(slurp_fd(efd), status);
	}
	close(efd);
	close(ofd);
	for (char& ch : res) if (ch == '\n') ch = ' ';
	return res;
}

void on_timer(int) { _exit(97); }

} // namespace

int main(int argc, char **argv)
{
	if (argc > 1 && std::string(argv[1]) == "--meta")
	{
		codec_meta::dump(mctx(), std::cout);
		return 0;
	}
	signal(SIGPROF, on_timer);
	std::string line;
	while (std::getline(std::cin, line))
	{
		if (!line.empty() && line[0] == '!')
		{
			std::cout << run_isolated(line.substr(1)) << std::endl;
			continue;
		}
		struct itimerval tv;
		memset(&tv, 0, sizeof tv);
		tv.it_value.tv_sec = 1;
		setitimer(ITIMER_PROF, &tv, nullptr);
		std::ostringstream os;
		run_case3(line, os);
		tv.it_value.tv_sec = 0;
		setitimer(ITIMER_PROF, &tv, nullptr);
		std::cout << os.str() << std::endl;
	}
	return 0;
}
