// C29 harness: the real FileLogger (constructor + rotate) and the real FilePersister::initialise
// on a private directory /tmp/C29-<pid>/d (rebuilt for every case, removed at exit).
//
// case:   "<L|P> <name> <rotnum> <flags> <ops> <files>"
//   flags : letters a (Logger::append) c (Logger::compress), or "-"
//   files : "n=c,n=c,..." (initial directory, content = marker) or "-"
//   ops L : c = construct FileLogger(name, flags, rotnum)   (always first; runs rotate(false))
//           n = rotate(false)   f = rotate(true)
//           w / v = write the marker "w" / "v" through the logger's own stream and flush
//   ops P : P = FilePersister(rotnum).initialise(dir, name, true) on a fresh object, then destroy
//           p = the same with purge = false
//           w / v = (harness) append the marker to <name> and <name>.idx, creating them
// result: the sorted directory listing "n=c,n=c" ("-" if empty) after every op, joined by '|'
//
// The logger's background thread is stopped (Logger::stop via the destructor: cancellation
// token + empty element + join) before the final listing; nothing is ever enqueued, so the
// thread never touches the stream.  The global logger used by FilePersister's glout_* lines
// is pointed at /tmp/C29-<pid>/g/ so that it cannot create files in the observed directory.
#include "hcommon.hpp"
#include <fix8/f8includes.hpp>
#include <algorithm>
#include <fstream>
#include <memory>
#include <dirent.h>
#include <signal.h>
#include <sys/stat.h>
#include <unistd.h>

using namespace FIX8;

static char g_root[64], g_d[80], g_g[80];

static void rm_files(const char *dir)
{
	DIR *dp(opendir(dir));
	if (!dp)
		return;
	while (struct dirent *de = readdir(dp))
	{
		if (!strcmp(de->d_name, ".") || !strcmp(de->d_name, ".."))
			continue;
		char p[512];
		snprintf(p, sizeof(p), "%s/%s", dir, de->d_name);
		unlink(p);
	}
	closedir(dp);
}

static void cleanup()
{
	rm_files(g_d); rmdir(g_d);
	rm_files(g_g); rmdir(g_g);
	rmdir(g_root);
}

static void on_abort(int sig)
{
	cleanup();
	signal(sig, SIG_DFL);
	raise(sig);
}

static std::string listing()
{
	std::vector<std::string> names;
	DIR *dp(opendir(g_d));
	if (dp)
	{
		while (struct dirent *de = readdir(dp))
			if (strcmp(de->d_name, ".") && strcmp(de->d_name, ".."))
				names.push_back(de->d_name);
		closedir(dp);
	}
	std::sort(names.begin(), names.end());
	std::string out;
	for (const auto& n : names)
	{
		std::ifstream ifs((std::string(g_d) + "/" + n).c_str(), std::ios::binary);
		std::string content((std::istreambuf_iterator<char>(ifs)), std::istreambuf_iterator<char>());
		if (!out.empty())
			out += ',';
		out += n + "=" + content;
	}
	return out.empty() ? "-" : out;
}

static void append_file(const std::string& path, const std::string& what)
{
	std::ofstream ofs(path.c_str(), std::ios::binary | std::ios::app);
	ofs << what;
}

static std::string run_case(const std::string& line)
{
	std::istringstream is(line);
	std::string kind, name, flags, ops, files;
	unsigned long rot;
	if (!(is >> kind >> name >> rot >> flags >> ops >> files))
		return "BAD-CASE";
	const unsigned rotnum(static_cast<unsigned>(rot));
	rm_files(g_d);
	mkdir(g_d, 0700);
	if (files != "-")
		for (const auto& ent : split(files, ','))
		{
			const size_t eq(ent.find('='));
			if (eq == std::string::npos)
				return "BAD-CASE";
			append_file(std::string(g_d) + "/" + ent.substr(0, eq), ent.substr(eq + 1));
		}
	const std::string path(std::string(g_d) + "/" + name);
	std::string out;
	auto snap = [&out]() { if (!out.empty()) out += '|'; out += listing(); };

	if (kind == "L")
	{
		Logger::LogFlags lf;
		if (flags.find('a') != std::string::npos) lf.set(Logger::append);
		if (flags.find('c') != std::string::npos) lf.set(Logger::compress);
		std::unique_ptr<FileLogger> lg;
		for (size_t k(0); k < ops.size(); ++k)
		{
			const char o(ops[k]);
			if (o == 'c')
			{
				if (k != 0)
					return "BAD-CASE";
				lg.reset(new FileLogger(path, lf, Logger::Levels(Logger::All), " ", Logger::LogPositions(), rotnum));
			}
			else if (!lg)
				return "BAD-CASE";
			else if (o == 'n')
				lg->rotate(false);
			else if (o == 'f')
				lg->rotate(true);
			else if (o == 'w' || o == 'v')
			{
				lg->get_stream() << o;
				lg->get_stream().flush();
			}
			else
				return "BAD-CASE";
			if (k + 1 == ops.size())
				lg.reset();		// stops and joins the logger thread, closes the stream
			snap();
		}
	}
	else if (kind == "P")
	{
		for (size_t k(0); k < ops.size(); ++k)
		{
			const char o(ops[k]);
			if (o == 'P' || o == 'p')
			{
				FilePersister fp(rotnum);
				fp.initialise(g_d, name, o == 'P');
			}
			else if (o == 'w' || o == 'v')
			{
				append_file(path, std::string(1, o));
				append_file(path + ".idx", std::string(1, o));
			}
			else
				return "BAD-CASE";
			snap();
		}
	}
	else
		return "BAD-CASE";
	return out.empty() ? "-" : out;
}

int main()
{
	snprintf(g_root, sizeof(g_root), "/tmp/C29-%d", static_cast<int>(getpid()));
	snprintf(g_d, sizeof(g_d), "%s/d", g_root);
	snprintf(g_g, sizeof(g_g), "%s/g", g_root);
	mkdir(g_root, 0700);
	mkdir(g_d, 0700);
	mkdir(g_g, 0700);
	atexit(cleanup);		// registered before the global logger exists: runs after its destructor
	signal(SIGABRT, on_abort);
	GlobalLogger::set_global_filename(std::string(g_g) + "/glog");

	std::string line;
	while (std::getline(std::cin, line))
	{
		std::string r;
		try { r = run_case(line); }
		catch (f8Exception& e) { r = std::string("EXC f8Exception ") + e.what(); }
		catch (std::exception& e) { r = std::string("EXC ") + e.what(); }
		for (char& c : r)
			if (c == '\n' || c == '\t') c = ' ';
		std::cout << r << std::endl;
	}
	return 0;
}
