// C14 harness: the same program as the C13 harness (trait trees of the generated group classes
// read back through the runtime's own structures + probe round trips); the C14 suite asks it
// for the messages that contain repeating groups ("G" cases are sent as "M").
#include "h_c13.cpp"
