// C18 harness: the shared session harness (sess_harness.hpp: real Session/Connection/FIXReader/FIXWriter/
// persisters, in-memory socket, virtual clock; same line protocol and trace format as h_sess) with ONE
// difference: the snapshot after each operation must not disturb the system under test.  The shared
// snapshot reads every stored record through FilePersister::get(seqnum, string&), which seeks and reads on
// the persister's own data-file descriptor and therefore leaves the file position behind the physically
// last record after EVERY operation -- whatever position a resend replay (FilePersister::get(from, to, ..))
// left is wiped out before the next send stores a message.  A persister that takes the offset of a new
// record from the current position is then unobservable.  QuietFilePersister below is the real
// FilePersister; only the single-record get (used by nothing in fix8's session, only by the observer)
// restores the descriptor's position after reading.
//   h_c18            : line protocol, one history per input line -> one trace line
//   h_c18 --meta     : dump the field positions of the UTEST schema (input of the model driver)
#include "sess_harness.hpp"
#include <fcntl.h>
#include <limits.h>

namespace {

class QuietFilePersister : public FIX8::FilePersister
{
	std::string _data;          // path of the data file
	mutable int _fd = -1;       // the persister's descriptor of it (found by inspection: the member is private)

	int data_fd() const
	{
		if (_fd >= 0)
			return _fd;
		char rp[PATH_MAX];
		if (!realpath(_data.c_str(), rp))
			return -1;
		if (DIR *dp = opendir("/proc/self/fd"))
		{
			while (dirent *de = readdir(dp))
			{
				if (de->d_name[0] == '.') continue;
				char link[PATH_MAX];
				const std::string p(std::string("/proc/self/fd/") + de->d_name);
				const ssize_t n(readlink(p.c_str(), link, sizeof(link) - 1));
				if (n <= 0) continue;
				link[n] = 0;
				if (std::string(link) == rp) { _fd = atoi(de->d_name); break; }
			}
			closedir(dp);
		}
		return _fd;
	}

public:
	QuietFilePersister() : FIX8::FilePersister(0) {}

	bool initialise(const FIX8::f8String& dbDir, const FIX8::f8String& dbFname, bool purge = false) override
	{
		_data = dbDir + "/" + dbFname;
		_fd = -1;
		return FIX8::FilePersister::initialise(dbDir, dbFname, purge);
	}

	bool get(const unsigned seqnum, FIX8::f8String& to) const override
	{
		const int fd(data_fd());
		const off_t pos(fd >= 0 ? lseek(fd, 0, SEEK_CUR) : -1);
		const bool r(FIX8::FilePersister::get(seqnum, to));
		if (fd >= 0 && pos >= 0)
			lseek(fd, pos, SEEK_SET);
		return r;
	}
	using FIX8::FilePersister::get;
	using FIX8::FilePersister::put;
};

struct C18Harness : vsess::SessHarness
{
	explicit C18Harness(const std::string& root) : vsess::SessHarness(root) {}

	// SessHarness::start() with the file persister replaced (keep in step with sess_harness.hpp)
	void start() override
	{
		using namespace FIX8;
		using namespace vsess;
		if (_p.persist == "mem")
			_per = new MemoryPersister;
		else if (_p.persist == "file")
		{
			if (_dir.empty())
			{
				_dir = _tmp_root + "/c" + std::to_string(_case_no);
				mkdir(_dir.c_str(), 0700);
			}
			QuietFilePersister *fp(new QuietFilePersister);
			if (!fp->initialise(_dir, "sess.db", false))
				_log.add("PERSIST-INIT-FAILED");
			_per = fp;
		}
		else
			_per = nullptr;

		LoginParameters lp(defaults::retry_interval, 1, default_appl_ver_id(), defaults::connect_timeout,
			_p.rsn, _p.asa, _p.sd, false, false, false, _p.ec, 0, 0, _p.hb);
		for (const auto& c : _p.clients)
			lp._clients.insert({c, Client(c, Poco::Net::IPAddress())});

		_impl = new VSockImpl;
		_impl->duplicate();
		_impl->on_write = [this](const std::string& buf)
		{
			std::vector<std::string> msgs; std::string rest;
			split_fix(buf, msgs, rest);
			for (const auto& m : msgs) _log.add("OUT " + tohex(m));
			if (!rest.empty()) _log.add("OUTRAW " + tohex(rest));
		};
		_sock = new Poco::Net::StreamSocket(_impl);
		Poco::Net::SocketAddress addr("127.0.0.1", 34567);
		if (_p.role == 'I')
		{
			_ss = new HSession(UTEST::ctx(), SessionID(UTEST::ctx()._beginStr, _p.sender, _p.target), _per, _log);
			_ss->set_login_parameters(lp);
			_cconn = new HClientConn(_sock, addr, *_ss, _p.hb, _p.pm);
			_conn = _cconn;
		}
		else
		{
			_ss = new HSession(UTEST::ctx(), sender_comp_id(_p.sender), _per, _log);
			_ss->set_login_parameters(lp);
			_sconn = new HServerConn(_sock, addr, *_ss, _p.hb, _p.pm);
			_conn = _sconn;
		}
		const int r(_ss->start(_conn, false, _p.ss, _p.rs));
		_log.add("RET " + std::to_string(r));
		wait_quiet();
	}
};

}

int main(int argc, char **argv)
{
	if (argc > 1 && std::string(argv[1]) == "--meta")
	{
		vsess::dump_meta(std::cout);
		return 0;
	}
	const char *vrd(getenv("VERIF_RUN_DIR"));	// private per-run directory, removed by the framework
	const std::string root(std::string(vrd && *vrd ? vrd : "/tmp") + "/SESS-" + std::to_string(getpid()));
	C18Harness h(root);
	std::string line;
	while (std::getline(std::cin, line))
		std::cout << h.run_case(line) << std::endl;
	return 0;
}
