// C25 harness: concurrent senders on ONE real FIX8::Session (derived from the shared session harness,
// sess_harness.hpp; everything said in coq/Sess/READY.md about histories and traces applies).
//
// Additional operation
//   CONC [y=<seed>] [tick=<n>] [in=<hex>,<hex>,..] <prog> <prog> ...      one <prog> per application thread (2..8; 1 is allowed)
//        prog  = call ('+' call)*  |  '-' (empty program)
//        call  = S:<msgspec>                 Session::send(Message*, destroy = true, custom, no_increment)
//              | P:<msgspec>                 Session::send(Message*, destroy = false, custom, no_increment)
//              | R:<msgspec>                 Session::send(Message&, custom, no_increment)   -- the by-reference overload
//              | B:<msgspec>(;<msgspec>)*    Session::send_batch(vector, destroy = true)
//              | C:<msgspec>(;<msgspec>)*    Session::send_batch(vector, destroy = false)
//              any call may carry a release point: <kind>@<n>:...  = before making the call the thread spins until the
//              session's next_send has advanced by at least n since the CONC began (at most 5 s), i.e. until n
//              messages of this phase have been through send_process -- used to start a call while another thread's
//              batch is in flight (no hook inside fix8: next_send is read from outside)
//        = every public send entry point of Session.  Who deletes the message: fix8 for S and B; the thread itself
//        after the call for R, and for P / C unless pipelining (pm_pipeline "ignores the destroy flag": the writer
//        thread deletes what it has sent).  R throws f8Exception while pipelining: the return value is X.
//        All messages are built first (main thread); then one REAL std::thread per program is started, the
//        threads meet at a barrier and run their calls against the same session.  y=<seed> makes every thread
//        yield / spin at pseudo-random points (only to vary the schedules the OS produces); tick=<n> starts one
//        more thread that calls Session::heartbeat_service() again and again (n yields in between) until the
//        senders are done (the timer thread's job in production; used by the TSan runs -- with the virtual
//        clock frozen and a Logon exchanged it only READS the session's time stamps).
//        in=..: one more thread plays the counterparty and pushes the given inbound messages (valid Heartbeats with
//        consecutive numbers) into the socket one by one while the senders run; the session's reader thread processes
//        them (each ends in update_persist_seqnums under _per_spl).  During a CONC the session's persister is wrapped
//        (OverlapPersister below): an atomic in-flight counter around every put, which dwells 20 us, counts puts that
//        overlap another put; the event OVERLAP <n> reports it (0 in the code as it is: senders and reader both take
//        _per_spl in pm_thread).  The events of the step are ordered OUT.. first, then RET.. of the inbound messages.
//        Quiescence: pm_thread/pm_coro -- all threads joined (every call is synchronous).  pm_pipeline -- wait
//        until every submitted message is on the wire AND next_send has reached <before> + <number of messages>
//        (the increment is the last shared action of send_process, so then the writer thread is idle and its
//        queue empty); after 30 s of real time without any progress of the writer the note NOTQUIET is added.  The same wait follows START
//        in pm_pipeline (the initiator's Logon is sent by the writer thread), and the START events are put in
//        the order OUT.. RET.
//   events of the CONC step: OUT <hex> per message in WIRE order, then "TRET <tid> <r>,<r>,.." per thread (return
//   values in program order; X = an exception escaped the call), then the usual snapshot.
//
// Output line:  <canonical> ## <raw>
//   raw        = the trace line as sess_harness prints it (the CONC step lists the wire in the order the OS
//                happened to produce: it is the linearisation handed to the model)
//   canonical  = the same with every CONC step replaced by a summary that does not depend on the schedule when
//                the code is correct:  "CONC OUT <n> <first 34=> <last 34=>;TRET <tid> <calls> <sum>;..;STATE..;
//                SEQ..;CTRL..;STORE <entries>".  The framework compares the canonical part; the suite hands the
//                raw part to the model driver.
//   h_c25 --meta   dumps the schema metadata (as h_sess does).
#include "sess_harness.hpp"
#include <thread>
#include <atomic>
#include <algorithm>
#include <new>
#include <cstdlib>

using namespace FIX8;

// ---- stale joins ------------------------------------------------------------------------------------------
// fix8's _f8_threadcore joins its pthread in the destructor no matter whether the thread was ever started
// (pm_thread: the writer's _tid is 0) or has been joined already (Timer::~Timer and Connection::stop join
// explicitly, then ~_f8_threadcore joins the same id again; the session harness joins the timer thread once
// more).  Joining an id twice is undefined: glibc answers ESRCH while the dead thread's stack is still cached,
// and reads freed memory (SEGV in __pthread_clockjoin_ex, observed here after 5 sender threads had come and
// gone) once it is not; ThreadSanitizer treats it as fatal ("dup thread with used id").  So that a concurrent
// phase with several threads can be followed by the session's destruction at all, pthread_create / pthread_join
// are interposed in this executable: a join on an id that is not a live, created-and-not-yet-joined thread returns
// ESRCH without reaching libc.  (Reported as a finding of its own; nothing in /repo is changed.)
#include <dlfcn.h>
#include <pthread.h>
#include <errno.h>
namespace {
std::mutex& tmx() { static std::mutex m; return m; }
std::set<pthread_t>& live() { static std::set<pthread_t> s; return s; }
}
extern "C" int pthread_create(pthread_t *th, const pthread_attr_t *attr, void *(*fn)(void *), void *arg)
{
	typedef int (*create_t)(pthread_t *, const pthread_attr_t *, void *(*)(void *), void *);
	static create_t real(reinterpret_cast<create_t>(dlsym(RTLD_NEXT, "pthread_create")));
	std::lock_guard<std::mutex> g(tmx());
	const int r(real(th, attr, fn, arg));
	if (!r)
		live().insert(*th);
	return r;
}
extern "C" int pthread_join(pthread_t th, void **ret)
{
	typedef int (*join_t)(pthread_t, void **);
	static join_t real(reinterpret_cast<join_t>(dlsym(RTLD_NEXT, "pthread_join")));
	{
		std::lock_guard<std::mutex> g(tmx());
		if (!live().erase(th))
			return ESRCH;
	}
	return real(th, ret);
}

// ---- a scheduling point at the allocator ------------------------------------------------------------------------
// The only large heap blocks a session owns are the buffers of Session::_batchmsgs_buffer (reserved in the
// constructors, reallocated by std::string when an append or a reserve outgrows the capacity: new block, copy, free the
// old block, re-point).  The global operator new / delete are replaced in this executable (standard C++; the blocks
// still come from malloc / free, so ASan / TSan see them) and turn the freeing of a block of 64 KB or more during a
// concurrent phase into a scheduling point -- the only way to place one inside std::string's reallocation without
// touching fix8:
//   the thread that is about to free the block (F) waits, for at most 30 ms, until the session has put two more
//   messages through send_process (next_send advanced by 2); every OTHER thread that reaches that mark stops at its next
//   allocation until F has gone on; F then frees the block and returns into std::string, which re-points itself, while
//   the others stay put for another 200 us.
// In the code as it is the thread that reallocates the batch buffer is the one that appends to it (under _con_spl, or
// the writer thread): nobody can advance next_send meanwhile, F waits its 30 ms for nothing and a correct program
// cannot tell.  If some thread reallocates the buffer while ANOTHER thread is inside send_process appending to it, the
// appends made after the copy are lost for certain: the wire then carries garbage instead of messages and the tie and
// the oracle fail.
namespace bigblocks {
std::atomic<vsess::HSession *> session(nullptr);      // set while the threads of a CONC operation run
std::atomic<int> count(0);
std::atomic<int> state(0);                            // 0 idle, 1 F waits for the mark, 2 F has gone on
std::atomic<unsigned> mark(0);
std::atomic<int64_t> hold_until(0);
std::atomic<unsigned long> freer(0);
std::mutex& mx() { static std::mutex m; return m; }
void *tab[64];
void remember(void *p)
{
	std::lock_guard<std::mutex> g(mx());
	for (auto& e : tab) if (!e) { e = p; count.fetch_add(1); return; }
}
bool forget(void *p)
{
	if (!count.load()) return false;
	std::lock_guard<std::mutex> g(mx());
	for (auto& e : tab) if (e == p) { e = nullptr; count.fetch_sub(1); return true; }
	return false;
}
inline unsigned long self() { return static_cast<unsigned long>(pthread_self()); }
inline void scheduling_point()          // every allocation of every thread
{
	const int st(state.load(std::memory_order_relaxed));
	if (!st || freer.load() == self())
		return;
	vsess::HSession *s(session.load());
	if (!s)
		return;
	const int64_t t0(vclock_real_ns());
	if (st == 1 && s->next_send() - mark.load() < 0x80000000u)       // reached the mark: wait for F
		while (state.load() == 1 && vclock_real_ns() - t0 < 60000000) sched_yield();
	while (state.load() == 2 && vclock_real_ns() < hold_until.load()) sched_yield();
	if (state.load() == 2 && vclock_real_ns() >= hold_until.load()) state.store(0);
}
inline void *alloc(std::size_t n)
{
	scheduling_point();
	void *p(std::malloc(n ? n : 1));
	if (!p) throw std::bad_alloc();
	if (n >= 65536) remember(p);
	return p;
}
inline void release(void *p)
{
	if (p && forget(p))
	{
		vsess::HSession *s(session.load());
		int expected(0);
		if (s && state.compare_exchange_strong(expected, 1))
		{
			freer.store(self());
			mark.store(s->next_send() + 2);
			const int64_t t0(vclock_real_ns());
			while (s->next_send() - mark.load() >= 0x80000000u && vclock_real_ns() - t0 < 30000000) sched_yield();
			hold_until.store(vclock_real_ns() + 200000);
			state.store(2);
			std::free(p);
			// the caller (std::string::reserve / _M_mutate) re-points the string right after this returns
			return;
		}
	}
	std::free(p);
}
}
void *operator new(std::size_t n) { return bigblocks::alloc(n); }
void *operator new[](std::size_t n) { return bigblocks::alloc(n); }
void operator delete(void *p) noexcept { bigblocks::release(p); }
void operator delete[](void *p) noexcept { bigblocks::release(p); }
// the forms libraries built as C++14 and later call (sized, nothrow): all of one family, or ASan reports a mismatch
void operator delete(void *p, std::size_t) noexcept { bigblocks::release(p); }
void operator delete[](void *p, std::size_t) noexcept { bigblocks::release(p); }
void *operator new(std::size_t n, const std::nothrow_t&) noexcept { try { return bigblocks::alloc(n); } catch (...) { return nullptr; } }
void *operator new[](std::size_t n, const std::nothrow_t&) noexcept { try { return bigblocks::alloc(n); } catch (...) { return nullptr; } }
void operator delete(void *p, const std::nothrow_t&) noexcept { bigblocks::release(p); }
void operator delete[](void *p, const std::nothrow_t&) noexcept { bigblocks::release(p); }

namespace {

struct Call
{
	char kind = 'S';          // S P R B C
	unsigned wait = 0;        // release point (see above), 0 = none
	bool batch = false;
	std::vector<Message *> msgs;
	unsigned custom = 0;
	bool noinc = false;
};

/// forwards to the real persister; counts put() calls that overlap another put() (see the header comment)
class OverlapPersister : public Persister
{
	Persister *_in;
	std::atomic<int> _inflight;
	void dwell()
	{
		const int64_t t0(vclock_real_ns());
		while (vclock_real_ns() - t0 < 20000) {}
	}
	struct Gate
	{
		OverlapPersister& p;
		explicit Gate(OverlapPersister& q) : p(q) { if (p._inflight.fetch_add(1) > 0) p.overlaps.fetch_add(1); p.dwell(); }
		~Gate() { p._inflight.fetch_sub(1); }
	};
public:
	std::atomic<unsigned long> overlaps;
	explicit OverlapPersister(Persister *in) : _in(in), _inflight(0), overlaps(0) {}
	bool put(const unsigned seqnum, const f8String& what) override { Gate g(*this); return _in->put(seqnum, what); }
	bool put(const f8String& key, const f8String& what) override { Gate g(*this); return _in->put(key, what); }
	bool put(const unsigned a, const unsigned b) override { Gate g(*this); return _in->put(a, b); }
	bool get(const unsigned seqnum, f8String& to) const override { return _in->get(seqnum, to); }
	bool get(const f8String& key, f8String& to) const override { return _in->get(key, to); }
	bool del(const f8String& key) override { return _in->del(key); }
	unsigned get(const unsigned from, const unsigned to, Session& session,
		bool (Session::*callback)(const Session::SequencePair& with, Session::RetransmissionContext& rctx)) const override
		{ return _in->get(from, to, session, callback); }
	unsigned get_last_seqnum(unsigned& to) const override { return _in->get_last_seqnum(to); }
	bool get(unsigned& a, unsigned& b) const override { return _in->get(a, b); }
	unsigned find_nearest_highest_seqnum(const unsigned requested, const unsigned last) const override
		{ return _in->find_nearest_highest_seqnum(requested, last); }
	bool purge() override { return _in->purge(); }
	void stop() override { _in->stop(); }
};

/// Session::_persist is protected: reach it through a pointer to member named in a derived class
struct PersistAccess : Session
{
	static Persister *& ref(Session& s) { return s.*(&PersistAccess::_persist); }
};

class C25Harness : public vsess::SessHarness
{
	/// give up only after this much REAL time without any progress of the writer thread (the machine may be heavily
	/// loaded: a fixed deadline for the whole operation produced spurious NOTQUIET notes)
	static int64_t stall_ns() { return 30000000000LL; }

	/// FIX messages handed to the socket during the current operation (the log is emptied per operation)
	unsigned long count_out()
	{
		std::lock_guard<std::mutex> g(_log.m);
		unsigned long n(0);
		for (const auto& e : _log.ev) if (e.compare(0, 4, "OUT ") == 0) ++n;
		return n;
	}

	/// pm_pipeline: wait until `frames` messages have reached the socket and next_send == want
	void wait_writer(unsigned long frames, unsigned want)
	{
		int64_t last(vclock_real_ns());
		unsigned long seen_out(0);
		unsigned seen_seq(_ss->next_send());
		for (;;)
		{
			const unsigned seq(_ss->next_send());
			const unsigned long out(count_out());
			if (seq == want && out >= frames)
				return;
			const int64_t now(vclock_real_ns());
			if (seq != seen_seq || out != seen_out) { seen_seq = seq; seen_out = out; last = now; }
			if (now - last > stall_ns()) { _log.add("NOTQUIET"); return; }
			vclock_real_sleep_us(200);
		}
	}

public:
	explicit C25Harness(const std::string& root) : vsess::SessHarness(root) {}

protected:
	void start() override
	{
		vsess::SessHarness::start();
		if (_p.pm == pm_pipeline && _ss)
		{
			// Wait until the reader thread sits in its first read.  Otherwise a session that is stopped right after
			// START can hang for good: Session::stop sets the shutdown flag first; a reader thread that has not yet
			// evaluated its loop condition then leaves at once and clears _started; FIXReader::stop() sees !_started
			// and neither queues the empty-string sentinel nor stops the callback thread, which spins in
			// _msg_queue.pop() for ever while ~FIXReader joins it (observed under load: harness stalled in
			// pthread_join <- ~_f8_threadcore <- ~FIXReader; reported as a finding of its own).
			const int64_t t0(vclock_real_ns());
			while (reader_started() && !_impl->wait_idle(200))
				if (vclock_real_ns() - t0 > stall_ns()) { _log.add("NOTQUIET"); break; }
		}
		if (_p.pm == pm_pipeline && _ss && _p.role == 'I')
		{
			// the Logon travels through the writer thread: fresh persister, so it carries
			// (reset_sequence_numbers ? 1 : ss ? ss : 1) and next_send ends one above
			const unsigned first(_p.rsn ? 1 : _p.ss ? _p.ss : 1);
			wait_writer(1, first + 1);
			std::lock_guard<std::mutex> g(_log.m);
			std::stable_partition(_log.ev.begin(), _log.ev.end(), [](const std::string& e) { return e.compare(0, 3, "OUT") == 0; });
		}
	}

	bool custom_op(const std::vector<std::string>& t) override
	{
		if (t[0] != "CONC")
			return false;
		if (!_ss) { _log.add("NOSESSION"); return true; }
		unsigned seed(0), nticks(0);
		std::vector<std::string> inbound;
		std::vector<std::vector<Call>> progs;
		for (size_t i(1); i < t.size(); ++i)
		{
			const std::string& tok(t[i]);
			if (tok.compare(0, 2, "y=") == 0) { seed = static_cast<unsigned>(std::stoul(tok.substr(2))); continue; }
			if (tok.compare(0, 5, "tick=") == 0) { nticks = static_cast<unsigned>(std::stoul(tok.substr(5))); continue; }
			if (tok.compare(0, 3, "in=") == 0) { for (const auto& h : split(tok.substr(3), ',')) if (!h.empty()) inbound.push_back(unhex(h)); continue; }
			std::vector<Call> prog;
			if (tok != "-")
			{
				for (const auto& cs0 : split(tok, '+'))
				{
					std::string cs(cs0);
					unsigned wait(0);
					if (cs.size() > 2 && cs[1] == '@')
					{
						const size_t colon(cs.find(':'));
						if (colon == std::string::npos) throw std::invalid_argument("call");
						wait = static_cast<unsigned>(std::stoul(cs.substr(2, colon - 2)));
						cs = cs.substr(0, 1) + cs.substr(colon);
					}
					if (cs.size() < 2 || cs[1] != ':' || std::string("SPRBC").find(cs[0]) == std::string::npos)
						throw std::invalid_argument("call");
					Call c;
					c.wait = wait;
					c.kind = cs[0];
					c.batch = cs[0] == 'B' || cs[0] == 'C';
					if (!c.batch)
						c.msgs.push_back(build(cs.substr(2), c.custom, c.noinc));
					else
					{
						for (const auto& s : split(cs.substr(2), ';'))
						{
							unsigned custom(0); bool noinc(false);
							Message *m(build(s, custom, noinc));
							if (custom) m->set_custom_seqnum(custom);
							if (noinc) m->set_no_increment(true);
							c.msgs.push_back(m);
						}
					}
					prog.push_back(c);
				}
			}
			progs.push_back(prog);
		}
		unsigned long total(0);
		for (const auto& p : progs) for (const auto& c : p)
			if (!(c.kind == 'R' && _p.pm == pm_pipeline))      // throws while pipelining: nothing is queued
				total += c.msgs.size();
		const unsigned before(_ss->next_send());
		const unsigned long frames0(count_out());

		const size_t n(progs.size());
		std::vector<std::string> rets(n);
		std::atomic<unsigned> ready(0);
		std::atomic<bool> go(false), done(false);
		vsess::HSession *ss(_ss);
		auto worker = [&](size_t tid)
		{
			unsigned x(seed * 2654435761u + static_cast<unsigned>(tid) * 40503u + 12345u);
			ready.fetch_add(1);
			while (!go.load()) sched_yield();
			std::string& out(rets[tid]);
			for (const Call& c : progs[tid])
			{
				if (seed)
				{
					x = x * 1664525u + 1013904223u;
					const unsigned k((x >> 24) & 15u);
					if (k < 3) sched_yield();
					else if (k < 5) { for (volatile unsigned j(0); j < ((x >> 8) & 1023u); ++j) {} }
				}
				if (c.wait)
				{
					const int64_t t0(vclock_real_ns());
					while (ss->next_send() - before < c.wait && vclock_real_ns() - t0 < 5000000000LL) {}
				}
				std::string r;
				const bool pipe(_p.pm == pm_pipeline);
				bool mine(false);        // the thread deletes the messages after the call
				try
				{
					switch (c.kind)
					{
					case 'B': r = std::to_string(ss->send_batch(c.msgs, true)); break;
					case 'C': mine = !pipe; r = std::to_string(ss->send_batch(c.msgs, false)); break;
					case 'P': mine = !pipe; r = ss->send(c.msgs[0], false, c.custom, c.noinc) ? "1" : "0"; break;
					case 'R': mine = true; r = ss->send(*c.msgs[0], c.custom, c.noinc) ? "1" : "0"; break;
					default: r = ss->send(c.msgs[0], true, c.custom, c.noinc) ? "1" : "0"; break;
					}
				}
				catch (...) { r = "X"; }
				if (mine)
					for (Message *m : c.msgs) delete m;
				if (!out.empty()) out += ',';
				out += r;
			}
		};
		std::vector<std::thread> ths;
		for (size_t i(0); i < n; ++i)
			ths.emplace_back(worker, i);
		std::thread ticker;
		unsigned long tick_count(0);
		if (nticks)
			ticker = std::thread([&]()
			{
				while (!go.load()) sched_yield();
				while (!done.load())
				{
					try { ss->tick(); ++tick_count; } catch (...) {}
					for (unsigned j(0); j < nticks; ++j) sched_yield();
				}
			});
		OverlapPersister *wrap(nullptr);
		if (_ss->persister())
		{
			wrap = new OverlapPersister(_ss->persister());
			PersistAccess::ref(*_ss) = wrap;
		}
		std::thread feeder;
		if (!inbound.empty())
			feeder = std::thread([&]()
			{
				while (!go.load()) sched_yield();
				for (const auto& m : inbound)
				{
					_impl->push_in(m);
					for (int j(0); j < 30; ++j) sched_yield();
				}
			});
		while (ready.load() < n) sched_yield();
		std::fputs("C25-CONC-BEGIN\n", stderr);
		bigblocks::state.store(0);
		bigblocks::session.store(ss);
		go.store(true);
		for (auto& th : ths) th.join();
		done.store(true);
		if (ticker.joinable()) ticker.join();
		if (feeder.joinable()) feeder.join();
		if (!inbound.empty())
			wait_quiet();                 // pm_thread: the reader thread has processed everything and is blocked again
		if (_p.pm == pm_pipeline)
			wait_writer(frames0 + total, before + static_cast<unsigned>(total));
		bigblocks::session.store(nullptr);
		if (wrap)
		{
			PersistAccess::ref(*_ss) = _per;
			_log.add("OVERLAP " + std::to_string(wrap->overlaps.load()));
			delete wrap;
		}
		{
			// OUT.. in wire order first, then what the reader thread logged for the inbound messages, then the rest
			std::lock_guard<std::mutex> g(_log.m);
			std::stable_partition(_log.ev.begin(), _log.ev.end(), [](const std::string& e) { return e.compare(0, 3, "OUT") == 0; });
			std::stable_partition(_log.ev.begin(), _log.ev.end(), [](const std::string& e) { return e.compare(0, 3, "OUT") == 0 || e.compare(0, 4, "RET ") == 0; });
		}
		std::fprintf(stderr, "C25-CONC-END ticks=%lu\n", tick_count);
		for (size_t i(0); i < n; ++i)
			_log.add("TRET " + std::to_string(i) + ' ' + (rets[i].empty() ? std::string("-") : rets[i]));
		return true;
	}
};

// ---- canonical form -------------------------------------------------------------------------------------
std::string seq_of_hex(const std::string& hex)
{
	const std::string raw(unhex(hex));
	size_t p(raw.find("\x01" "34="));
	if (p == std::string::npos) return "-";
	p += 4;
	const size_t e(raw.find('\x01', p));
	if (e == std::string::npos || e == p) return "-";
	return raw.substr(p, e - p);
}

std::string canon_conc(const std::string& step)
{
	unsigned long nout(0);
	std::string first("-"), last("-"), rest;
	for (const auto& it : split(step, ';'))
	{
		if (it.compare(0, 4, "OUT ") == 0)
		{
			const std::string s(seq_of_hex(it.substr(4)));
			if (!nout) first = s;
			last = s;
			++nout;
		}
		else if (it.compare(0, 5, "TRET ") == 0)
		{
			const std::vector<std::string> w(split(it, ' '));
			unsigned long calls(0), sum(0);
			bool bad(false);
			if (w.size() == 3 && w[2] != "-")
				for (const auto& r : split(w[2], ','))
				{
					++calls;
					if (r.empty() || r.find_first_not_of("0123456789") != std::string::npos) bad = true;
					else sum += std::stoul(r);
				}
			rest += ";TRET " + (w.size() > 1 ? w[1] : std::string("?")) + ' ' + std::to_string(calls) + ' ' + (bad ? std::string("X") : std::to_string(sum));
		}
		else if (it.compare(0, 5, "STORE") == 0)
		{
			unsigned long words(0);
			for (const auto& w : split(it, ' ')) if (!w.empty()) ++words;
			rest += ";STORE " + std::to_string(words ? (words - 1) / 2 : 0);
		}
		else
			rest += ';' + it;
	}
	return "CONC OUT " + std::to_string(nout) + ' ' + first + ' ' + last + rest;
}

std::vector<std::string> split_steps(const std::string& raw)
{
	std::vector<std::string> out;
	size_t p(0);
	for (;;)
	{
		const size_t q(raw.find(" | ", p));
		if (q == std::string::npos) { out.push_back(raw.substr(p)); break; }
		out.push_back(raw.substr(p, q - p));
		p = q + 3;
	}
	return out;
}

std::string canonical(const std::string& line, const std::string& raw)
{
	const std::vector<std::string> ops(split(line, '|')), steps(split_steps(raw));
	std::string r;
	for (size_t i(0); i < steps.size(); ++i)
	{
		if (i) r += " | ";
		std::string name;
		if (i < ops.size())
			for (const auto& t : split(ops[i], ' ')) if (!t.empty()) { name = t; break; }
		r += name == "CONC" ? canon_conc(steps[i]) : steps[i];
	}
	return r;
}

} // namespace

int main(int argc, char **argv)
{
	if (argc > 1 && std::string(argv[1]) == "--meta")
	{
		vsess::dump_meta(std::cout);
		return 0;
	}
	const char *vrd(getenv("VERIF_RUN_DIR"));	// private per-run directory, removed by the framework
	const std::string root(std::string(vrd && *vrd ? vrd : "/tmp") + "/SESS-" + std::to_string(getpid()));
	C25Harness h(root);
	std::string line;
	while (std::getline(std::cin, line))
	{
		const std::string raw(h.run_case(line));
		std::cout << canonical(line, raw) << " ## " << raw << std::endl;
	}
	return 0;
}
