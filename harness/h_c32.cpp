// C32 harness: the real XmlElement parser (runtime/xml.cpp) on the bytes of each case, with the
// ${ENV} / !{cmd} extension forms switched OFF (XmlElement::noextensions) in every run, then a
// canonical dump of the tree it built and the answers of XmlElement::find to the listed queries.
//
// case   : "<kind> <hex bytes> <expected tree dump | -> <queries | ->"
//          query = <1|A>:<start address>:<hex path>[:<hex atag | ~>:<hex aval | ~>[:<hex delim>]]   (';'-separated)
//                  1 = find(what, atag, aval, delim), A = find(what, eset, atag, aval, delim); ~ = null pointer
//          address = r | r.<i>.<j>...   (positions in document order, ordchildren_)
// result : "T <dump> Q <answer>;<answer>..."   |  "E <hex of what()>"  |  "SKIP xi:include"
// dump   : el = '<' hex(tag) ['?' hex(decl)] ['=' hex(value)] {'@' hex(key) ':' hex(val)} {el} '>'
//          (attributes in key order of the std::map, children in ordchildren_ order)
#include "hcommon.hpp"
#include <fix8/f8includes.hpp>

using namespace FIX8;

static std::string hx(const std::string& s)
{
	static const char *d = "0123456789abcdef";
	std::string r;
	r.reserve(s.size() * 2);
	for (unsigned char c : s) { r.push_back(d[c >> 4]); r.push_back(d[c & 15]); }
	return r;
}

static void dump(const XmlElement *e, std::string& out)
{
	out += '<';
	out += hx(e->GetTag());
	if (e->GetDecl()) { out += '?'; out += hx(*e->GetDecl()); }
	if (e->GetVal()) { out += '='; out += hx(*e->GetVal()); }
	for (XmlElement::XmlAttrs::const_iterator itr(e->abegin()); itr != e->aend(); ++itr)
	{
		out += '@'; out += hx(itr->first); out += ':'; out += hx(itr->second);
	}
	for (XmlElement::XmlSet::const_iterator itr(e->begin()); itr != e->end(); ++itr)
		dump(*itr, out);
	out += '>';
}

static std::string address(const XmlElement *e)
{
	const XmlElement *p(e->GetParent());
	if (!p)
		return "r";
	int idx(0);
	for (XmlElement::XmlSet::const_iterator itr(p->begin()); itr != p->end(); ++itr, ++idx)
		if (*itr == e)
			return address(p) + "." + std::to_string(idx);
	return address(p) + ".?";
}

static const XmlElement *locate(const XmlElement *root, const std::string& addr)
{
	const std::vector<std::string> parts(split(addr, '.'));
	if (parts.empty() || parts[0] != "r")
		return nullptr;
	const XmlElement *cur(root);
	for (size_t ii(1); ii < parts.size(); ++ii)
	{
		int want(atoi(parts[ii].c_str())), idx(0);
		const XmlElement *nxt(nullptr);
		for (XmlElement::XmlSet::const_iterator itr(cur->begin()); itr != cur->end(); ++itr, ++idx)
			if (idx == want) { nxt = *itr; break; }
		if (!nxt)
			return nullptr;
		cur = nxt;
	}
	return cur;
}

static std::string query(const XmlElement *root, const std::string& q)
{
	const std::vector<std::string> f(split(q, ':'));
	if (f.size() != 3 && f.size() != 5 && f.size() != 6)
		return "badquery";
	const XmlElement *start(locate(root, f[1]));
	if (!start)
		return "noelem";
	const std::string path(unhex(f[2]));
	std::string atag, aval;
	const std::string *pt(nullptr), *pv(nullptr);
	char delim('/');
	if (f.size() >= 5)
	{
		if (f[3] != "~") { atag = unhex(f[3]); pt = &atag; }
		if (f[4] != "~") { aval = unhex(f[4]); pv = &aval; }
	}
	if (f.size() == 6)
	{
		const std::string dl(unhex(f[5]));
		if (dl.size() != 1)
			return "badquery";
		delim = dl[0];
	}
	if (f[0] == "1")
	{
		const XmlElement *r(start->find(path, pt, pv, delim));
		return r ? address(r) : "none";
	}
	XmlElement::XmlSet eset;
	const int cnt(start->find(path, eset, pt, pv, delim));
	std::string out;
	for (XmlElement::XmlSet::const_iterator itr(eset.begin()); itr != eset.end(); ++itr)
	{
		if (!out.empty()) out += ',';
		out += address(*itr);
	}
	if (cnt != static_cast<int>(eset.size()))
		out += "!count=" + std::to_string(cnt);
	return out.empty() ? "none" : out;
}

static bool has_include(const std::string& bytes)
{
	std::string t;
	for (char c : bytes) if (c != '\n' && c != '\r') t.push_back(c);
	return t.find("xi:include") != std::string::npos;
}

int main()
{
	XmlElement::XmlFlags flags;
	flags.set(XmlElement::noextensions);
	XmlElement::set_flags(flags);
	if (!(XmlElement::flags_ & XmlElement::noextensions))
	{
		std::cerr << "noextensions not set" << std::endl;
		return 3;
	}

	std::string line;
	while (std::getline(std::cin, line))
	{
		std::istringstream ls(line);
		std::string kind, hexbytes, tree, queries;
		ls >> kind >> hexbytes >> tree >> queries;
		const std::string bytes(unhex(hexbytes));
		if (has_include(bytes))	// would open files named by the input: outside the checked domain
		{
			std::cout << "SKIP xi:include" << std::endl;
			continue;
		}
		std::string out;
		XmlElement *root(nullptr);
		try
		{
			std::istringstream is(bytes);
			root = XmlElement::Factory(is);
			if (!root)
				out = "NULL";
			else
			{
				out = "T ";
				dump(root, out);
				out += " Q ";
				if (queries.empty() || queries == "-")
					out += "-";
				else
				{
					const std::vector<std::string> qs(split(queries, ';'));
					for (size_t ii(0); ii < qs.size(); ++ii)
					{
						if (ii) out += ';';
						out += query(root, qs[ii]);
					}
				}
			}
		}
		catch (XMLError& e)
		{
			out = "E " + hx(e.what());
		}
		catch (f8Exception& e)
		{
			out = std::string("EXC f8Exception ") + hx(e.what());
		}
		catch (std::exception& e)
		{
			out = std::string("EXC std::exception ") + hx(e.what());
		}
		catch (...)
		{
			out = "EXC unknown";
		}
		delete root;
		std::cout << out << std::endl;
	}
	return 0;
}
