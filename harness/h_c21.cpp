// C21 harness: TWO real fix8 sessions in one process -- an initiator (ClientConnection) and an acceptor
// (ServerConnection), each with its own FilePersister directory, each on its own in-memory socket
// (vsock.hpp) -- joined by two in-flight buffers.  Built on sess_harness.hpp: every side IS a
// vsess::SessHarness (real HSession / connection / reader thread / persister), the harness below only moves
// the bytes one side wrote into the other side's socket when the schedule says so.  Virtual clock: T0, never
// moved.  Twin of coq/C21/TwoParty.v (the syntax of schedules and traces is described there).
//
// Case line = schedule: operations separated by '|':
//   SI <msgspec> / SA <msgspec>   Session::send on the initiator / acceptor
//   DA / DI                       deliver what is in flight towards the acceptor / initiator (one FIX message per chunk)
//   D                             DA, DI until nothing is in flight (at most 6 rounds)
//   DROP                          in-flight bytes lost, both sides re-created on their persister files (acceptor first)
//   OI / OA <msgspec>             OVERLAP: Session::send, and inside its modify_outbound hook the first message in flight
//                                 towards the sender is delivered and fully processed by its reader thread
//   CFG <a> <b>                   in-flight bytes lost, both sides re-created with start numbers: initiator ss=a rs=b,
//                                 acceptor ss=b rs=a (later reconnects recover from the files only)
//   RI / RA                       process restart of the initiator / acceptor: what is in flight towards the survivor
//                                 still arrives (its answers are discarded), the rest is lost, then as DROP
// Result line: one step per operation (step 0 = creation), "<initiator events;snapshot> # <acceptor events;snapshot>",
// steps joined by " | ".
#include "sess_harness.hpp"

namespace {

using vsess::SessHarness;
using namespace FIX8;

// HSession with the public modify_outbound hook of Session: called by send_process after the MsgSeqNum has been
// assigned and before the message is encoded, written and the control record is stored
class OSession : public vsess::HSession
{
public:
	std::function<void()> hook;        // one-shot
	OSession(const F8MetaCntx& ctx, const SessionID& sid, Persister *persist, vsess::EventLog& log)
		: vsess::HSession(ctx, sid, persist, log) {}
	OSession(const F8MetaCntx& ctx, const sender_comp_id& sci, Persister *persist, vsess::EventLog& log)
		: vsess::HSession(ctx, sci, persist, log) {}
	void modify_outbound(Message *) override
	{
		if (hook)
		{
			std::function<void()> h(hook);
			hook = nullptr;
			h();
		}
	}
};

class Side : public SessHarness
{
	size_t _taken = 0;                 // entries of the current socket's `writes` already taken
	std::string _events;               // events of the current schedule operation

public:
	explicit Side(const std::string& root) : SessHarness(root) {}

	void begin_case()
	{
		++_case_no;
		_snap.clear();
		_dir.clear();
		_events.clear();
	}
	void end_case()
	{
		teardown();
		if (!_dir.empty()) rmtree(_dir);
		_dir.clear();
	}

	// one operation of sess_harness (START/RESTART/SEND/IN ...), exceptions reported as in SessHarness::run_case
	void op(const std::vector<std::string>& toks)
	{
		try { run_op(toks); }
		catch (FIX8::f8Exception& e) { _log.add(std::string("EXC f8Exception")); }
		catch (Poco::Exception& e) { _log.add(std::string("EXC Poco::") + e.name()); }
		catch (std::exception& e) { _log.add("EXC std::exception"); }
		const std::string evs(_log.take());
		if (!evs.empty())
		{
			if (!_events.empty()) _events += ';';
			_events += evs;
		}
	}

	// teardown, then START with these parameters on the same persister files
	void restart_with(const std::vector<std::string>& start_toks)
	{
		try { teardown(); parse_params(start_toks); start(); }
		catch (FIX8::f8Exception& e) { _log.add(std::string("EXC f8Exception")); }
		catch (Poco::Exception& e) { _log.add(std::string("EXC Poco::") + e.name()); }
		catch (std::exception& e) { _log.add("EXC std::exception"); }
		const std::string evs(_log.take());
		if (!evs.empty())
		{
			if (!_events.empty()) _events += ';';
			_events += evs;
		}
	}

	void note(const std::string& s)
	{
		if (!_events.empty()) _events += ';';
		_events += s;
	}

	// the FIX messages this side wrote since the last call (a new socket starts from zero)
	std::vector<std::string> take_writes()
	{
		std::vector<std::string> out;
		if (!_impl)
			return out;
		for (; _taken < _impl->writes.size(); ++_taken)
		{
			std::vector<std::string> msgs; std::string rest;
			vsess::split_fix(_impl->writes[_taken], msgs, rest);
			for (const auto& m : msgs) out.push_back(m);
			if (!rest.empty()) out.push_back(rest);
		}
		return out;
	}

	// events of the schedule operation, then the snapshot
	std::string finish_step()
	{
		std::string r(_events);
		_events.clear();
		const std::string snap(snapshot());
		if (!r.empty() && !snap.empty()) r += ';';
		return r + snap;
	}

	// the next send calls `h` from inside send_process (modify_outbound)
	void set_hook(const std::function<void()>& h) { if (_os) _os->hook = h; }
	void clear_hook() { if (_os) _os->hook = nullptr; }

protected:
	OSession *_os = nullptr;

	// SessHarness::start with OSession in place of HSession (nothing else differs)
	void start() override
	{
		_taken = 0;
		using namespace vsess;
		if (_p.persist == "mem")
			_per = new MemoryPersister;
		else if (_p.persist == "file")
		{
			if (_dir.empty())
			{
				_dir = _tmp_root + "/c" + std::to_string(_case_no);
				mkdir(_dir.c_str(), 0700);
			}
			FilePersister *fp(new FilePersister(0));
			if (!fp->initialise(_dir, "sess.db", false))
				_log.add("PERSIST-INIT-FAILED");
			_per = fp;
		}
		else
			_per = nullptr;

		LoginParameters lp(defaults::retry_interval, 1, default_appl_ver_id(), defaults::connect_timeout,
			_p.rsn, _p.asa, _p.sd, false, false, false, _p.ec, 0, 0, _p.hb);
		for (const auto& c : _p.clients)
			lp._clients.insert({c, Client(c, Poco::Net::IPAddress())});

		_impl = new VSockImpl;
		_impl->duplicate();
		_impl->on_write = [this](const std::string& buf)
		{
			std::vector<std::string> msgs; std::string rest;
			split_fix(buf, msgs, rest);
			for (const auto& m : msgs) _log.add("OUT " + tohex(m));
			if (!rest.empty()) _log.add("OUTRAW " + tohex(rest));
		};
		_sock = new Poco::Net::StreamSocket(_impl);
		Poco::Net::SocketAddress addr("127.0.0.1", 34567);
		if (_p.role == 'I')
		{
			_os = new OSession(UTEST::ctx(), SessionID(UTEST::ctx()._beginStr, _p.sender, _p.target), _per, _log);
			_ss = _os;
			_ss->set_login_parameters(lp);
			_cconn = new HClientConn(_sock, addr, *_ss, _p.hb, _p.pm);
			_conn = _cconn;
		}
		else
		{
			_os = new OSession(UTEST::ctx(), sender_comp_id(_p.sender), _per, _log);
			_ss = _os;
			_ss->set_login_parameters(lp);
			_sconn = new HServerConn(_sock, addr, *_ss, _p.hb, _p.pm);
			_conn = _sconn;
		}
		const int r(_ss->start(_conn, false, _p.ss, _p.rs));
		_log.add("RET " + std::to_string(r));
		wait_quiet();
	}

	void teardown() override
	{
		_os = nullptr;
		SessHarness::teardown();
	}
};

typedef std::vector<std::string> Flight;

struct Two
{
	Side i, a;
	Flight ia, ai;                     // in flight initiator -> acceptor, acceptor -> initiator

	explicit Two(const std::string& root) : i(root + "-I"), a(root + "-A") {}

	static bool all_digits(const std::string& s)
	{
		if (s.empty()) return false;
		for (char c : s) if (c < '0' || c > '9') return false;
		return true;
	}
	static void append(Flight& f, const std::vector<std::string>& w) { f.insert(f.end(), w.begin(), w.end()); }

	void send(Side& s, Flight& f, const std::string& spec)
	{
		s.op({"SEND", spec});
		append(f, s.take_writes());
	}

	// OVERLAP: while `s` is inside send_process (modify_outbound hook) the first message in flight towards it arrives
	// and is fully processed by its reader thread; then the send finishes
	void send_overlapped(Side& s, Flight& out, Flight& in, const std::string& spec)
	{
		std::vector<std::string> answered;
		if (!in.empty())
		{
			const std::string first(in.front());
			in.erase(in.begin());
			s.set_hook([&s, first]() { s.op({"IN", tohex(first)}); });
		}
		s.op({"SEND", spec});
		s.clear_hook();
		append(out, s.take_writes());
	}

	// returns what the receiver wrote
	std::vector<std::string> deliver(Side& to, Flight& f)
	{
		if (f.empty())
			return {};
		std::string arg;
		for (size_t k(0); k < f.size(); ++k) { if (k) arg += ','; arg += tohex(f[k]); }
		f.clear();
		to.op({"IN", arg});
		return to.take_writes();
	}
	void deliver_a() { append(ai, deliver(a, ia)); }
	void deliver_i() { append(ia, deliver(i, ai)); }

	// both sides re-created on their files; ss/rs = Session::start's send / receive number arguments (0 = recover only)
	void reconnect(const std::string& i_ss = "0", const std::string& i_rs = "0")
	{
		ia.clear(); ai.clear();
		a.restart_with({"START", "A", "file", "asa=0", "ss=" + i_rs, "rs=" + i_ss});
		i.restart_with({"START", "I", "file", "asa=0", "ss=" + i_ss, "rs=" + i_rs});
		ia = i.take_writes();
		ai = a.take_writes();
	}

	void run_op(const std::vector<std::string>& t)
	{
		const std::string& op(t[0]);
		if (op == "SI" && t.size() == 2) send(i, ia, t[1]);
		else if (op == "SA" && t.size() == 2) send(a, ai, t[1]);
		else if (op == "OI" && t.size() == 2) send_overlapped(i, ia, ai, t[1]);
		else if (op == "OA" && t.size() == 2) send_overlapped(a, ai, ia, t[1]);
		else if (op == "CFG" && t.size() == 3 && all_digits(t[1]) && all_digits(t[2])) reconnect(t[1], t[2]);
		else if (t.size() != 1) { i.note("BADOP"); a.note("BADOP"); }
		else if (op == "DA") deliver_a();
		else if (op == "DI") deliver_i();
		else if (op == "D")
		{
			for (int k(0); k < 6 && (!ia.empty() || !ai.empty()); ++k) { deliver_a(); deliver_i(); }
		}
		else if (op == "DROP") reconnect();
		else if (op == "RI") { ai.clear(); deliver(a, ia); reconnect(); }
		else if (op == "RA") { ia.clear(); deliver(i, ai); reconnect(); }
		else { i.note("BADOP"); a.note("BADOP"); }
	}

	std::string step() { const std::string x(i.finish_step()); return x + " # " + a.finish_step(); }

	std::string run_case(const std::string& line)
	{
		vclock_set(VCLOCK_T0);
		i.begin_case(); a.begin_case();
		ia.clear(); ai.clear();
		a.op({"START", "A", "file", "asa=0"});
		i.op({"START", "I", "file", "asa=0"});
		ia = i.take_writes();
		ai = a.take_writes();
		std::string result(step());
		for (const auto& o : split(line, '|'))
		{
			std::vector<std::string> toks;
			for (const auto& t : split(o, ' ')) if (!t.empty()) toks.push_back(t);
			if (toks.empty()) toks.push_back("?");
			run_op(toks);
			result += " | " + step();
		}
		i.end_case(); a.end_case();
		return result;
	}
};

} // namespace

int main(int argc, char **argv)
{
	if (argc > 1 && std::string(argv[1]) == "--meta")
	{
		vsess::dump_meta(std::cout);
		return 0;
	}
	// FilePersister directories under $VERIF_RUN_DIR (private to this check run), never a shared path
	const char *d(getenv("VERIF_RUN_DIR"));
	std::string base(d && *d ? d : "/tmp/verif-run");
	mkdir(base.c_str(), 0777);
	const std::string root(base + "/c21-" + std::to_string(getpid()));
	Two two(root);
	std::string line;
	while (std::getline(std::cin, line))
		std::cout << two.run_case(line) << std::endl;
	return 0;
}
