// C28 harness: the real FIX8::FileLogger (file target, "sequence" flag) fed by 1..8 real producer threads.
//   case  : "<mode a|b|c> <level mask> <delay us> <prog>,<prog>,... [<direction flag 0|1> <vals>,<vals>,...]"
//           prog = one character per submit call of that producer: '0'..'4' = a line at level Debug..Fatal with the
//           text "<producer>.<call>", 'a'..'e' = a line with an EMPTY text at level 0..4; "-" = no calls
//           vals = per call the "val" argument of send(): '0' -> 0, '1' -> 1, '2' -> 4096 (default: all 0);
//           direction flag 1: the logger has Logger::direction besides Logger::sequence (default 0)
//           mode a: stop() is called by the producer thread that finishes last, right after its last call;
//           b: by the main thread <delay us> after it has joined the producers; c: by the main thread after the file has
//           been seen to contain one line per call at an enabled level (or has not grown for a while)
//           The producer threads stay alive until the logger has been destroyed: ~Logger and ~_f8_threadcore join the
//           logger thread again, and pthread_join on an already joined thread reads its descriptor, which glibc unmaps
//           once enough other threads have exited (observed SEGV in pthread_join, reported separately).
//   result: "rets=<per producer the results of send(), 0/1, '-' if none; comma separated> stop=<stop() returned>
//            file=<the file's lines, blanks replaced by '/', comma separated; '-' if empty>"
#include "hcommon.hpp"
#include <atomic>
#include <thread>
#include <fstream>
#include <chrono>
#include <unistd.h>
#include <sys/stat.h>
#include <fix8/f8includes.hpp>

using namespace FIX8;

static std::string g_dir;

static size_t count_lines(const std::string& path)
{
	std::ifstream ifs(path.c_str(), std::ios::binary);
	size_t n(0);
	char buf[65536];
	while (ifs)
	{
		ifs.read(buf, sizeof(buf));
		for (std::streamsize i(0); i < ifs.gcount(); ++i)
			if (buf[i] == '\n')
				++n;
	}
	return n;
}

static std::string run_case(const std::string& line, unsigned caseno)
{
	std::istringstream is(line);
	std::string mode, progs; unsigned mask, delay;
	if (!(is >> mode >> mask >> delay >> progs) || mode.size() != 1)
		return "BAD-CASE";
	std::vector<std::string> prog, vals;
	for (auto& p : split(progs, ','))
		prog.push_back(p == "-" ? std::string() : p);
	unsigned dirflag(0); std::string valstr;
	if (is >> dirflag >> valstr)
		for (auto& v : split(valstr, ','))
			vals.push_back(v == "-" ? std::string() : v);
	vals.resize(prog.size());
	for (size_t i(0); i < prog.size(); ++i)
		vals[i].resize(prog[i].size(), '0');
	const size_t np(prog.size());
	if (np < 1 || np > 64)
		return "BAD-CASE";
	size_t expect(0);
	bool has_marker(false);
	for (auto& p : prog)
		for (char ch : p)
		{
			const int lev(ch >= 'a' ? ch - 'a' : ch - '0');
			if (lev < 0 || lev > 4)
				return "BAD-CASE";
			if (mask & (1u << lev))
			{
				++expect;
				if (ch >= 'a')
					has_marker = true;
			}
		}

	std::ostringstream pn;
	pn << g_dir << "/case" << caseno << ".log";
	const std::string path(pn.str());

	Logger::LogFlags flags;
	flags << Logger::sequence;
	if (dirflag)
		flags << Logger::direction;
	FileLogger *lg(new FileLogger(path, flags, Logger::Levels(mask), " ", Logger::LogPositions(), 0));

	std::vector<std::string> rets(np);
	std::atomic<bool> go(false);
	std::atomic<int> remaining(static_cast<int>(np));
	std::atomic<bool> finished(false), release(false);
	const bool last_stops(mode == "a");
	std::vector<std::thread> thr;
	for (size_t i(0); i < np; ++i)
		thr.emplace_back([&, i]()
		{
			while (!go.load())
				sched_yield();
			const std::string& p(prog[i]);
			for (size_t k(0); k < p.size(); ++k)
			{
				const bool empty(p[k] >= 'a');
				const int lev(empty ? p[k] - 'a' : p[k] - '0');
				std::ostringstream txt;
				if (!empty)
					txt << i << '.' << k;
				const unsigned val(vals[i][k] == '0' ? 0 : vals[i][k] == '1' ? 1 : 4096);
				const bool r(lg->send(txt.str(), static_cast<Logger::Level>(lev), nullptr, val));
				rets[i].push_back(r ? '1' : '0');
				if (np > 1 && (k + i) % 3 == 0)		// let the producers interleave
					sched_yield();
			}
			if (--remaining == 0)
			{
				if (last_stops)
					lg->stop();
				finished = true;
			}
			while (!release.load())
				usleep(100);
		});
	go = true;
	while (!finished.load())
		usleep(20);

	if (mode == "b")
		usleep(delay);
	else if (mode == "c")
	{
		// until the file is complete (at most 30 s).  Only when a program contains the stop marker (an empty text at an
		// enabled level) can the file stay incomplete for ever: then until it has not grown for 2 s.
		size_t last(0);
		const auto begin(std::chrono::steady_clock::now());
		auto since(begin);
		for (;;)
		{
			const size_t n(count_lines(path));
			if (n >= expect)
				break;
			const auto nowt(std::chrono::steady_clock::now());
			if (n != last) { last = n; since = nowt; }
			if (has_marker ? nowt - since > std::chrono::seconds(2) : nowt - begin > std::chrono::seconds(30))
				break;
			usleep(200);
		}
	}
	if (!last_stops)
		lg->stop();
	const bool stopped(true);

	std::ostringstream out;
	out << "rets=";
	for (size_t i(0); i < np; ++i)
		out << (i ? "," : "") << (rets[i].empty() ? std::string("-") : rets[i]);
	out << " stop=" << (stopped ? 1 : 0) << " file=";
	{
		std::ifstream ifs(path.c_str(), std::ios::binary);
		std::string l;
		bool first(true);
		while (std::getline(ifs, l))
		{
			for (auto& ch : l)
			{
				if (ch == ' ') ch = '/';
				else if (!(isalnum(static_cast<unsigned char>(ch)) || ch == '.')) ch = '?';
			}
			out << (first ? "" : ",") << (l.empty() ? std::string("?") : l);
			first = false;
		}
		if (first)
			out << '-';
	}
	delete lg;
	release = true;
	for (auto& t : thr)
		t.join();
	unlink(path.c_str());
	return out.str();
}

int main()
{
	char dir[64];
	snprintf(dir, sizeof(dir), "/tmp/C28-%d", (int)getpid());
	g_dir = dir;
	mkdir(dir, 0700);
	std::string line;
	unsigned n(0);
	while (std::getline(std::cin, line))
	{
		std::string r;
		try { r = run_case(line, n++); }
		catch (std::exception& e) { r = std::string("EXC ") + typeid(e).name(); }
		std::cout << r << std::endl;
	}
	std::string cmd(std::string("rm -rf ") + dir);
	if (system(cmd.c_str())) {}
	return 0;
}
