// C28 harness: the real FIX8::FileLogger (file target, "sequence" flag) fed by 1..8 real producer threads.
//   case  : "<mode a|b|c> <level mask> <delay us> <prog>,<prog>,... [<direction flag 0|1> <vals>,<vals>,...]"
//           prog = one character per submit call of that producer: '0'..'4' = a line at level Debug..Fatal with the
//           text "<producer>.<call>", 'a'..'e' = a line with an EMPTY text at level 0..4; "-" = no calls
//           vals = per call the "val" argument of send(): '0' -> 0, '1' -> 1, '2' -> 4096 (default: all 0);
//           direction flag 1: the logger has Logger::direction besides Logger::sequence (default 0)
//           optionally three more fields "<kind> <layout flags> <locs>,<locs>,...":
//             kind F = FileLogger (default), X = XmlFileLogger, P = PipeLogger ("|cat > file")
//             layout flags: any of m (mstart) s (sstart) t (thread) T (timestamp) M (minitimestamp) l (level) L (location), "-" = none;
//               Q = WITHOUT the sequence flag (the lines then carry no number; "Q" alone with direction 0: no prefix field at all)
//             locs = per call '1': send() gets a file/line string "src.cpp:<call>", '0': nullptr (default)
//           optionally a tenth field "<txts>,<txts>,...": per call the form of the text: '0' "<producer>.<call>" (default),
//             'n' the same followed by "\n", 'e' "<producer>.<call>\nx<call>" (embedded line end), 'r' followed by "\r\n",
//             'N' only "\n"   (basic layout of FileLogger only)
//           The file is read right after stop() has returned and BEFORE the logger is destroyed (destruction flushes the
//           stream); "post=" is the number of physical lines the file has after the destruction.
//           Whatever the layout, the result reports for every written line the sequence field (as 7 digits), the direction
//           field if the flag is set, and the text, EXTRACTED from the line (text = last word of a text line / the text
//           attribute of an XML line); a line from which they cannot be extracted is reported as "?<line>".
//           mode a: stop() is called by the producer thread that finishes last, right after its last call;
//           b: by the main thread <delay us> after it has joined the producers; c: by the main thread after the file has
//           been seen to contain one line per call at an enabled level (or has not grown for a while)
//           The producer threads stay alive until the logger has been destroyed: ~Logger and ~_f8_threadcore join the
//           logger thread again, and pthread_join on an already joined thread reads its descriptor, which glibc unmaps
//           once enough other threads have exited (observed SEGV in pthread_join, reported separately).
//   result: "rets=<per producer the results of send(), 0/1, '-' if none; comma separated> stop=<stop() returned>
//            file=<the file's lines, blanks replaced by '/', comma separated; '-' if empty>"
#include "hcommon.hpp"
#include <atomic>
#include <thread>
#include <fstream>
#include <chrono>
#include <unistd.h>
#include <sys/stat.h>
#include <fix8/f8includes.hpp>

using namespace FIX8;

static std::string g_dir;

static size_t count_lines(const std::string& path)
{
	std::ifstream ifs(path.c_str(), std::ios::binary);
	size_t n(0);
	char buf[65536];
	while (ifs)
	{
		ifs.read(buf, sizeof(buf));
		for (std::streamsize i(0); i < ifs.gcount(); ++i)
			if (buf[i] == '\n')
				++n;
	}
	return n;
}

static std::string run_case(const std::string& line, unsigned caseno)
{
	std::istringstream is(line);
	std::string mode, progs; unsigned mask, delay;
	if (!(is >> mode >> mask >> delay >> progs) || mode.size() != 1)
		return "BAD-CASE";
	std::vector<std::string> prog, vals;
	for (auto& p : split(progs, ','))
		prog.push_back(p == "-" ? std::string() : p);
	unsigned dirflag(0); std::string valstr;
	if (is >> dirflag >> valstr)
		for (auto& v : split(valstr, ','))
			vals.push_back(v == "-" ? std::string() : v);
	vals.resize(prog.size());
	for (size_t i(0); i < prog.size(); ++i)
		vals[i].resize(prog[i].size(), '0');
	const size_t np(prog.size());
	if (np < 1 || np > 64)
		return "BAD-CASE";
	size_t expect(0);
	bool has_marker(false);
	for (auto& p : prog)
		for (char ch : p)
		{
			const int lev(ch >= 'a' ? ch - 'a' : ch - '0');
			if (lev < 0 || lev > 4)
				return "BAD-CASE";
			if (mask & (1u << lev))
			{
				++expect;
				if (ch >= 'a')
					has_marker = true;
			}
		}

	std::string kind("F"), layout("-"), locstr;
	std::vector<std::string> locs;
	if (is >> kind >> layout >> locstr)
		for (auto& v : split(locstr, ','))
			locs.push_back(v == "-" ? std::string() : v);
	locs.resize(prog.size());
	for (size_t i(0); i < prog.size(); ++i)
		locs[i].resize(prog[i].size(), '0');
	std::string txtstr;
	std::vector<std::string> txts;
	if (is >> txtstr)
		for (auto& v : split(txtstr, ','))
			txts.push_back(v == "-" ? std::string() : v);
	txts.resize(prog.size());
	for (size_t i(0); i < prog.size(); ++i)
		txts[i].resize(prog[i].size(), '0');
	if (kind != "F" && kind != "X" && kind != "P")
		return "BAD-CASE";
	// physical lines the complete file has: one per call at an enabled level, plus the line ends inside the texts
	expect = 0;
	for (size_t i(0); i < prog.size(); ++i)
		for (size_t k(0); k < prog[i].size(); ++k)
		{
			const char ch(prog[i][k]);
			const int lev(ch >= 'a' ? ch - 'a' : ch - '0');
			if (mask & (1u << lev))
				expect += 1 + (ch >= 'a' || txts[i][k] == '0' ? 0 : 1);
		}
	const bool xml(kind == "X"), piped(kind == "P");
	auto has = [&](char f) { return layout.find(f) != std::string::npos; };

	std::ostringstream pn;
	pn << g_dir << "/case" << caseno << ".log";
	const std::string path(pn.str());

	const bool noseq(has('Q'));
	Logger::LogFlags flags;
	if (!noseq)
		flags << Logger::sequence;
	if (dirflag)
		flags << Logger::direction;
	if (has('m')) flags << Logger::mstart;
	if (has('s')) flags << Logger::sstart;
	if (has('t')) flags << Logger::thread;
	if (has('T')) flags << Logger::timestamp;
	if (has('M')) flags << Logger::minitimestamp;
	if (has('l')) flags << Logger::level;
	if (has('L')) flags << Logger::location;
	Logger *lg(0);
	if (xml)
		lg = new XmlFileLogger(path, flags, Logger::Levels(mask), " ", Logger::LogPositions(), 0);
	else if (piped)
		lg = new PipeLogger("|cat > " + path, flags, Logger::Levels(mask), " ");
	else
		lg = new FileLogger(path, flags, Logger::Levels(mask), " ", Logger::LogPositions(), 0);
	if (xml)
		expect += 2;		// the two lines of the preamble

	// the file/line strings must outlive the logger: LogElement stores the pointer only
	std::vector<std::vector<std::string> > loc_store(np);
	for (size_t i(0); i < np; ++i)
		for (size_t k(0); k < prog[i].size(); ++k)
		{
			std::ostringstream loc;
			loc << "src.cpp:" << k;
			loc_store[i].push_back(loc.str());
		}
	std::vector<std::string> rets(np);
	std::atomic<bool> go(false);
	std::atomic<int> remaining(static_cast<int>(np));
	std::atomic<bool> finished(false), release(false);
	const bool last_stops(mode == "a");
	std::vector<std::thread> thr;
	for (size_t i(0); i < np; ++i)
		thr.emplace_back([&, i]()
		{
			while (!go.load())
				sched_yield();
			const std::string& p(prog[i]);
			for (size_t k(0); k < p.size(); ++k)
			{
				const bool empty(p[k] >= 'a');
				const int lev(empty ? p[k] - 'a' : p[k] - '0');
				std::ostringstream txt;
				if (!empty)
				{
					const char form(txts[i][k]);
					if (form == 'N')
						txt << '\n';
					else
					{
						txt << i << '.' << k;
						if (form == 'n') txt << '\n';
						else if (form == 'e') txt << "\nx" << k;
						else if (form == 'r') txt << "\r\n";
					}
				}
				const unsigned val(vals[i][k] == '0' ? 0 : vals[i][k] == '1' ? 1 : 4096);
				const char *fl(locs[i][k] == '1' ? loc_store[i][k].c_str() : nullptr);
				const bool r(lg->send(txt.str(), static_cast<Logger::Level>(lev), fl, val));
				rets[i].push_back(r ? '1' : '0');
				if (np > 1 && (k + i) % 3 == 0)		// let the producers interleave
					sched_yield();
			}
			if (--remaining == 0)
			{
				if (last_stops)
					lg->stop();
				finished = true;
			}
			while (!release.load())
				usleep(100);
		});
	go = true;
	while (!finished.load())
		usleep(20);

	if (mode == "b")
		usleep(delay);
	else if (mode == "c")
	{
		// until the file is complete (at most 30 s).  Only when a program contains the stop marker (an empty text at an
		// enabled level) can the file stay incomplete for ever: then until it has not grown for 2 s.
		size_t last(0);
		const auto begin(std::chrono::steady_clock::now());
		auto since(begin);
		for (;;)
		{
			const size_t n(count_lines(path));
			if (n >= expect)
				break;
			const auto nowt(std::chrono::steady_clock::now());
			if (n != last) { last = n; since = nowt; }
			if (has_marker ? nowt - since > std::chrono::seconds(2) : nowt - begin > std::chrono::seconds(30))
				break;
			usleep(200);
		}
	}
	if (!last_stops)
		lg->stop();
	const bool stopped(true);

	std::ostringstream out;
	out << "rets=";
	for (size_t i(0); i < np; ++i)
		out << (i ? "," : "") << (rets[i].empty() ? std::string("-") : rets[i]);
	out << " stop=" << (stopped ? 1 : 0) << " file=";
	if (piped)
	{
		delete lg;		// pclose: cat has written everything it was given
		lg = 0;
	}
	{
		std::ifstream ifs(path.c_str(), std::ios::binary);
		std::string l;
		bool first(true);
		while (std::getline(ifs, l))
		{
			std::string canon;
			bool good(false);
			if (xml)
			{
				if (l.compare(0, 12, "   <logline ") != 0)
					continue;		// preamble / postamble
				auto attr = [&](const char *name, std::string& val)
				{
					const std::string key(std::string(" ") + name + "=\'");
					const size_t p(l.find(key));
					if (p == std::string::npos)
						return false;
					const size_t q(l.find('\'', p + key.size()));
					if (q == std::string::npos)
						return false;
					val = l.substr(p + key.size(), q - p - key.size());
					return true;
				};
				std::string sq, dr, tx;
				if ((noseq || (attr("sequence", sq) && !sq.empty() && sq.size() <= 7
						&& sq.find_first_not_of("0123456789") == std::string::npos))
					&& attr("text", tx) && l.size() >= 2 && l.compare(l.size() - 2, 2, "/>") == 0
					&& (!dirflag || attr("direction", dr)))
				{
					canon = (noseq ? std::string() : std::string(7 - sq.size(), '0') + sq + ' ') + (dirflag ? dr + ' ' : std::string()) + tx;
					good = true;
				}
			}
			else if (layout == "-" || layout == "Q")
			{
				canon = l;		// sequence [direction] text: the whole line, as it is
				good = true;
			}
			else
			{
				// fields in the order mstart sstart sequence thread timestamp minitimestamp direction level location, then the text;
				// a field that renders empty (location without a file/line string) is left out together with its delimiter
				const size_t off((has('m') ? 12 : 0) + (has('s') ? 9 : 0));
				const size_t sp(l.rfind(' '));
				std::string tx(sp == std::string::npos ? l : l.substr(sp + 1));
				std::string head(sp == std::string::npos ? std::string() : l.substr(0, sp));		// without the text and its delimiter
				if (has('L'))
				{
					const size_t lp(head.rfind(' '));
					const size_t st(lp == std::string::npos ? 0 : lp + 1);
					if (head.compare(st, 8, "src.cpp:") == 0)
						head.erase(lp == std::string::npos ? 0 : lp);
				}
				if (has('l') && head.size() >= 5)
					head.erase(head.size() >= 6 ? head.size() - 6 : 0);		// "Info " and its delimiter
				std::string dr, sq;
				bool okf(true);
				if (dirflag)
				{
					okf = head.size() >= 3;
					if (okf)
						dr = head.substr(head.size() - 3);
				}
				if (okf && !noseq)
				{
					okf = head.size() >= off + 7;
					if (okf)
					{
						sq = head.substr(off, 7);
						okf = sq.find_first_not_of("0123456789") == std::string::npos;
					}
				}
				if (okf)
				{
					canon = (noseq ? std::string() : sq + ' ') + (dirflag ? dr + ' ' : std::string()) + tx;
					good = true;
				}
			}
			if (!good)
				canon = "?" + l;
			for (auto& ch : canon)
			{
				if (ch == ' ') ch = '/';
				else if (ch == '\r') ch = '~';
				else if (!(isalnum(static_cast<unsigned char>(ch)) || ch == '.' || (ch == '?' && !good))) ch = '_';
			}
			out << (first ? "" : ",") << (canon.empty() ? std::string("=") : canon);
			first = false;
		}
		if (first)
			out << '-';
	}
	delete lg;
	{
		size_t post(count_lines(path));
		if (xml)
			post = post >= 3 ? post - 3 : 0;		// preamble (2 lines) and postamble
		out << " post=" << post;
	}
	release = true;
	for (auto& t : thr)
		t.join();
	unlink(path.c_str());
	return out.str();
}

int main()
{
	char dir[64];
	snprintf(dir, sizeof(dir), "/tmp/C28-%d", (int)getpid());
	g_dir = dir;
	mkdir(dir, 0700);
	std::string line;
	unsigned n(0);
	while (std::getline(std::cin, line))
	{
		std::string r;
		try { r = run_case(line, n++); }
		catch (std::exception& e) { r = std::string("EXC ") + typeid(e).name(); }
		std::cout << r << std::endl;
	}
	std::string cmd(std::string("rm -rf ") + dir);
	if (system(cmd.c_str())) {}
	return 0;
}
