// C27 harness: the real FilePersister with crash injection at system-call granularity.
// Linked with -Wl,--wrap=write,--wrap=lseek: every write()/lseek() issued by the fix8 objects
// goes through the counters below.
// case:   "<pre ops>|<k>|<after ops>"     (ops as in h_c26.cpp, ';'-separated; no range get)
//   child  : fresh store (initialise(purge)), runs <pre>; the process _exit()s when it is about
//            to make wrapped call number k+1 (k calls have completed); reports every operation
//            that returned.
//   parent : reads both files byte-wise, then opens a new FilePersister on the surviving files
//            (initialise without purge) and runs <after>.
// result: "<n returned>|<their results>|<index file hex>|<data file hex>|<results of after>"
#include "hcommon.hpp"
#include <fix8/f8includes.hpp>
#include <unistd.h>
#include <fcntl.h>
#include <sys/stat.h>
#include <sys/wait.h>
#include <dirent.h>
#include <memory>
#include <fstream>

using namespace FIX8;

extern "C"
{
	ssize_t __real_write(int fd, const void *buf, size_t n);
	off_t __real_lseek(int fd, off_t off, int whence);
	static volatile long g_limit = -1, g_count = 0;      // armed while g_limit >= 0
	ssize_t __wrap_write(int fd, const void *buf, size_t n)
	{
		if (g_limit >= 0) { if (g_count == g_limit) _exit(0); ++g_count; }
		return __real_write(fd, buf, n);
	}
	off_t __wrap_lseek(int fd, off_t off, int whence)
	{
		if (g_limit >= 0) { if (g_count == g_limit) _exit(0); ++g_count; }
		return __real_lseek(fd, off, whence);
	}
}

static std::string g_dir;

static void rmdir_all(const std::string& d)
{
	if (DIR *dp = opendir(d.c_str()))
	{
		while (dirent *e = readdir(dp))
		{
			const std::string n(e->d_name);
			if (n != "." && n != "..")
				unlink((d + "/" + n).c_str());
		}
		closedir(dp);
	}
	rmdir(d.c_str());
}

static std::string exec_op(std::unique_ptr<FilePersister>& per, const std::string& name, const std::string& ops)
{
	std::ostringstream out;
	std::istringstream is(ops);
	char op; is >> op;
	switch (op)
	{
	case 'P': { unsigned s; std::string hx; is >> s >> hx; out << (per->put(s, unhex(hx)) ? 1 : 0); break; }
	case 'G': { unsigned s; is >> s; f8String to; if (per->get(s, to)) out << "1:" << tohex(to); else out << 0; break; }
	case 'C': { unsigned s, t; is >> s >> t; out << (per->put(s, t) ? 1 : 0); break; }
	case 'c': { unsigned s(0), t(0); if (per->get(s, t)) out << "1:" << s << ',' << t; else out << 0; break; }
	case 'L': { unsigned l(77); per->get_last_seqnum(l); out << l; break; }
	case 'N': { unsigned r, l; is >> r >> l; out << per->find_nearest_highest_seqnum(r, l); break; }
	case 'O':
	{
		per.reset();
		per.reset(new FilePersister);
		out << (per->initialise(g_dir, name, false) ? 1 : 0);
		break;
	}
	default: out << "BAD-OP"; break;
	}
	return out.str();
}

static void put_all(int fd, const std::string& s)
{
	size_t off(0);
	while (off < s.size())
	{
		const ssize_t w(__real_write(fd, s.data() + off, s.size() - off));
		if (w <= 0) break;
		off += w;
	}
}

static std::string read_all(int fd)
{
	std::string r;
	char buf[65536];
	ssize_t n;
	while ((n = read(fd, buf, sizeof(buf))) > 0)
		r.append(buf, n);
	return r;
}

static std::string slurp(const std::string& path)
{
	std::ifstream f(path.c_str(), std::ios::binary);
	std::ostringstream o;
	o << f.rdbuf();
	return o.str();
}

static std::vector<std::string> nonempty(const std::vector<std::string>& v)
{
	std::vector<std::string> r;
	for (const std::string& s : v) if (!s.empty()) r.push_back(s);
	return r;
}

int main()
{
	// The global logger (its queue and its polling thread) is created once, here, switched off:
	// the children inherit the switched-off instance and never log.  The logger thread of this
	// process only polls an empty queue (no allocation), so forking next to it is safe.
	{
		std::ostringstream d;
		d << "/tmp/C27-" << getpid();
		g_dir = d.str();
		mkdir(g_dir.c_str(), 0700);
	}
	// (the logger ROTATES its file on construction: the name must be a private path, never a device)
	GlobalLogger::set_global_filename(g_dir + "/global.log");
	GlobalLogger::set_levels(Logger::Levels());
	std::string line;
	unsigned caseno(0);
	while (std::getline(std::cin, line))
	{
		std::ostringstream res;
		const std::vector<std::string> parts(split(line, '|'));
		if (parts.size() != 3) { std::cout << "BAD-CASE" << std::endl; continue; }
		const std::vector<std::string> pre(nonempty(split(parts[0], ';'))), after(nonempty(split(parts[2], ';')));
		const long k(atol(parts[1].c_str()));
		std::ostringstream fn; fn << "db" << ++caseno;
		const std::string name(fn.str());

		// ---- child: run <pre>, die after k system calls
		int pa[2]; if (pipe(pa)) { std::cout << "PIPE-FAIL" << std::endl; continue; }
		std::cout.flush();
		pid_t pid(fork());
		if (pid == 0)
		{
			close(pa[0]);
			std::unique_ptr<FilePersister> per(new FilePersister);
			if (!per->initialise(g_dir, name, true)) { put_all(pa[1], "INIT-FAIL\n"); _exit(3); }
			g_count = 0; g_limit = k;
			for (const std::string& o : pre)
			{
				const std::string r(exec_op(per, name, o));
				put_all(pa[1], r + "\n");
			}
			g_limit = -1;
			_exit(0);
		}
		close(pa[1]);
		const std::string rep(read_all(pa[0]));
		close(pa[0]);
		int status(0); waitpid(pid, &status, 0);
		if (!WIFEXITED(status) || WEXITSTATUS(status) != 0)
		{
			std::cout << "CHILD-A-FAIL status=" << status << ' ' << rep.substr(0, 100) << std::endl;
			continue;
		}
		std::vector<std::string> done(split(rep, '\n'));
		if (!done.empty() && done.back().empty()) done.pop_back();
		res << done.size() << '|';
		if (done.empty()) res << '-';
		for (size_t i(0); i < done.size(); ++i) res << (i ? ";" : "") << done[i];

		// ---- the surviving files
		res << '|' << tohex(slurp(g_dir + "/" + name + ".idx")) << '|' << tohex(slurp(g_dir + "/" + name)) << '|';

		// ---- reopen: a new FilePersister on the surviving files (this process), run <after>
		{
			std::unique_ptr<FilePersister> per(new FilePersister);
			if (!per->initialise(g_dir, name, false))
				res << "REOPEN-FAIL";
			else
			{
				std::string out;
				for (size_t i(0); i < after.size(); ++i)
					out += (i ? ";" : "") + exec_op(per, name, after[i]);
				res << (out.empty() ? "-" : out);
			}
		}
		unlink((g_dir + "/" + name).c_str());
		unlink((g_dir + "/" + name + ".idx").c_str());
		std::cout << res.str() << std::endl;
	}
	rmdir_all(g_dir);
	return 0;
}
