#ifndef _INCLUDE_FIX__F_CONFIG_H
#define _INCLUDE_FIX__F_CONFIG_H 1
 
/* include/fix8/f8config.h. Generated automatically at end of configure. */
/* intermediate_config.h.  Generated from intermediate_config.h.in by configure.  */
/* intermediate_config.h.in.  Generated from configure.ac by autoheader.  */

//-----------------------------------------------------------------------------------------
/*

Fix8 is released under the GNU LESSER GENERAL PUBLIC LICENSE Version 3.

Fix8 Open Source FIX Engine.
Copyright (C) 2010-19 David L. Dight <fix@fix8.org>

Fix8 is free software: you can redistribute it and/or modify  it under the terms of the GNU
Lesser General Public License as  published by the Free Software Foundation, either version
3 of the License, or (at your option) any later version.

Fix8 is distributed in the hope  that it will be useful, but WITHOUT ANY WARRANTY;  without
even the  implied warranty of MERCHANTABILITY or FITNESS FOR A PARTICULAR PURPOSE.

You should  have received a copy of the GNU Lesser General Public  License along with Fix8.
If not, see <http://www.gnu.org/licenses/>.

BECAUSE THE PROGRAM IS  LICENSED FREE OF  CHARGE, THERE IS NO  WARRANTY FOR THE PROGRAM, TO
THE EXTENT  PERMITTED  BY  APPLICABLE  LAW.  EXCEPT WHEN  OTHERWISE  STATED IN  WRITING THE
COPYRIGHT HOLDERS AND/OR OTHER PARTIES  PROVIDE THE PROGRAM "AS IS" WITHOUT WARRANTY OF ANY
KIND,  EITHER EXPRESSED   OR   IMPLIED,  INCLUDING,  BUT   NOT  LIMITED   TO,  THE  IMPLIED
WARRANTIES  OF MERCHANTABILITY AND FITNESS FOR A PARTICULAR PURPOSE.  THE ENTIRE RISK AS TO
THE QUALITY AND PERFORMANCE OF THE PROGRAM IS WITH YOU. SHOULD THE PROGRAM PROVE DEFECTIVE,
YOU ASSUME THE COST OF ALL NECESSARY SERVICING, REPAIR OR CORRECTION.

IN NO EVENT UNLESS REQUIRED  BY APPLICABLE LAW  OR AGREED TO IN  WRITING WILL ANY COPYRIGHT
HOLDER, OR  ANY OTHER PARTY  WHO MAY MODIFY  AND/OR REDISTRIBUTE  THE PROGRAM AS  PERMITTED
ABOVE,  BE  LIABLE  TO  YOU  FOR  DAMAGES,  INCLUDING  ANY  GENERAL, SPECIAL, INCIDENTAL OR
CONSEQUENTIAL DAMAGES ARISING OUT OF THE USE OR INABILITY TO USE THE PROGRAM (INCLUDING BUT
NOT LIMITED TO LOSS OF DATA OR DATA BEING RENDERED INACCURATE OR LOSSES SUSTAINED BY YOU OR
THIRD PARTIES OR A FAILURE OF THE PROGRAM TO OPERATE WITH ANY OTHER PROGRAMS), EVEN IF SUCH
HOLDER OR OTHER PARTY HAS BEEN ADVISED OF THE POSSIBILITY OF SUCH DAMAGES.

*/
//-----------------------------------------------------------------------------------------

/* Define if building universal (internal helper macro) */
/* #undef AC_APPLE_UNIVERSAL_BUILD */

/* Define to 1 if you wish to enable buffered global logging */
/* #undef BUFFERED_GLOBAL_LOGGING */

/* Define to 1 if the `closedir' function returns void instead of int. */
/* #undef CLOSEDIR_VOID */

/* Define to 1 to enable CODEC timing testing code */
/* #undef CODECTIMING */

/* configure options */
#ifndef FIX8_CONFIGURE_OPTIONS
#define FIX8_CONFIGURE_OPTIONS " 'CXXFLAGS= -Wno-error' 'CFLAGS= -Wno-error'"
#endif

/* Short Date system was configured */
#ifndef FIX8_CONFIGURE_SDATE
#define FIX8_CONFIGURE_SDATE "2026/09/11"
#endif

/* Date system was configured */
#ifndef FIX8_CONFIGURE_TIME
#define FIX8_CONFIGURE_TIME "Fri Sep 11 03:44:41 UTC 2026"
#endif

/* date/time as seconds since start epoch */
#ifndef FIX8_CONFIGURE_TIME_NUM
#define FIX8_CONFIGURE_TIME_NUM 1789098281
#endif

/* compiler spec */
#ifndef FIX8_CPPFLAGS
#define FIX8_CPPFLAGS ""
#endif

/* Define to 1 if using 'alloca.c'. */
/* #undef C_ALLOCA */

/* Define to 1 for debugging support */
/* #undef DEBUG */

/* Default number of precision digits for floating point fields (default=2) */
#ifndef FIX8_DEFAULT_PRECISION
#define FIX8_DEFAULT_PRECISION 2
#endif

/* Define to 1 to enable experimental socket read */
/* #undef EXPERIMENTAL_BUFFERED_SOCKET_READ */

/* Define to 1 if gtest available */
#ifndef FIX8_HAS_GTEST
#define FIX8_HAS_GTEST 1
#endif

/* Define to 1 if Poco available */
#ifndef FIX8_HAS_POCO
#define FIX8_HAS_POCO 1
#endif

/* Define to 1 if you have zeromq */
/* #undef HAS_ZEROMQ_MBUS */

/* Define to 1 if you have the `alarm' function. */
#ifndef FIX8_HAVE_ALARM
#define FIX8_HAVE_ALARM 1
#endif

/* Define to 1 if you have 'alloca', as a function or macro. */
#ifndef FIX8_HAVE_ALLOCA
#define FIX8_HAVE_ALLOCA 1
#endif

/* Define to 1 if you have the <alloca.h> header file. */
#ifndef FIX8_HAVE_ALLOCA_H
#define FIX8_HAVE_ALLOCA_H 1
#endif

/* Define to 1 if you have the <arpa/inet.h> header file. */
/* #undef HAVE_ARPA_INET_H */

/* Define to 1 if you have berkeley DB */
/* #undef HAVE_BDB */

/* Define if you have clock_gettime() */
#ifndef FIX8_HAVE_CLOCK_GETTIME
#define FIX8_HAVE_CLOCK_GETTIME 1
#endif

/* Define if you have clock_nanosleep() */
#ifndef FIX8_HAVE_CLOCK_NANOSLEEP
#define FIX8_HAVE_CLOCK_NANOSLEEP 1
#endif

/* Define to 1 if zlib headers and library were found */
#ifndef FIX8_HAVE_COMPRESSION
#define FIX8_HAVE_COMPRESSION 1
#endif

/* Define to 1 if crypt is present in -lcrypt */
#ifndef FIX8_HAVE_CRYPT
#define FIX8_HAVE_CRYPT 1
#endif

/* Define to 1 if you have the <crypt.h> header file. */
#ifndef FIX8_HAVE_CRYPT_H
#define FIX8_HAVE_CRYPT_H 1
#endif

/* define if the compiler supports basic C++11 syntax */
/* #undef HAVE_CXX11 */

/* Define to 1 if you have the <db.h> header file. */
/* #undef HAVE_DB_H */

/* Define to 1 if you have the declaration of `TCP_CORK', and to 0 if you
   don't. */
#ifndef FIX8_HAVE_DECL_TCP_CORK
#define FIX8_HAVE_DECL_TCP_CORK 1
#endif

/* Define to 1 if you have the <dirent.h> header file, and it defines `DIR'.
   */
#ifndef FIX8_HAVE_DIRENT_H
#define FIX8_HAVE_DIRENT_H 1
#endif

/* Define to 1 if you have the <dlfcn.h> header file. */
#ifndef FIX8_HAVE_DLFCN_H
#define FIX8_HAVE_DLFCN_H 1
#endif

/* Define to 1 if you have extended Fix8 metadata enabled */
/* #undef HAVE_EXTENDED_METADATA */

/* Define to 1 if you have the <fcntl.h> header file. */
/* #undef HAVE_FCNTL_H */

/* Define to 1 if you have the `fork' function. */
#ifndef FIX8_HAVE_FORK
#define FIX8_HAVE_FORK 1
#endif

/* Define to 1 if you have the `getcwd' function. */
#ifndef FIX8_HAVE_GETCWD
#define FIX8_HAVE_GETCWD 1
#endif

/* Define to 1 if you have the <getopt.h> header file. */
#ifndef FIX8_HAVE_GETOPT_H
#define FIX8_HAVE_GETOPT_H 1
#endif

/* Define to 1 if you have the `getopt_long' function. */
#ifndef FIX8_HAVE_GETOPT_LONG
#define FIX8_HAVE_GETOPT_LONG 1
#endif

/* Define to 1 if you have the `getpagesize' function. */
#ifndef FIX8_HAVE_GETPAGESIZE
#define FIX8_HAVE_GETPAGESIZE 1
#endif

/* Define to 1 if you have the `gettimeofday' function. */
#ifndef FIX8_HAVE_GETTIMEOFDAY
#define FIX8_HAVE_GETTIMEOFDAY 1
#endif

/* Define to 1 if you have the <inttypes.h> header file. */
#ifndef FIX8_HAVE_INTTYPES_H
#define FIX8_HAVE_INTTYPES_H 1
#endif

/* Define to 1 if you have libhiredis */
/* #undef HAVE_LIBHIREDIS */

/* Define to 1 if you have libmemcached */
/* #undef HAVE_LIBMEMCACHED */

/* Define to 1 if libz is present */
#ifndef FIX8_HAVE_LIBZ
#define FIX8_HAVE_LIBZ 1
#endif

/* Define to 1 if you have the <limits.h> header file. */
/* #undef HAVE_LIMITS_H */

/* Define to 1 if you have the `localtime_r' function. */
#ifndef FIX8_HAVE_LOCALTIME_R
#define FIX8_HAVE_LOCALTIME_R 1
#endif

/* Define to 1 if the system has the type `long long int'. */
#ifndef FIX8_HAVE_LONG_LONG_INT
#define FIX8_HAVE_LONG_LONG_INT 1
#endif

/* Define to 1 if your system has a GNU libc compatible `malloc' function, and
   to 0 otherwise. */
#ifndef FIX8_HAVE_MALLOC
#define FIX8_HAVE_MALLOC 1
#endif

/* Define to 1 if you have a working `mmap' system call. */
#ifndef FIX8_HAVE_MMAP
#define FIX8_HAVE_MMAP 1
#endif

/* Define to 1 if you have the <ndir.h> header file, and it defines `DIR'. */
/* #undef HAVE_NDIR_H */

/* Define to 1 if you have the <netdb.h> header file. */
/* #undef HAVE_NETDB_H */

/* Define to 1 if you have the <netinet/in.h> header file. */
/* #undef HAVE_NETINET_IN_H */

/* Define to 1 if you have openssl */
/* #undef HAVE_OPENSSL */

/* Define to 1 if you have the <openssl/ssl.h> header file. */
/* #undef HAVE_OPENSSL_SSL_H */

/* Define to 1 if you have the `popen' function. */
#ifndef FIX8_HAVE_POPEN
#define FIX8_HAVE_POPEN 1
#endif

/* Have PTHREAD_PRIO_INHERIT. */
/* #undef HAVE_PTHREAD_PRIO_INHERIT */

/* Define to 1 if the system has the type `ptrdiff_t'. */
#ifndef FIX8_HAVE_PTRDIFF_T
#define FIX8_HAVE_PTRDIFF_T 1
#endif

/* Define to 1 if you have the `random' function. */
#ifndef FIX8_HAVE_RANDOM
#define FIX8_HAVE_RANDOM 1
#endif

/* Define to 1 if your system has a GNU libc compatible `realloc' function,
   and to 0 otherwise. */
#ifndef FIX8_HAVE_REALLOC
#define FIX8_HAVE_REALLOC 1
#endif

/* Define to 1 if you have the `regcomp' function. */
#ifndef FIX8_HAVE_REGCOMP
#define FIX8_HAVE_REGCOMP 1
#endif

/* Define to 1 if you have the <regex.h> header file. */
/* #undef HAVE_REGEX_H */

/* Define to 1 if you have the <select.h> header file. */
/* #undef HAVE_SELECT_H */

/* Define to 1 if you have the <signal.h> header file. */
/* #undef HAVE_SIGNAL_H */

/* Define to 1 if you have the `socket' function. */
#ifndef FIX8_HAVE_SOCKET
#define FIX8_HAVE_SOCKET 1
#endif

/* Define to 1 if you have the `srandom' function. */
#ifndef FIX8_HAVE_SRANDOM
#define FIX8_HAVE_SRANDOM 1
#endif

/* Define to 1 if `stat' has the bug that it succeeds when given the
   zero-length file name argument. */
/* #undef HAVE_STAT_EMPTY_STRING_BUG */

/* Define to 1 if stdbool.h conforms to C99. */
#ifndef FIX8_HAVE_STDBOOL_H
#define FIX8_HAVE_STDBOOL_H 1
#endif

/* Define to 1 if you have the <stdint.h> header file. */
#ifndef FIX8_HAVE_STDINT_H
#define FIX8_HAVE_STDINT_H 1
#endif

/* Define to 1 if you have the <stdio.h> header file. */
#ifndef FIX8_HAVE_STDIO_H
#define FIX8_HAVE_STDIO_H 1
#endif

/* Define to 1 if you have the <stdlib.h> header file. */
#ifndef FIX8_HAVE_STDLIB_H
#define FIX8_HAVE_STDLIB_H 1
#endif

/* Define to 1 if you have the `strcasecmp' function. */
#ifndef FIX8_HAVE_STRCASECMP
#define FIX8_HAVE_STRCASECMP 1
#endif

/* Define to 1 if you have the `strcoll' function and it is properly defined.
   */
#ifndef FIX8_HAVE_STRCOLL
#define FIX8_HAVE_STRCOLL 1
#endif

/* Define to 1 if you have the `strerror' function. */
#ifndef FIX8_HAVE_STRERROR
#define FIX8_HAVE_STRERROR 1
#endif

/* Define to 1 if you have the `strftime' function. */
#ifndef FIX8_HAVE_STRFTIME
#define FIX8_HAVE_STRFTIME 1
#endif

/* Define to 1 if you have the <strings.h> header file. */
#ifndef FIX8_HAVE_STRINGS_H
#define FIX8_HAVE_STRINGS_H 1
#endif

/* Define to 1 if you have the <string.h> header file. */
#ifndef FIX8_HAVE_STRING_H
#define FIX8_HAVE_STRING_H 1
#endif

/* Define to 1 if you have the `strtol' function. */
#ifndef FIX8_HAVE_STRTOL
#define FIX8_HAVE_STRTOL 1
#endif

/* Define to 1 if you have the `strtoul' function. */
#ifndef FIX8_HAVE_STRTOUL
#define FIX8_HAVE_STRTOUL 1
#endif

/* Define to 1 if you have the `sysconf' function. */
#ifndef FIX8_HAVE_SYSCONF
#define FIX8_HAVE_SYSCONF 1
#endif

/* Define to 1 if you have the <syslog.h> header file. */
/* #undef HAVE_SYSLOG_H */

/* Define to 1 if you have the <sys/dir.h> header file, and it defines `DIR'.
   */
/* #undef HAVE_SYS_DIR_H */

/* Define to 1 if you have the <sys/gmon.h> header file. */
/* #undef HAVE_SYS_GMON_H */

/* Define to 1 if you have the <sys/ioctl.h> header file. */
/* #undef HAVE_SYS_IOCTL_H */

/* Define to 1 if you have the <sys/ndir.h> header file, and it defines `DIR'.
   */
/* #undef HAVE_SYS_NDIR_H */

/* Define to 1 if you have the <sys/param.h> header file. */
#ifndef FIX8_HAVE_SYS_PARAM_H
#define FIX8_HAVE_SYS_PARAM_H 1
#endif

/* Define to 1 if you have the <sys/socket.h> header file. */
/* #undef HAVE_SYS_SOCKET_H */

/* Define to 1 if you have the <sys/stat.h> header file. */
#ifndef FIX8_HAVE_SYS_STAT_H
#define FIX8_HAVE_SYS_STAT_H 1
#endif

/* Define to 1 if you have the <sys/time.h> header file. */
#ifndef FIX8_HAVE_SYS_TIME_H
#define FIX8_HAVE_SYS_TIME_H 1
#endif

/* Define to 1 if you have the <sys/types.h> header file. */
#ifndef FIX8_HAVE_SYS_TYPES_H
#define FIX8_HAVE_SYS_TYPES_H 1
#endif

/* Define to 1 if you have the <sys/wait.h> header file. */
#ifndef FIX8_HAVE_SYS_WAIT_H
#define FIX8_HAVE_SYS_WAIT_H 1
#endif

/* Define to 1 if you have the <termios.h> header file. */
/* #undef HAVE_TERMIOS_H */

/* Define to 1 if you have the <time.h> header file. */
/* #undef HAVE_TIME_H */

/* Define to 1 if you have the <unistd.h> header file. */
#ifndef FIX8_HAVE_UNISTD_H
#define FIX8_HAVE_UNISTD_H 1
#endif

/* Define to 1 if the system has the type `unsigned long long int'. */
#ifndef FIX8_HAVE_UNSIGNED_LONG_LONG_INT
#define FIX8_HAVE_UNSIGNED_LONG_LONG_INT 1
#endif

/* Define to 1 for valgrind support */
/* #undef HAVE_VALGRIND */

/* Define to 1 if you have the <valgrind/valgrind.h> header file. */
/* #undef HAVE_VALGRIND_VALGRIND_H */

/* Define to 1 if you have /var/run */
#ifndef FIX8_HAVE_VAR_RUN
#define FIX8_HAVE_VAR_RUN 1
#endif

/* Define to 1 if you have the `vfork' function. */
#ifndef FIX8_HAVE_VFORK
#define FIX8_HAVE_VFORK 1
#endif

/* Define to 1 if you have the <vfork.h> header file. */
/* #undef HAVE_VFORK_H */

/* Define to 1 if `fork' works. */
#ifndef FIX8_HAVE_WORKING_FORK
#define FIX8_HAVE_WORKING_FORK 1
#endif

/* Define to 1 if `vfork' works. */
#ifndef FIX8_HAVE_WORKING_VFORK
#define FIX8_HAVE_WORKING_VFORK 1
#endif

/* Define to 1 if you have the <zlib.h> header file. */
#ifndef FIX8_HAVE_ZLIB_H
#define FIX8_HAVE_ZLIB_H 1
#endif

/* Define to 1 if the system has the type `_Bool'. */
#ifndef FIX8_HAVE__BOOL
#define FIX8_HAVE__BOOL 1
#endif

/* Default system */
#ifndef FIX8_HOST_SYSTEM
#define FIX8_HOST_SYSTEM "x86_64-pc-linux-gnu"
#endif

/* Additional library flags */
#ifndef FIX8_LDFLAGS
#define FIX8_LDFLAGS ""
#endif

/* Library spec */
#ifndef FIX8_LIBS
#define FIX8_LIBS " -ltcmalloc_minimal"
#endif

/* Define to 1 if `lstat' dereferences a symlink specified with a trailing
   slash. */
#ifndef FIX8_LSTAT_FOLLOWS_SLASHED_SYMLINK
#define FIX8_LSTAT_FOLLOWS_SLASHED_SYMLINK 1
#endif

/* Define to the sub-directory where libtool stores uninstalled libraries. */
#ifndef FIX8_LT_OBJDIR
#define FIX8_LT_OBJDIR ".libs/"
#endif

/* Encode version */
#ifndef FIX8_MAGIC_NUM
#define FIX8_MAGIC_NUM 16793603
#endif

/* Encoded Version as expresion */
#ifndef FIX8_MAGIC_NUM_EXPR
#define FIX8_MAGIC_NUM_EXPR (FIX8_MAJOR_VERSION_NUM << 24 | FIX8_MINOR_VERSION_NUM << 12 | FIX8_PATCH_VERSION_NUM)
#endif

/* Major version number */
#ifndef FIX8_MAJOR_VERSION_NUM
#define FIX8_MAJOR_VERSION_NUM 1
#endif

/* std malloc */
#ifndef FIX8_MALLOC_STD
#define FIX8_MALLOC_STD 3
#endif

/* malloc system to use */
#ifndef FIX8_MALLOC_SYSTEM
#define FIX8_MALLOC_SYSTEM FIX8_MALLOC_TCMALLOC
#endif

/* TBB malloc */
#ifndef FIX8_MALLOC_TBB
#define FIX8_MALLOC_TBB 1
#endif

/* tcmalloc */
#ifndef FIX8_MALLOC_TCMALLOC
#define FIX8_MALLOC_TCMALLOC 2
#endif

/* Maximum length of a FIX field (default=2048) */
#ifndef FIX8_MAX_FLD_LENGTH
#define FIX8_MAX_FLD_LENGTH 2048
#endif

/* Maximum length of a FIX message (default=8192) */
#ifndef FIX8_MAX_MSG_LENGTH
#define FIX8_MAX_MSG_LENGTH 8192
#endif

/* Minor version number */
#ifndef FIX8_MINOR_VERSION_NUM
#define FIX8_MINOR_VERSION_NUM 4
#endif

/* FIX8_FF MPMC */
#ifndef FIX8_MPMC_FF
#define FIX8_MPMC_FF 2
#endif

/* MPMC system used */
#ifndef FIX8_MPMC_SYSTEM
#define FIX8_MPMC_SYSTEM FIX8_MPMC_FF
#endif

/* FIX8_TBB MPMC */
#ifndef FIX8_MPMC_TBB
#define FIX8_MPMC_TBB 1
#endif

/* Name of package */
#ifndef FIX8_PACKAGE
#define FIX8_PACKAGE "fix8"
#endif

/* Define to the address where bug reports for this package should be sent. */
#ifndef FIX8_PACKAGE_BUGREPORT
#define FIX8_PACKAGE_BUGREPORT "fix@fix8.org"
#endif

/* Define to the full name of this package. */
#ifndef FIX8_PACKAGE_NAME
#define FIX8_PACKAGE_NAME "fix8"
#endif

/* Define to the full name and version of this package. */
#ifndef FIX8_PACKAGE_STRING
#define FIX8_PACKAGE_STRING "fix8 1.4.3"
#endif

/* Define to the one symbol short name of this package. */
#ifndef FIX8_PACKAGE_TARNAME
#define FIX8_PACKAGE_TARNAME "fix8"
#endif

/* Define to the home page for this package. */
#ifndef FIX8_PACKAGE_URL
#define FIX8_PACKAGE_URL "http://www.fix8.org"
#endif

/* Define to the version of this package. */
#ifndef FIX8_PACKAGE_VERSION
#define FIX8_PACKAGE_VERSION "1.4.3"
#endif

/* Patch number */
#ifndef FIX8_PATCH_VERSION_NUM
#define FIX8_PATCH_VERSION_NUM 3
#endif

/* Define to 1 to enable metatdata population in encode/decodes */
/* #undef POPULATE_METADATA */

/* Define to 1 if you wish to pre-encode (prepare) message support */
/* #undef PREENCODE_MSG_SUPPORT */

/* Define to 1 if your os supports gprof and you wish to enable profiling */
/* #undef PROFILING_BUILD */

/* Define to necessary symbol if this constant uses a non-standard name on
   your system. */
/* #undef PTHREAD_CREATE_JOINABLE */

/* Define to 1 if you wish to enable raw FIX message support */
/* #undef RAW_MSG_SUPPORT */

/* Poco regex system */
#ifndef FIX8_REGEX_POCO
#define FIX8_REGEX_POCO 1
#endif

/* regex.h regex system */
#ifndef FIX8_REGEX_REGEX_H
#define FIX8_REGEX_REGEX_H 2
#endif

/* regex.h system used */
#ifndef FIX8_REGEX_SYSTEM
#define FIX8_REGEX_SYSTEM FIX8_REGEX_REGEX_H
#endif

/* Percentage of message fields to reserve for additional fields */
#ifndef FIX8_RESERVE_PERCENT
#define FIX8_RESERVE_PERCENT 30
#endif

/* The size of `unsigned long', as computed by sizeof. */
#ifndef FIX8_SIZEOF_UNSIGNED_LONG
#define FIX8_SIZEOF_UNSIGNED_LONG 8
#endif

/* Define to 1 if when using fastflow, sleep for VAL ns instead of yield when
   waiting for input */
/* #undef SLEEP_NO_YIELD */

/* If using the C implementation of alloca, define if you know the
   direction of stack growth for your system; otherwise it will be
   automatically deduced at runtime.
	STACK_DIRECTION > 0 => grows toward higher addresses
	STACK_DIRECTION < 0 => grows toward lower addresses
	STACK_DIRECTION = 0 => direction of growth unknown */
/* #undef STACK_DIRECTION */

/* Define to 1 if all of the C90 standard headers exist (not just the ones
   required in a freestanding environment). This macro is provided for
   backward compatibility; new code need not use it. */
#ifndef FIX8_STDC_HEADERS
#define FIX8_STDC_HEADERS 1
#endif

/* Location of the system config directory */
#ifndef FIX8_SYSCONFDIR
#define FIX8_SYSCONFDIR "/etc"
#endif

/* pthread thread system */
#ifndef FIX8_THREAD_PTHREAD
#define FIX8_THREAD_PTHREAD 2
#endif

/* std::thread thread system */
#ifndef FIX8_THREAD_STDTHREAD
#define FIX8_THREAD_STDTHREAD 4
#endif

/* pthread used for threading */
#ifndef FIX8_THREAD_SYSTEM
#define FIX8_THREAD_SYSTEM FIX8_THREAD_PTHREAD
#endif

/* Define to 1 if your <sys/time.h> declares `struct tm'. */
/* #undef TM_IN_SYS_TIME */

/* Define to 1 to enable rdtsc for interval timer if available */
/* #undef USE_RDTSC */

/* Define to 1 if using float precision */
/* #undef USE_SINGLE_PRECISION */

/* Version number of package */
#ifndef FIX8_VERSION
#define FIX8_VERSION "1.4.3"
#endif

/* Define WORDS_BIGENDIAN to 1 if your processor stores words with the most
   significant byte first (like Motorola and SPARC, unlike Intel). */
#if defined AC_APPLE_UNIVERSAL_BUILD
# if defined __BIG_ENDIAN__
#  define WORDS_BIGENDIAN 1
# endif
#else
# ifndef WORDS_BIGENDIAN
/* #  undef WORDS_BIGENDIAN */
# endif
#endif

/* Define to 1 if you wish to enforce strict bool */
/* #undef XMLENTITY_STRICT_BOOL */

/* Define for Solaris 2.5.1 so the uint32_t typedef from <sys/synch.h>,
   <pthread.h>, or <semaphore.h> is not used. If the typedef were allowed, the
   #define below would cause a syntax error. */
/* #undef _UINT32_T */

/* Define for Solaris 2.5.1 so the uint64_t typedef from <sys/synch.h>,
   <pthread.h>, or <semaphore.h> is not used. If the typedef were allowed, the
   #define below would cause a syntax error. */
/* #undef _UINT64_T */

/* Define for Solaris 2.5.1 so the uint8_t typedef from <sys/synch.h>,
   <pthread.h>, or <semaphore.h> is not used. If the typedef were allowed, the
   #define below would cause a syntax error. */
/* #undef _UINT8_T */

/* Define to empty if `const' does not conform to ANSI C. */
/* #undef const */

/* Define to `__inline__' or `__inline' if that's what the C compiler
   calls it, or to nothing if 'inline' is not supported under any name.  */
#ifndef __cplusplus
/* #undef inline */
#endif

/* Define to rpl_malloc if the replacement function should be used. */
/* #undef malloc */

/* Define to `long int' if <sys/types.h> does not define. */
/* #undef off_t */

/* Define as a signed integer type capable of holding a process identifier. */
/* #undef pid_t */

/* Define to rpl_realloc if the replacement function should be used. */
/* #undef realloc */

/* Define to `unsigned int' if <sys/types.h> does not define. */
/* #undef size_t */

/* Define to the type of an unsigned integer type of width exactly 16 bits if
   such a type exists and the standard includes do not define it. */
/* #undef uint16_t */

/* Define to the type of an unsigned integer type of width exactly 32 bits if
   such a type exists and the standard includes do not define it. */
/* #undef uint32_t */

/* Define to the type of an unsigned integer type of width exactly 64 bits if
   such a type exists and the standard includes do not define it. */
/* #undef uint64_t */

/* Define to the type of an unsigned integer type of width exactly 8 bits if
   such a type exists and the standard includes do not define it. */
/* #undef uint8_t */

/* Define as `fork' if `vfork' does not work. */
/* #undef vfork */
 
/* once: _INCLUDE_FIX__F_CONFIG_H */
#endif
