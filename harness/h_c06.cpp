// C06 harness for the CONCURRENT class: the real Message::factory on several threads at once.
// Everything else of C06 runs on the shared h_codec; this file reuses its decoding stage and
// object dump by including it (its main() is renamed).
//   CONC <iters> <hex,hex,..>;<hex,hex,..>;...
//        one REAL thread per ';'-separated list of wire messages.  Before the threads start, every
//        message is decoded once single-threaded (strict mode): the reference result string
//        ("OK <dump>" or "EXC ...").  Then all threads are released together; thread j decodes its own
//        messages round-robin, <iters> times, each time into its own Message object, and compares the
//        result string with its own reference.  Nothing a thread touches belongs to another thread.
//   result: "OK threads=<K> iters=<iters> mismatches=0"
//        or "MISMATCH threads=<K> iters=<iters> mismatches=<n> first=<thread>:<index>:<result, 200 chars>"
#define main h_codec_main
#include "h_codec.cpp"
#undef main
#include <thread>
#include <atomic>

namespace {

std::string decode_once(const std::string& raw)
{
	std::ostringstream os;
	std::unique_ptr<Message> msg;
	std::string out;
	if (stage(os, [&] { msg.reset(Message::factory(mctx(), raw, false, false)); out = dump_msg(msg.get()); }))
		os << "OK " << out;
	return os.str();
}

struct Worker
{
	std::vector<std::string> raws, refs;
	unsigned long mismatches = 0;
	std::string first;
};

std::string run_conc(unsigned long iters, std::vector<Worker>& ws)
{
	for (auto& w : ws)
		for (const auto& r : w.raws)
			w.refs.push_back(decode_once(r));
	std::atomic<bool> go(false);
	std::atomic<unsigned> ready(0);
	std::vector<std::thread> th;
	for (size_t j(0); j < ws.size(); ++j)
		th.emplace_back([&, j] {
			Worker& me(ws[j]);
			++ready;
			while (!go.load()) std::this_thread::yield();
			for (unsigned long i(0); i < iters; ++i)
			{
				const size_t k(i % me.raws.size());
				const std::string r(decode_once(me.raws[k]));
				if (r != me.refs[k] && !me.mismatches++)
					me.first = std::to_string(j) + ':' + std::to_string(k) + ':' + r.substr(0, 200);
			}
		});
	while (ready.load() < ws.size()) std::this_thread::yield();
	go.store(true);
	for (auto& t : th) t.join();
	unsigned long total(0);
	std::string first;
	for (auto& w : ws) { total += w.mismatches; if (first.empty()) first = w.first; }
	std::ostringstream os;
	os << (total ? "MISMATCH" : "OK") << " threads=" << ws.size() << " iters=" << iters << " mismatches=" << total;
	if (total) os << " first=" << first;
	return os.str();
}

}

int main(int argc, char **argv)
{
	std::string line;
	while (std::getline(std::cin, line))
	{
		std::istringstream is(line);
		std::string op, a1, a2;
		is >> op >> a1 >> a2;
		std::string out;
		try
		{
			if (op != "CONC") throw std::runtime_error("unknown op");
			std::vector<Worker> ws;
			for (const auto& lst : split(a2, ';'))
			{
				Worker w;
				for (const auto& h : split(lst, ','))
					w.raws.push_back(unhex(h));
				if (w.raws.empty()) throw std::runtime_error("empty thread");
				ws.push_back(w);
			}
			out = run_conc(std::stoul(a1), ws);
		}
		catch (std::exception& e) { out = std::string("BAD-CASE ") + e.what(); }
		std::cout << out << std::endl;
	}
	return 0;
}
