// C30 harness: the REAL ff::uMPMC_Ptr_Queue / FIX8::ff_unbounded_queue, compiled with a yield
// point in front of every shared-memory action (atomic_long_read / atomic_long_set /
// abstraction_cas and the per-slot uSWSR_Ptr_Buffer push/pop).  The yield points are put in by
// function-like macros defined in THIS translation unit after the primitives' headers and before
// MPMCqueues.hpp; fix8 itself is untouched.  The "threads" of a scheduled case are coroutines
// (one stack each, switched by a few lines of assembly) resumed by the scheduler: one schedule character = one shared action
// of that thread (fast and independent of the machine's load); the free-running mode uses real
// threads.
//
// cases (one per line)                                         result
//   q <nq> <slotsize> <progs> <sched>   raw uMPMC_Ptr_Queue     trace tokens
//   w <progs> <sched>                   ff_unbounded_queue<long*> (4 slots x 2048)
//   v <progs> <sched>                   ff_unbounded_queue<long>  (elements copied, released)
//   s <slotsize> <ops>                  uSWSR_Ptr_Buffer alone, sequentially
//   f <np> <nc> <ops> <nq>              free-running threads, summary line
//   k                                   the queue's default geometry: CONST nq=.. seg=..
//   b <w|q> <nq> <seg> <np> <N>         backlog: np threads push N elements in all (concurrently if
//                                       np > 1), then one thread pops N+1 times; summary line
//   l <seg> <N> <cmds>                  ONE lane buffer (uSWSR_Ptr_Buffer + BufferPool + dynqueue) with a
//                                       producer and a consumer coroutine under forced interleavings
//   L <w|q> <nq> <seg> <N> <cmds>       the same through the whole queue (1 producer, 1 consumer)
//     in these two modes the lane buffer's own yield points are switched on: every WMB() (= in front
//     of each publishing store of a segment push, of the segment cache push and of the in-use list)
//     and the memset of SWSR_Ptr_Buffer::reset (segments > 512 entries), plus one at every
//     operation boundary.  The consumer starts pop k only after push k has returned, so the expected
//     summary does not depend on the schedule.  cmds (comma separated; p = producer, c = consumer):
//     p<n> n parks | po<n> until n more operations returned | pm / pw until parked at a memset / WMB
//     | pf until finished
// progs: threads separated by '/', operations by ',':  p<value> | c ;  "-" = empty program
// sched: one hex digit (thread id) per action; "-" = empty.  After the schedule the unfinished
// threads run round-robin, one action each per pass, for at most FUEL passes.
// tokens: <t>r<v> read, <t>w<v> set, <t>x<c>:<ok> cas, <t>u<v> slot push, <t>o<v>|<t>o! slot pop,
//   <t>P<k>=<v> push ticket won, <t>+<k>:<v> push returned, <t>C<k> pop ticket won, <t>-<k>:<v> pop
//   returned v (k = the ticket that thread won last), <t>e<k> pop returned false (k = last preadC it read)
#include "hcommon.hpp"
#include <thread>
#include <atomic>
#include <utility>
#if defined(__SANITIZE_ADDRESS__)
#include <sanitizer/common_interface_defs.h>
#include <sanitizer/asan_interface.h>
#define FIBER_START(save, bottom, size) __sanitizer_start_switch_fiber(save, bottom, size)
#define FIBER_FINISH(save, bottom, size) __sanitizer_finish_switch_fiber(save, bottom, size)
#define STACK_UNPOISON(p, n) ASAN_UNPOISON_MEMORY_REGION(p, n)
#else
#define FIBER_START(save, bottom, size) ((void)0)
#define FIBER_FINISH(save, bottom, size) ((void)0)
#define STACK_UNPOISON(p, n) ((void)0)
#endif
#if !defined(__x86_64__)
#error "the coroutine switch below is x86-64 System V only"
#endif

// minimal coroutine switch (callee-saved registers + stack pointer; no system call, unlike
// swapcontext which saves the signal mask): save the current context on its stack, store the
// stack pointer in *save_sp, continue on new_sp
extern "C" void verif_swap(void **save_sp, void *new_sp);
asm(R"(
	.text
	.globl verif_swap
	.type verif_swap,@function
verif_swap:
	pushq %rbp
	pushq %rbx
	pushq %r12
	pushq %r13
	pushq %r14
	pushq %r15
	movq %rsp, (%rdi)
	movq %rsi, %rsp
	popq %r15
	popq %r14
	popq %r13
	popq %r12
	popq %rbx
	popq %rbp
	ret
	.size verif_swap,.-verif_swap
)");
#include <chrono>
#include <memory>
#include <sched.h>

#include <functional>
#include <algorithm>
#include <new>
#include <cassert>
#include <assert.h>

#include <fix8/f8config.h>
#include <fix8/ff/sysdep.h>
#include <fix8/ff/platforms/platform.h>
#include <fix8/ff/config.hpp>
#include <fix8/ff/mpmc/asm/abstraction_dcas.h>
#include <fix8/ff/spin-lock.hpp>
// The lane buffer (buffer.hpp, dynqueue.hpp, ubuffer.hpp) is compiled with yield points of its own:
// WMB() stands in front of every publishing store, memset is the segment clean-up of reset().
// All headers these three include have been included above, so only their own code sees the macros.
static void verif_lane_yield(char kind);
#undef WMB
#define WMB() do { verif_lane_yield('W'); __asm__ __volatile__ ("": : :"memory"); } while (0)
#define memset(a, b, c) (verif_lane_yield('M'), memset(a, b, c))
#include <fix8/ff/buffer.hpp>
#include <fix8/ff/dynqueue.hpp>
#include <fix8/ff/ubuffer.hpp>
#undef memset
#undef WMB
#define WMB() __asm__ __volatile__ ("": : :"memory")
#include <fix8/ff/allocator.hpp>
namespace ff {		// MPMCqueues.hpp includes this header inside namespace ff as well
#include <fix8/ff/mpmc/asm/atomic.h>
}

// every case allocates and frees a whole queue: with ASan's default 256 MB quarantine each case
// would run on fresh pages (page faults dominate the run time); 2 MB still covers many cases
extern "C" const char *__asan_default_options() { return "quarantine_size_mb=2"; }

//-------------------------------------------------------------------------------------------------
static const int FUEL = 400;			// drain passes (the model uses the same number)
static bool g_sched = false;			// baton mode (false: free running, yields are no-ops)
static bool g_deref = false;			// payloads are long* to be dereferenced for printing
static bool g_lane = false;			// the lane buffer's own yield points are active (modes l, L)
static bool g_log = false;			// record a token per shared action (modes q, w, v)
static bool g_abandon = false;
static std::atomic<bool> g_abort(false);	// free-running mode: the deadline has passed, leave the queue code
static std::chrono::steady_clock::time_point g_deadline;	// free-running / backlog mode
static std::vector<std::string> g_tok;

struct Abandon {};

struct Local
{
	int id = -1;
	bool in_push = false;
	unsigned long val = 0;			// payload of the push in progress
	const void *first_addr = nullptr;	// address of the first atomic read of this operation (preadP/preadC)
	unsigned long first_val = 0;		// last value read there
	unsigned long ticket = 0;		// compare value of the last CAS this thread won
	char park = 0;				// kind of the yield point the coroutine is parked at
};
// free-running mode (real threads, no coroutine): this thread sleeps stall_ms in front of its
// stall_at-th publishing store (ticket taken, lane not yet released)
static thread_local long t_stall_ms = 0, t_stall_at = 0;

// one coroutine per model thread
struct Fiber
{
	void *sp = nullptr;			// saved stack pointer while switched out
	int id = -1;
	char *stack = nullptr;			// from g_stacks (allocated once, reused by every case)
	void *fake = nullptr;			// ASan fake-stack handle while switched out
	bool finished = false;
	Local loc;
};
static const size_t STACK_SIZE = 256 * 1024;
static std::vector<char *> g_stacks;
static std::vector<std::unique_ptr<Fiber>> g_fib;
static Fiber *g_cur = nullptr;			// the running coroutine (scheduled mode only)
static void *g_main_sp = nullptr;
static void *g_main_fake = nullptr;
static const void *g_main_bottom = nullptr;
static size_t g_main_size = 0;
#define tl (g_cur->loc)

static void tok(char kind, unsigned long v)
{
	g_tok.push_back(std::to_string(tl.id) + kind + std::to_string(v));
}

static unsigned long payload(const void *d)
{
	if (!d) return 0;
	return g_deref ? static_cast<unsigned long>(*static_cast<const long *>(d)) : reinterpret_cast<unsigned long>(d);
}

// back to the scheduler; `last` = this coroutine will not be resumed again
static void to_main(bool last)
{
	Fiber *me(g_cur);
	FIBER_START(last ? nullptr : &me->fake, g_main_bottom, g_main_size);
	verif_swap(&me->sp, g_main_sp);
	FIBER_FINISH(me->fake, &g_main_bottom, &g_main_size);
}

// park at a yield point: give control back and wait to be resumed
static void verif_yield()
{
	if (!g_sched)
	{
		// a queue that never lets the operation finish must not hang the harness
		static thread_local unsigned calls = 0;
		if ((++calls & 0x3fff) == 0 && std::chrono::steady_clock::now() > g_deadline)
			g_abort.store(true);
		if (g_abort.load(std::memory_order_relaxed)) throw Abandon();
		return;
	}
	tl.park = 'a';
	to_main(false);
	if (g_abandon)
		throw Abandon();
}

// yield points inside the lane buffer: 'W' in front of a publishing store, 'M' in front of the
// segment clean-up, 'B' between two operations of the lane drivers
static void verif_lane_yield(char kind)
{
	if (!g_sched || !g_lane) return;
	tl.park = kind;
	to_main(false);
	if (g_abandon)
		throw Abandon();
}

namespace ff {
static inline unsigned long verif_read(atomic_long_t *l)
{
	verif_yield();
	const unsigned long v(atomic_long_read(l));
	if (g_log)
	{
		if (!tl.first_addr) tl.first_addr = l;
		if (tl.first_addr == l) tl.first_val = v;
		tok('r', v);
	}
	return v;
}
static inline void verif_set(atomic_long_t *l, long i)
{
	verif_yield();
	if (g_log) tok('w', static_cast<unsigned long>(i));
	if (!g_sched && t_stall_ms && --t_stall_at == 0)
		std::this_thread::sleep_for(std::chrono::milliseconds(t_stall_ms));	// a descheduled participant
	atomic_long_set(l, i);
}
struct verif_slot : public uSWSR_Ptr_Buffer
{
	// whatever arguments the queue source passes to its slot buffers
	template<typename... A> verif_slot(A&&... a) : uSWSR_Ptr_Buffer(std::forward<A>(a)...) {}
	bool push(void *const d)
	{
		verif_yield();
		if (g_log) tok('u', payload(d));
		return uSWSR_Ptr_Buffer::push(d);
	}
	bool pop(void **d)
	{
		verif_yield();
		const bool r(uSWSR_Ptr_Buffer::pop(d));
		if (g_log)
		{
			if (r) tok('o', payload(*d));
			else g_tok.push_back(std::to_string(tl.id) + "o!");
		}
		return r;
	}
};
}
static inline atom_t verif_cas(volatile atom_t *dest, atom_t exch, atom_t cmp)
{
	verif_yield();
	const atom_t r(abstraction_cas(dest, exch, cmp));
	if (g_log)
	{
		const bool ok(r == cmp);
		g_tok.push_back(std::to_string(tl.id) + "x" + std::to_string((unsigned long)cmp) + ":" + (ok ? "1" : "0"));
		if (ok)
		{
			tl.ticket = (unsigned long)cmp;
			if (tl.in_push)
				g_tok.push_back(std::to_string(tl.id) + "P" + std::to_string((unsigned long)cmp) + "=" + std::to_string(tl.val));
			else
				tok('C', (unsigned long)cmp);
		}
	}
	return r;
}

// from here on the queue source sees the instrumented names
#define atomic_long_read(x) verif_read(x)
#define atomic_long_set(x, y) verif_set(x, y)
#define abstraction_cas(a, b, c) verif_cas(a, b, c)
#define uSWSR_Ptr_Buffer verif_slot
#include <fix8/ff/mpmc/MPMCqueues.hpp>
#undef atomic_long_read
#undef atomic_long_set
#undef abstraction_cas
#undef uSWSR_Ptr_Buffer
#include <fix8/ff_wrapper.hpp>

//-------------------------------------------------------------------------------------------------
struct Op { bool push; unsigned long v; };
typedef std::vector<Op> Prog;

static std::vector<Prog> parse_progs(const std::string& s)
{
	std::vector<Prog> out;
	for (const std::string& p : split(s, '/'))
	{
		Prog pr;
		if (p != "-" && !p.empty())
			for (const std::string& o : split(p, ','))
			{
				if (o.empty()) continue;
				if (o[0] == 'p') pr.push_back(Op{ true, std::stoul(o.substr(1)) });
				else pr.push_back(Op{ false, 0 });
			}
		out.push_back(pr);
	}
	return out;
}

// the three ways a client reaches the queue
struct Client
{
	virtual ~Client() {}
	virtual bool push(unsigned long v) = 0;
	virtual bool pop(unsigned long& v) = 0;
};
struct RawClient : Client
{
	ff::uMPMC_Ptr_Queue q;
	RawClient(unsigned long nq, size_t sz) { q.init(nq, sz); }
	bool push(unsigned long v) { return q.push(reinterpret_cast<void *>(v)); }
	bool pop(unsigned long& v) { void *d(nullptr); const bool r(q.pop(&d)); v = reinterpret_cast<unsigned long>(d); return r; }
};
struct PtrClient : Client
{
	FIX8::ff_unbounded_queue<long *> q;
	bool push(unsigned long v) { return q.try_push(reinterpret_cast<long *>(v)); }
	bool pop(unsigned long& v) { long *d(nullptr); const bool r(q.try_pop(d)); v = reinterpret_cast<unsigned long>(d); return r; }
};
struct ValClient : Client
{
	FIX8::ff_unbounded_queue<long> q;
	bool push(unsigned long v) { return q.try_push(static_cast<long>(v)); }
	bool pop(unsigned long& v)
	{
		long *d(nullptr);
		const bool r(q.try_pop(d));
		v = d ? static_cast<unsigned long>(*d) : 0;
		if (r && d) q.release(d);
		return r;
	}
};

struct Job { Client *cl; const Prog *prog; std::function<void()> body; };
static std::vector<Job> g_job;

static void fiber_main()
{
	FIBER_FINISH(g_cur->fake, &g_main_bottom, &g_main_size);
	const int id(g_cur->id);
	tl = Local();
	tl.id = id;
	try
	{
		Client *cl(g_job[id].cl);
		if (g_job[id].body)
			g_job[id].body();
		else for (const Op& o : *g_job[id].prog)
		{
			tl.first_addr = nullptr;
			tl.in_push = o.push;
			tl.val = o.v;
			if (o.push)
			{
				const bool r(cl->push(o.v));
				g_tok.push_back(std::to_string(id) + "+" + std::to_string(tl.ticket) + ":" + (r ? std::to_string(o.v) : std::string("FAIL")));
			}
			else
			{
				unsigned long v(0);
				if (cl->pop(v)) g_tok.push_back(std::to_string(id) + "-" + std::to_string(tl.ticket) + ":" + std::to_string(v));
				else tok('e', tl.first_val);
			}
		}
	}
	catch (const Abandon&) {}
	g_cur->finished = true;
	to_main(true);
	abort();	// never resumed
}

// let thread t run until it parks again (or finishes)
static void give(int t)
{
	Fiber *f(g_fib[t].get());
	if (f->finished) return;
	g_cur = f;
	FIBER_START(&g_main_fake, f->stack, STACK_SIZE);
	verif_swap(&g_main_sp, f->sp);
	FIBER_FINISH(g_main_fake, nullptr, nullptr);
	g_cur = nullptr;
}

// create coroutine t (its job is g_job[t]) on pooled stack t
static void spawn(int t)
{
	std::unique_ptr<Fiber> f(new Fiber);
	while (g_stacks.size() <= static_cast<size_t>(t))
		g_stacks.push_back(static_cast<char *>(malloc(STACK_SIZE)));
	f->stack = g_stacks[t];
	f->id = t;
	STACK_UNPOISON(f->stack, STACK_SIZE);	// frames abandoned by the previous user of this stack
	// initial frame: six zeroed callee-saved registers, the entry point as return address of
	// verif_swap, and a null return address so that fiber_main starts with a call-aligned stack
	void **top(reinterpret_cast<void **>(f->stack + STACK_SIZE));	// malloc'ed: 16-byte aligned
	*--top = nullptr;
	*--top = reinterpret_cast<void *>(&fiber_main);
	for (int r(0); r < 6; ++r) *--top = nullptr;
	f->sp = top;
	g_fib.push_back(std::move(f));
}

// round-robin over the unfinished threads among 0..n-1, one action each per pass
static bool drain(int n)
{
	for (int pass(0); ; ++pass)
	{
		std::vector<int> todo;
		for (int t(0); t < n; ++t)
			if (!g_fib[t]->finished) todo.push_back(t);
		if (todo.empty()) return true;
		if (pass == FUEL) return false;
		for (int t : todo)
			give(t);
	}
}

static std::string run_sched(Client *cl, std::vector<Prog> progs, const std::string& sched)
{
	const int n(static_cast<int>(progs.size()));
	// the draining thread: id n, (number of pushes + 1) pops, runs after everybody else
	unsigned long npush(0);
	for (const Prog& p : progs)
		for (const Op& o : p)
			if (o.push) ++npush;
	progs.push_back(Prog(npush + 1, Op{ false, 0 }));
	g_tok.clear();
	g_abandon = false;
	g_sched = true;
	g_fib.clear();
	g_job.clear();
	for (int t(0); t <= n; ++t)
	{
		g_job.push_back(Job{ cl, &progs[t], nullptr });
		spawn(t);
	}
	g_log = true;
	for (int t(0); t <= n; ++t)		// priming: run to the first yield point (no shared action)
		give(t);
	if (sched != "-")
		for (char c : sched)
		{
			const int t(hexv(c));
			if (t >= 0 && t < n)
				give(t);
		}
	drain(n);
	drain(n + 1);
	g_abandon = true;			// whoever is still inside the queue code leaves it now
	for (int t(0); t <= n; ++t)
		give(t);
	g_abandon = false;
	g_sched = false;
	g_log = false;
	g_fib.clear();
	std::string out;
	for (const std::string& s : g_tok) { if (!out.empty()) out.push_back(' '); out += s; }
	return out.empty() ? "-" : out;
}

//-------------------------------------------------------------------------------------------------
// modes l and L: one producer and one consumer coroutine with the lane buffer's yield points on
struct LaneClient : Client
{
	ff::uSWSR_Ptr_Buffer b;		// the real class; its code carries the lane yield points
	LaneClient(unsigned long seg) : b(seg) { b.init(); }
	bool push(unsigned long v) { return b.push(reinterpret_cast<void *>(v)); }
	bool pop(unsigned long& v) { void *d(nullptr); const bool r(b.pop(&d)); v = reinterpret_cast<unsigned long>(d); return r; }
};

static std::string run_lane(Client *cl, unsigned long n, const std::string& cmds)
{
	unsigned long pushed(0), popped(0), empty(0), null(0), dup(0), ord(0), lost(0);
	unsigned long done[2] = { 0, 0 };		// operations returned: producer, consumer
	std::vector<unsigned char> seen(n + 2, 0);
	g_tok.clear();
	g_fib.clear();
	g_job.clear();
	g_job.push_back(Job{ cl, nullptr, [&] {
		for (unsigned long j(1); j <= n; ++j)
		{
			verif_lane_yield('B');
			if (cl->push(j)) ++pushed;
			++done[0];
		}
	} });
	g_job.push_back(Job{ cl, nullptr, [&] {
		for (unsigned long k(1); k <= n + 1; ++k)
		{
			// pop k starts when push k has returned; the last, extra pop when everything has
			do verif_lane_yield('B'); while (done[0] < (k <= n ? k : n));
			unsigned long v(0);
			if (!cl->pop(v)) ++empty;
			else
			{
				++popped;
				if (v < 1 || v > n) ++null;		// success reported, nothing usable delivered
				else
				{
					if (seen[v]++) ++dup;
					if (v != k) ++ord;
				}
			}
			++done[1];
		}
	} });
	g_abandon = false;
	g_lane = true;
	g_sched = true;
	spawn(0);
	spawn(1);
	give(0);
	give(1);
	const unsigned long cap(60 * n + 10000);
	bool stuck(false);
	for (const std::string& item : split(cmds, ','))
	{
		if (item.size() < 2 || (item[0] != 'p' && item[0] != 'c')) continue;
		const int who(item[0] == 'p' ? 0 : 1);
		Fiber *f(g_fib[who].get());
		const char kind(item[1]);
		unsigned long steps(0);
		if (kind >= '0' && kind <= '9')
		{
			for (unsigned long k(std::stoul(item.substr(1))); k > 0 && !f->finished; --k)
				give(who);
		}
		else if (kind == 'o')
		{
			const unsigned long target(done[who] + std::stoul(item.substr(2)));
			while (!f->finished && done[who] < target && ++steps < cap)
				give(who);
		}
		else if (kind == 'm' || kind == 'w')
		{
			const char want(kind == 'm' ? 'M' : 'W');
			do give(who); while (!f->finished && f->loc.park != want && ++steps < cap);
		}
		else if (kind == 'f')
		{
			while (!f->finished && ++steps < cap)
				give(who);
		}
	}
	for (unsigned long k(0); k < 2 * cap && !(g_fib[0]->finished && g_fib[1]->finished); ++k)
	{
		give(0);
		give(1);
	}
	if (!(g_fib[0]->finished && g_fib[1]->finished)) stuck = true;
	g_abandon = true;
	give(0);
	give(1);
	g_abandon = false;
	g_sched = false;
	g_lane = false;
	g_fib.clear();
	g_job.clear();
	for (unsigned long v(1); v <= n; ++v)
		if (!seen[v]) ++lost;
	std::ostringstream os;
	os << "BACKLOG pushed=" << pushed << " popped=" << popped << " empty=" << empty << " null=" << null
		<< " dup=" << dup << " lost=" << lost << " ord=" << ord;
	if (stuck) os << " STUCK";
	return os.str();
}

//-------------------------------------------------------------------------------------------------
static std::string run_slot(unsigned long size, const std::string& ops)
{
	ff::uSWSR_Ptr_Buffer b(size);		// the real, un-instrumented class
	if (!b.init()) return "INIT-FAILED";
	std::string out;
	unsigned long next(1);
	for (char c : ops)
	{
		if (!out.empty()) out.push_back(' ');
		if (c == 'p')
		{
			const unsigned long v(next++);
			out += b.push(reinterpret_cast<void *>(v)) ? "0+0:" + std::to_string(v) : std::string("0+0:FAIL");
		}
		else
		{
			void *d(nullptr);
			if (b.pop(&d)) out += "0-0:" + std::to_string(reinterpret_cast<unsigned long>(d));
			else out += "0e0";
		}
	}
	return out.empty() ? "-" : out;
}

//-------------------------------------------------------------------------------------------------
static std::string run_free(int np, int nc, unsigned long ops, unsigned long nq, long stall_ms = 0)
{
	g_sched = false;
	g_abort.store(false);
	const unsigned long total(static_cast<unsigned long>(np) * ops);
	RawClient *cl(new RawClient(nq, 2048));	// leaked on purpose when threads had to be aborted
	std::vector<std::atomic<unsigned char>> seen(total + 2);
	for (auto& s : seen) s.store(0);
	std::atomic<unsigned long> got(0), dup(0), ord(0), sum(0), bad(0);
	std::atomic<int> running(np + nc);
	std::atomic<bool> go(false);
	std::vector<std::thread> thr;
	for (int p(0); p < np; ++p)
		thr.emplace_back([&, p] {
			// stall class: producer 0 is held for stall_ms between taking a ticket and releasing its lane
			t_stall_ms = p == 0 ? stall_ms : 0;
			t_stall_at = 3;
			while (!go.load()) sched_yield();
			try
			{
				for (unsigned long j(0); j < ops; ++j)
					cl->push(static_cast<unsigned long>(p) * ops + j + 1);
			}
			catch (const Abandon&) {}
			running.fetch_sub(1);
		});
	for (int c(0); c < nc; ++c)
		thr.emplace_back([&] {
			std::vector<long> last(np, -1);
			while (!go.load()) sched_yield();
			try
			{
				while (got.load() < total)
				{
					unsigned long v(0);
					if (!cl->pop(v))
					{
						sched_yield();
						continue;
					}
					got.fetch_add(1);
					if (v < 1 || v > total) { bad.fetch_add(1); continue; }
					sum.fetch_add(v);
					if (seen[v].fetch_add(1) != 0) dup.fetch_add(1);
					const int p(static_cast<int>((v - 1) / ops));
					const long j(static_cast<long>((v - 1) % ops));
					if (j <= last[p]) ord.fetch_add(1);
					last[p] = j;
				}
			}
			catch (const Abandon&) {}
			running.fetch_sub(1);
		});
	g_deadline = std::chrono::steady_clock::now() + std::chrono::seconds(15 + total / 20000) + std::chrono::milliseconds(stall_ms);
	go.store(true);
	while (running.load() > 0)
	{
		std::this_thread::sleep_for(std::chrono::milliseconds(2));
		if (std::chrono::steady_clock::now() > g_deadline)
			g_abort.store(true);
	}
	for (std::thread& t : thr)
		t.join();
	const bool aborted(g_abort.load());
	g_abort.store(false);
	unsigned long lost(0);
	for (unsigned long v(1); v <= total; ++v)
		if (seen[v].load() == 0) ++lost;
	std::ostringstream os;
	os << "FREE total=" << got.load() << " dup=" << dup.load() + bad.load() << " lost=" << lost
		<< " ord=" << ord.load() << " sum=" << sum.load();
	if (aborted) os << " TIMEOUT";
	else delete cl;
	return os.str();
}

//-------------------------------------------------------------------------------------------------
// the defaults ff_unbounded_queue gets (protected enum of the queue class)
struct Geometry : ff::uMPMC_Ptr_Queue
{
	static unsigned long nq() { return DEFAULT_NUM_QUEUES; }
	static unsigned long seg() { return DEFAULT_uSPSC_SIZE; }
};

// N elements pending at once: producers first (payload = global index + 1, producer p owns the
// indices congruent p mod np, pushed in increasing order), then N+1 pops by this thread
static std::string run_backlog(Client *cl, int np, unsigned long n)
{
	g_sched = false;
	g_abort.store(false);
	g_deadline = std::chrono::steady_clock::now() + std::chrono::seconds(6 + n / 20000);
	std::atomic<unsigned long> pushed(0);
	if (np <= 1)
	{
		try
		{
			for (unsigned long j(0); j < n; ++j)
				if (cl->push(j + 1)) pushed.fetch_add(1);
		}
		catch (const Abandon&) {}
	}
	else
	{
		std::vector<std::thread> thr;
		for (int p(0); p < np; ++p)
			thr.emplace_back([&, p] {
				try
				{
					for (unsigned long j(p); j < n; j += np)
						if (cl->push(j + 1)) pushed.fetch_add(1);
				}
				catch (const Abandon&) {}
			});
		for (std::thread& t : thr)
			t.join();
	}
	std::vector<unsigned char> seen(n + 2, 0);
	std::vector<long> last(np < 1 ? 1 : np, -1);
	unsigned long popped(0), empty(0), null(0), dup(0), ord(0), lost(0);
	try
	{
		for (unsigned long j(0); j <= n; ++j)
		{
			unsigned long v(0);
			if (!cl->pop(v)) { ++empty; continue; }
			++popped;
			if (v < 1 || v > n) { ++null; continue; }		// pop said true but delivered nothing usable
			if (seen[v]++) ++dup;
			const int p(np <= 1 ? 0 : static_cast<int>((v - 1) % np));
			if (static_cast<long>(v) <= last[p]) ++ord;
			if (np <= 1 && v != popped) ++ord;			// single producer: exact FIFO position
			last[p] = static_cast<long>(v);
		}
	}
	catch (const Abandon&) {}
	for (unsigned long v(1); v <= n; ++v)
		if (!seen[v]) ++lost;
	std::ostringstream os;
	os << "BACKLOG pushed=" << pushed.load() << " popped=" << popped << " empty=" << empty << " null=" << null
		<< " dup=" << dup << " lost=" << lost << " ord=" << ord;
	if (g_abort.load()) os << " TIMEOUT";
	g_abort.store(false);
	return os.str();
}

//-------------------------------------------------------------------------------------------------
int main()
{
	std::string line;
	while (std::getline(std::cin, line))
	{
		std::istringstream is(line);
		std::string mode;
		is >> mode;
		std::string out;
		try
		{
			if (mode == "q")
			{
				unsigned long nq, sz; std::string progs, sched;
				is >> nq >> sz >> progs >> sched;
				g_deref = false;
				std::unique_ptr<Client> cl(new RawClient(nq, sz));
				out = run_sched(cl.get(), parse_progs(progs), sched);
			}
			else if (mode == "w" || mode == "v")
			{
				std::string progs, sched;
				is >> progs >> sched;
				g_deref = mode == "v";
				std::unique_ptr<Client> cl;
				if (mode == "w") cl.reset(new PtrClient); else cl.reset(new ValClient);
				out = run_sched(cl.get(), parse_progs(progs), sched);
				g_deref = false;
			}
			else if (mode == "s")
			{
				unsigned long sz; std::string ops;
				is >> sz >> ops;
				out = run_slot(sz, ops == "-" ? std::string() : ops);
			}
			else if (mode == "k")
			{
				std::ostringstream os;
				os << "CONST nq=" << Geometry::nq() << " seg=" << Geometry::seg();
				out = os.str();
			}
			else if (mode == "b")
			{
				std::string kind; unsigned long nq, seg, n; int np;
				is >> kind >> nq >> seg >> np >> n;
				g_deref = false;
				std::unique_ptr<Client> cl;
				if (kind == "w") cl.reset(new PtrClient); else cl.reset(new RawClient(nq, seg));
				out = run_backlog(cl.get(), np, n);
			}
			else if (mode == "l")
			{
				unsigned long seg, n; std::string cmds;
				is >> seg >> n >> cmds;
				std::unique_ptr<Client> cl(new LaneClient(seg));
				out = run_lane(cl.get(), n, cmds);
			}
			else if (mode == "L")
			{
				std::string kind, cmds; unsigned long nq, seg, n;
				is >> kind >> nq >> seg >> n >> cmds;
				g_deref = false;
				std::unique_ptr<Client> cl;
				if (kind == "w") cl.reset(new PtrClient); else cl.reset(new RawClient(nq, seg));
				out = run_lane(cl.get(), n, cmds);
			}
			else if (mode == "f")
			{
				int np, nc; unsigned long ops, nq;
				is >> np >> nc >> ops >> nq;
				long stall_ms(0);
				std::string w;
				while (is >> w)
					if (w.compare(0, 6, "stall=") == 0) stall_ms = std::stol(w.substr(6));
				out = run_free(np, nc, ops, nq, stall_ms);
			}
			else
				out = "BAD-CASE";
		}
		catch (const std::exception& e)
		{
			out = std::string("EXC ") + e.what();
		}
		std::cout << out << std::endl;
	}
	return 0;
}
