// C31 harness: the real FIX8::Timer<T> thread on a virtual clock.
//   case  : "<t0 ns> <results> <ops> [<durations>]"
//           durations = per callback the clock time (ns) its run takes: the callback advances the virtual clock by that
//           much before it returns ("slow callback"); comma separated, default 0
//           results = per callback a string of T/F (the n-th run returns that; past the end: F), comma separated, "-" = empty
//           ops     = comma separated  S<rep 0|1>:<ms>  (the k-th S uses callback k)  |  A<ns> (advance the clock)  |  C (clear)
//                     |  W<k>:<ns>  advance the clock by <ns> with callback k set to PARK: when it runs next it does not return
//                        until released; while it is parked a second thread calls Timer::clear() (with the real code that call
//                        blocks on the spin lock the timer thread holds across the callback); after a few ms the harness notes
//                        whether clear() has returned (w1) or not (w0), releases the callback and joins the second thread.
//                        If callback k does not run in this step, clear() is simply called from the second thread.
//   result: tokens separated by blanks, per op:  [s<ret> | c<ret>]  f<cb>@<clock>:<ret 0|1>*  q      ("!" instead of q: thread not seen idle)
//           for W:  [w<0|1>]  then, in the order of occurrence, the f tokens and c<ret> (appended when clear() has returned),  q
// Virtual time: clock_gettime(CLOCK_REALTIME) is defined here (std::chrono::high_resolution_clock, hence Tickval,
// reads it); CLOCK_MONOTONIC (hypersleep) stays real and each such read by the timer thread is counted: the thread
// reads it exactly when it has decided to sleep, so "two further sleeps begun" = a whole loop pass that started after
// the harness's last action ended with nothing to do.
#include "hcommon.hpp"
#include <atomic>
#include <mutex>
#include <thread>
#include <pthread.h>
#include <unistd.h>
#include <sys/syscall.h>
#include <time.h>

static std::atomic<long long> g_vnow(1000000000LL);
static std::atomic<unsigned long> g_sleeps(0);
static pthread_t g_main, g_logger;
static std::atomic<int> g_phase(0);		// 0 = ignore, 1 = learning the global logger's thread, 2 = counting

extern "C" int clock_gettime(clockid_t id, struct timespec *ts)
{
	if (id == CLOCK_REALTIME)
	{
		const long long v(g_vnow.load());
		ts->tv_sec = v / 1000000000LL;
		ts->tv_nsec = v % 1000000000LL;
		return 0;
	}
	const int r(syscall(SYS_clock_gettime, id, ts));
	if (id == CLOCK_MONOTONIC && !pthread_equal(pthread_self(), g_main))
	{
		const int ph(g_phase.load());
		if (ph == 1)
		{
			g_logger = pthread_self();
			g_phase = 0;
		}
		else if (ph == 2 && !pthread_equal(pthread_self(), g_logger))
			++g_sleeps;
	}
	return r;
}

#include <fix8/f8includes.hpp>

using namespace FIX8;

static const int NCB = 64;

struct Mon
{
	std::vector<std::string> res;
	std::vector<long long> dur;
	std::vector<unsigned> cnt;
	std::mutex mx;
	std::vector<std::string> trace;
	std::atomic<int> park_cb;
	std::atomic<bool> parked, release;

	Mon() : cnt(NCB, 0), park_cb(-1), parked(false), release(false) {}

	bool fire(int i)
	{
		const long long t(Tickval::get_tickval().get_ticks());
		const bool r(i < (int)res.size() && cnt[i] < res[i].size() && res[i][cnt[i]] == 'T');
		++cnt[i];
		std::ostringstream os;
		os << 'f' << i << '@' << t << ':' << (r ? 1 : 0);
		{
			std::lock_guard<std::mutex> g(mx);
			trace.push_back(os.str());
		}
		if (i < (int)dur.size() && dur[i] > 0)
			g_vnow += dur[i];		// the callback takes that long
		if (park_cb.load() == i)
		{
			park_cb = -1;
			parked = true;
			while (!release.load())
				usleep(50);
		}
		return r;
	}
	template<int I> bool cb() { return fire(I); }
};

typedef bool (Mon::*CbPtr)();
static CbPtr g_tab[NCB];
template<int N> struct Fill { static void go() { g_tab[N - 1] = &Mon::cb<N - 1>; Fill<N - 1>::go(); } };
template<> struct Fill<0> { static void go() {} };

static bool wait_quiet()
{
	const unsigned long c0(g_sleeps.load());
	for (int spins(0); spins < 100000; ++spins)		// <= ~5 s
	{
		if (g_sleeps.load() >= c0 + 2)
			return true;
		usleep(50);
	}
	return false;
}

static std::string run_case(const std::string& line)
{
	std::istringstream is(line);
	long long t0; std::string rs, ops;
	if (!(is >> t0 >> rs >> ops))
		return "BAD-CASE";
	Mon mon;
	if (rs != "-")
		for (auto& s : split(rs, ','))
			mon.res.push_back(s == "-" ? std::string() : s);
	std::string durs;
	if (is >> durs && durs != "-")
		for (auto& d : split(durs, ','))
			mon.dur.push_back(strtoll(d.c_str(), 0, 10));
	g_vnow = t0;
	std::ostringstream out;
	{
		Timer<Mon> timer(mon, 1);
		g_phase = 2;
		timer.start();
		if (!wait_quiet())
			return "NO-START";
		int nsched(0);
		bool first(true);
		for (auto& o : split(ops, ','))
		{
			if (o.empty())
				continue;
			std::ostringstream tok;
			if (o[0] == 'S')
			{
				const bool rep(o[1] == '1');
				const unsigned ms(strtoul(o.c_str() + 3, 0, 10));
				if (nsched >= NCB)
					return "BAD-CASE";
				const bool r(timer.schedule(TimerEvent<Mon>(g_tab[nsched++], rep), ms));
				tok << 's' << (r ? 1 : 0) << ' ';
			}
			else if (o[0] == 'A')
				g_vnow += strtoll(o.c_str() + 1, 0, 10);
			else if (o[0] == 'C')
				tok << 'c' << timer.clear() << ' ';
			else if (o[0] == 'W')
			{
				const size_t colon(o.find(':'));
				if (colon == std::string::npos)
					return "BAD-CASE";
				mon.release = false;
				mon.parked = false;
				mon.park_cb = atoi(o.c_str() + 1);
				const unsigned long c0(g_sleeps.load());
				g_vnow += strtoll(o.c_str() + colon + 1, 0, 10);
				// until callback k is parked, or the thread is idle again without having run it
				for (int spins(0); spins < 100000 && !mon.parked.load() && g_sleeps.load() < c0 + 2; ++spins)
					usleep(50);
				const bool parked(mon.parked.load());
				if (!parked)
					mon.park_cb = -1;
				std::atomic<bool> returned(false);
				std::thread helper([&]()
				{
					const size_t n(timer.clear());
					std::ostringstream cs;
					cs << 'c' << n;
					std::lock_guard<std::mutex> g(mon.mx);
					mon.trace.push_back(cs.str());
					returned = true;
				});
				if (parked)
				{
					usleep(4000);		// clear() must still be waiting for the lock
					tok << 'w' << (returned.load() ? 1 : 0) << ' ';
					mon.release = true;
				}
				helper.join();
			}
			else
				return "BAD-CASE";
			const bool quiet(wait_quiet());
			{
				std::lock_guard<std::mutex> g(mon.mx);
				for (auto& f : mon.trace)
					tok << f << ' ';
				mon.trace.clear();
			}
			tok << (quiet ? 'q' : '!');
			if (!first)
				out << ' ';
			first = false;
			out << tok.str();
		}
		g_phase = 0;
	}	// ~Timer: stop, join
	return out.str().empty() ? "-" : out.str();
}

int main()
{
	g_main = pthread_self();
	Fill<NCB>::go();
	char dir[64];
	snprintf(dir, sizeof(dir), "/tmp/C31-%d", (int)getpid());
	// the timer thread writes one line to the global logger when it terminates
	GlobalLogger::set_global_filename(std::string(dir) + "/global.log");
	g_phase = 1;
	GlobalLogger::is_loggable(Logger::Info);	// creates the logger and its thread
	for (int i(0); i < 300000 && g_phase.load() == 1; ++i)
		usleep(100);
	g_phase = 0;

	std::string line;
	while (std::getline(std::cin, line))
	{
		std::string r;
		try { r = run_case(line); }
		catch (std::exception& e) { r = std::string("EXC ") + typeid(e).name(); }
		std::cout << r << std::endl;
	}
	GlobalLogger::stop();
	std::string cmd(std::string("rm -rf ") + dir);
	if (system(cmd.c_str())) {}
	return 0;
}
