(* GetTimeAsStringMS: when the text is right (c09_log_partial) and the witness where it is not. *)
From Coq Require Import ZArith List Bool Lia.
From F8 Require Import C09.DateTime C09.Spec_C09 C09.CalendarSweeps C09.DigitProofs C09.TimeArith C09.PrintProofs
  C09.FloatProofs C09.FixedProofs.
Import ListNotations.
Local Open Scope Z_scope.
Ltac Zify.zify_post_hook ::= Z.div_mod_to_equations.

Lemma log_in_range_inv : forall secs nsecs d, log_in_range secs nsecs d = true ->
  0 <= secs < DAYS * 86400 /\ 0 <= nsecs < NS_SEC /\ (d <= 9)%nat.
Proof.
  intros. unfold log_in_range in H. repeat (apply andb_prop in H; destruct H as [H ?]).
  apply Z.leb_le in H. apply Z.ltb_lt in H3. apply Z.leb_le in H2. apply Z.ltb_lt in H1. apply Nat.leb_le in H0. lia.
Qed.

Lemma out_int_small : forall w n, 0 <= n < 10 ^ Z.of_nat w -> out_int w n = format0 n w.
Proof.
  intros. unfold out_int.
  replace ((0 <=? n) && (n <? 10 ^ Z.of_nat w)) with true
    by (symmetry; apply andb_true_intro; split; [apply Z.leb_le|apply Z.ltb_lt]; lia).
  reflexivity.
Qed.

Definition canon_date (y m d : Z) : list Z := format0 y 4 ++ [45] ++ format0 m 2 ++ [45] ++ format0 d 2 ++ [32].

Lemma read_log_date : forall y m d rest, 0 <= y < 10000 -> 0 <= m < 100 -> 0 <= d < 100 ->
  forall k, read_log k (canon_date y m d ++ rest) =
   (get (h, mi, s, l) <- read_hms rest;
    match k with
    | O => if at_end l then Some (y, m, d, h, mi, s, 0) else None
    | _ => get l <- take_char 46 l; get (f, l) <- take_digits k l;
           if at_end l then Some (y, m, d, h, mi, s, f) else None
    end).
Proof.
  intros. unfold read_log, canon_date. repeat rewrite <- app_assoc.
  rewrite take_digits_canon by (change (10 ^ Z.of_nat 4) with 10000; lia). cbn [sbind app].
  rewrite take_char_cons. cbn [sbind].
  rewrite take_digits_canon by (change (10 ^ Z.of_nat 2) with 100; lia). cbn [sbind app].
  rewrite take_char_cons. cbn [sbind].
  rewrite take_digits_canon by (change (10 ^ Z.of_nat 2) with 100; lia). cbn [sbind app].
  rewrite take_char_cons. cbn [sbind]. reflexivity.
Qed.

(* the text produced, in canonical pieces *)
Lemma log_render_shape : forall secs nsecs d y m dd,
  0 <= secs -> 0 <= nsecs < NS_SEC -> civil_of_days (secs / 86400) = (y, m, dd) ->
  0 <= y < 10000 -> 1 <= m <= 12 -> 1 <= dd <= 31 ->
  let sod := secs mod 86400 in
  log_render secs nsecs d =
  canon_date y m dd ++ format0 (sod / 3600) 2 ++ [58] ++ format0 (sod mod 3600 / 60) 2 ++ [58] ++
  match d with
  | O => format0 (sod mod 60) 2
  | _ => let '(num, sh) := log_secs_double (secs mod 60) nsecs in out_fixed num sh d
  end.
Proof.
  intros secs nsecs d y m dd Hs Hn Hc Hy Hm Hd sod.
  assert (Ts : tv_secs (tv_make secs nsecs) = secs).
  { unfold tv_secs, tv_make, BILLION, NS_SEC in *. rewrite Z.quot_div_nonneg by lia. lia. }
  assert (Tn : tv_nsecs (tv_make secs nsecs) = nsecs).
  { unfold tv_nsecs, tv_make, BILLION, W32, NS_SEC in *. rewrite Z.rem_mod_nonneg by lia.
    replace ((secs * 1000000000 + nsecs) mod 1000000000) with nsecs by lia.
    apply Z.mod_small. lia. }
  unfold log_render. rewrite Ts, Tn. unfold gmtime. rewrite Hc.
  cbn [tm_year tm_mon tm_mday tm_hour tm_min tm_sec]. rewrite !Z.sub_add. fold sod.
  assert (0 <= sod < 86400) by (unfold sod; apply Z.mod_pos_bound; lia).
  rewrite (out_int_small 4 y) by (change (10 ^ Z.of_nat 4) with 10000; lia).
  rewrite (out_int_small 2 m) by (change (10 ^ Z.of_nat 2) with 100; lia).
  rewrite (out_int_small 2 dd) by (change (10 ^ Z.of_nat 2) with 100; lia).
  rewrite (out_int_small 2 (sod / 3600)) by (change (10 ^ Z.of_nat 2) with 100; lia).
  rewrite (out_int_small 2 (sod mod 3600 / 60)) by (change (10 ^ Z.of_nat 2) with 100; lia).
  rewrite Z.rem_mod_nonneg by lia.
  unfold canon_date. repeat rewrite <- app_assoc. do 10 f_equal.
  destruct d; [|reflexivity].
  apply out_int_small. change (10 ^ Z.of_nat 2) with 100. lia.
Qed.

Lemma pow10_split : forall d, (d <= 9)%nat -> 10 ^ Z.of_nat d * 10 ^ (9 - Z.of_nat d) = BILLION.
Proof.
  intros. rewrite <- Z.pow_add_r by lia. replace (Z.of_nat d + (9 - Z.of_nat d)) with 9 by lia. reflexivity.
Qed.

Lemma log_partial_lemma : forall secs nsecs d, log_in_range secs nsecs d = true ->
  (d = 0%nat \/ secs mod 60 < 59 \/ 2 * nsecs + 10 ^ (9 - Z.of_nat d) < 2 * NS_SEC) ->
  c09_log_ok secs nsecs d (log_render secs nsecs d) = true.
Proof.
  intros secs nsecs d Hr Hc. destruct (log_in_range_inv _ _ _ Hr) as (Hs & Hn & Hd).
  unfold c09_log_ok. rewrite Hr. cbn [negb orb].
  assert (Hday : 0 <= secs / 86400 < DAYS) by (unfold DAYS in *; lia).
  pose proof (civil_of_days_ok (secs / 86400) Hday) as C.
  destruct (civil_of_days (secs / 86400)) as [[y m] dd] eqn:Hcv. destruct C as [C Hy].
  unfold c09_civil_ok in C. apply andb_prop in C. destruct C as [Hv Hdfc]. apply Z.eqb_eq in Hdfc.
  pose proof (valid_date_bounds y m dd Hv) as [Hm Hdd].
  rewrite (log_render_shape secs nsecs d y m dd) by (auto; lia).
  set (sod := secs mod 86400).
  assert (Hsod : 0 <= sod < 86400) by (unfold sod; apply Z.mod_pos_bound; lia).
  set (h := sod / 3600). set (mi := sod mod 3600 / 60).
  assert (Hh : 0 <= h < 24) by (unfold h; lia). assert (Hmi : 0 <= mi < 60) by (unfold mi; lia).
  assert (Hsecs : secs = days_from_civil y m dd * 86400 + h * 3600 + mi * 60 + secs mod 60).
  { rewrite Hdfc. unfold h, mi, sod. lia. }
  rewrite read_log_date by lia.
  destruct d as [|d'].
  - (* whole seconds: tm_sec *)
    assert (Hss : sod mod 60 = secs mod 60) by (unfold sod; lia). rewrite Hss.
    change (format0 h 2 ++ [58] ++ format0 mi 2 ++ [58] ++ format0 (secs mod 60) 2)
      with (canon_hms h mi (secs mod 60)).
    rewrite <- (app_nil_r (canon_hms h mi (secs mod 60))).
    rewrite read_hms_canon by lia. cbn [sbind at_end].
    rewrite Hv, hms_ok_true by lia. cbn [andb].
    apply Z.ltb_lt. change (10 ^ (9 - Z.of_nat 0)) with 1000000000. unfold NS_SEC in *.
    apply Z.abs_lt. lia.
  - (* a fraction: the binary64 value printed with d digits *)
    set (d := S d') in *.
    destruct (log_secs_double (secs mod 60) nsecs) as [num sh] eqn:Hdb.
    set (P := 10 ^ Z.of_nat d). set (U := 10 ^ (9 - Z.of_nat d)).
    assert (HPU : P * U = BILLION) by (apply pow10_split; exact Hd).
    assert (HP : 1 <= P) by (unfold P; change 1 with (10 ^ 0); apply Z.pow_le_mono_r; lia).
    assert (HU : 1 <= U) by (unfold U; change 1 with (10 ^ 0); apply Z.pow_le_mono_r; lia).
    assert (Hs60 : 0 <= secs mod 60 <= 59) by lia.
    pose proof (fixed_core (secs mod 60) nsecs P U num sh Hs60 ltac:(unfold BILLION, NS_SEC in *; lia)
                  HPU HU HP Hdb) as (K0 & Kerr & Klt).
    unfold out_fixed. fold P. set (K := rne_div (num * P) (2 ^ sh)) in *.
    assert (K60 : K < 60 * P).
    { apply Klt. destruct Hc as [Hc|[Hc|Hc]]; [discriminate|left; lia|right].
      fold U in Hc. unfold BILLION, NS_SEC in *. lia. }
    set (ip := K / P). set (fp := K mod P).
    assert (Hip : 0 <= ip < 60) by (unfold ip; split; [apply Z.div_pos; lia|apply Z.div_lt_upper_bound; lia]).
    assert (Hfp : 0 <= fp < P) by (unfold fp; apply Z.mod_pos_bound; lia).
    assert (HK : K = ip * P + fp) by (unfold ip, fp; rewrite Z.mul_comm; apply Z.div_mod; lia).
    replace (ip <? 100) with true by (symmetry; apply Z.ltb_lt; lia).
    replace (format0 h 2 ++ [58] ++ format0 mi 2 ++ [58] ++ format0 ip 2 ++ [46] ++ format0 fp d)
      with (canon_hms h mi ip ++ 46 :: format0 fp d)
      by (unfold canon_hms; repeat rewrite <- app_assoc; reflexivity).
    rewrite read_hms_canon by lia. cbn [sbind]. rewrite take_char_cons. cbn [sbind].
    rewrite take_digits_canon_end by (fold P; lia). cbn [sbind at_end].
    rewrite Hv, hms_ok_true by lia. cbn [andb].
    apply Z.ltb_lt. fold U. apply Z.abs_lt.
    assert (HKU : K * U = ip * NS_SEC + fp * U).
    { rewrite HK. replace ((ip * P + fp) * U) with (ip * (P * U) + fp * U) by ring. rewrite HPU. reflexivity. }
    unfold BILLION, NS_SEC in *. lia.
Qed.

(* the witness of finding F16: 1970-01-01 00:00:59.9999996 at six places *)
Lemma log_seconds_refuted_lemma : exists secs nsecs d, log_in_range secs nsecs d = true /\
  log_seconds d (log_render secs nsecs d) = Some 60 /\ c09_log_ok secs nsecs d (log_render secs nsecs d) = false.
Proof. exists 59, 999999600, 6%nat. vm_compute. repeat split. Qed.

(* non-vacuity: 2000-02-29T23:59:59.999 (a leap day of a century year, last millisecond) meets the
   hypotheses of the round-trip theorem and gives the expected six texts and tick counts; the
   log renderer at six places on 23:59:59.499999999 meets the hypothesis of log_partial_lemma *)
Lemma nonvacuous_lemma :
  in_range 951868799999000000 = true /\
  observe (roundtrip 951868799999000000) =
    [([50; 48; 48; 48; 48; 50; 50; 57; 45; 50; 51; 58; 53; 57; 58; 53; 57; 46; 57; 57; 57], Some 951868799999000000);
     ([50; 51; 58; 53; 57; 58; 53; 57; 46; 57; 57; 57], Some 86399999000000);
     ([50; 48; 48; 48; 48; 50; 50; 57], Some 951782400000000000);
     ([50; 48; 48; 48; 48; 50; 50; 57], Some 951782400000000000);
     ([50; 48; 48; 48; 48; 50], Some 949363200000000000);
     ([50; 48; 48; 48; 48; 50; 50; 57], Some 951782400000000000)] /\
  log_in_range 951868799 499999999 6 = true /\
  2 * 499999999 + 10 ^ (9 - Z.of_nat 6) < 2 * NS_SEC /\
  log_render 951868799 499999999 6 =
    [50; 48; 48; 48; 45; 48; 50; 45; 50; 57; 32; 50; 51; 58; 53; 57; 58; 53; 57; 46; 53; 48; 48; 48; 48; 48].
Proof. vm_compute. repeat split; reflexivity || discriminate. Qed.
