(* Tickval arithmetic on non-negative tick counts: seconds, milliseconds, broken-down time. *)
From Coq Require Import ZArith List Bool Lia.
From F8 Require Import C09.DateTime C09.Spec_C09 C09.CalendarSweeps C09.DigitProofs.
Import ListNotations.
Local Open Scope Z_scope.
Ltac Zify.zify_post_hook ::= Z.div_mod_to_equations.

(* ------------------------------------------------------------------ Tickval arithmetic, t >= 0 *)
Lemma tv_secs_nonneg : forall t, 0 <= t -> tv_secs t = t / NS_SEC.
Proof. intros. unfold tv_secs, BILLION, NS_SEC. apply Z.quot_div_nonneg; lia. Qed.

Lemma wrap32s_fits : forall x, fits32 x = true -> wrap32s x = x.
Proof.
  intros x H. unfold fits32, INT_MIN, INT_MAX in H. apply andb_prop in H. destruct H as [A B].
  apply Z.leb_le in A. apply Z.leb_le in B. unfold wrap32s, W32.
  rewrite Z.mod_small by lia. lia.
Qed.

Lemma tv_msecs_nonneg : forall t, 0 <= t -> wrap32s (tv_msecs t) = (t / NS_MS) mod 1000.
Proof.
  intros. unfold tv_msecs, MILLION, NS_MS, W32.
  rewrite Z.quot_div_nonneg by lia.
  rewrite Z.rem_mod_nonneg by (try apply Z.div_pos; lia).
  assert (0 <= (t / 1000000) mod 1000 < 1000) by (apply Z.mod_pos_bound; lia).
  rewrite Z.mod_small by lia.
  apply wrap32s_fits. unfold fits32, INT_MIN, INT_MAX. apply andb_true_intro. split; apply Z.leb_le; lia.
Qed.

(* the broken-down time of a non-negative tick count *)
Definition sod_of (t : Z) : Z := (t / NS_SEC) mod 86400.

Lemma tv_get_tm_nonneg : forall t y m d, 0 <= t -> civil_of_days (t / NS_DAY) = (y, m, d) ->
  tv_get_tm t = mk_tm y m d (sod_of t / 3600) ((sod_of t mod 3600) / 60) (sod_of t mod 60).
Proof.
  intros t y m d Ht Hc. unfold tv_get_tm, gmtime. rewrite tv_secs_nonneg by lia.
  replace (t / NS_SEC / 86400) with (t / NS_DAY)
    by (unfold NS_DAY, NS_SEC; rewrite Z.div_div by lia; f_equal).
  rewrite Hc. reflexivity.
Qed.

Lemma sod_bounds : forall t, 0 <= sod_of t < 86400.
Proof. intros. unfold sod_of. apply Z.mod_pos_bound. lia. Qed.

(* the instant, truncated to milliseconds, from its calendar parts *)
Lemma instant_parts : forall t, 0 <= t ->
  (t / NS_DAY * 86400 + sod_of t / 3600 * 3600 + (sod_of t mod 3600) / 60 * 60 + sod_of t mod 60) * NS_SEC
   + (t / NS_MS) mod 1000 * NS_MS = t / NS_MS * NS_MS.
Proof.
  intros t Ht. unfold sod_of.
  assert (E1 : t / NS_DAY = t / NS_SEC / 86400)
    by (unfold NS_DAY, NS_SEC; rewrite Z.div_div by lia; f_equal).
  assert (E2 : t / NS_SEC = t / NS_MS / 1000)
    by (unfold NS_MS, NS_SEC; rewrite Z.div_div by lia; f_equal).
  rewrite E1. set (secs := t / NS_SEC) in *. rewrite E2. set (q := t / NS_MS) in *.
  unfold NS_SEC, NS_MS. lia.
Qed.
