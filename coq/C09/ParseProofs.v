(* The string constructors: every well-formed text of the range is parsed to exactly what it
   denotes -- for the pinned code when the denoted second count fits an int (before
   2038-01-19T03:14:08), for the 64-bit evaluation of time_to_epoch on the whole range. *)
From Coq Require Import ZArith List Bool Lia.
From F8 Require Import C09.DateTime C09.Spec_C09 C09.CalendarSweeps C09.DigitProofs C09.TimeArith C09.PrintProofs C09.YearSweep.
Import ListNotations.
Local Open Scope Z_scope.
Ltac Zify.zify_post_hook ::= Z.div_mod_to_equations.

(* ------------------------------------------------------------------ time_to_epoch on valid fields *)
Lemma iop_fits : forall x ub, fits32 x = true -> iop false x ub = (x, ub).
Proof. intros. unfold iop. rewrite H, wrap32s_fits by assumption. cbn. rewrite orb_false_r. reflexivity. Qed.

Lemma fits32_range : forall x, 0 <= x <= INT_MAX -> fits32 x = true.
Proof. intros. unfold fits32, INT_MIN, INT_MAX in *. apply andb_true_intro. split; apply Z.leb_le; lia. Qed.

Lemma time_to_epoch_valid : forall wide y m d h mi s ub,
  1970 <= y <= 2099 -> valid_date y m d = true -> 0 <= h < 24 -> 0 <= mi < 60 -> 0 <= s < 60 ->
  (wide = true \/ days_from_civil y m d * 86400 + h * 3600 + mi * 60 + s <= INT_MAX) ->
  time_to_epoch_gen wide (mk_tm y m d h mi s) 0 ub
  = (days_from_civil y m d * 86400 + h * 3600 + mi * 60 + s, ub).
Proof.
  intros wide y m d h mi s ub Hy Hv Hh Hmi Hs Hw.
  destruct (epoch_days_ok y m d h mi s Hy Hv) as [E HD].
  unfold time_to_epoch_gen. rewrite E. unfold mk_tm. cbn [tm_hour tm_min tm_sec].
  set (D := days_from_civil y m d) in *.
  destruct wide.
  - unfold iop. f_equal. lia.
  - destruct Hw as [Hw|Hw]; [discriminate|].
    rewrite (iop_fits (D * 86400)) by (apply fits32_range; unfold INT_MAX in *; lia).
    rewrite (iop_fits ((h + 0) * 3600)) by (apply fits32_range; unfold INT_MAX in *; lia).
    rewrite (iop_fits (D * 86400 + (h + 0) * 3600)) by (apply fits32_range; unfold INT_MAX in *; lia).
    rewrite (iop_fits (mi * 60)) by (apply fits32_range; unfold INT_MAX in *; lia).
    rewrite (iop_fits (D * 86400 + (h + 0) * 3600 + mi * 60)) by (apply fits32_range; unfold INT_MAX in *; lia).
    rewrite (iop_fits (D * 86400 + (h + 0) * 3600 + mi * 60 + s)) by (apply fits32_range; unfold INT_MAX in *; lia).
    f_equal. lia.
Qed.

Lemma lop_fits : forall x ub, 0 <= x <= 9223372036854775807 -> lop x ub = (x, ub).
Proof.
  intros. unfold lop, wrap64s, fits64, W64.
  replace ((-9223372036854775808 <=? x) && (x <=? 9223372036854775807)) with true
    by (symmetry; apply andb_true_intro; split; apply Z.leb_le; lia).
  cbn [negb]. rewrite orb_false_r. rewrite Z.mod_small by lia. f_equal. lia.
Qed.

Lemma epoch_inverse_lemma : forall y m d h mi s,
  1970 <= y <= 2099 -> valid_date y m d = true -> 0 <= h < 24 -> 0 <= mi < 60 -> 0 <= s < 60 ->
  time_to_epoch (mk_tm y m d h mi s) 0 false
  = (days_from_civil y m d * 86400 + h * 3600 + mi * 60 + s, false).
Proof. intros; apply time_to_epoch_valid; auto. Qed.

(* ------------------------------------------------------------------ the model parser follows the reader *)
Lemma is_now_false : forall s, (4 <= length s)%nat -> is_now s = false.
Proof.
  intros s H. destruct s as [|a [|b [|c [|d s]]]]; cbn [length] in H; try lia. reflexivity.
Qed.

Lemma take_digits_follows : forall w l v r, take_digits w l = Some (v, r) ->
  (forall tail ub, parse_decimal w (l ++ tail) 0 ub = Some (v, ub, r ++ tail)) /\
  0 <= v < 10 ^ Z.of_nat w /\ length l = (w + length r)%nat.
Proof.
  intros w l v r H. unfold take_digits in H. split; [|split].
  - intros. apply (parse_decimal_follows w l 0 ub v r tail H). lia.
  - destruct (parse_decimal_follows w l 0 false v r [] H ltac:(lia)) as [_ B]. lia.
  - eapply take_digits_acc_length; eauto.
Qed.

Lemma take_char_inv : forall c l l', take_char c l = Some l' -> l = c :: l'.
Proof.
  intros c l l' H. destruct l as [|x l]; [discriminate|]. cbn [take_char] in H.
  destruct (x =? c) eqn:E; [|discriminate]. apply Z.eqb_eq in E. inversion H. subst. reflexivity.
Qed.

Lemma at_end_inv : forall l, at_end l = true -> l = [].
Proof. destruct l; [reflexivity|discriminate]. Qed.

Lemma read_ymd_follows : forall l y m d r, read_ymd l = Some (y, m, d, r) ->
  exists l1 l2,
    (forall tail ub, parse_decimal 4 (l ++ tail) 0 ub = Some (y, ub, l1 ++ tail)) /\
    (forall tail ub, parse_decimal 2 (l1 ++ tail) 0 ub = Some (m, ub, l2 ++ tail)) /\
    (forall tail ub, parse_decimal 2 (l2 ++ tail) 0 ub = Some (d, ub, r ++ tail)) /\
    length l = (8 + length r)%nat /\ 0 <= y < 10000 /\ 0 <= m < 100 /\ 0 <= d < 100.
Proof.
  intros l y m d r H. unfold read_ymd in H.
  destruct (take_digits 4 l) as [[y' l1]|] eqn:E1; [|discriminate]. cbn [sbind] in H.
  destruct (take_digits 2 l1) as [[m' l2]|] eqn:E2; [|discriminate]. cbn [sbind] in H.
  destruct (take_digits 2 l2) as [[d' l3]|] eqn:E3; [|discriminate]. cbn [sbind] in H.
  inversion H; subst.
  destruct (take_digits_follows _ _ _ _ E1) as (P1 & B1 & L1).
  destruct (take_digits_follows _ _ _ _ E2) as (P2 & B2 & L2).
  destruct (take_digits_follows _ _ _ _ E3) as (P3 & B3 & L3).
  exists l1, l2. change (10 ^ Z.of_nat 4) with 10000 in B1. change (10 ^ Z.of_nat 2) with 100 in B2, B3.
  repeat split; auto; lia.
Qed.

Lemma read_hms_follows : forall l h mi s r, read_hms l = Some (h, mi, s, r) ->
  exists l1 l2,
    (forall tail ub, parse_decimal 2 (l ++ tail) 0 ub = Some (h, ub, 58 :: l1 ++ tail)) /\
    (forall tail ub, parse_decimal 2 (l1 ++ tail) 0 ub = Some (mi, ub, 58 :: l2 ++ tail)) /\
    (forall tail ub, parse_decimal 2 (l2 ++ tail) 0 ub = Some (s, ub, r ++ tail)) /\
    length l = (8 + length r)%nat /\ 0 <= h < 100 /\ 0 <= mi < 100 /\ 0 <= s < 100.
Proof.
  intros l h mi s r H. unfold read_hms in H.
  destruct (take_digits 2 l) as [[h' k1]|] eqn:E1; [|discriminate]. cbn [sbind] in H.
  destruct (take_char 58 k1) as [l1|] eqn:C1; [|discriminate]. cbn [sbind] in H.
  destruct (take_digits 2 l1) as [[mi' k2]|] eqn:E2; [|discriminate]. cbn [sbind] in H.
  destruct (take_char 58 k2) as [l2|] eqn:C2; [|discriminate]. cbn [sbind] in H.
  destruct (take_digits 2 l2) as [[s' k3]|] eqn:E3; [|discriminate]. cbn [sbind] in H.
  inversion H; subst.
  apply take_char_inv in C1. apply take_char_inv in C2. subst k1 k2.
  destruct (take_digits_follows _ _ _ _ E1) as (P1 & B1 & L1).
  destruct (take_digits_follows _ _ _ _ E2) as (P2 & B2 & L2).
  destruct (take_digits_follows _ _ _ _ E3) as (P3 & B3 & L3).
  exists l1, l2. change (10 ^ Z.of_nat 2) with 100 in B1, B2, B3. cbn [length] in L1, L2.
  repeat split; auto; try lia.
Qed.

Lemma hms_ok_inv : forall h mi s, hms_ok h mi s = true -> h < 24 /\ mi < 60 /\ s < 60.
Proof.
  intros. unfold hms_ok in H. apply andb_prop in H. destruct H as [H C]. apply andb_prop in H. destruct H as [A B].
  apply Z.ltb_lt in A. apply Z.ltb_lt in B. apply Z.ltb_lt in C. lia.
Qed.

Lemma in_range_inv : forall v, in_range v = true -> 0 <= v < DAYS * NS_DAY.
Proof. intros. unfold in_range in H. apply andb_prop in H. destruct H as [A B]. apply Z.leb_le in A. apply Z.ltb_lt in B. lia. Qed.

Definition small (wide : bool) (v : Z) : Prop := wide = true \/ v < 2147483648 * NS_SEC.

(* UTCTimestamp *)
Lemma parse_TS : forall wide s v, denote S_TS s = Some v -> in_range v = true -> small wide v ->
  date_time_parse_gen wide s = Ticks v false.
Proof.
  intros wide s v H Hr Hw. apply in_range_inv in Hr. unfold denote in H.
  destruct (read_ymd s) as [[[[y m] d] l3]|] eqn:E1; [|discriminate]. cbn [sbind] in H.
  destruct (take_char 45 l3) as [l4|] eqn:C1; [|discriminate]. cbn [sbind] in H.
  destruct (read_hms l4) as [[[[h mi] sc] l9]|] eqn:E2; [|discriminate]. cbn [sbind] in H.
  destruct (read_ms_end l9) as [ms|] eqn:E3; [|discriminate]. cbn [sbind] in H.
  destruct (valid_date y m d) eqn:Hv; [|discriminate].
  destruct (hms_ok h mi sc) eqn:Hh; [|discriminate]. cbn [andb] in H. inversion H as [Hval]. clear H.
  apply take_char_inv in C1. subst l3.
  destruct (read_ymd_follows _ _ _ _ _ E1) as (a1 & a2 & P1 & P2 & P3 & L1 & By & Bm & Bd).
  destruct (read_hms_follows _ _ _ _ _ E2) as (b1 & b2 & Q1 & Q2 & Q3 & L2 & Bh & Bmi & Bs).
  apply hms_ok_inv in Hh.
  set (D := days_from_civil y m d) in *.
  assert (HD : 0 <= D < DAYS).
  { assert (0 <= ms < 1000).
    { unfold read_ms_end in E3. destruct (at_end l9); [inversion E3; lia|].
      destruct (take_char 46 l9) as [k|]; [|discriminate]. cbn [sbind] in E3.
      destruct (take_digits 3 k) as [[ms' k']|] eqn:E; [|discriminate]. cbn [sbind] in E3.
      destruct (at_end k'); [|discriminate]. inversion E3; subst.
      destruct (take_digits_follows _ _ _ _ E) as (_ & B & _). change (10 ^ Z.of_nat 3) with 1000 in B. lia. }
    unfold NS_DAY, NS_SEC, NS_MS, DAYS in *. lia. }
  assert (Hy : 1970 <= y <= 2099) by (apply (year_of_range y m d); auto).
  assert (Hte : forall ub, time_to_epoch_gen wide (mk_tm y m d h mi sc) 0 ub
                 = (D * 86400 + h * 3600 + mi * 60 + sc, ub)).
  { intros. apply time_to_epoch_valid; auto; try lia.
    destruct Hw as [Hw|Hw]; [left; exact Hw|right].
    assert (0 <= ms) by (unfold read_ms_end in E3; destruct (at_end l9); [inversion E3; lia|];
      destruct (take_char 46 l9) as [k|]; [|discriminate]; cbn [sbind] in E3;
      destruct (take_digits 3 k) as [[ms' k']|] eqn:E; [|discriminate]; cbn [sbind] in E3;
      destruct (at_end k'); [|discriminate]; inversion E3; subst;
      destruct (take_digits_follows _ _ _ _ E) as (_ & B & _); lia).
    unfold INT_MAX, NS_SEC, NS_MS in *. lia. }
  unfold date_time_parse_gen.
  rewrite is_now_false by (cbn [length] in L1; lia).
  rewrite P1. cbn [bind]. rewrite P2. cbn [bind]. rewrite P3. cbn [bind app skip1 tl].
  rewrite Q1. cbn [bind skip1 tl]. rewrite Q2. cbn [bind skip1 tl]. rewrite Q3. cbn [bind].
  change {| tm_year := y - 1900; tm_mon := m - 1; tm_mday := d; tm_hour := h; tm_min := mi; tm_sec := sc |}
    with (mk_tm y m d h mi sc).
  unfold read_ms_end in E3. destruct (at_end l9) eqn:A.
  - apply at_end_inv in A. subst l9. inversion E3; subst ms.
    assert (Hl : Z.of_nat (length s) = 17) by (cbn [length] in *; lia). rewrite Hl.
    change (17 =? 21) with false. change (17 =? 17) with true. cbv iota.
    rewrite Hte. cbn [bind].
    rewrite lop_fits by (unfold BILLION, NS_DAY, NS_SEC, NS_MS, DAYS in *; lia).
    cbn [out_of]. f_equal. unfold BILLION, NS_SEC, NS_MS in *. lia.
  - destruct (take_char 46 l9) as [k|] eqn:C2; [|discriminate]. cbn [sbind] in E3.
    destruct (take_digits 3 k) as [[ms' k']|] eqn:E; [|discriminate]. cbn [sbind] in E3.
    destruct (at_end k') eqn:A2; [|discriminate]. inversion E3; subst ms'.
    apply at_end_inv in A2. subst k'. apply take_char_inv in C2. subst l9.
    destruct (take_digits_follows _ _ _ _ E) as (R1 & B & L3).
    assert (Hl : Z.of_nat (length s) = 21) by (cbn [length] in *; lia). rewrite Hl.
    change (21 =? 21) with true. cbv iota. cbn [app skip1 tl].
    rewrite R1. cbn [bind]. rewrite Hte. cbn [bind].
    change (10 ^ Z.of_nat 3) with 1000 in B.
    rewrite lop_fits by (unfold BILLION, NS_DAY, NS_SEC, NS_MS, DAYS in *; lia).
    rewrite lop_fits by (unfold BILLION, MILLION, NS_DAY, NS_SEC, NS_MS, DAYS in *; lia).
    cbn [out_of]. f_equal. unfold BILLION, MILLION, NS_SEC, NS_MS in *. lia.
Qed.

(* UTCTimeOnly: no calendar involved, no int arithmetic *)
Lemma parse_TO : forall wide s v, denote S_TO s = Some v -> time_parse_gen wide s true = Ticks v false.
Proof.
  intros wide s v H. unfold denote in H.
  destruct (read_hms s) as [[[[h mi] sc] l9]|] eqn:E2; [|discriminate]. cbn [sbind] in H.
  destruct (read_ms_end l9) as [ms|] eqn:E3; [|discriminate]. cbn [sbind] in H.
  destruct (hms_ok h mi sc) eqn:Hh; [|discriminate]. inversion H as [Hval]. clear H.
  destruct (read_hms_follows _ _ _ _ _ E2) as (b1 & b2 & Q1 & Q2 & Q3 & L2 & Bh & Bmi & Bs).
  unfold time_parse_gen.
  rewrite is_now_false by lia.
  rewrite Q1. cbn [bind skip1 tl]. rewrite Q2. cbn [bind skip1 tl]. rewrite Q3. cbn [bind].
  unfold read_ms_end in E3. destruct (at_end l9) eqn:A.
  - apply at_end_inv in A. subst l9. inversion E3; subst ms.
    assert (Hl : Z.of_nat (length s) = 8) by (cbn [length] in *; lia). rewrite Hl.
    change (8 =? 12) with false. change (8 =? 8) with true. cbv iota.
    cbn [out_of]. f_equal. unfold BILLION, NS_SEC, NS_MS in *. lia.
  - destruct (take_char 46 l9) as [k|] eqn:C2; [|discriminate]. cbn [sbind] in E3.
    destruct (take_digits 3 k) as [[ms' k']|] eqn:E; [|discriminate]. cbn [sbind] in E3.
    destruct (at_end k') eqn:A2; [|discriminate]. inversion E3; subst ms'.
    apply at_end_inv in A2. subst k'. apply take_char_inv in C2. subst l9.
    destruct (take_digits_follows _ _ _ _ E) as (R1 & B & L3).
    assert (Hl : Z.of_nat (length s) = 12) by (cbn [length] in *; lia). rewrite Hl.
    change (12 =? 12) with true. cbv iota. cbn [app skip1 tl].
    rewrite R1. cbn [bind]. change (10 ^ Z.of_nat 3) with 1000 in B.
    rewrite lop_fits by (unfold BILLION, MILLION in *; lia).
    cbn [out_of]. f_equal.
    unfold BILLION, MILLION, NS_SEC, NS_MS in *. lia.
Qed.

(* the eight character dates: UTCDateOnly, LocalMktDate, MonthYear YYYYMMDD *)
Lemma parse_date8 : forall wide s v,
  (get (y, m, d, l) <- read_ymd s;
   if at_end l && valid_date y m d then Some (days_from_civil y m d * NS_DAY) else None) = Some v ->
  in_range v = true -> small wide v ->
  date_parse_gen wide s = Ticks v false.
Proof.
  intros wide s v H Hr Hw. apply in_range_inv in Hr.
  destruct (read_ymd s) as [[[[y m] d] l3]|] eqn:E1; [|discriminate]. cbn [sbind] in H.
  destruct (at_end l3) eqn:A; [|discriminate]. destruct (valid_date y m d) eqn:Hv; [|discriminate].
  cbn [andb] in H. inversion H as [Hval]. clear H. apply at_end_inv in A. subst l3.
  destruct (read_ymd_follows _ _ _ _ _ E1) as (a1 & a2 & P1 & P2 & P3 & L1 & By & Bm & Bd).
  set (D := days_from_civil y m d) in *.
  assert (HD : 0 <= D < DAYS) by (unfold NS_DAY, NS_SEC, DAYS in *; lia).
  assert (Hy : 1970 <= y <= 2099) by (apply (year_of_range y m d); auto).
  unfold date_parse_gen.
  rewrite is_now_false by (cbn [length] in L1; lia).
  rewrite P1. cbn [bind]. rewrite P2. cbn [bind].
  assert (Hl : Z.of_nat (length s) = 8) by (cbn [length] in *; lia). rewrite Hl.
  change (8 =? 8) with true. cbv iota. rewrite P3. cbn [bind].
  change {| tm_year := y - 1900; tm_mon := m - 1; tm_mday := d; tm_hour := 0; tm_min := 0; tm_sec := 0 |}
    with (mk_tm y m d 0 0 0).
  rewrite time_to_epoch_valid; auto; try lia.
  - cbn [bind]. fold D. rewrite lop_fits by (unfold BILLION, NS_DAY, NS_SEC, DAYS in *; lia).
    cbn [out_of]. f_equal. unfold BILLION, NS_DAY, NS_SEC in *. lia.
  - destruct Hw as [Hw|Hw]; [left; exact Hw|right]. fold D. unfold INT_MAX, NS_DAY, NS_SEC in *. lia.
Qed.

(* MonthYear YYYYMM *)
Lemma parse_M6 : forall wide s v, denote S_M6 s = Some v -> in_range v = true -> small wide v ->
  date_parse_gen wide s = Ticks v false.
Proof.
  intros wide s v H Hr Hw. apply in_range_inv in Hr. unfold denote in H.
  destruct (take_digits 4 s) as [[y l1]|] eqn:E1; [|discriminate]. cbn [sbind] in H.
  destruct (take_digits 2 l1) as [[m l2]|] eqn:E2; [|discriminate]. cbn [sbind] in H.
  destruct (at_end l2) eqn:A; [|discriminate]. destruct (valid_date y m 1) eqn:Hv; [|discriminate].
  cbn [andb] in H. inversion H as [Hval]. clear H. apply at_end_inv in A. subst l2.
  destruct (take_digits_follows _ _ _ _ E1) as (P1 & B1 & L1).
  destruct (take_digits_follows _ _ _ _ E2) as (P2 & B2 & L2).
  change (10 ^ Z.of_nat 4) with 10000 in B1.
  set (D := days_from_civil y m 1) in *.
  assert (HD : 0 <= D < DAYS) by (unfold NS_DAY, NS_SEC, DAYS in *; lia).
  assert (Hy : 1970 <= y <= 2099) by (apply (year_of_range y m 1); auto).
  unfold date_parse_gen.
  rewrite is_now_false by (cbn [length] in *; lia).
  rewrite P1. cbn [bind]. rewrite P2. cbn [bind].
  assert (Hl : Z.of_nat (length s) = 6) by (cbn [length] in *; lia). rewrite Hl.
  change (6 =? 8) with false. cbv iota. cbn [bind].
  change {| tm_year := y - 1900; tm_mon := m - 1; tm_mday := 1; tm_hour := 0; tm_min := 0; tm_sec := 0 |}
    with (mk_tm y m 1 0 0 0).
  rewrite time_to_epoch_valid; auto; try lia.
  - cbn [bind]. fold D. rewrite lop_fits by (unfold BILLION, NS_DAY, NS_SEC, DAYS in *; lia).
    cbn [out_of]. f_equal. unfold BILLION, NS_DAY, NS_SEC in *. lia.
  - destruct Hw as [Hw|Hw]; [left; exact Hw|right]. fold D. unfold INT_MAX, NS_DAY, NS_SEC in *. lia.
Qed.

(* ------------------------------------------------------------------ all field types *)
Theorem parse_follows_denote : forall wide k s v, denote k s = Some v -> in_range v = true -> small wide v ->
  field_parse_gen wide (mkind k) s = Ticks v false.
Proof.
  intros wide k s v H Hr Hw. destruct k; cbn [mkind field_parse_gen].
  - apply parse_TS; auto.
  - apply parse_TO; auto.
  - apply parse_date8; auto.
  - apply parse_date8; auto.
  - apply parse_M6; auto.
  - apply parse_date8; auto.
Qed.

(* ------------------------------------------------------------------ no read outside the text *)
Lemma parse_decimal_total : forall k l to ub, (k <= length l)%nat ->
  exists v r, parse_decimal k l to ub = Some (v, ub, r) /\ length r = (length l - k)%nat.
Proof.
  induction k; intros l to ub H.
  - exists to, l. cbn. split; [reflexivity|lia].
  - destruct l as [|c l]; [cbn in H; lia|]. cbn [parse_decimal]. cbn [length] in H.
    destruct (IHk l (to * 10 + (schar c - 48)) ub ltac:(lia)) as (v & r & E & L).
    exists v, r. split; [exact E|]. cbn [length]. lia.
Qed.

Lemma skip1_length : forall l, length (skip1 l) = (length l - 1)%nat.
Proof. destruct l; cbn; lia. Qed.

Lemma date_total : forall wide s, (5 <= length s)%nat -> is_now s = false ->
  exists t ub, date_parse_gen wide s = Ticks t ub.
Proof.
  intros wide s H Hn.
  assert (La : length (s ++ [0]) = (length s + 1)%nat) by (rewrite app_length; reflexivity).
  unfold date_parse_gen. rewrite Hn.
  destruct (parse_decimal_total 4 (s ++ [0]) 0 false ltac:(lia)) as (y & r1 & E1 & L1). rewrite E1. cbn [bind].
  destruct (parse_decimal_total 2 r1 0 false ltac:(lia)) as (m & r2 & E2 & L2). rewrite E2. cbn [bind].
  destruct (Z.of_nat (length s) =? 8) eqn:T8.
  - apply Z.eqb_eq in T8.
    destruct (parse_decimal_total 2 r2 0 false ltac:(lia)) as (d & r3 & E3 & L3). rewrite E3. cbn [bind].
    destruct (time_to_epoch_gen wide _ 0 false) as [e u]. destruct (lop (e * BILLION) u) as [t ub].
    exists t, ub. reflexivity.
  - cbn [bind]. destruct (time_to_epoch_gen wide _ 0 false) as [e u]. destruct (lop (e * BILLION) u) as [t ub].
    exists t, ub. reflexivity.
Qed.

(* a text of at least min_text_len characters is never read past its terminating NUL: the
   constructor always yields a field, whatever the characters are *)
Lemma parse_total_lemma : forall wide k s, (min_text_len k <= length s)%nat ->
  exists t ub, field_parse_gen wide (mkind k) s = Ticks t ub.
Proof.
  intros wide k s H.
  assert (Hn : is_now s = false) by (apply is_now_false; destruct k; cbn [min_text_len] in H; lia).
  assert (La : length (s ++ [0]) = (length s + 1)%nat) by (rewrite app_length; reflexivity).
  assert (Fin : forall o : option (Z * bool), o <> None -> exists t ub, out_of o = Ticks t ub).
  { intros [[t ub]|] Ho; [exists t, ub; reflexivity|congruence]. }
  destruct k; cbn [mkind field_parse_gen min_text_len] in *.
  - (* UTCTimestamp *)
    unfold date_time_parse_gen. rewrite Hn. apply Fin.
    destruct (parse_decimal_total 4 (s ++ [0]) 0 false ltac:(lia)) as (y & r1 & E1 & L1). rewrite E1. cbn [bind].
    destruct (parse_decimal_total 2 r1 0 false ltac:(lia)) as (m & r2 & E2 & L2). rewrite E2. cbn [bind].
    destruct (parse_decimal_total 2 r2 0 false ltac:(lia)) as (d & r3 & E3 & L3). rewrite E3. cbn [bind].
    pose proof (skip1_length r3) as K3.
    destruct (parse_decimal_total 2 (skip1 r3) 0 false ltac:(lia)) as (h & r4 & E4 & L4). rewrite E4. cbn [bind].
    pose proof (skip1_length r4) as K4.
    destruct (parse_decimal_total 2 (skip1 r4) 0 false ltac:(lia)) as (mi & r5 & E5 & L5). rewrite E5. cbn [bind].
    pose proof (skip1_length r5) as K5.
    destruct (parse_decimal_total 2 (skip1 r5) 0 false ltac:(lia)) as (sc & r6 & E6 & L6). rewrite E6. cbn [bind].
    destruct (Z.of_nat (length s) =? 21) eqn:T21.
    + apply Z.eqb_eq in T21. pose proof (skip1_length r6) as K6.
      destruct (parse_decimal_total 3 (skip1 r6) 0 false ltac:(lia)) as (ms & r7 & E7 & L7). rewrite E7. cbn [bind].
      destruct (time_to_epoch_gen wide _ 0 false) as [e u]. destruct (lop (e * BILLION) u). discriminate.
    + destruct (Z.of_nat (length s) =? 17); [|discriminate].
      destruct (time_to_epoch_gen wide _ 0 false) as [e u]. discriminate.
  - (* UTCTimeOnly *)
    unfold time_parse_gen. rewrite Hn. apply Fin.
    destruct (parse_decimal_total 2 (s ++ [0]) 0 false ltac:(lia)) as (h & r1 & E1 & L1). rewrite E1. cbn [bind].
    pose proof (skip1_length r1) as K1.
    destruct (parse_decimal_total 2 (skip1 r1) 0 false ltac:(lia)) as (mi & r2 & E2 & L2). rewrite E2. cbn [bind].
    pose proof (skip1_length r2) as K2.
    destruct (parse_decimal_total 2 (skip1 r2) 0 false ltac:(lia)) as (sc & r3 & E3 & L3). rewrite E3. cbn [bind].
    destruct (Z.of_nat (length s) =? 12) eqn:T12.
    + apply Z.eqb_eq in T12. pose proof (skip1_length r3) as K3.
      destruct (parse_decimal_total 3 (skip1 r3) 0 false ltac:(lia)) as (ms & r4 & E4 & L4). rewrite E4. cbn [bind].
      discriminate.
    + destruct (Z.of_nat (length s) =? 8); discriminate.
  - (* UTCDateOnly *) apply date_total; auto.
  - apply date_total; auto.
  - apply date_total; auto.
  - apply date_total; auto.
Qed.

(* a shorter text is read past its end: "2014" as a UTCTimestamp *)
Lemma parse_overrun_refuted_lemma : exists k s, is_now s = false /\ field_parse (mkind k) s = OOB.
Proof. exists S_TS, [50; 48; 49; 52]. vm_compute. split; reflexivity. Qed.
