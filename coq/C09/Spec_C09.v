(* Property C09 as executable predicates on observables (texts and tick counts).  Written from
   the property text, independently of the model: its own calendar (year/month arithmetic with
   the Gregorian leap rule, the inverse direction of the model's day -> date function), its own
   strict text reader.  After extraction the same functions are the oracle applied to the
   implementation's results. *)
From Coq Require Import ZArith List Bool.
Import ListNotations.
Local Open Scope Z_scope.

(* ------------------------------------------------------------------ proleptic Gregorian *)
Definition is_leap (y : Z) : bool := (y mod 4 =? 0) && (negb (y mod 100 =? 0) || (y mod 400 =? 0)).
Definition days_in_month (y m : Z) : Z :=
  if m =? 2 then (if is_leap y then 29 else 28)
  else if (m =? 4) || (m =? 6) || (m =? 9) || (m =? 11) then 30 else 31.
(* days before month m in a common year *)
Definition cum_days (m : Z) : Z :=
  nth (Z.to_nat (m - 1)) [0; 31; 59; 90; 120; 151; 181; 212; 243; 273; 304; 334] 0.
(* leap years among 1 .. y *)
Definition leaps_upto (y : Z) : Z := y / 4 - y / 100 + y / 400.
Definition valid_date (y m d : Z) : bool :=
  (1 <=? m) && (m <=? 12) && (1 <=? d) && (d <=? days_in_month y m).
(* days from 1970-01-01 to y-m-d *)
Definition days_from_civil (y m d : Z) : Z :=
  365 * (y - 1970) + (leaps_upto (y - 1) - leaps_upto 1969) + cum_days m
  + (if (2 <? m) && is_leap y then 1 else 0) + (d - 1).

(* oracle for the calendar itself: (y, m, d) is the date of day number [day] *)
Definition c09_civil_ok (day y m d : Z) : bool := valid_date y m d && (days_from_civil y m d =? day).

(* ------------------------------------------------------------------ range of the property *)
Definition NS_SEC : Z := 1000000000.
Definition NS_MS : Z := 1000000.
Definition DAYS : Z := 47482.                 (* 1970-01-01 .. 2099-12-31 *)
Definition NS_DAY : Z := 86400 * NS_SEC.
Definition in_range (t : Z) : bool := (0 <=? t) && (t <? DAYS * NS_DAY).

(* ------------------------------------------------------------------ strict text reader *)
Definition sbind {A B} (o : option A) (f : A -> option B) : option B :=
  match o with None => None | Some a => f a end.
Notation "'get' x <- o ; f" := (sbind o (fun x => f)) (at level 200, x pattern, o at level 100, f at level 200).

(* exactly w decimal digits *)
Fixpoint take_digits_acc (w : nat) (l : list Z) (acc : Z) : option (Z * list Z) :=
  match w with
  | O => Some (acc, l)
  | S k =>
    match l with
    | c :: l' => if (48 <=? c) && (c <=? 57) then take_digits_acc k l' (10 * acc + (c - 48)) else None
    | [] => None
    end
  end.
Definition take_digits (w : nat) (l : list Z) : option (Z * list Z) := take_digits_acc w l 0.
Definition take_char (c : Z) (l : list Z) : option (list Z) :=
  match l with x :: l' => if x =? c then Some l' else None | [] => None end.
Definition at_end (l : list Z) : bool := match l with [] => true | _ => false end.

(* "YYYYMMDD" prefix *)
Definition read_ymd (l : list Z) : option (Z * Z * Z * list Z) :=
  get (y, l) <- take_digits 4 l; get (m, l) <- take_digits 2 l; get (d, l) <- take_digits 2 l;
  Some (y, m, d, l).
(* "HH:MM:SS" prefix *)
Definition read_hms (l : list Z) : option (Z * Z * Z * list Z) :=
  get (h, l) <- take_digits 2 l; get l <- take_char 58 l;
  get (mi, l) <- take_digits 2 l; get l <- take_char 58 l;
  get (s, l) <- take_digits 2 l; Some (h, mi, s, l).
(* optional ".sss" then end of text *)
Definition read_ms_end (l : list Z) : option Z :=
  if at_end l then Some 0 else
  get l <- take_char 46 l; get (ms, l) <- take_digits 3 l; if at_end l then Some ms else None.
Definition hms_ok (h mi s : Z) : bool := (h <? 24) && (mi <? 60) && (s <? 60).

(* ------------------------------------------------------------------ what a text denotes *)
Inductive skind := S_TS | S_TO | S_DO | S_LD | S_M6 | S_M8.

(* the value (in ns) a well-formed text of the given field type stands for: an instant for
   UTCTimestamp, a time of day for UTCTimeOnly, midnight of the day for the date types, midnight
   of the first of the month for the six character MonthYear. *)
Definition denote (k : skind) (l : list Z) : option Z :=
  match k with
  | S_TS =>
    get (y, m, d, l) <- read_ymd l; get l <- take_char 45 l;
    get (h, mi, s, l) <- read_hms l; get ms <- read_ms_end l;
    if valid_date y m d && hms_ok h mi s
    then Some ((days_from_civil y m d * 86400 + h * 3600 + mi * 60 + s) * NS_SEC + ms * NS_MS) else None
  | S_TO =>
    get (h, mi, s, l) <- read_hms l; get ms <- read_ms_end l;
    if hms_ok h mi s then Some ((h * 3600 + mi * 60 + s) * NS_SEC + ms * NS_MS) else None
  | S_DO | S_LD | S_M8 =>
    get (y, m, d, l) <- read_ymd l;
    if at_end l && valid_date y m d then Some (days_from_civil y m d * NS_DAY) else None
  | S_M6 =>
    get (y, l) <- take_digits 4 l; get (m, l) <- take_digits 2 l;
    if at_end l && valid_date y m 1 then Some (days_from_civil y m 1 * NS_DAY) else None
  end.

(* the component of instant t the field type carries *)
Definition first_of_month (day : Z) (l : list Z) : option Z :=
  get (y, l) <- take_digits 4 l; get (m, l) <- take_digits 2 l;
  let d1 := days_from_civil y m 1 in
  if (d1 <=? day) && (day <? d1 + days_in_month y m) then Some (d1 * NS_DAY) else None.

Definition component (k : skind) (t : Z) (txt : list Z) : option Z :=
  match k with
  | S_TS => Some (t / NS_MS * NS_MS)
  | S_TO => Some ((t / NS_MS) mod 86400000 * NS_MS)
  | S_DO | S_LD | S_M8 => Some (t / NS_DAY * NS_DAY)
  | S_M6 => first_of_month (t / NS_DAY) txt     (* the month that contains the day *)
  end.
Definition text_len (k : skind) : nat :=
  match k with S_TS => 21%nat | S_TO => 12%nat | S_M6 => 6%nat | _ => 8%nat end.

(* the rendering of instant t as field type k is right: canonical length, well-formed, and it
   denotes t's component *)
Definition text_ok (k : skind) (t : Z) (txt : list Z) : bool :=
  Nat.eqb (length txt) (text_len k) &&
  match denote k txt, component k t txt with
  | Some v, Some c => v =? c
  | _, _ => false
  end.
(* ... and parses back to that component; [r] = ticks of the re-constructed field, None when the
   constructor did something else (trap, read outside the text) *)
Definition back_ok (k : skind) (t : Z) (txt : list Z) (r : option Z) : bool :=
  match r, component k t txt with
  | Some v, Some c => v =? c
  | _, _ => false
  end.

Definition kinds : list skind := [S_TS; S_TO; S_DO; S_LD; S_M6; S_M8].

Fixpoint all2 {A B} (f : A -> B -> bool) (l1 : list A) (l2 : list B) : bool :=
  match l1, l2 with
  | [], [] => true
  | a :: l1', b :: l2' => f a b && all2 f l1' l2'
  | _, _ => false
  end.

(* oracle for a round-trip case: instant t (ns, in the property's range), results = for every
   field type the printed text and the ticks parsed back *)
Definition c09_texts_ok (t : Z) (res : list (list Z * option Z)) : bool :=
  negb (in_range t) || all2 (fun k r => text_ok k t (fst r)) kinds res.
Definition c09_ok (t : Z) (res : list (list Z * option Z)) : bool :=
  negb (in_range t) || all2 (fun k r => text_ok k t (fst r) && back_ok k t (fst r) (snd r)) kinds res.

(* oracle for a parse case: every text -- well-formed or not -- must yield a field (r = the ticks
   stored; None = the constructor trapped or read outside the text), and a text that is a
   well-formed rendering of something in range must give exactly what it denotes *)
Definition c09_parse_ok (k : skind) (s : list Z) (r : option Z) : bool :=
  match r with
  | None => false
  | Some x =>
    match denote k s with
    | Some v => if in_range v then x =? v else true
    | None => true
    end
  end.

(* the number of characters the constructors read unconditionally, minus the terminating NUL they
   may touch: shorter texts are read past their end *)
Definition min_text_len (k : skind) : nat :=
  match k with S_TS => 16%nat | S_TO => 7%nat | _ => 5%nat end.

(* ------------------------------------------------------------------ log timestamps *)
(* "YYYY-MM-DD HH:MM:SS" or "YYYY-MM-DD HH:MM:SS.f{d}" -> date, time, fraction *)
Definition read_log (d : nat) (l : list Z) : option (Z * Z * Z * Z * Z * Z * Z) :=
  get (y, l) <- take_digits 4 l; get l <- take_char 45 l;
  get (m, l) <- take_digits 2 l; get l <- take_char 45 l;
  get (dd, l) <- take_digits 2 l; get l <- take_char 32 l;
  get (h, mi, s, l) <- read_hms l;
  match d with
  | O => if at_end l then Some (y, m, dd, h, mi, s, 0) else None
  | _ => get l <- take_char 46 l; get (f, l) <- take_digits d l;
         if at_end l then Some (y, m, dd, h, mi, s, f) else None
  end.

(* seconds field of a log text (None if the text is not even of the right shape) *)
Definition log_seconds (d : nat) (l : list Z) : option Z :=
  get (y, m, dd, h, mi, s, f) <- read_log d l; Some s.

Definition log_in_range (secs nsecs : Z) (d : nat) : bool :=
  (0 <=? secs) && (secs <? DAYS * 86400) && (0 <=? nsecs) && (nsecs <? NS_SEC) && (Nat.leb d 9).

(* the text shows calendar fields (seconds 00..59) of an instant less than one unit of the last
   displayed place away from secs + nsecs/1e9  (truncation and rounding are both accepted) *)
Definition c09_log_ok (secs nsecs : Z) (d : nat) (txt : list Z) : bool :=
  negb (log_in_range secs nsecs d) ||
  match read_log d txt with
  | None => false
  | Some (y, m, dd, h, mi, s, f) =>
    valid_date y m dd && hms_ok h mi s &&
    let unit := 10 ^ (9 - Z.of_nat d) in
    let shown := (days_from_civil y m dd * 86400 + h * 3600 + mi * 60 + s) * NS_SEC + f * unit in
    Z.abs (shown - (secs * NS_SEC + nsecs)) <? unit
  end.
