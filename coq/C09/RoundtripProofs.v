(* print() followed by the string constructor, for the six field types. *)
From Coq Require Import ZArith List Bool Lia.
From F8 Require Import C09.DateTime C09.Spec_C09 C09.CalendarSweeps C09.DigitProofs C09.TimeArith C09.PrintProofs
  C09.YearSweep C09.ParseProofs.
Import ListNotations.
Local Open Scope Z_scope.

Lemma kind_roundtrip : forall wide t k, in_range t = true -> small wide t ->
  let txt := field_print (mkind k) t in
  text_ok k t txt && back_ok k t txt (observe_out (field_parse_gen wide (mkind k) txt)) = true /\
  ub_free (field_parse_gen wide (mkind k) txt) = true.
Proof.
  intros wide t k Hr Hw txt. pose proof (text_ok_all t Hr k) as T. fold txt in T.
  rewrite T. cbn [andb]. unfold text_ok in T. apply andb_prop in T. destruct T as [_ T].
  destruct (denote k txt) as [v|] eqn:Dn; [|discriminate].
  destruct (component k t txt) as [c|] eqn:Cp; [|discriminate].
  apply Z.eqb_eq in T. subst v.
  pose proof (component_bounds t Hr k c Cp) as Bc. pose proof (in_range_inv t Hr) as Bt.
  assert (Rc : in_range c = true)
    by (unfold in_range; apply andb_true_intro; split; [apply Z.leb_le|apply Z.ltb_lt]; lia).
  assert (Sc : small wide c) by (destruct Hw as [Hw|Hw]; [left; exact Hw|right; lia]).
  rewrite (parse_follows_denote wide k txt c Dn Rc Sc).
  unfold back_ok. rewrite Cp. cbn [observe_out ub_free negb]. rewrite Z.eqb_refl. split; reflexivity.
Qed.

Lemma roundtrip_gen_ok : forall wide t, in_range t = true -> small wide t ->
  c09_ok t (observe (roundtrip_gen wide t)) = true /\
  forallb (fun p => ub_free (snd p)) (roundtrip_gen wide t) = true.
Proof.
  intros wide t Hr Hw.
  destruct (kind_roundtrip wide t S_TS Hr Hw) as [A1 B1].
  destruct (kind_roundtrip wide t S_TO Hr Hw) as [A2 B2].
  destruct (kind_roundtrip wide t S_DO Hr Hw) as [A3 B3].
  destruct (kind_roundtrip wide t S_LD Hr Hw) as [A4 B4].
  destruct (kind_roundtrip wide t S_M6 Hr Hw) as [A5 B5].
  destruct (kind_roundtrip wide t S_M8 Hr Hw) as [A6 B6].
  cbn [mkind] in *.
  unfold c09_ok, roundtrip_gen, all_kinds, kinds, observe. rewrite Hr.
  cbn [negb orb map all2 fst snd forallb].
  rewrite A1, A2, A3, A4, A5, A6, B1, B2, B3, B4, B5, B6. split; reflexivity.
Qed.

(* fix8 as pinned: the whole range 1970-01-01 .. 2100-01-01, every nanosecond tick count *)
Lemma roundtrip_lemma : forall t, in_range t = true ->
  c09_ok t (observe (roundtrip t)) = true /\ forallb (fun p => ub_free (snd p)) (roundtrip t) = true.
Proof. intros t Hr. apply roundtrip_gen_ok; [exact Hr|left; reflexivity]. Qed.

Lemma parse_lemma : forall k s v, denote k s = Some v -> in_range v = true ->
  field_parse (mkind k) s = Ticks v false.
Proof. intros. apply parse_follows_denote; auto. left. reflexivity. Qed.

(* before the repair (int arithmetic): only the tick counts before 2038-01-19T03:14:08 ... *)
Lemma roundtrip_orig_partial_lemma : forall t, 0 <= t < 2147483648 * NS_SEC ->
  c09_ok t (observe (roundtrip_orig t)) = true /\ forallb (fun p => ub_free (snd p)) (roundtrip_orig t) = true.
Proof.
  intros t Ht. apply roundtrip_gen_ok.
  - unfold in_range, DAYS, NS_DAY, NS_SEC in *. apply andb_true_intro. split; [apply Z.leb_le|apply Z.ltb_lt]; lia.
  - right. lia.
Qed.

(* ... the first second that does not fit an int is the witness *)
Lemma y2038_orig_refuted_lemma : exists t, in_range t = true /\ c09_ok t (observe (roundtrip_orig t)) = false /\
  forallb (fun p => ub_free (snd p)) (roundtrip_orig t) = false.
Proof. exists (2147483648 * NS_SEC). vm_compute. repeat split. Qed.
