(* Model of the date/time codecs of fix8:
     include/fix8/field.hpp   format0, parse_decimal, time_to_epoch, date_time_format,
                              date_time_parse, time_parse, date_parse and the print()/string
                              constructors of Field<UTCTimestamp|UTCTimeOnly|UTCDateOnly|
                              LocalMktDate|MonthYear>
     include/fix8/tickval.hpp Tickval::secs/msecs/nsecs/get_tm (std::chrono, nanosecond ticks)
     runtime/f8utils.cpp      GetTimeAsStringMS
   Transcribed statement by statement, defects included; no proofs in this file.

   Conventions.  Ticks, seconds, civil fields are Z.  C++ `/` and `%` on signed integers are
   Z.quot / Z.rem (truncation); std::chrono::duration_cast truncates as well.  A text is a list
   of bytes 0..255.  [civil_of_days] is this file's proleptic Gregorian calendar and stands for
   glibc's gmtime_r (tied to it by the correspondence run on every day 1970-01-01..2099-12-31). *)
From Coq Require Import ZArith List Bool.
Import ListNotations.
Local Open Scope Z_scope.

(* ------------------------------------------------------------------ machine integers *)
Definition INT_MIN : Z := -2147483648.
Definition INT_MAX : Z := 2147483647.
Definition W32 : Z := 4294967296.
Definition fits32 (x : Z) : bool := (INT_MIN <=? x) && (x <=? INT_MAX).
(* what x86-64 does with an `int` result that does not fit (formally undefined behaviour) *)
Definition wrap32s (x : Z) : Z := (x + 2147483648) mod W32 - 2147483648.

(* one `int` operation with mathematical result x: value and accumulated "signed overflow
   happened" flag.  [wide = true] is the expression evaluated in time_t (64 bit): fix8 as pinned;
   [wide = false] is the int evaluation the code had before the repair 4d1009d. *)
Definition iop (wide : bool) (x : Z) (ub : bool) : Z * bool :=
  if wide then (x, ub) else (wrap32s x, ub || negb (fits32 x)).
(* (the 64-bit evaluation cannot overflow for operands produced by the parsers: at most four
   characters per field; the products with Tickval::billion below can, and are wrapped) *)

(* the same for `long` (Tickval::ticks, time_t): 64 bit, wraps on overflow *)
Definition W64 : Z := 18446744073709551616.
Definition fits64 (x : Z) : bool := (-9223372036854775808 <=? x) && (x <=? 9223372036854775807).
Definition wrap64s (x : Z) : Z := (x + 9223372036854775808) mod W64 - 9223372036854775808.
Definition lop (x : Z) (ub : bool) : Z * bool := (wrap64s x, ub || negb (fits64 x)).

(* ------------------------------------------------------------------ calendar (gmtime_r) *)
(* days since 1970-01-01 -> (year, month 1..12, day 1..31); floor division throughout *)
Definition civil_of_days (z0 : Z) : Z * Z * Z :=
  let z := z0 + 719468 in
  let era := z / 146097 in
  let doe := z - era * 146097 in
  let yoe := (doe - doe / 1460 + doe / 36524 - doe / 146096) / 365 in
  let y := yoe + era * 400 in
  let doy := doe - (365 * yoe + yoe / 4 - yoe / 100) in
  let mp := (5 * doy + 2) / 153 in
  let d := doy - (153 * mp + 2) / 5 + 1 in
  let m := if mp <? 10 then mp + 3 else mp - 9 in
  (if m <=? 2 then y + 1 else y, m, d).

(* struct tm as filled by gmtime_r: tm_year (from 1900), tm_mon (0..11), tm_mday, hour, min, sec *)
Record tm := { tm_year : Z; tm_mon : Z; tm_mday : Z; tm_hour : Z; tm_min : Z; tm_sec : Z }.
Definition tm_zero : tm := {| tm_year := 0; tm_mon := 0; tm_mday := 0; tm_hour := 0; tm_min := 0; tm_sec := 0 |}.

Definition gmtime (secs : Z) : tm :=
  let days := secs / 86400 in
  let r := secs mod 86400 in
  let '(y, m, d) := civil_of_days days in
  {| tm_year := y - 1900; tm_mon := m - 1; tm_mday := d;
     tm_hour := r / 3600; tm_min := (r mod 3600) / 60; tm_sec := r mod 60 |}.

(* ------------------------------------------------------------------ Tickval *)
Definition THOUSAND : Z := 1000.
Definition MILLION : Z := 1000000.
Definition BILLION : Z := 1000000000.
(* secs(): duration_cast<seconds>; also system_clock::to_time_t used by as_tm *)
Definition tv_secs (t : Z) : Z := Z.quot t BILLION.
(* msecs(): duration_cast<milliseconds>(..).count() % 1000, returned as unsigned *)
Definition tv_msecs (t : Z) : Z := (Z.rem (Z.quot t MILLION) 1000) mod W32.
(* nsecs(): count() % 1000000000 returned as unsigned *)
Definition tv_nsecs (t : Z) : Z := (Z.rem t BILLION) mod W32.
Definition tv_get_tm (t : Z) : tm := gmtime (tv_secs t).
(* Tickval(time_t secs, long nsecs) *)
Definition tv_make (secs nsecs : Z) : Z := secs * BILLION + nsecs.

(* ------------------------------------------------------------------ format0 *)
(* while (width-- > 0) { to[width] = data % 10 + 48; data /= 10; }  -- the char stored, as a byte *)
Fixpoint format0 (data : Z) (width : nat) : list Z :=
  match width with
  | O => []
  | S w => format0 (Z.quot data 10) w ++ [(Z.rem data 10 + 48) mod 256]
  end.

Inductive TimeIndicator := Time_only | Time_with_ms | Short_date_only | Date_only | Sec_only | With_ms.
Definition ind_rank (i : TimeIndicator) : Z :=
  match i with Time_only => 0 | Time_with_ms => 1 | Short_date_only => 2 | Date_only => 3
          | Sec_only => 4 | With_ms => 5 end.

Definition fmt_time (r : tm) (t : Z) (ind : TimeIndicator) : list Z :=
  format0 (tm_hour r) 2 ++ [58] ++ format0 (tm_min r) 2 ++ [58] ++ format0 (tm_sec r) 2 ++
  match ind with
  | Time_with_ms | With_ms => [46] ++ format0 (wrap32s (tv_msecs t)) 3
  | _ => []
  end.

Definition date_time_format (t : Z) (ind : TimeIndicator) : list Z :=
  let r := tv_get_tm t in
  if 1 <? ind_rank ind then
    let ym := format0 (tm_year r + 1900) 4 ++ format0 (tm_mon r + 1) 2 in
    match ind with
    | Short_date_only => ym
    | Date_only => ym ++ format0 (tm_mday r) 2
    | _ => ym ++ format0 (tm_mday r) 2 ++ [45] ++ fmt_time r t ind
    end
  else fmt_time r t ind.

(* ------------------------------------------------------------------ parse_decimal *)
(* The text handed to a parser is a NUL terminated block: [rest] is what is left of it from the
   cursor on, NUL included.  Reading with nothing left is a read outside the block (None). *)
Definition schar (b : Z) : Z := if b <? 128 then b else b - 256.

(* while (len-- > 0) to = to * 10 + ( *begin++ - 48 );      (since da4ab8c: no shifts)
   result: value, the flag handed in (no undefined operation here: with at most four characters
   per call, starting at 0, |to| stays far below int range), rest of the text. *)
Fixpoint parse_decimal (len : nat) (rest : list Z) (to : Z) (ub : bool) : option (Z * bool * list Z) :=
  match len with
  | O => Some (to, ub, rest)
  | S k =>
    match rest with
    | [] => None
    | c :: rest' => parse_decimal k rest' (to * 10 + (schar c - 48)) ub
    end
  end.

(* ++ptr : pointer arithmetic only *)
Definition skip1 (rest : list Z) : list Z := tl rest.

(* ------------------------------------------------------------------ time_to_epoch *)
Definition mon_days_tab : list Z := [0; 31; 59; 90; 120; 151; 181; 212; 243; 273; 304; 334; 365].
(* mon_days[tmon] with tmon = tm_mon < 0 ? 0 : tm_mon > 11 ? 11 : tm_mon   (since da4ab8c: a decoded
   month can be anything, the table index is clamped) *)
Definition mon_days (i : Z) : Z :=
  let tmon := if i <? 0 then 0 else if 11 <? i then 11 else i in
  nth (Z.to_nat tmon) mon_days_tab 0.

(* the day count: tdays after the leap adjustment (which still looks at the raw month).  All
   quantities here are bounded by the parsers (at most four characters per field), far below int
   range. *)
Definition epoch_days (ltm : tm) : Z :=
  let tyears := if tm_year ltm =? 0 then 0 else tm_year ltm - 70 in
  let tdays := mon_days (tm_mon ltm) + (if tm_mday ltm =? 0 then 0 else tm_mday ltm - 1) + tyears * 365
               + Z.quot (tyears + 2) 4 in
  if negb (tm_year ltm =? 0) && (Z.rem (tm_year ltm) 4 =? 0) && (tm_mon ltm <? 2)
  then tdays - 1 else tdays.

(* return static_cast<time_t>(tdays) * 86400 + (ltm.tm_hour + utcdiff) * 3600 + ltm.tm_min * 60 + ltm.tm_sec;
   before 4d1009d ([wide = false]) every operand was `int`, so the expression was evaluated in int
   and only then widened *)
Definition time_to_epoch_gen (wide : bool) (ltm : tm) (utcdiff : Z) (ub : bool) : Z * bool :=
  let tdays := epoch_days ltm in
  let '(a, ub) := iop wide (tdays * 86400) ub in
  let '(b, ub) := iop wide ((tm_hour ltm + utcdiff) * 3600) ub in
  let '(c, ub) := iop wide (a + b) ub in
  let '(d, ub) := iop wide (tm_min ltm * 60) ub in
  let '(e, ub) := iop wide (c + d) ub in
  iop wide (e + tm_sec ltm) ub.

(* ------------------------------------------------------------------ parsers *)
(* outcome of a string constructor: the ticks stored (with the model-only flag "an undefined
   integer operation was executed": overflow of the 64-bit products, or of the int expression of
   the code before 4d1009d), a read outside the text, or the current time *)
Inductive outcome := Ticks (t : Z) (ub : bool) | OOB | Now.

Definition is_now (s : list Z) : bool :=
  match s with
  | [] => true
  | [a; b; c] => (a =? 110) && (b =? 111) && (c =? 119)          (* "now" *)
  | _ => false
  end.

(* what a caller can observe of an outcome: the ticks of the constructed field *)
Definition observe_out (o : outcome) : option Z := match o with Ticks t _ => Some t | _ => None end.
Definition ub_free (o : outcome) : bool := match o with Ticks _ ub => negb ub | _ => false end.

Definition bind {A B} (o : option A) (f : A -> option B) : option B :=
  match o with None => None | Some a => f a end.
Notation "'do' x <- o ; f" := (bind o (fun x => f)) (at level 200, x pattern, o at level 100, f at level 200).

Definition out_of (o : option (Z * bool)) : outcome :=
  match o with None => OOB | Some (t, ub) => Ticks t ub end.

Definition date_time_parse_gen (wide : bool) (s : list Z) : outcome :=
  if is_now s then Now else
  let len := Z.of_nat (length s) in
  out_of (
    do (year, ub, r) <- parse_decimal 4 (s ++ [0]) 0 false;
    do (mon, ub, r) <- parse_decimal 2 r 0 ub;
    do (mday, ub, r) <- parse_decimal 2 r 0 ub;
    do (hour, ub, r) <- parse_decimal 2 (skip1 r) 0 ub;
    do (min, ub, r) <- parse_decimal 2 (skip1 r) 0 ub;
    do (sec, ub, r) <- parse_decimal 2 (skip1 r) 0 ub;
    let tms := {| tm_year := year - 1900; tm_mon := mon - 1; tm_mday := mday;
                  tm_hour := hour; tm_min := min; tm_sec := sec |} in
    if len =? 21 then
      do (ms, ub, _) <- parse_decimal 3 (skip1 r) 0 ub;
      let '(e, ub) := time_to_epoch_gen wide tms 0 ub in
      let '(a, ub) := lop (e * BILLION) ub in        (* time_to_epoch(tms) * Tickval::billion, in long *)
      Some (lop (ms * MILLION + a) ub)               (* result += ... *)
    else if len =? 17 then
      let '(e, ub) := time_to_epoch_gen wide tms 0 ub in
      Some (lop (e * BILLION) ub)
    else Some (0, ub)).

Definition time_parse_gen (wide : bool) (s : list Z) (timeonly : bool) : outcome :=
  if is_now s then Now else
  let len := Z.of_nat (length s) in
  out_of (
    do (hour, ub, r) <- parse_decimal 2 (s ++ [0]) 0 false;
    do (min, ub, r) <- parse_decimal 2 (skip1 r) 0 ub;
    do (sec, ub, r) <- parse_decimal 2 (skip1 r) 0 ub;
    let tms := {| tm_year := 0; tm_mon := 0; tm_mday := 0; tm_hour := hour; tm_min := min; tm_sec := sec |} in
    (* timeonly: (tm_hour * 3600ULL + tm_min * 60ULL + tm_sec) * billion in unsigned long long,
       then added to a signed 64-bit: equal to the mathematical value for two-character fields *)
    let tod (ub : bool) : option (Z * bool) :=
      if timeonly then Some ((hour * 3600 + min * 60 + sec) * BILLION, ub)
      else let '(e, ub) := time_to_epoch_gen wide tms 0 ub in Some (lop (e * BILLION) ub) in
    if len =? 12 then
      do (ms, ub, _) <- parse_decimal 3 (skip1 r) 0 ub;
      do (v, ub) <- tod ub;
      Some (lop (ms * MILLION + v) ub)
    else if len =? 8 then tod ub
    else Some (0, ub)).

Definition date_parse_gen (wide : bool) (s : list Z) : outcome :=
  if is_now s then Now else
  let len := Z.of_nat (length s) in
  out_of (
    do (year, ub, r) <- parse_decimal 4 (s ++ [0]) 0 false;
    do (mon, ub, r) <- parse_decimal 2 r 0 ub;
    do (mday, ub) <- (if len =? 8 then do (d, ub, _) <- parse_decimal 2 r 0 ub; Some (d, ub)
                       else Some (1, ub));
    let tms := {| tm_year := year - 1900; tm_mon := mon - 1; tm_mday := mday;
                  tm_hour := 0; tm_min := 0; tm_sec := 0 |} in
    let '(e, ub) := time_to_epoch_gen wide tms 0 ub in
    Some (lop (e * BILLION) ub)).

(* ------------------------------------------------------------------ the field classes *)
Inductive kind := K_TS | K_TO | K_DO | K_LD | K_M6 | K_M8.

(* print() of a field holding ticks t; for MonthYear the form is chosen by _sz (6 or not) *)
Definition field_print (k : kind) (t : Z) : list Z :=
  match k with
  | K_TS => date_time_format t With_ms
  | K_TO => date_time_format t Time_with_ms
  | K_DO | K_LD | K_M8 => date_time_format t Date_only
  | K_M6 => date_time_format t Short_date_only
  end.

(* the string constructor *)
Definition field_parse_gen (wide : bool) (k : kind) (s : list Z) : outcome :=
  match k with
  | K_TS => date_time_parse_gen wide s
  | K_TO => time_parse_gen wide s true
  | _ => date_parse_gen wide s
  end.

(* fix8 as pinned (since 4d1009d): static_cast<time_t>(tdays) * 86400 + ..., evaluated in time_t.
   The [_orig] versions are the code before that repair (int arithmetic); they are kept for the
   witness theorem c09_y2038_orig_refuted only. *)
Definition time_to_epoch := time_to_epoch_gen true.
Definition time_to_epoch_orig := time_to_epoch_gen false.
Definition field_parse := field_parse_gen true.
Definition field_parse_orig := field_parse_gen false.

Definition all_kinds : list kind := [K_TS; K_TO; K_DO; K_LD; K_M6; K_M8].

(* the round trip the harness performs for every kind: print the field holding t, construct a
   second field from that text *)
Definition roundtrip_gen (wide : bool) (t : Z) : list (list Z * outcome) :=
  map (fun k => let txt := field_print k t in (txt, field_parse_gen wide k txt)) all_kinds.
Definition roundtrip := roundtrip_gen true.
Definition roundtrip_orig := roundtrip_gen false.
Definition observe (res : list (list Z * outcome)) : list (list Z * option Z) :=
  map (fun p => (fst p, observe_out (snd p))) res.

(* what a MonthYear field built from a string of length [sz] prints *)
Definition my_kind (sz : Z) : kind := if sz =? 6 then K_M6 else K_M8.

(* parse a text with the string constructor of kind k, then print the field *)
Definition parse_print (k : kind) (s : list Z) : outcome * list Z :=
  let o := field_parse k s in
  let pk := match k with K_M6 | K_M8 => my_kind (Z.of_nat (length s)) | _ => k end in
  (o, match o with Ticks t _ => field_print pk t | _ => [] end).

(* ------------------------------------------------------------------ GetTimeAsStringMS *)
(* binary64 arithmetic, exactly: a positive double is m * 2^e with 2^52 <= m <= 2^53.
   rne_div p q = p/q rounded to the nearest integer, ties to even. *)
Definition rne_div (p q : Z) : Z :=
  let k := p / q in
  let r := p mod q in
  if 2 * r <? q then k else if q <? 2 * r then k + 1 else if Z.even k then k else k + 1.

Definition P52 : Z := 4503599627370496.
(* p/q > 0 rounded to binary64 (normal range): (m, e), value m * 2^e *)
Definition round53 (p q : Z) : Z * Z :=
  let l := Z.log2 p - Z.log2 q in
  let scaled (e : Z) := if e <? 0 then (p * 2 ^ (- e), q) else (p, q * 2 ^ e) in
  let e0 := l - 52 in
  let '(p0, q0) := scaled e0 in
  let e := if P52 * q0 <=? p0 then e0 else e0 - 1 in
  let '(p1, q1) := scaled e in
  (rne_div p1 q1, e).

(* const double secs((startTime->secs() % 60) + static_cast<double>(startTime->nsecs()) / Tickval::billion);
   as a fraction num / 2^sh; for s in 0..59 and n < 2^32 the exponents are negative *)
Definition log_secs_double (s n : Z) : Z * Z :=
  if n =? 0 then (s, 0) else
  let '(m, e) := round53 n BILLION in           (* (double)n / 1e9 *)
  let sh := - e in
  let p := s * 2 ^ sh + m in                      (* exact sum, over 2^sh *)
  let '(m2, e2) := round53 p (2 ^ sh) in
  (m2, - e2).

(* decimal digits of a non-negative number, at least [w] of them (ostream << int with setw(w),
   setfill 0) *)
Fixpoint dec_digits (fuel : nat) (n : Z) : list Z :=
  match fuel with
  | O => []
  | S f => if n <? 10 then [48 + n] else dec_digits f (n / 10) ++ [48 + n mod 10]
  end.
Definition pad_left (w : nat) (l : list Z) : list Z := repeat 48 (w - length l) ++ l.
Definition out_int (w : nat) (n : Z) : list Z :=
  if (0 <=? n) && (n <? 10 ^ Z.of_nat w) then format0 n w      (* exactly w digits *)
  else pad_left w (dec_digits 40 n).

(* oss << setw(3 + dplaces) << setfill 0 << setprecision(dplaces) << secs  (fixed, showpoint):
   printf("%.*f") rounds the exact binary value to dplaces digits, ties to even *)
Definition out_fixed (num sh : Z) (dplaces : nat) : list Z :=
  let k := rne_div (num * 10 ^ Z.of_nat dplaces) (2 ^ sh) in
  let ip := k / 10 ^ Z.of_nat dplaces in
  let fp := k mod 10 ^ Z.of_nat dplaces in
  (* an integer part below 100 is padded to two digits by setw(3 + dplaces); a longer one needs
     no padding *)
  (if ip <? 100 then format0 ip 2 else dec_digits 40 ip) ++ [46] ++ format0 fp dplaces.

(* GetTimeAsStringMS(result, &Tickval(secs, nsecs), dplaces, use_gm = true), ticks >= 0.
   With TZ=UTC the use_gm = false branch (localtime_r) gives the same text. *)
Definition log_render (secs nsecs : Z) (dplaces : nat) : list Z :=
  let t := tv_make secs nsecs in
  let r := gmtime (tv_secs t) in
  out_int 4 (tm_year r + 1900) ++ [45] ++ out_int 2 (tm_mon r + 1) ++ [45] ++ out_int 2 (tm_mday r) ++ [32] ++
  out_int 2 (tm_hour r) ++ [58] ++ out_int 2 (tm_min r) ++ [58] ++
  match dplaces with
  | O => out_int 2 (tm_sec r)
  | _ => let '(num, sh) := log_secs_double (Z.rem (tv_secs t) 60) (tv_nsecs t) in out_fixed num sh dplaces
  end.
