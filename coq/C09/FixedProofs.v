(* printf("%.*f") of the binary64 seconds value: the digits shown, against secs + nsecs/1e9. *)
From Coq Require Import ZArith List Bool Lia.
From F8 Require Import C09.DateTime C09.FloatProofs.
Import ListNotations.
Local Open Scope Z_scope.

Lemma rne_div_1 : forall p, rne_div p 1 = p.
Proof.
  intros. unfold rne_div. rewrite Z.mod_1_r, Z.div_1_r. reflexivity.
Qed.

(* K = the seconds value rounded to d places, in units of 10^-d (P = 10^d, U = 10^(9-d)):
   K is within one unit of the true value, and stays below 60 units unless the second is 59 and
   the fraction rounds up to a whole second *)
Lemma fixed_core : forall s n P U num sh, 0 <= s <= 59 -> 0 <= n < BILLION -> P * U = BILLION ->
  1 <= U -> 1 <= P -> log_secs_double s n = (num, sh) ->
  let K := rne_div (num * P) (2 ^ sh) in
  0 <= K /\ - U < K * U - (s * BILLION + n) < U /\
  (s <= 58 \/ 2 * n + U < 2 * BILLION -> K < 60 * P).
Proof.
  intros s n P U num sh Hs Hn HPU HU HP Hd K.
  destruct (Z.eq_dec n 0) as [N0|N0].
  - subst n. unfold log_secs_double in Hd. cbn in Hd. inversion Hd; subst num sh.
    unfold K. change (2 ^ 0) with 1. rewrite rne_div_1.
    assert (s * P * U = s * BILLION) by (rewrite <- HPU; ring).
    split; [nia|]. split; [lia|]. intros _. nia.
  - pose proof (double_err s n Hs ltac:(lia)) as D. rewrite Hd in D.
    destruct D as (W & HW & HS & Hsh & Hnum & [D1 D2]).
    set (S := 2 ^ sh) in *.
    assert (HSpos : 0 < S) by (unfold P47 in *; lia).
    pose proof (rne_div_err (num * P) S HSpos) as E1. fold K in E1.
    set (T := s * BILLION + n) in *.
    set (d1 := K * S - num * P) in *. set (d2 := num * BILLION - T * S) in *.
    assert (B1 : - S <= 2 * d1 <= S) by lia.
    set (Z := K * U - T).
    assert (Hid : Z * S = U * d1 + d2).
    { unfold Z, d1, d2. rewrite <- HPU. ring. }
    assert (HZ : - (U * S + 2 * (BILLION * W)) <= 2 * (Z * S) <= U * S + 2 * (BILLION * W)).
    { rewrite Hid. nia. }
    assert (HUW : W <= U * W) by nia.
    assert (HUS : U * S = P47 * (U * W)) by (rewrite HS; ring).
    assert (K0 : 0 <= K) by (unfold K; apply rne_div_ge; [exact HSpos|nia]).
    split; [exact K0|]. split.
    + fold Z. unfold BILLION, P47 in *. split.
      * destruct (Z_lt_ge_dec (- U) Z) as [|G]; [assumption|exfalso].
        assert (Z * S <= - U * S) by nia. nia.
      * destruct (Z_lt_ge_dec Z U) as [|G]; [assumption|exfalso].
        assert (U * S <= Z * S) by nia. nia.
    + intros [C|C].
      * (* second of minute at most 58 *)
        assert (Zlt : Z < U).
        { unfold BILLION, P47 in *. destruct (Z_lt_ge_dec Z U) as [|G]; [assumption|exfalso].
          assert (U * S <= Z * S) by nia. nia. }
        assert (K * U < (59 * P + 1) * U).
        { replace ((59 * P + 1) * U) with (59 * BILLION + U) by (rewrite <- HPU; ring).
          unfold Z, T, BILLION in *. lia. }
        assert (K < 59 * P + 1) by (apply (Z.mul_lt_mono_pos_r U); lia). lia.
      * (* the fraction does not round up to a whole second *)
        assert (T2 : 2 * T + U <= 120 * BILLION - 1) by (unfold T, BILLION in *; lia).
        assert (A1 : 2 * (K * U * S) = 2 * (T * S) + 2 * (Z * S)) by (unfold Z; ring).
        assert (A2 : (2 * T + U) * S <= (120 * BILLION - 1) * S) by (apply Z.mul_le_mono_nonneg_r; lia).
        assert (A3 : 2 * (K * U * S) < 120 * BILLION * S).
        { rewrite A1. unfold BILLION, P47 in *. lia. }
        assert (A4 : K * U * S < 60 * BILLION * S) by lia.
        assert (A5 : K * U < 60 * BILLION) by (apply (Z.mul_lt_mono_pos_r S); lia).
        replace (60 * BILLION) with (60 * P * U) in A5 by (rewrite <- HPU; ring).
        apply (Z.mul_lt_mono_pos_r U); lia.
Qed.
