(* A complete sweep over four digit years: only the years 1970..2099 have months inside the range. *)
From Coq Require Import ZArith List Bool Lia.
From F8 Require Import C09.DateTime C09.Spec_C09 C09.CalendarSweeps C09.PrintProofs.
Import ListNotations.
Local Open Scope Z_scope.

(* ------------------------------------------------------------------ a four digit year whose
   month starts inside (or at most 30 days before) the range is a year of the range *)
Definition check_year (y m : Z) : bool :=
  if y <? 10000 then
    if (1 <=? m) && (m <=? 12) then
      if (-30 <=? days_from_civil y m 1) && (days_from_civil y m 1 <? DAYS)
      then (1970 <=? y) && (y <=? 2099) else true
    else true
  else true.

Lemma sweep_years : all_below 14 (fun y => all_below 4 (fun m => check_year y m) 0) 0 = true.
Proof. vm_compute. reflexivity. Qed.

Lemma year_of_range : forall y m d, 0 <= y < 10000 -> valid_date y m d = true ->
  0 <= days_from_civil y m d < DAYS -> 1970 <= y <= 2099.
Proof.
  intros y m d Hy Hv Hd. pose proof (valid_date_bounds y m d Hv) as [Hm Hdd].
  assert (Hd1 : days_from_civil y m d = days_from_civil y m 1 + (d - 1)) by (unfold days_from_civil; lia).
  assert (H1 := all_below_spec 14 _ 0 sweep_years y).
  change (2 ^ Z.of_nat 14) with 16384 in H1. specialize (H1 ltac:(lia)). cbv beta in H1.
  assert (H2 := all_below_spec 4 _ 0 H1 m).
  change (2 ^ Z.of_nat 4) with 16 in H2. specialize (H2 ltac:(lia)). cbv beta in H2.
  unfold check_year in H2.
  replace (y <? 10000) with true in H2 by (symmetry; apply Z.ltb_lt; lia).
  replace ((1 <=? m) && (m <=? 12)) with true in H2
    by (symmetry; apply andb_true_intro; split; apply Z.leb_le; lia).
  replace ((-30 <=? days_from_civil y m 1) && (days_from_civil y m 1 <? DAYS)) with true in H2
    by (symmetry; apply andb_true_intro; split; [apply Z.leb_le|apply Z.ltb_lt]; lia).
  apply andb_prop in H2. destruct H2 as [A B]. apply Z.leb_le in A. apply Z.leb_le in B. lia.
Qed.

