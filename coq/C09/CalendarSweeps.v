(* Complete sweeps over the calendar range (days 1970-01-01..2099-12-31, dates 1970..2099): the model calendar against the specification calendar, and the day count of time_to_epoch. *)
From Coq Require Import ZArith List Bool Lia.
From F8 Require Import C09.DateTime C09.Spec_C09.
Import ListNotations.
Local Open Scope Z_scope.

(* ------------------------------------------------------------------ complete sweeps *)
(* f holds on [lo, lo + 2^k) *)
Fixpoint all_below (k : nat) (f : Z -> bool) (lo : Z) : bool :=
  match k with
  | O => f lo
  | S k' => all_below k' f lo && all_below k' f (lo + 2 ^ Z.of_nat k')
  end.

Lemma all_below_spec : forall k f lo, all_below k f lo = true ->
  forall x, lo <= x < lo + 2 ^ Z.of_nat k -> f x = true.
Proof.
  induction k; intros f lo H x Hx.
  - cbn in H. change (2 ^ Z.of_nat 0) with 1 in Hx. replace x with lo by lia. exact H.
  - cbn [all_below] in H. apply andb_prop in H. destruct H as [H1 H2].
    rewrite Nat2Z.inj_succ, Z.pow_succ_r in Hx by lia.
    destruct (Z_lt_ge_dec x (lo + 2 ^ Z.of_nat k)).
    + apply (IHk f lo H1). lia.
    + apply (IHk f (lo + 2 ^ Z.of_nat k) H2). lia.
Qed.

(* every day of the range: civil_of_days gives a valid date of 1970..2099 whose day number,
   computed by the specification's calendar, is the day *)
Definition check_day (d : Z) : bool :=
  if d <? DAYS then
    let '(y, m, dd) := civil_of_days d in
    c09_civil_ok d y m dd && (1970 <=? y) && (y <=? 2099)
  else true.

Lemma sweep_days : all_below 16 check_day 0 = true.
Proof. vm_compute. reflexivity. Qed.

Lemma civil_of_days_ok : forall d, 0 <= d < DAYS ->
  let '(y, m, dd) := civil_of_days d in
  c09_civil_ok d y m dd = true /\ 1970 <= y <= 2099.
Proof.
  intros d Hd.
  assert (H := all_below_spec 16 check_day 0 sweep_days d).
  change (2 ^ Z.of_nat 16) with 65536 in H. unfold DAYS in Hd.
  specialize (H ltac:(lia)). unfold check_day in H.
  destruct (d <? DAYS) eqn:E; [|unfold DAYS in E; apply Z.ltb_ge in E; lia].
  destruct (civil_of_days d) as [[y m] dd].
  apply andb_prop in H. destruct H as [H H3]. apply andb_prop in H. destruct H as [H1 H2].
  split; [exact H1|]. apply Z.leb_le in H2. apply Z.leb_le in H3. lia.
Qed.

(* every valid date of 1970..2099: the day count of time_to_epoch is the day number *)
Definition mk_tm (y m d h mi s : Z) : tm :=
  {| tm_year := y - 1900; tm_mon := m - 1; tm_mday := d; tm_hour := h; tm_min := mi; tm_sec := s |}.

Definition check_date (y m d : Z) : bool :=
  if (y <=? 2099) && valid_date y m d then
    let n := epoch_days (mk_tm y m d 0 0 0) in
    (n =? days_from_civil y m d) && (0 <=? n) && (n <? DAYS)
  else true.

Lemma sweep_dates :
  all_below 8 (fun y => all_below 4 (fun m => all_below 5 (fun d => check_date y m d) 0) 0) 1970 = true.
Proof. vm_compute. reflexivity. Qed.

Lemma epoch_days_ok : forall y m d h mi s, 1970 <= y <= 2099 -> valid_date y m d = true ->
  epoch_days (mk_tm y m d h mi s) = days_from_civil y m d /\ 0 <= days_from_civil y m d < DAYS.
Proof.
  intros y m d h mi s Hy Hv.
  assert (Hr : 1 <= m <= 12 /\ 1 <= d <= 31).
  { unfold valid_date in Hv. repeat (apply andb_prop in Hv; destruct Hv as [Hv ?]).
    apply Z.leb_le in Hv. apply Z.leb_le in H. apply Z.leb_le in H0. apply Z.leb_le in H1.
    assert (days_in_month y m <= 31).
    { unfold days_in_month. destruct (m =? 2); [destruct (is_leap y); lia|].
      destruct ((m =? 4) || (m =? 6) || (m =? 9) || (m =? 11)); lia. }
    lia. }
  assert (H1 := all_below_spec 8 _ 1970 sweep_dates y).
  change (2 ^ Z.of_nat 8) with 256 in H1. specialize (H1 ltac:(lia)). cbv beta in H1.
  assert (H2 := all_below_spec 4 _ 0 H1 m).
  change (2 ^ Z.of_nat 4) with 16 in H2. specialize (H2 ltac:(lia)). cbv beta in H2.
  assert (H3 := all_below_spec 5 _ 0 H2 d).
  change (2 ^ Z.of_nat 5) with 32 in H3. specialize (H3 ltac:(lia)). cbv beta in H3.
  unfold check_date in H3. rewrite Hv in H3.
  destruct (y <=? 2099) eqn:E; [|apply Z.leb_gt in E; lia]. cbn [andb] in H3.
  change (epoch_days (mk_tm y m d h mi s)) with (epoch_days (mk_tm y m d 0 0 0)).
  cbv zeta in H3. set (n := epoch_days (mk_tm y m d 0 0 0)) in *.
  apply andb_prop in H3. destruct H3 as [H3 H5]. apply andb_prop in H3. destruct H3 as [H3 H4].
  apply Z.eqb_eq in H3. apply Z.leb_le in H4. apply Z.ltb_lt in H5. split; [exact H3|lia].
Qed.
