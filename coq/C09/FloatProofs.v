(* The binary64 seconds value of GetTimeAsStringMS, in exact integer arithmetic: rounding error
   of round53 / rne_div and of the decimal conversion. *)
From Coq Require Import ZArith List Bool Lia.
From F8 Require Import C09.DateTime.
Import ListNotations.
Local Open Scope Z_scope.

(* ------------------------------------------------------------------ rne_div *)
Lemma rne_div_cases : forall p q, 0 < q ->
  exists k r, p = q * k + r /\ 0 <= r < q /\
    (rne_div p q = k /\ 2 * r <= q \/ rne_div p q = k + 1 /\ q <= 2 * r).
Proof.
  intros p q Hq. exists (p / q), (p mod q).
  pose proof (Z.div_mod p q ltac:(lia)) as E. pose proof (Z.mod_pos_bound p q Hq) as B.
  split; [exact E|]. split; [exact B|]. unfold rne_div.
  destruct (2 * (p mod q) <? q) eqn:A; [left; split; [reflexivity|apply Z.ltb_lt in A; lia]|].
  apply Z.ltb_ge in A.
  destruct (q <? 2 * (p mod q)) eqn:C; [right; split; [reflexivity|apply Z.ltb_lt in C; lia]|].
  apply Z.ltb_ge in C.
  destruct (Z.even (p / q)); [left|right]; split; try reflexivity; lia.
Qed.

Lemma rne_div_err : forall p q, 0 < q -> 2 * Z.abs (rne_div p q * q - p) <= q.
Proof.
  intros p q Hq. destruct (rne_div_cases p q Hq) as (k & r & E & B & [[R C]|[R C]]); rewrite R; subst p.
  - replace (k * q - (q * k + r)) with (- r) by ring. rewrite Z.abs_opp, Z.abs_eq; lia.
  - replace ((k + 1) * q - (q * k + r)) with (q - r) by ring. rewrite Z.abs_eq; lia.
Qed.

Lemma rne_div_le : forall p q N, 0 < q -> p <= N * q -> rne_div p q <= N.
Proof.
  intros p q N Hq H. destruct (rne_div_cases p q Hq) as (k & r & E & B & [[R C]|[R C]]); rewrite R; subst p.
  - assert (q * k <= N * q) by lia. nia.
  - assert (k < N) by nia. lia.
Qed.

Lemma rne_div_ge : forall p q N, 0 < q -> N * q <= p -> N <= rne_div p q.
Proof.
  intros p q N Hq H. destruct (rne_div_cases p q Hq) as (k & r & E & B & [[R C]|[R C]]); rewrite R; subst p; nia.
Qed.

(* ------------------------------------------------------------------ round53 *)
(* for a value below 2^k (k small) the exponent chosen is at most k - 53, in particular negative,
   and the mantissa is the scaled quotient rounded to nearest even *)
Lemma round53_spec : forall p q k, 0 < p -> 0 < q -> 0 <= k <= 40 -> p < q * 2 ^ k ->
  let '(m, e) := round53 p q in
  e <= k - 53 /\ m = rne_div (p * 2 ^ (- e)) q.
Proof.
  intros p q k Hp Hq Hk Hlt. unfold round53.
  set (l := Z.log2 p - Z.log2 q).
  assert (Hl : l <= k).
  { pose proof (Z.log2_spec p Hp) as [P1 _]. pose proof (Z.log2_spec q Hq) as [_ Q2].
    pose proof (Z.log2_nonneg p). pose proof (Z.log2_nonneg q).
    assert (2 ^ Z.log2 p < 2 ^ (Z.succ (Z.log2 q) + k)).
    { rewrite Z.pow_add_r by lia. nia. }
    apply Z.pow_lt_mono_r_iff in H1; lia. }
  assert (E0 : l - 52 <? 0 = true) by (apply Z.ltb_lt; lia). rewrite E0.
  destruct (P52 * q <=? p * 2 ^ (- (l - 52))) eqn:T.
  - apply Z.leb_le in T. rewrite E0. split; [|reflexivity].
    assert (2 ^ 52 < 2 ^ (k - (l - 52))).
    { set (a := - (l - 52)) in *. replace (k - (l - 52)) with (k + a) by lia.
      change (2 ^ 52) with P52.
      assert (Hpos : 0 < 2 ^ a) by (apply Z.pow_pos_nonneg; lia).
      assert (H1 : p * 2 ^ a < q * 2 ^ k * 2 ^ a) by nia.
      assert (H2 : q * 2 ^ k * 2 ^ a = q * 2 ^ (k + a)) by (rewrite Z.pow_add_r by lia; ring).
      rewrite H2 in H1. nia. }
    apply Z.pow_lt_mono_r_iff in H; lia.
  - assert (E1 : l - 52 - 1 <? 0 = true) by (apply Z.ltb_lt; lia). rewrite E1. split; [lia|reflexivity].
Qed.

(* ------------------------------------------------------------------ the seconds value *)
Definition P47 : Z := 140737488355328.     (* 2^47 *)

(* (secs % 60) + (double)nsecs / 1e9 as computed in binary64 is num / 2^sh with sh >= 47 and
   |num/2^sh - (s + n/1e9)| <= 2^-47 *)
Lemma double_err : forall s n, 0 <= s <= 59 -> 0 < n < BILLION ->
  let '(num, sh) := log_secs_double s n in
  exists W, 1 <= W /\ 2 ^ sh = P47 * W /\ 0 <= sh /\ 0 <= num /\
   - (BILLION * W) <= num * BILLION - (s * BILLION + n) * 2 ^ sh <= BILLION * W.
Proof.
  intros s n Hs Hn. unfold log_secs_double.
  destruct (n =? 0) eqn:N0; [apply Z.eqb_eq in N0; lia|].
  pose proof (round53_spec n BILLION 0 ltac:(lia) ltac:(unfold BILLION; lia) ltac:(lia)
                ltac:(change (2 ^ 0) with 1; lia)) as R1.
  destruct (round53 n BILLION) as [m e]. destruct R1 as [He Hm].
  set (sh := - e) in *. assert (Hsh : 53 <= sh) by lia.
  set (S1 := 2 ^ sh) in *.
  assert (HS1 : 64 * P47 <= S1).
  { change (64 * P47) with (2 ^ 53). apply Z.pow_le_mono_r; lia. }
  pose proof (rne_div_err (n * S1) BILLION ltac:(unfold BILLION; lia)) as Ea. rewrite <- Hm in Ea.
  assert (Hm1 : 1 <= m).
  { rewrite Hm. apply rne_div_ge; [unfold BILLION; lia|]. unfold BILLION, P47 in *. nia. }
  assert (Hm2 : m <= S1).
  { rewrite Hm. apply rne_div_le; [unfold BILLION; lia|]. unfold BILLION in *. nia. }
  set (p := s * S1 + m) in *.
  assert (Hp0 : 0 < p) by (unfold p; nia).
  assert (Hp1 : p < S1 * 2 ^ 6) by (change (2 ^ 6) with 64; unfold p; nia).
  assert (HS1pos : 0 < S1) by (unfold P47 in *; lia).
  pose proof (round53_spec p S1 6 Hp0 HS1pos ltac:(lia) Hp1) as R2.
  destruct (round53 p S1) as [m2 e2]. destruct R2 as [He2 Hm2'].
  set (sh2 := - e2) in *. assert (Hsh2 : 47 <= sh2) by lia.
  set (S2 := 2 ^ sh2) in *.
  exists (2 ^ (sh2 - 47)).
  assert (HW : 1 <= 2 ^ (sh2 - 47)) by (change 1 with (2 ^ 0); apply Z.pow_le_mono_r; lia).
  assert (HS2 : S2 = P47 * 2 ^ (sh2 - 47)).
  { unfold S2. change P47 with (2 ^ 47). rewrite <- Z.pow_add_r by lia. f_equal. lia. }
  set (W := 2 ^ (sh2 - 47)) in *.
  pose proof (rne_div_err (p * S2) S1 HS1pos) as Eb. rewrite <- Hm2' in Eb.
  assert (Hn0 : 0 <= m2).
  { rewrite Hm2'. apply rne_div_ge; [lia|]. unfold P47 in *. nia. }
  split; [exact HW|]. split; [exact HS2|]. split; [lia|]. split; [exact Hn0|].
  (* X * S1 = BILLION * db + S2 * da *)
  set (da := m * BILLION - n * S1) in *. set (db := m2 * S1 - p * S2) in *.
  set (X := m2 * BILLION - (s * BILLION + n) * S2).
  assert (Hid : X * S1 = BILLION * db + S2 * da) by (unfold X, db, da, p; ring).
  assert (Ba : - BILLION <= 2 * da <= BILLION) by lia.
  assert (Bb : - S1 <= 2 * db <= S1) by lia.
  assert (HS2pos : 0 < S2) by (unfold P47 in *; lia).
  assert (B1 : - (BILLION * S1 + S2 * BILLION) <= 2 * (X * S1) <= BILLION * S1 + S2 * BILLION).
  { rewrite Hid. unfold BILLION in *. nia. }
  assert (Y1 : S1 <= W * S1) by nia.
  assert (Y2 : 64 * P47 * W <= W * S1) by nia.
  unfold BILLION, P47 in *. split.
  - destruct (Z_le_gt_dec (- (1000000000 * W)) X) as [|G]; [assumption|exfalso].
    assert (X * S1 <= (- (1000000000 * W) - 1) * S1) by nia. nia.
  - destruct (Z_le_gt_dec X (1000000000 * W)) as [|G]; [assumption|exfalso].
    assert ((1000000000 * W + 1) * S1 <= X * S1) by nia. nia.
Qed.
