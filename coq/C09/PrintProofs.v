(* print(): the texts the field classes produce are the calendar rendering of the instant
   (accepted by the specification's reader and denoting the instant's component). *)
From Coq Require Import ZArith List Bool Lia.
From F8 Require Import C09.DateTime C09.Spec_C09 C09.CalendarSweeps C09.DigitProofs C09.TimeArith.
Import ListNotations.
Local Open Scope Z_scope.
Ltac Zify.zify_post_hook ::= Z.div_mod_to_equations.

Definition canon_ymd (y m d : Z) : list Z := format0 y 4 ++ format0 m 2 ++ format0 d 2.
Definition canon_hms (h mi s : Z) : list Z := format0 h 2 ++ [58] ++ format0 mi 2 ++ [58] ++ format0 s 2.

Definition hh (t : Z) := sod_of t / 3600.
Definition mm (t : Z) := (sod_of t mod 3600) / 60.
Definition ss (t : Z) := sod_of t mod 60.
Definition ms_of (t : Z) := (t / NS_MS) mod 1000.

Lemma hms_bounds : forall t, 0 <= hh t < 24 /\ 0 <= mm t < 60 /\ 0 <= ss t < 60 /\ 0 <= ms_of t < 1000.
Proof. intros. pose proof (sod_bounds t). unfold hh, mm, ss, ms_of. lia. Qed.

(* ------------------------------------------------------------------ what print() produces *)
Lemma print_TS : forall t y m d, 0 <= t -> civil_of_days (t / NS_DAY) = (y, m, d) ->
  field_print K_TS t = canon_ymd y m d ++ [45] ++ canon_hms (hh t) (mm t) (ss t) ++ [46] ++ format0 (ms_of t) 3.
Proof.
  intros t y m d Ht Hc. unfold field_print, date_time_format, ind_rank.
  change (1 <? 5) with true. cbv iota. unfold fmt_time.
  rewrite (tv_get_tm_nonneg t y m d Ht Hc). unfold mk_tm.
  cbn [tm_year tm_mon tm_mday tm_hour tm_min tm_sec].
  rewrite tv_msecs_nonneg by lia. rewrite !Z.sub_add.
  unfold canon_ymd, canon_hms, hh, mm, ss, ms_of. repeat rewrite <- app_assoc. reflexivity.
Qed.

Lemma print_TO : forall t y m d, 0 <= t -> civil_of_days (t / NS_DAY) = (y, m, d) ->
  field_print K_TO t = canon_hms (hh t) (mm t) (ss t) ++ [46] ++ format0 (ms_of t) 3.
Proof.
  intros t y m d Ht Hc. unfold field_print, date_time_format, ind_rank.
  change (1 <? 1) with false. cbv iota. unfold fmt_time.
  rewrite (tv_get_tm_nonneg t y m d Ht Hc). unfold mk_tm.
  cbn [tm_year tm_mon tm_mday tm_hour tm_min tm_sec].
  rewrite tv_msecs_nonneg by lia.
  unfold canon_hms, hh, mm, ss, ms_of. repeat rewrite <- app_assoc. reflexivity.
Qed.

Lemma print_date : forall t y m d, 0 <= t -> civil_of_days (t / NS_DAY) = (y, m, d) ->
  date_time_format t Date_only = canon_ymd y m d.
Proof.
  intros t y m d Ht Hc. unfold date_time_format, ind_rank.
  change (1 <? 3) with true. cbv iota.
  rewrite (tv_get_tm_nonneg t y m d Ht Hc). unfold mk_tm.
  cbn [tm_year tm_mon tm_mday tm_hour tm_min tm_sec]. rewrite !Z.sub_add.
  unfold canon_ymd. repeat rewrite <- app_assoc. reflexivity.
Qed.

Lemma print_M6 : forall t y m d, 0 <= t -> civil_of_days (t / NS_DAY) = (y, m, d) ->
  field_print K_M6 t = format0 y 4 ++ format0 m 2.
Proof.
  intros t y m d Ht Hc. unfold field_print, date_time_format, ind_rank.
  change (1 <? 2) with true. cbv iota.
  rewrite (tv_get_tm_nonneg t y m d Ht Hc). unfold mk_tm.
  cbn [tm_year tm_mon tm_mday tm_hour tm_min tm_sec]. rewrite !Z.sub_add. reflexivity.
Qed.

(* ------------------------------------------------------------------ the reader on canonical texts *)
Lemma take_digits_canon : forall w n rest, 0 <= n < 10 ^ Z.of_nat w ->
  take_digits w (format0 n w ++ rest) = Some (n, rest).
Proof. intros. unfold take_digits. rewrite take_digits_format0 by lia. f_equal. Qed.

Lemma take_digits_canon_end : forall w n, 0 <= n < 10 ^ Z.of_nat w ->
  take_digits w (format0 n w) = Some (n, []).
Proof. intros. rewrite <- (app_nil_r (format0 n w)). apply take_digits_canon. lia. Qed.

Lemma read_ymd_canon : forall y m d rest, 0 <= y < 10000 -> 0 <= m < 100 -> 0 <= d < 100 ->
  read_ymd (canon_ymd y m d ++ rest) = Some (y, m, d, rest).
Proof.
  intros. unfold read_ymd, canon_ymd. repeat rewrite <- app_assoc.
  rewrite take_digits_canon by (change (10 ^ Z.of_nat 4) with 10000; lia). cbn [sbind].
  rewrite take_digits_canon by (change (10 ^ Z.of_nat 2) with 100; lia). cbn [sbind].
  rewrite take_digits_canon by (change (10 ^ Z.of_nat 2) with 100; lia). reflexivity.
Qed.

Lemma take_char_cons : forall c l, take_char c (c :: l) = Some l.
Proof. intros. cbn [take_char]. rewrite Z.eqb_refl. reflexivity. Qed.

Lemma read_hms_canon : forall h mi s rest, 0 <= h < 100 -> 0 <= mi < 100 -> 0 <= s < 100 ->
  read_hms (canon_hms h mi s ++ rest) = Some (h, mi, s, rest).
Proof.
  intros. unfold read_hms, canon_hms. repeat rewrite <- app_assoc.
  rewrite take_digits_canon by (change (10 ^ Z.of_nat 2) with 100; lia). cbn [sbind app].
  rewrite take_char_cons. cbn [sbind].
  rewrite take_digits_canon by (change (10 ^ Z.of_nat 2) with 100; lia). cbn [sbind app].
  rewrite take_char_cons. cbn [sbind].
  rewrite take_digits_canon by (change (10 ^ Z.of_nat 2) with 100; lia). reflexivity.
Qed.

Lemma read_ms_canon : forall ms, 0 <= ms < 1000 -> read_ms_end (46 :: format0 ms 3) = Some ms.
Proof.
  intros. unfold read_ms_end. cbn [at_end]. rewrite take_char_cons. cbn [sbind].
  rewrite take_digits_canon_end by (change (10 ^ Z.of_nat 3) with 1000; lia). reflexivity.
Qed.

Lemma valid_date_bounds : forall y m d, valid_date y m d = true -> 1 <= m <= 12 /\ 1 <= d <= 31.
Proof.
  intros y m d Hv. unfold valid_date in Hv. repeat (apply andb_prop in Hv; destruct Hv as [Hv ?]).
  apply Z.leb_le in Hv. apply Z.leb_le in H. apply Z.leb_le in H0. apply Z.leb_le in H1.
  assert (days_in_month y m <= 31).
  { unfold days_in_month. destruct (m =? 2); [destruct (is_leap y); lia|].
    destruct ((m =? 4) || (m =? 6) || (m =? 9) || (m =? 11)); lia. }
  lia.
Qed.

Lemma hms_ok_true : forall h mi s, h < 24 -> mi < 60 -> s < 60 -> hms_ok h mi s = true.
Proof.
  intros. unfold hms_ok. repeat (apply andb_true_intro; split); apply Z.ltb_lt; lia.
Qed.

(* ------------------------------------------------------------------ text_ok for every field type *)
Definition mkind (k : skind) : kind :=
  match k with S_TS => K_TS | S_TO => K_TO | S_DO => K_DO | S_LD => K_LD | S_M6 => K_M6 | S_M8 => K_M8 end.

Section Texts.
  Variable t : Z.
  Hypothesis Hr : in_range t = true.

  Let Ht : 0 <= t < DAYS * NS_DAY.
  Proof. unfold in_range in Hr. apply andb_prop in Hr. destruct Hr as [A B]. apply Z.leb_le in A. apply Z.ltb_lt in B. lia. Qed.

  Let Hday : 0 <= t / NS_DAY < DAYS.
  Proof. unfold NS_DAY, NS_SEC, DAYS in *. lia. Qed.

  Lemma text_ok_all : forall k, text_ok k t (field_print (mkind k) t) = true.
  Proof.
    pose proof (civil_of_days_ok (t / NS_DAY) Hday) as C.
    destruct (civil_of_days (t / NS_DAY)) as [[y m] d] eqn:Hc. destruct C as [C Hy].
    unfold c09_civil_ok in C. apply andb_prop in C. destruct C as [Hv Hd]. apply Z.eqb_eq in Hd.
    pose proof (valid_date_bounds y m d Hv) as [Hm Hdd].
    pose proof (hms_bounds t) as (Hh & Hmi & Hs & Hms).
    assert (T0 : 0 <= t) by lia.
    intros k. unfold text_ok. destruct k; cbn [mkind].
    - (* UTCTimestamp *)
      rewrite (print_TS t y m d T0 Hc).
      rewrite !app_length. unfold canon_ymd, canon_hms. rewrite !app_length, !format0_length.
      cbn [length Nat.add Nat.eqb text_len andb].
      unfold denote. fold (canon_ymd y m d). fold (canon_hms (hh t) (mm t) (ss t)).
      rewrite read_ymd_canon by lia. cbn [sbind app]. rewrite take_char_cons. cbn [sbind].
      rewrite read_hms_canon by lia. cbn [sbind app]. rewrite read_ms_canon by lia. cbn [sbind].
      rewrite Hv, hms_ok_true by lia. cbn [andb component].
      apply Z.eqb_eq. rewrite Hd. pose proof (instant_parts t T0) as E.
      unfold hh, mm, ss, ms_of. unfold NS_SEC, NS_MS in *. lia.
    - (* UTCTimeOnly *)
      rewrite (print_TO t y m d T0 Hc).
      unfold canon_hms. rewrite !app_length, !format0_length.
      cbn [length Nat.add Nat.eqb text_len andb].
      unfold denote. fold (canon_hms (hh t) (mm t) (ss t)).
      rewrite read_hms_canon by lia. cbn [sbind app]. rewrite read_ms_canon by lia. cbn [sbind].
      rewrite hms_ok_true by lia. cbn [component].
      apply Z.eqb_eq. pose proof (instant_parts t T0) as E.
      assert (E1 : t / NS_DAY = t / NS_SEC / 86400)
        by (unfold NS_DAY, NS_SEC; rewrite Z.div_div by lia; f_equal).
      assert (E2 : t / NS_SEC = t / NS_MS / 1000)
        by (unfold NS_MS, NS_SEC; rewrite Z.div_div by lia; f_equal).
      unfold hh, mm, ss, ms_of, sod_of in *. rewrite E1 in E. rewrite E2 in *.
      set (q := t / NS_MS) in *. unfold NS_SEC, NS_MS in *. lia.
    - (* UTCDateOnly *)
      unfold field_print. rewrite (print_date t y m d T0 Hc).
      unfold canon_ymd. rewrite !app_length, !format0_length.
      cbn [length Nat.add Nat.eqb text_len andb].
      unfold denote. fold (canon_ymd y m d). rewrite <- (app_nil_r (canon_ymd y m d)).
      rewrite read_ymd_canon by lia. cbn [sbind at_end andb]. rewrite Hv. cbn [component].
      apply Z.eqb_eq. rewrite Hd. reflexivity.
    - (* LocalMktDate *)
      unfold field_print. rewrite (print_date t y m d T0 Hc).
      unfold canon_ymd. rewrite !app_length, !format0_length.
      cbn [length Nat.add Nat.eqb text_len andb].
      unfold denote. fold (canon_ymd y m d). rewrite <- (app_nil_r (canon_ymd y m d)).
      rewrite read_ymd_canon by lia. cbn [sbind at_end andb]. rewrite Hv. cbn [component].
      apply Z.eqb_eq. rewrite Hd. reflexivity.
    - (* MonthYear, six characters *)
      rewrite (print_M6 t y m d T0 Hc).
      rewrite !app_length, !format0_length.
      cbn [length Nat.add Nat.eqb text_len andb].
      assert (Hv1 : valid_date y m 1 = true).
      { assert (28 <= days_in_month y m).
        { unfold days_in_month. destruct (m =? 2); [destruct (is_leap y); lia|].
          destruct ((m =? 4) || (m =? 6) || (m =? 9) || (m =? 11)); lia. }
        unfold valid_date. repeat (apply andb_true_intro; split); apply Z.leb_le; lia. }
      assert (Hd1 : days_from_civil y m d = days_from_civil y m 1 + (d - 1)) by (unfold days_from_civil; lia).
      assert (Hdim : d <= days_in_month y m).
      { unfold valid_date in Hv. apply andb_prop in Hv. destruct Hv as [_ Hv]. apply Z.leb_le in Hv. exact Hv. }
      unfold denote, component, first_of_month.
      rewrite take_digits_canon by (change (10 ^ Z.of_nat 4) with 10000; lia). cbn [sbind].
      rewrite take_digits_canon_end by (change (10 ^ Z.of_nat 2) with 100; lia). cbn [sbind at_end andb].
      rewrite Hv1.
      replace ((days_from_civil y m 1 <=? t / NS_DAY) && (t / NS_DAY <? days_from_civil y m 1 + days_in_month y m)) with true
        by (symmetry; apply andb_true_intro; split; [apply Z.leb_le|apply Z.ltb_lt]; lia).
      apply Z.eqb_eq. reflexivity.
    - (* MonthYear, eight characters *)
      unfold field_print. rewrite (print_date t y m d T0 Hc).
      unfold canon_ymd. rewrite !app_length, !format0_length.
      cbn [length Nat.add Nat.eqb text_len andb].
      unfold denote. fold (canon_ymd y m d). rewrite <- (app_nil_r (canon_ymd y m d)).
      rewrite read_ymd_canon by lia. cbn [sbind at_end andb]. rewrite Hv. cbn [component].
      apply Z.eqb_eq. rewrite Hd. reflexivity.
  Qed.

  (* the component the text carries lies between the epoch and the instant *)
  Lemma component_bounds : forall k c, component k t (field_print (mkind k) t) = Some c -> 0 <= c <= t.
  Proof.
    intros k c H. assert (T0 : 0 <= t) by lia.
    destruct k; cbn [mkind component] in H; try (inversion H; subst c; unfold NS_MS, NS_DAY, NS_SEC; lia).
    (* six character MonthYear: the first of the month of a date of the range *)
    pose proof (civil_of_days_ok (t / NS_DAY) Hday) as C.
    destruct (civil_of_days (t / NS_DAY)) as [[y m] d] eqn:Hc. destruct C as [C Hy].
    unfold c09_civil_ok in C. apply andb_prop in C. destruct C as [Hv Hd]. apply Z.eqb_eq in Hd.
    pose proof (valid_date_bounds y m d Hv) as [Hm Hdd].
    rewrite (print_M6 t y m d T0 Hc) in H. unfold first_of_month in H.
    rewrite take_digits_canon in H by (change (10 ^ Z.of_nat 4) with 10000; lia). cbn [sbind] in H.
    rewrite take_digits_canon_end in H by (change (10 ^ Z.of_nat 2) with 100; lia). cbn [sbind] in H.
    destruct ((days_from_civil y m 1 <=? t / NS_DAY) && (t / NS_DAY <? days_from_civil y m 1 + days_in_month y m)) eqn:E;
      [|discriminate].
    inversion H; subst c. apply andb_prop in E. destruct E as [E1 E2]. apply Z.leb_le in E1.
    assert (Hv1 : valid_date y m 1 = true).
    { assert (28 <= days_in_month y m).
      { unfold days_in_month. destruct (m =? 2); [destruct (is_leap y); lia|].
        destruct ((m =? 4) || (m =? 6) || (m =? 9) || (m =? 11)); lia. }
      unfold valid_date. repeat (apply andb_true_intro; split); apply Z.leb_le; lia. }
    destruct (epoch_days_ok y m 1 0 0 0 Hy Hv1) as [_ B].
    unfold NS_DAY, NS_SEC in *. nia.
  Qed.
End Texts.
