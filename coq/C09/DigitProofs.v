(* format0 / parse_decimal and the specification's digit reader. *)
From Coq Require Import ZArith List Bool Lia.
From F8 Require Import C09.DateTime C09.Spec_C09.
Import ListNotations.
Local Open Scope Z_scope.
Ltac Zify.zify_post_hook ::= Z.div_mod_to_equations.

Lemma format0_length : forall w n, length (format0 n w) = w.
Proof. induction w; intros; cbn [format0]; [reflexivity|]. rewrite app_length, IHw. cbn. lia. Qed.

Lemma format0_S : forall w n, format0 n (S w) = format0 (Z.quot n 10) w ++ [(Z.rem n 10 + 48) mod 256].
Proof. reflexivity. Qed.

Lemma parse_decimal_app : forall k1 k2 l to ub,
  parse_decimal (k1 + k2) l to ub =
  match parse_decimal k1 l to ub with
  | Some (to', ub', r) => parse_decimal k2 r to' ub'
  | None => None
  end.
Proof.
  induction k1; intros; cbn [Nat.add parse_decimal]; [reflexivity|].
  destruct l; [reflexivity|]. apply IHk1.
Qed.

Lemma take_digits_acc_app : forall k1 k2 l acc,
  take_digits_acc (k1 + k2) l acc =
  match take_digits_acc k1 l acc with
  | Some (acc', r) => take_digits_acc k2 r acc'
  | None => None
  end.
Proof.
  induction k1; intros; cbn [Nat.add take_digits_acc]; [reflexivity|].
  destruct l; [reflexivity|]. destruct ((48 <=? z) && (z <=? 57)); [apply IHk1|reflexivity].
Qed.

Lemma digit_char : forall n, 0 <= n -> (Z.rem n 10 + 48) mod 256 = 48 + n mod 10.
Proof. intros. rewrite Z.rem_mod_nonneg by lia. lia. Qed.

(* parse_decimal inverts format0: every width, every value that fits, any continuation *)
Lemma parse_decimal_format0 : forall w n acc ub rest, 0 <= n < 10 ^ Z.of_nat w -> 0 <= acc ->
  parse_decimal w (format0 n w ++ rest) acc ub = Some (acc * 10 ^ Z.of_nat w + n, ub, rest).
Proof.
  induction w; intros n acc ub rest Hn Hacc.
  - cbn. change (10 ^ Z.of_nat 0) with 1 in *. f_equal. f_equal. f_equal. lia.
  - rewrite format0_S, <- app_assoc. assert (Hp : 10 ^ Z.of_nat (S w) = 10 * 10 ^ Z.of_nat w) by (rewrite Nat2Z.inj_succ, Z.pow_succ_r; lia).
    rewrite Hp in *. clear Hp. replace (S w) with (w + 1)%nat by lia.
    rewrite parse_decimal_app.
    assert (Hq : Z.quot n 10 = n / 10) by (apply Z.quot_div_nonneg; lia).
    rewrite IHw by (rewrite ?Hq; lia).
    cbn [app parse_decimal]. rewrite digit_char by lia.
    unfold schar. destruct (48 + n mod 10 <? 128) eqn:E; [|apply Z.ltb_ge in E; lia].
    f_equal. f_equal. f_equal. rewrite Hq. lia.
Qed.

Lemma take_digits_format0 : forall w n acc rest, 0 <= n < 10 ^ Z.of_nat w ->
  take_digits_acc w (format0 n w ++ rest) acc = Some (acc * 10 ^ Z.of_nat w + n, rest).
Proof.
  induction w; intros n acc rest Hn.
  - cbn. change (10 ^ Z.of_nat 0) with 1 in *. f_equal. f_equal. lia.
  - rewrite format0_S, <- app_assoc. assert (Hp : 10 ^ Z.of_nat (S w) = 10 * 10 ^ Z.of_nat w) by (rewrite Nat2Z.inj_succ, Z.pow_succ_r; lia).
    rewrite Hp in *. clear Hp. replace (S w) with (w + 1)%nat by lia.
    rewrite take_digits_acc_app.
    assert (Hq : Z.quot n 10 = n / 10) by (apply Z.quot_div_nonneg; lia).
    rewrite IHw by (rewrite ?Hq; lia).
    cbn [app take_digits_acc]. rewrite digit_char by lia.
    replace ((48 <=? 48 + n mod 10) && (48 + n mod 10 <=? 57)) with true
      by (symmetry; apply andb_true_intro; split; apply Z.leb_le; lia).
    f_equal. f_equal. rewrite Hq. lia.
Qed.

(* the property's digit clause *)
Lemma digits_roundtrip : forall w n, 0 <= n < 10 ^ Z.of_nat w ->
  parse_decimal w (format0 n w) 0 false = Some (n, false, []).
Proof.
  intros. rewrite <- (app_nil_r (format0 n w)). rewrite parse_decimal_format0 by lia.
  f_equal.
Qed.

(* the model's parser follows the specification's reader on every well-formed digit run; the
   model works on the NUL terminated text *)
Lemma parse_decimal_follows : forall w l acc ub v r tail, take_digits_acc w l acc = Some (v, r) -> 0 <= acc ->
  parse_decimal w (l ++ tail) acc ub = Some (v, ub, r ++ tail) /\ acc * 10 ^ Z.of_nat w <= v < (acc + 1) * 10 ^ Z.of_nat w.
Proof.
  induction w; intros l acc ub v r tail H Hacc.
  - cbn in H. inversion H; subst. cbn. change (10 ^ Z.of_nat 0) with 1. split; [reflexivity|lia].
  - cbn [take_digits_acc] in H. destruct l as [|c l]; [discriminate|].
    destruct ((48 <=? c) && (c <=? 57)) eqn:E; [|discriminate].
    apply andb_prop in E. destruct E as [E1 E2]. apply Z.leb_le in E1. apply Z.leb_le in E2.
    cbn [app parse_decimal].
    assert (Hs : schar c = c) by (unfold schar; destruct (c <? 128) eqn:E; [reflexivity|apply Z.ltb_ge in E; lia]).
    rewrite Hs. replace (acc * 10 + (c - 48)) with (10 * acc + (c - 48)) by lia.
    destruct (IHw l (10 * acc + (c - 48)) ub v r tail H ltac:(lia)) as [P B].
    split; [exact P|]. rewrite Nat2Z.inj_succ, Z.pow_succ_r by lia. nia.
Qed.

Lemma take_digits_acc_length : forall w l acc v r, take_digits_acc w l acc = Some (v, r) ->
  length l = (w + length r)%nat.
Proof.
  induction w; intros l acc v r H.
  - cbn in H. inversion H; subst. reflexivity.
  - cbn [take_digits_acc] in H. destruct l as [|c l]; [discriminate|].
    destruct ((48 <=? c) && (c <=? 57)); [|discriminate].
    apply IHw in H. cbn [length]. lia.
Qed.
