(* Proofs for property C01 (statements explained in Props/Properties_C01.v). *)
From Coq Require Import NArith ZArith List Bool Lia.
From F8 Require Import Codec.Bytes Codec.Meta Codec.Extract Codec.Decode Codec.Encode Codec.Render Codec.Example
                       C02.Spec_C02 C02.WfC02 C02.AuxProofs C02.RenderProofs C02.EncodeProofs C01.Spec_C01 C01.WfC01 C01.WfGroups C01.FlatTheorem C01.GroupRoundtripTheorem.
Import ListNotations.
Local Open Scope N_scope.

(* encode, decode with Message::factory (strict, checksum verified), encode the decoded object *)
Definition roundtrip (c : ctx) (m : message) : res (list N * message * list N) :=
  bind (msg_encode c m) (fun '(b, _) =>
  bind (factory c real_caps b false false) (fun m' =>
  bind (msg_encode c m') (fun '(b2, _) => Ok (b, m', b2)))).

(* the value text of field f as the decoded object holds it *)
Definition body_val (m : message) (f : N) : option (list N) := map_find f (mb_fields (m_body m)).
Definition hdr_val (m : message) (f : N) : option (list N) := map_find f (mb_fields (m_hdr m)).

(* Heartbeat with MsgSeqNum (34, int) = "-5" *)
Definition ex_hb_neg : message :=
  mkMsg (m_type ex_hb) (addf (m_hdr ex_hb) 34 [45; 53]) (m_body ex_hb) (m_trl ex_hb).

(* the context with the rendering of the code BEFORE /repo a8219b1 *)
Definition ex_ctx_orig : ctx :=
  mkCtx (c_fields ex_ctx) (c_msgs ex_ctx) (c_header ex_ctx) (c_trailer ex_ctx) (c_hdr_init ex_ctx)
        (c_trl_init ex_ctx) (c_begin ex_ctx) render_default_orig.

Lemma c01_negative_int_orig_refuted_lemma :
  exists m b m' b2, render_ok ex_ctx_orig /\ c_render ex_ctx_orig = render_default_orig /\
    wf_msg ex_ctx_orig m = true /\ fresh m = true /\
    hdr_val m 34 = Some [45; 53] /\                       (* built with "-5" *)
    roundtrip ex_ctx_orig m = Ok (b, m', b2) /\
    hdr_val m' 34 = Some [45; 50; 53] /\                  (* decoded as "-25" *)
    list_eqb b b2 = false.                                (* and re-encoded differently ("-275") *)
Proof.
  exists ex_hb_neg. do 3 eexists. split; [apply render_default_orig_ok; reflexivity|]. split; [reflexivity|].
  split; [vm_compute; reflexivity|]. split; [vm_compute; reflexivity|]. split; [vm_compute; reflexivity|].
  split; [vm_compute; reflexivity|]. split; vm_compute; reflexivity.
Qed.

(* the observed behaviour of the real float conversion on a value >= 2^31 (fast_atof / modp_dtoa
   switch to sprintf("%e"): 2147483648.0 prints as 2.147484e+09, 7 significant digits), everything
   else as render_default.  (The tie-branch carry 0.995 -> 0.1 of DESIGN F02 was repaired in
   /repo a6c4c45.) *)
Definition big_txt : list N := [50; 49; 52; 55; 52; 56; 51; 54; 52; 56; 46; 48].          (* 2147483648.0 *)
Definition big_out : list N := [50; 46; 49; 52; 55; 52; 56; 52; 101; 43; 48; 57].          (* 2.147484e+09 *)
Definition render_obs (ty : N) (v : list N) : list N :=
  if is_float_type ty && list_eqb v big_txt then big_out else render_default ty v.
Definition ex_ctx_obs : ctx :=
  mkCtx (c_fields ex_ctx) (c_msgs ex_ctx) (c_header ex_ctx) (c_trailer ex_ctx) (c_hdr_init ex_ctx)
        (c_trl_init ex_ctx) (c_begin ex_ctx) render_obs.
(* an order with OrderQty (38, float) = 2147483648.0 *)
Definition ex_order_f : mbase := addf (addf (create_group ex_orders true) 38 big_txt) 11 [79; 49].
Definition ex_list_f : message :=
  let m := mk_message ex_ctx_obs (mkMD [69] false ex_body) true in
  let b := with_elems (addf (addf (m_body m) 73 [49]) 66 [76; 49]) 73 [ex_order_f] in
  mkMsg (m_type m) (ex_hdr_fields (m_hdr m)) b (m_trl m).
Definition first_elem_val (m : message) (g f : N) : option (list N) :=
  match map_find g (mb_groups (m_body m)) with
  | Some (e :: _) => map_find f (mb_fields e)
  | _ => None
  end.

Lemma c01_float_refuted_lemma :
  exists c m b m' b2,
    c_render c ft_float big_txt = big_out /\        (* 2147483648.0 prints as 2.147484e+09: observed *)
    first_elem_val m 73 38 = Some big_txt /\
    roundtrip c m = Ok (b, m', b2) /\
    first_elem_val m' 73 38 = Some big_out.
Proof.
  exists ex_ctx_obs, ex_list_f. do 3 eexists. split; [reflexivity|]. split; [vm_compute; reflexivity|].
  split; vm_compute; reflexivity.
Qed.

Lemma c01_nonvacuous_lemma :
  exists b m', render_ok ex_ctx /\ wf_msg ex_ctx ex_list = true /\ fresh ex_list = true /\
    roundtrip ex_ctx ex_list = Ok (b, m', b) /\
    tree_of ex_ctx (m_body m') <> None.
Proof.
  do 2 eexists. split; [apply render_default_ok; reflexivity|]. split; [vm_compute; reflexivity|].
  split; [vm_compute; reflexivity|]. split; [vm_compute; reflexivity|]. vm_compute. discriminate.
Qed.

(* with the repaired fast_atoi a negative int is canonical: the message with MsgSeqNum = "-5" meets
   every hypothesis of c01_roundtrip_partial *)
Lemma c01_partial_nonvacuous_lemma :
  render_ok ex_ctx /\ wf_msg ex_ctx ex_hb_neg = true /\ fresh ex_hb_neg = true /\ vals_canonical ex_ctx ex_hb_neg = true /\
  c01_flat ex_ctx ex_hb_neg = true /\ hdr_val ex_hb_neg 34 = Some [45; 53].
Proof. split; [apply render_default_ok; reflexivity|]. repeat split; vm_compute; reflexivity. Qed.

(* the message with two orders, the second with two nested allocations, meets every hypothesis of
   c01_roundtrip_groups_partial *)
Lemma c01_groups_nonvacuous_lemma :
  render_ok ex_ctx /\ wf_msg ex_ctx ex_list = true /\ fresh ex_list = true /\ vals_canonical ex_ctx ex_list = true /\
  c01_groups ex_ctx ex_list = true.
Proof. split; [apply render_default_ok; reflexivity|]. repeat split; vm_compute; reflexivity. Qed.
