(* Decidable hypothesis of theorem c01_roundtrip_partial, evaluated at run time on every
   generated message (extracted).  No proofs here.
   c01_flat c m: besides wf_msg / fresh (C02/WfC02.v) --
     the message has no repeating-group element (group count fields, if present, say 0), no
     Length-typed field outside BodyLength and no trailer field besides CheckSum;
     every value is canonical for its type (render is the identity on it), shorter than 2048
     bytes, without SOH and NUL; tags < 65536; MsgType shorter than 32 bytes;
     every field is legal and not already present in a freshly constructed header / body; the
     mandatory fields of header, body and trailer are all there;
     the header / trailer constructors file 8, 9, 35 under keys 1, 2, 3 and 10 alone in the
     trailer, 8, 9, 10 suppressed (what the generated constructors do: checked on the dump). *)
From Coq Require Import NArith ZArith List Bool.
From F8 Require Import Codec.Bytes Codec.Meta Codec.Extract Codec.Decode Codec.Encode C02.Spec_C02 C02.WfC02.
Import ListNotations.
Local Open Scope N_scope.

Definition H0 (c : ctx) : mbase := mk_part (c_header c) (c_hdr_init c) true.
Definition T0 (c : ctx) : mbase := mk_part (c_trailer c) (c_trl_init c) true.
Definition B0 (md : msgdef) : mbase := create_group (md_meta md) false.
Definition fp_after (fp : list trait) (ns : list tnode) : list trait :=
  fold_left (fun fp n => upd_trait (set_present true) fp (n_tag n)) ns fp.

Definition flat_okb (c : ctx) (fp : list trait) (n : tnode) : bool :=
  match find_trait fp (n_tag n) with
  | Some tr =>
    negb (t_present tr) && negb (t_group tr && has_group_count_c c (n_tag n) (n_val n)) &&
    (negb (t_ftype tr =? ft_Length) || (n_tag n =? Common_BodyLength)) &&
    match find_be (c_fields c) (n_tag n) with Some _ => true | None => false end &&
    match n_els n with [] => true | _ => false end
  | None => false
  end.
Definition vis_okb (c : ctx) (fp : list trait) (n : tnode) : bool :=
  match find_trait fp (n_tag n) with
  | Some tr =>
    negb (t_suppress tr) && negb (t_group tr && has_group_count_c c (n_tag n) (n_val n)) &&
    list_eqb (c_render c (ftype_of c (n_tag n) (t_ftype tr)) (n_val n)) (n_val n)
  | None => false
  end.
Definition pokb (n : tnode) : bool :=
  forallb (fun b => negb (b =? SOH) && negb (b =? 0)) (n_val n) && (lenN (n_val n) <? 2048) && (n_tag n <? 65536).
Definition not_auto_tag (n : tnode) : bool := negb (n_tag n =? 8) && negb (n_tag n =? 9) && negb (n_tag n =? 35).
Definition no_trait (fp : list trait) (f : N) : bool :=
  match find_trait fp f with None => true | Some _ => false end.
Definition has_key {A} (f : N) (l : list (N * A)) : bool := match map_find f l with Some _ => true | None => false end.

Definition hdr0_ok (c : ctx) : bool :=
  match mb_pos (H0 c) with
  | [(p1, (f1, _)); (p2, (f2, _)); (p3, (f3, _))] =>
    (p1 =? 1) && (f1 =? 8) && (p2 =? 2) && (f2 =? 9) && (p3 =? 3) && (f3 =? 35)
  | _ => false
  end &&
  match find_trait (mb_fp (H0 c)) 8, find_trait (mb_fp (H0 c)) 9, find_trait (mb_fp (H0 c)) 35 with
  | Some t8, Some t9, Some t35 => t_suppress t8 && t_suppress t9 && negb (t_suppress t35) && negb (t_group t35)
  | _, _, _ => false
  end &&
  match mb_unknown (H0 c) with [] => true | _ => false end &&
  match map_find 8 (mb_fields (H0 c)) with
  | Some v => list_eqb (c_render c ft_string v) (c_begin c)
  | None => false
  end && has_key 9 (mb_fields (H0 c)) && has_key 35 (mb_fields (H0 c)).
Definition trl0_ok (c : ctx) : bool :=
  match mb_pos (T0 c) with [(_, (f, _))] => f =? 10 | _ => false end &&
  match find_trait (mb_fp (T0 c)) 10 with Some t => t_suppress t | None => false end &&
  match mb_unknown (T0 c) with [] => true | _ => false end &&
  has_key 10 (mb_fields (T0 c)) &&
  match find_missing (mb_fp (T0 c)) with None => true | Some _ => false end.

(* vals_canonical: every value text stored in the object (at any depth) is a fixed point of its
   type's rendering, so that "the printed value" and "the value the message was built with" coincide *)
Fixpoint canon_mb (c : ctx) (m : mbase) : bool :=
  match m with
  | MB fp _ _ pos groups _ =>
    forallb (fun e => match e with
                      | (_, (f, v)) =>
                        match find_trait fp f with
                        | Some tr => list_eqb (c_render c (ftype_of c f (t_ftype tr)) v) v
                        | None => false
                        end
                      end) pos &&
    (fix gl (gs : list (N * list mbase)) : bool :=
       match gs with
       | [] => true
       | (_, els) :: r =>
         (fix el (es : list mbase) : bool :=
            match es with [] => true | e :: r' => canon_mb c e && el r' end) els && gl r
       end) groups
  end.
Definition vals_canonical (c : ctx) (m : message) : bool :=
  canon_mb c (m_hdr m) && canon_mb c (m_body m) && canon_mb c (m_trl m).

Definition c01_flat (c : ctx) (m : message) : bool :=
  let h0 := set_value (m_hdr m) Common_MsgType (m_type m) in
  match tree_of c h0, tree_of c (m_body m), tree_of c (m_trl m) with
  | Some (TN _ _ rv35 _ :: hn'), Some bn, Some [] =>
    match find_msg (c_msgs c) rv35 with
    | None => false
    | Some md =>
      list_eqb rv35 (m_type m) && forallb (fun b => negb (b =? 0)) rv35 && (lenN rv35 <? 32) &&
      hdr0_ok c && trl0_ok c &&
      (* header *)
      (3 + lenN hn' <? 65536) && nodupN (map n_tag hn') &&
      forallb (flat_okb c (mb_fp (H0 c))) hn' && forallb (vis_okb c (mb_fp (H0 c))) hn' &&
      forallb pokb hn' && forallb not_auto_tag hn' &&
      no_trait (mb_fp (H0 c)) (match bn with n :: _ => n_tag n | [] => 10 end) &&
      match find_missing (fp_after (mb_fp (H0 c)) hn') with None => true | Some _ => false end &&
      (* body *)
      (lenN bn <? 65536) && nodupN (map n_tag bn) &&
      forallb (flat_okb c (g_traits (md_meta md))) bn && forallb (vis_okb c (g_traits (md_meta md))) bn &&
      forallb pokb bn && no_trait (g_traits (md_meta md)) 10 &&
      match find_missing (fp_after (g_traits (md_meta md)) bn) with None => true | Some _ => false end
    end
  | _, _, _ => false
  end.
