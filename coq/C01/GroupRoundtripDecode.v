(* decode_group of the codec model inverts encode_group on the byte stream, for any number of
   elements nested to any depth (the port of DESIGN Appendix A.4 to coq/Codec, at byte level). *)
From Coq Require Import NArith ZArith List Bool Lia Arith.
From F8 Require Import Codec.Bytes Codec.Meta Codec.Extract Codec.Decode Codec.Encode Codec.Render
                       C02.Spec_C02 C02.WfC02 C02.DigitsProofs C02.TokenProofs C02.TreeProofs C02.StructProofs
                       C02.AuxProofs C02.RenderProofs C02.EncodeProofs
                       C01.WfC01 C01.WfGroups C01.ExtractProofs C01.DecodeProofs C01.FactoryProofs C01.ReencodeProofs
                       C01.GroupRoundtripObj.
Import ListNotations.
Local Open Scope N_scope.

(* ---------------------------------------------------------------- dnode_ok unfolded *)
Fixpoint delems_ok (c : ctx) (sg : gmeta) (es : list (list tnode)) : bool :=
  match es with
  | [] => true
  | e :: r => dnodes_ok c false sg e && mand_okb sg e && nodupN (map n_tag e) && (lenN e <? 65536) && delems_ok c sg r
  end.

Lemma dnodes_inner c sg : forall l,
  (fix nl (l : list tnode) : bool := match l with [] => true | x :: r' => dnode_ok c false sg x && nl r' end) l
  = dnodes_ok c false sg l.
Proof. induction l as [|x l IH]; cbn [dnodes_ok forallb]; [reflexivity|]. rewrite IH. reflexivity. Qed.

Lemma delems_inner c sg : forall es,
  (fix el (es : list (list tnode)) : bool :=
     match es with
     | [] => true
     | e :: r =>
       (fix nl (l : list tnode) : bool :=
          match l with [] => true | x :: r' => dnode_ok c false sg x && nl r' end) e &&
       mand_okb sg e && nodupN (map n_tag e) && (lenN e <? 65536) && el r
     end) es = delems_ok c sg es.
Proof. induction es as [|e es IH]; cbn [delems_ok]; [reflexivity|]. rewrite IH, dnodes_inner. reflexivity. Qed.

Lemma dnode_ok_unfold c top g k f rv els :
  dnode_ok c top g (TN k f rv els) =
  match find_trait (g_traits g) f with
  | None => false
  | Some tr =>
    negb (t_present tr) && negb (t_suppress tr) && t_haspos tr &&
    match find_be (c_fields c) f with Some _ => true | None => false end &&
    pokv f rv && list_eqb (c_render c (ftype_of c f (t_ftype tr)) rv) rv &&
    Bool.eqb (t_group tr && has_group_count_c c f rv) (nonempty els) &&
    (negb top || negb (t_ftype tr =? ft_Length) || (f =? Common_BodyLength)) &&
    match els with
    | [] => true
    | _ :: _ => match find_sub (g_subs g) f with None => false | Some sg => delems_ok c sg els end
    end
  end.
Proof.
  cbn [dnode_ok]. destruct (find_trait (g_traits g) f) as [tr|]; [|reflexivity]. f_equal.
  destruct els as [|e0 els0]; [reflexivity|]. destruct (find_sub (g_subs g) f) as [sg|]; [|reflexivity].
  exact (delems_inner c sg (e0 :: els0)).
Qed.

(* ---------------------------------------------------------------- the trait table after some fields *)
Lemma find_trait_upd g ts f' f : (forall t, t_fnum (g t) = t_fnum t) ->
  find_trait (upd_trait g ts f') f = if f =? f' then option_map g (find_trait ts f) else find_trait ts f.
Proof.
  intros Hg. destruct (f =? f') eqn:E.
  - apply N.eqb_eq in E. subst f'. induction ts as [|x r IH]; cbn [upd_trait find_trait]; [reflexivity|].
    destruct (t_fnum x =? f) eqn:Ex; cbn [find_trait]; [rewrite Hg, Ex; reflexivity|rewrite Ex; exact IH].
  - apply N.eqb_neq in E. apply find_trait_upd_other; assumption.
Qed.

Lemma fp_after_app fp a b : fp_after fp (a ++ b) = fp_after (fp_after fp a) b.
Proof. unfold fp_after. apply fold_left_app. Qed.

Lemma find_trait_after fp : forall done f,
  find_trait (fp_after fp done) f =
  if memN f (map n_tag done) then option_map (set_present true) (find_trait fp f) else find_trait fp f.
Proof.
  intros done. revert fp. induction done as [|n done IH]; intros fp f; [reflexivity|]. cbn [fp_after fold_left map]. unfold memN at 1. cbn [existsb]. fold (memN f (map n_tag done)).
  change (fold_left (fun fp0 n0 => upd_trait (set_present true) fp0 (n_tag n0)) done (upd_trait (set_present true) fp (n_tag n)))
    with (fp_after (upd_trait (set_present true) fp (n_tag n)) done).
  rewrite IH, find_trait_upd by apply set_present_fnum.
  destruct (f =? n_tag n) eqn:E; cbn [orb].
  - destruct (find_trait fp f) as [t|]; [|destruct (memN f (map n_tag done)); reflexivity].
    cbn [option_map]. destruct (memN f (map n_tag done)); [destruct t; reflexivity|reflexivity].
  - reflexivity.
Qed.

(* ---------------------------------------------------------------- values of a decodable tree *)
Lemma pokv_sound f rv : pokv f rv = true -> pok (f, rv).
Proof.
  unfold pokv, pok. cbn [fst snd]. intros H. apply andb_prop in H. destruct H as [H H3]. apply andb_prop in H. destruct H as [H1 H2].
  rewrite forallb_forall in H1. apply N.ltb_lt in H2, H3.
  split; [|split; [|split; assumption]].
  - apply Forall_forall. intros x Hx. specialize (H1 x Hx). apply andb_prop in H1. destruct H1 as [H1 _].
    destruct (x =? SOH); [discriminate|reflexivity].
  - apply Forall_forall. intros x Hx. specialize (H1 x Hx). apply andb_prop in H1. destruct H1 as [_ H1].
    destruct (x =? 0); [discriminate|reflexivity].
Qed.

Lemma dnodes_pok c : forall n top g ns, (length (P ns) <= n)%nat -> dnodes_ok c top g ns = true -> Forall pok (P ns).
Proof.
  induction n as [n IHn] using (well_founded_induction lt_wf).
  intros top g ns. induction ns as [|x ns IH]; intros Hsz H; [constructor|].
  cbn [dnodes_ok forallb] in H. apply andb_prop in H. destruct H as [Hx Hns].
  destruct x as [k f rv els]. rewrite dnode_ok_unfold in Hx.
  destruct (find_trait (g_traits g) f) as [tr|]; [|discriminate].
  repeat (apply andb_prop in Hx; let H := fresh "D" in destruct Hx as [Hx H]).
  rewrite P_cons in *. cbn [npairs] in *. cbn [app length] in Hsz. rewrite app_length in Hsz.
  cbn [app]. constructor; [apply pokv_sound; assumption|]. apply Forall_app. split; [|apply IH; [lia|exact Hns]].
  destruct els as [|e0 els0]; [constructor|]. destruct (find_sub (g_subs g) f) as [sg|]; [|discriminate].
  change (flat_map (fun e => flat_map npairs e) (e0 :: els0)) with (PE (e0 :: els0)) in *.
  revert D Hsz. generalize (e0 :: els0). intros es Hes Hsz.
  induction es as [|e es IHe]; [constructor|]. rewrite PE_cons in *. rewrite app_length in Hsz.
  cbn [delems_ok] in Hes. repeat (apply andb_prop in Hes; let H := fresh "E" in destruct Hes as [Hes H]).
  apply Forall_app. split; [apply (IHn (length (P e)) ltac:(lia) false sg e (le_n _) Hes)|apply IHe; [assumption|lia]].
Qed.

(* ---------------------------------------------------------------- the object under construction *)
Record Inv (c : ctx) (g : gmeta) (m : mbase) (done T : list tnode) : Prop := mkInv {
  inv_fp : mb_fp m = fp_after (g_traits g) done;
  inv_subs : mb_subs m = g_subs g;
  inv_keys : keys_le m (lenN done);
  inv_tree : tree_of c m = Some T;
  inv_P : P T = P done;
  inv_unk : mb_unknown m = [];
  inv_grp : forall f, ~ In f (map n_tag done) -> map_find f (mb_groups m) = None;
  inv_ent : forall q f w, In (q, (f, w)) (mb_pos m) -> In f (map n_tag done);
  inv_legal : forall f, In f (map n_tag done) -> find_trait (g_traits g) f <> None;
  inv_fields : forall f, In f (map n_tag done) -> map_find f (mb_fields m) <> None
}.

Lemma Inv_init c g : Inv c g (create_group g false) [] [].
Proof.
  constructor; try reflexivity.
  - intros q y H. destruct H.
  - intros q f w H. destruct H.
  - intros f H. destruct H.
  - intros f H. destruct H.
Qed.

Lemma map_find_insert_some {A} k (v : A) : forall l, map_find k (map_insert k v l) <> None.
Proof.
  induction l as [|[q w] l IH]; cbn [map_insert map_find]; [rewrite N.eqb_refl; discriminate|].
  destruct (k <? q); [cbn [map_find]; rewrite N.eqb_refl; discriminate|].
  destruct (k =? q) eqn:E; cbn [map_find]; rewrite E; [discriminate|exact IH].
Qed.
Lemma mb_fields_add_dec m j n : mb_fields (add_dec m j n) = map_insert (n_tag n) (n_val n) (mb_fields m).
Proof. destruct m. reflexivity. Qed.
Lemma mb_fields_attach m f es : mb_fields (attach m f es) = mb_fields m.
Proof. destruct m. reflexivity. Qed.
Lemma fields_step m j n done : (forall f, In f (map n_tag done) -> map_find f (mb_fields m) <> None) ->
  forall f, In f (map n_tag (done ++ [n])) -> map_find f (mb_fields (add_dec m j n)) <> None.
Proof.
  intros H f Hin. rewrite mb_fields_add_dec. rewrite map_app in Hin. apply in_app_or in Hin.
  destruct (N.eq_dec f (n_tag n)) as [->|Hne]; [apply map_find_insert_some|].
  rewrite map_find_insert_other by exact Hne. destruct Hin as [Hin|[Hin|[]]]; [apply H; exact Hin|congruence].
Qed.

Lemma lenN_snoc {A} (l : list A) x : lenN (l ++ [x]) = lenN l + 1.
Proof. rewrite lenN_app. reflexivity. Qed.

Lemma add_dec_pos_in m j n e : keys_le m j -> j + 1 < 65536 ->
  In e (mb_pos (add_dec m j n)) -> In e (mb_pos m) \/ e = (j + 1, (n_tag n, n_val n)).
Proof.
  destruct m as [fp subs fl pos groups unk]. unfold keys_le. cbn [mb_pos]. intros Hk Hj.
  rewrite add_dec_shape by assumption. cbn [mb_pos]. intros H. apply in_app_or in H.
  destruct H as [H|[H|[]]]; [left; exact H|right; symmetry; exact H].
Qed.

Lemma P_snoc T x : P (T ++ [x]) = P T ++ npairs x.
Proof. rewrite flat_map_app. cbn [flat_map]. rewrite app_nil_r. reflexivity. Qed.

Lemma memN_false x l : memN x l = false <-> ~ In x l.
Proof. rewrite <- memN_In. destruct (memN x l); split; congruence. Qed.

(* static trait of a field not yet decoded in this object *)
Lemma Inv_find c g m done T f : Inv c g m done T -> ~ In f (map n_tag done) ->
  find_trait (mb_fp m) f = find_trait (g_traits g) f.
Proof.
  intros I Hn. rewrite (inv_fp _ _ _ _ _ I), find_trait_after.
  replace (memN f (map n_tag done)) with false by (symmetry; apply memN_false; exact Hn). reflexivity.
Qed.
Lemma Inv_find_done c g m done T f : Inv c g m done T -> In f (map n_tag done) ->
  exists tr, find_trait (mb_fp m) f = Some tr /\ t_present tr = true.
Proof.
  intros I Hin. rewrite (inv_fp _ _ _ _ _ I), find_trait_after.
  replace (memN f (map n_tag done)) with true by (symmetry; apply memN_In; exact Hin).
  pose proof (inv_legal _ _ _ _ _ I f Hin) as Hl. destruct (find_trait (g_traits g) f) as [tr|]; [|congruence].
  exists (set_present true tr). split; reflexivity.
Qed.

(* one more plain field *)
Lemma Inv_plain c g m done T k f rv tr :
  Inv c g m done T -> ~ In f (map n_tag done) -> lenN done + 1 < 65536 ->
  find_trait (g_traits g) f = Some tr -> t_suppress tr = false ->
  (t_group tr && has_group_count_c c f rv) = false ->
  c_render c (ftype_of c f (t_ftype tr)) rv = rv ->
  Inv c g (add_dec m (lenN done) (TN k f rv [])) (done ++ [TN k f rv []]) (T ++ [TN (lenN done + 1) f rv []]).
Proof.
  intros I Hn Hl Htr Hs Hg Hr. pose proof (Inv_find c g m done T f I Hn) as Hf. rewrite Htr in Hf.
  constructor.
  - rewrite mb_fp_add_dec, (inv_fp _ _ _ _ _ I), fp_after_app. reflexivity.
  - rewrite mb_subs_add_dec. apply (inv_subs _ _ _ _ _ I).
  - rewrite lenN_snoc. apply keys_le_add_dec; [apply (inv_keys _ _ _ _ _ I)|exact Hl].
  - apply (tree_add_plain c m (lenN done) (TN k f rv []) T tr (inv_keys _ _ _ _ _ I) Hl (inv_tree _ _ _ _ _ I) Hf Hs Hg Hr).
  - rewrite !P_snoc, (inv_P _ _ _ _ _ I). reflexivity.
  - rewrite mb_unknown_add_dec. apply (inv_unk _ _ _ _ _ I).
  - intros f' Hf'. rewrite mb_groups_add_dec. apply (inv_grp _ _ _ _ _ I). intros Hc. apply Hf'. rewrite map_app. apply in_or_app. left. exact Hc.
  - intros q f' w Hin. rewrite map_app. apply in_or_app.
    destruct (add_dec_pos_in m (lenN done) _ _ (inv_keys _ _ _ _ _ I) Hl Hin) as [H|H].
    + left. apply (inv_ent _ _ _ _ _ I q f' w H).
    + right. injection H as _ -> _. left. reflexivity.
  - intros f' Hin. rewrite map_app in Hin. apply in_app_or in Hin. destruct Hin as [Hin|[<-|[]]].
    + apply (inv_legal _ _ _ _ _ I f' Hin).
    + cbn [n_tag]. rewrite Htr. discriminate.
  - apply (fields_step m (lenN done) (TN k f rv []) done (inv_fields _ _ _ _ _ I)).
Qed.

(* one more group count field with its decoded elements *)
Lemma Inv_group c g m done T k f rv els tr objs ts :
  Inv c g m done T -> ~ In f (map n_tag done) -> lenN done + 1 < 65536 ->
  find_trait (g_traits g) f = Some tr -> t_suppress tr = false ->
  (t_group tr && has_group_count_c c f rv) = true ->
  c_render c (ftype_of c f (t_ftype tr)) rv = rv ->
  elts_trees c objs = Some ts -> PE ts = PE els ->
  Inv c g (attach (add_dec m (lenN done) (TN k f rv els)) f objs) (done ++ [TN k f rv els])
      (T ++ [TN (lenN done + 1) f rv ts]).
Proof.
  intros I Hn Hl Htr Hs Hg Hr Hes HPE. pose proof (Inv_find c g m done T f I Hn) as Hf. rewrite Htr in Hf.
  constructor.
  - rewrite mb_fp_attach, mb_fp_add_dec, (inv_fp _ _ _ _ _ I), fp_after_app. reflexivity.
  - rewrite mb_subs_attach, mb_subs_add_dec. apply (inv_subs _ _ _ _ _ I).
  - rewrite lenN_snoc. unfold keys_le. rewrite mb_pos_attach. apply keys_le_add_dec; [apply (inv_keys _ _ _ _ _ I)|exact Hl].
  - apply (tree_add_group c m (lenN done) (TN k f rv els) T tr objs ts (inv_keys _ _ _ _ _ I) Hl (inv_tree _ _ _ _ _ I) Hf Hs Hg Hr).
    + apply (inv_grp _ _ _ _ _ I). exact Hn.
    + intros q g' w Hin Hc. subst g'. apply Hn. apply (inv_ent _ _ _ _ _ I q f w Hin).
    + exact Hes.
  - rewrite !P_snoc, (inv_P _ _ _ _ _ I). cbn [npairs]. f_equal. f_equal. exact HPE.
  - rewrite mb_unknown_attach, mb_unknown_add_dec. apply (inv_unk _ _ _ _ _ I).
  - intros f' Hf'. assert (Hne : f' <> f) by (intros ->; apply Hf'; rewrite map_app; apply in_or_app; right; left; reflexivity).
    rewrite mb_groups_attach_other by exact Hne. rewrite mb_groups_add_dec. apply (inv_grp _ _ _ _ _ I).
    intros Hc. apply Hf'. rewrite map_app. apply in_or_app. left. exact Hc.
  - intros q f' w Hin. rewrite mb_pos_attach in Hin. rewrite map_app. apply in_or_app.
    destruct (add_dec_pos_in m (lenN done) _ _ (inv_keys _ _ _ _ _ I) Hl Hin) as [H|H].
    + left. apply (inv_ent _ _ _ _ _ I q f' w H).
    + right. injection H as _ -> _. left. reflexivity.
  - intros f' Hin. rewrite map_app in Hin. apply in_app_or in Hin. destruct Hin as [Hin|[<-|[]]].
    + apply (inv_legal _ _ _ _ _ I f' Hin).
    + cbn [n_tag]. rewrite Htr. discriminate.
  - intros f' Hin. rewrite mb_fields_attach. apply (fields_step m (lenN done) (TN k f rv els) done (inv_fields _ _ _ _ _ I) f' Hin).
Qed.

(* ---------------------------------------------------------------- the loops *)
Section Loops.
Variable c : ctx.
Variable from : list N.
Variable fsize : N.
Notation dgE := (dg_elem c real_caps from fsize).
Notation dgL := (dg_loop c real_caps from fsize).
Notation dgG := (decode_group c real_caps from fsize).

Lemma dgE_S fuel' grp pos off : dgE (S fuel') grp pos off =
  if off <? fsize then
    match tok_at real_caps from fsize off with
    | XOOB s => OOB s
    | XFail _ _ => Ok (grp, pos, off, SStall)
    | XOk tag val result =>
      let tv32 := fast_atoi_u32 tag in
      let tv := tv32 mod 65536 in
      match find_trait (mb_fp grp) tv with
      | None => if pos =? 0 then Exc (EMissingGroupField tv32) else Ok (grp, pos, off, SForeign)
      | Some tr =>
          if t_present tr then Ok (grp, pos, off, SDup)
          else if (pos =? 0) && negb (getPos tr =? 1) then Exc (EMissingGroupField tv32)
          else match find_be (c_fields c) tv with
          | None => Ok (grp, pos, off, SForeign)
          | Some _ =>
            let off1 := off + result in
            let pos1 := pos + 1 in
            let v := cstr val in
            let g1 := mark_present (add_field_decoder grp tv pos1 v) tv in
            if t_group tr && has_group_count_c c tv v then
              match dgG fuel' g1 tv off1 with
              | Ok (g2, off2) => dgE fuel' g2 pos1 off2
              | Exc e => Exc e | OOB s => OOB s | Diverge => Diverge | Fuel => Fuel
              end
            else dgE fuel' g1 pos1 off1
          end
      end
    end
  else Ok (grp, pos, off, SEnd).
Proof. reflexivity. Qed.

Lemma dgL_S fuel' gm els off : dgL (S fuel') gm els off =
  if off <? fsize then
    match dgE fuel' (create_group gm false) 0 off with
    | Exc e => Exc e | OOB s => OOB s | Diverge => Diverge | Fuel => Fuel
    | Ok (grp, pos, off', why) =>
      match mb_fields grp with
      | [] => Ok (els, off')
      | _ :: _ =>
        match find_missing (mb_fp grp) with
        | Some f => Exc (EMissingMandatory f)
        | None =>
          let els' := els ++ [grp] in
          match why with
          | SForeign => Ok (els', off')
          | SEnd => Ok (els', off')
          | SDup => dgL fuel' gm els' off'
          | SStall => Ok (els', off')
          end
        end
      end
    end
  else Ok (els, off).
Proof. reflexivity. Qed.

Lemma dgG_S fuel' m f off : dgG (S fuel') m f off =
  match find_add_group m f with
  | Exc e => Exc e | OOB s => OOB s | Diverge => Diverge | Fuel => Fuel
  | Ok (m1, gm) =>
    let els0 := match map_find f (mb_groups m1) with Some l => l | None => [] end in
    match dgL fuel' gm els0 off with
    | Ok (els, off') => Ok (with_groups m1 (map_set f els (mb_groups m1)), off')
    | Exc e => Exc e | OOB s => OOB s | Diverge => Diverge | Fuel => Fuel
    end
  end.
Proof. reflexivity. Qed.

Definition stopw (seen : list N) (rp : list (N * list N)) : stop :=
  match rp with [] => SEnd | (f, _) :: _ => if memN f seen then SDup else SForeign end.
Definition rest_g (outer seen : list N) (rp : list (N * list N)) : Prop :=
  match rp with [] => True | (f, _) :: _ => In f seen \/ In f outer end.

Lemma pbytes_pos p : 0 < lenN (pbytes p).
Proof. destruct p as [f v]. rewrite pbytes_len. lia. Qed.

(* the element loop DE, for trees of size <= n *)
Definition DE (n : nat) : Prop :=
  forall sg outer ns done grp T pre rp tail fuel,
    (length (P ns) <= n)%nat -> wf_meta outer sg = true -> disj (tags sg) outer ->
    Forall (fun x => wf_node sg x = true) ns -> dnodes_ok c false sg ns = true ->
    NoDup (map n_tag (done ++ ns)) ->
    (done = [] -> match ns with x :: _ => n_key x = 1 | [] => False end) ->
    Inv c sg grp done T -> stream from fsize pre (P ns ++ rp) tail -> Forall pok rp ->
    rest_g outer (map n_tag (done ++ ns)) rp -> lenN (done ++ ns) < 65536 ->
    (3 * length (P ns) + 1 <= fuel)%nat ->
    exists grp' T',
      dgE fuel grp (lenN done) (lenN pre) =
        Ok (grp', lenN (done ++ ns), lenN pre + lenN (flat_map pbytes (P ns)), stopw (map n_tag (done ++ ns)) rp) /\
      Inv c sg grp' (done ++ ns) T'.

(* the element loop of a group, for elements of size <= n *)
Definition DL (n : nat) : Prop :=
  forall sg outer els acc pre rp tail fuel,
    (forall e, In e els -> (length (P e) <= n)%nat) -> wf_meta outer sg = true -> disj (tags sg) outer ->
    wf_elems sg els = true -> delems_ok c sg els = true -> els <> [] ->
    stream from fsize pre (PE els ++ rp) tail -> Forall pok rp -> head_in outer rp ->
    (3 * length (PE els) + 2 <= fuel)%nat ->
    exists objs ts,
      dgL fuel sg acc (lenN pre) = Ok (acc ++ objs, lenN pre + lenN (flat_map pbytes (PE els))) /\
      elts_trees c objs = Some ts /\ PE ts = PE els.

Lemma nodupN_NoDup' l : nodupN l = true -> NoDup l.
Proof.
  induction l as [|x l IH]; intros H; [constructor|]. apply nodupN_notin in H. destruct H as [H1 H2].
  constructor; [exact H1|apply IH; exact H2].
Qed.

Lemma wf_nodes_each g : forall ns last, wf_nodes g last ns = true -> Forall (fun x => wf_node g x = true) ns.
Proof.
  induction ns as [|x ns IH]; intros last H; [constructor|]. cbn [wf_nodes] in H.
  apply andb_prop in H. destruct H as [H Hr]. apply andb_prop in H. destruct H as [_ Hx].
  constructor; [exact Hx|apply (IH _ Hr)].
Qed.

Lemma node_first_tag sg x tr : wf_node sg x = true -> find_trait (g_traits sg) (n_tag x) = Some tr -> t_pos tr = n_key x.
Proof.
  destruct x as [k f rv els]. rewrite wf_node_unfold. cbn [n_tag n_key]. intros H Htr. rewrite Htr in H.
  apply andb_prop in H. destruct H as [H _]. apply andb_prop in H. destruct H as [H _]. apply N.eqb_eq. exact H.
Qed.

Lemma DL_of_DE n : (forall k, (k <= n)%nat -> DE k) -> DL n.
Proof.
  intros HDE sg outer els. induction els as [|e es IH]; intros acc pre rp tail fuel Hsz Hwm Hdj Hwf Hd Hne Hst Hpok Hrp Hfuel; [congruence|].
  destruct fuel as [|fuel]; [lia|].
  cbn [wf_elems] in Hwf. apply andb_prop in Hwf. destruct Hwf as [Hwf Hes]. apply andb_prop in Hwf. destruct Hwf as [Hk1 Hwe].
  cbn [delems_ok] in Hd. apply andb_prop in Hd. destruct Hd as [Hd Hdes]. apply andb_prop in Hd. destruct Hd as [Hd Hl].
  apply andb_prop in Hd. destruct Hd as [Hd Hnd]. apply andb_prop in Hd. destruct Hd as [Hde Hmand].
  destruct e as [|x e']; [discriminate|]. apply N.eqb_eq in Hk1. apply N.ltb_lt in Hl.
  rewrite PE_cons, <- app_assoc in Hst. rewrite PE_cons, app_length in Hfuel.
  (* the token after this element *)
  destruct (wf_meta_parts _ _ Hwm) as (_ & Hndp & _).
  assert (Hx : exists trx, find_trait (g_traits sg) (n_tag x) = Some trx /\ t_pos trx = 1).
  { pose proof (Forall_inv (wf_nodes_each sg _ _ Hwe)) as Hwx. destruct x as [k f rv els0]. pose proof Hwx as Hwx'.
    rewrite wf_node_unfold in Hwx. cbn [n_tag]. destruct (find_trait (g_traits sg) f) as [trx|] eqn:E; [|discriminate].
    exists trx. split; [reflexivity|]. rewrite <- Hk1. apply (node_first_tag sg (TN k f rv els0) trx Hwx'). exact E. }
  destruct Hx as (trx & Htrx & Hpx).
  assert (Hrest : rest_g outer (map n_tag ([] ++ x :: e')) (PE es ++ rp)).
  { destruct es as [|e2 es2].
    - cbn [PE flat_map app]. destruct rp as [|[f2 v2] rp2]; [exact I|]. right. exact Hrp.
    - cbn [wf_elems] in Hes. apply andb_prop in Hes. destruct Hes as [Hes _]. apply andb_prop in Hes. destruct Hes as [Hk2 He2].
      destruct e2 as [|x2 e2']; [discriminate|]. apply N.eqb_eq in Hk2.
      pose proof (Forall_inv (wf_nodes_each sg _ _ He2)) as Hw2.
      destruct x2 as [k2 f2 rv2 els2]. rewrite PE_cons, P_cons. cbn [npairs app rest_g]. left. cbn [app map]. left.
      pose proof Hw2 as Hw2'. rewrite wf_node_unfold in Hw2. destruct (find_trait (g_traits sg) f2) as [tr2|] eqn:E2; [|discriminate].
      pose proof (node_first_tag sg _ tr2 Hw2' E2) as Hp2. cbn [n_key] in Hp2, Hk2.
      pose proof (first_tag_unique sg (n_tag x) trx Hndp Htrx Hpx) as F1.
      pose proof (first_tag_unique sg f2 tr2 Hndp E2 ltac:(lia)) as F2. congruence. }
  assert (Hlen : (length (P (x :: e')) <= n)%nat) by (apply Hsz; left; reflexivity).
  destruct (HDE n (le_n n) sg outer (x :: e') [] (create_group sg false) [] pre (PE es ++ rp) tail fuel
              Hlen Hwm Hdj (wf_nodes_each sg _ _ Hwe) Hde (nodupN_NoDup' _ Hnd) (fun _ => Hk1)
              (Inv_init c sg) Hst) as (grp' & T' & Hrun & I').
  { apply Forall_app. split; [|exact Hpok].
    destruct es as [|e2 es2]; [constructor|].
    assert (Hall : delems_ok c sg (e2 :: es2) = true) by exact Hdes.
    clear -Hall. revert Hall. generalize (e2 :: es2). intros l. induction l as [|a l IHl]; intros H; [constructor|].
    rewrite PE_cons. cbn [delems_ok] in H. repeat (apply andb_prop in H; let X := fresh "E" in destruct H as [H X]).
    apply Forall_app. split; [apply (dnodes_pok c _ false sg a (le_n _) H)|apply IHl; assumption]. }
  { exact Hrest. }
  { cbn [app]. exact Hl. }
  { lia. }
  cbn [app] in Hrun, I'. cbn [lenN] in Hrun.
  assert (Hoff : (lenN pre <? fsize) = true).
  { apply N.ltb_lt. destruct Hst as [_ Hs2]. rewrite Hs2, P_cons. destruct x as [k f rv els0]. cbn [npairs app flat_map].
    rewrite lenN_app. pose proof (pbytes_pos (f, rv)). lia. }
  assert (Hmiss : find_missing (mb_fp grp') = None).
  { rewrite (inv_fp _ _ _ _ _ I'). unfold mand_okb in Hmand. destruct (find_missing (fp_after (g_traits sg) (x :: e'))); [discriminate|reflexivity]. }
  assert (Hunk : mb_unknown grp' = []) by apply (inv_unk _ _ _ _ _ I').
  assert (Htags : forall f, In f (map n_tag (x :: e')) -> In f (tags sg)).
  { intros f Hin. pose proof (inv_legal _ _ _ _ _ I' f Hin) as Hl'. destruct (find_trait (g_traits sg) f) as [tf|] eqn:E; [|congruence].
    apply (find_trait_In _ _ _ E). }
  assert (Hfne : exists a l, mb_fields grp' = a :: l).
  { (* the element is not empty: its first field was filed *)
    pose proof (inv_fields _ _ _ _ _ I' (n_tag x) (or_introl eq_refl)) as Hf.
    destruct (mb_fields grp') as [|a l]; [exfalso; apply Hf; reflexivity|exists a, l; reflexivity]. }
  destruct Hfne as (fa & fl & Hfne).
  rewrite dgL_S, Hoff, Hrun, Hfne, Hmiss.
  destruct es as [|e2 es2].
  - (* last element *)
    cbn [PE flat_map app] in *. rewrite app_nil_r.
    exists [grp'], [T']. split; [|split; [cbn [elts_trees]; rewrite Hunk, (inv_tree _ _ _ _ _ I'); reflexivity|cbn [PE flat_map]; rewrite !app_nil_r; apply (inv_P _ _ _ _ _ I')]].
    destruct rp as [|[f2 v2] rp2]; cbn [stopw]; [reflexivity|].
    replace (memN f2 (map n_tag (x :: e'))) with false; [reflexivity|].
    symmetry. apply memN_false. intros Hin. exact (Hdj f2 (Htags f2 Hin) Hrp).
  - (* more elements: the next token repeats the first tag *)
    assert (Hsd : stopw (map n_tag (x :: e')) (PE (e2 :: es2) ++ rp) = SDup).
    { cbn [rest_g app] in Hrest. destruct (PE (e2 :: es2) ++ rp) as [|[f2 v2] r2] eqn:E.
      - exfalso. cbn [wf_elems] in Hes. apply andb_prop in Hes. destruct Hes as [Hes _]. apply andb_prop in Hes. destruct Hes as [Hk2 _].
        destruct e2 as [|[k2 f2 rv2 els2] e2']; [discriminate|]. rewrite PE_cons, P_cons in E. discriminate E.
      - cbn [stopw]. destruct Hrest as [Hin|Hin].
        + apply memN_In in Hin. rewrite Hin. reflexivity.
        + exfalso. (* the head is the first tag of e2, a tag of sg *)
          cbn [wf_elems] in Hes. apply andb_prop in Hes. destruct Hes as [Hes _]. apply andb_prop in Hes. destruct Hes as [Hk2 He2].
          destruct e2 as [|[k2 g2 rv2 els2] e2']; [discriminate Hk2|].
          rewrite PE_cons, P_cons in E. cbn [npairs app] in E. injection E as <- _ _.
          pose proof (node_tag_in sg 0 _ _ He2) as Hin2. cbn [n_tag] in Hin2. exact (Hdj _ Hin2 Hin). }
    rewrite Hsd.
    assert (Hst2 : stream from fsize (pre ++ flat_map pbytes (P (x :: e'))) (PE (e2 :: es2) ++ rp) tail).
    { destruct Hst as [Hs1 Hs2]. split.
      - rewrite Hs1, flat_map_app, <- !app_assoc. reflexivity.
      - rewrite Hs2, flat_map_app, !lenN_app. lia. }
    replace (lenN pre + lenN (flat_map pbytes (P (x :: e')))) with (lenN (pre ++ flat_map pbytes (P (x :: e')))) by apply lenN_app.
    destruct (IH (acc ++ [grp']) (pre ++ flat_map pbytes (P (x :: e'))) rp tail fuel) as (objs & ts & Hrun2 & Hts & HPE).
    + intros e0 He0. apply Hsz. right. exact He0.
    + exact Hwm.
    + exact Hdj.
    + exact Hes.
    + exact Hdes.
    + discriminate.
    + exact Hst2.
    + exact Hpok.
    + exact Hrp.
    + assert (1 <= length (P (x :: e')))%nat by (rewrite P_cons; destruct x; cbn [npairs app length]; lia). lia.
    + exists (grp' :: objs), (T' :: ts). split; [|split].
      * cbv zeta. rewrite Hrun2. rewrite <- app_assoc. cbn [app]. f_equal. f_equal. rewrite (PE_cons (x :: e') (e2 :: es2)), flat_map_app, !lenN_app.
        generalize (lenN pre) (lenN (flat_map pbytes (P (x :: e')))) (lenN (flat_map pbytes (PE (e2 :: es2)))). intros; lia.
      * cbn [elts_trees]. rewrite Hunk, (inv_tree _ _ _ _ _ I'), Hts. reflexivity.
      * rewrite !PE_cons, HPE, (inv_P _ _ _ _ _ I'). reflexivity.
Qed.

(* decode_group on an object that has not seen the group yet *)
Lemma DG_of_DL n : DL n ->
  forall g m done T f sg outer els pre rp tail fuel,
    Inv c g m done T -> ~ In f (map n_tag done) -> find_sub (g_subs g) f = Some sg ->
    (forall e, In e els -> (length (P e) <= n)%nat) -> wf_meta outer sg = true -> disj (tags sg) outer ->
    wf_elems sg els = true -> delems_ok c sg els = true -> els <> [] ->
    stream from fsize pre (PE els ++ rp) tail -> Forall pok rp -> head_in outer rp ->
    (3 * length (PE els) + 3 <= fuel)%nat ->
    exists objs ts,
      dgG fuel m f (lenN pre) = Ok (attach m f objs, lenN pre + lenN (flat_map pbytes (PE els))) /\
      elts_trees c objs = Some ts /\ PE ts = PE els.
Proof.
  intros HDL g m done T f sg outer els pre rp tail fuel I Hn Hsub Hsz Hwm Hdj Hwf Hd Hne Hst Hpok Hrp Hfuel.
  destruct fuel as [|fuel]; [lia|].
  destruct (HDL sg outer els [] pre rp tail fuel Hsz Hwm Hdj Hwf Hd Hne Hst Hpok Hrp ltac:(lia)) as (objs & ts & Hrun & Hts & HPE).
  exists objs, ts. split; [|split; assumption].
  rewrite dgG_S. unfold find_add_group. rewrite (inv_subs _ _ _ _ _ I), Hsub.
  cbn [mb_groups with_groups]. destruct m as [fp subs fl pos groups unk]. cbn [mb_groups with_groups].
  pose proof (inv_grp _ _ _ _ _ I f Hn) as Hnone. cbn [mb_groups] in Hnone.
  rewrite map_find_insert_same by exact Hnone. cbv zeta. rewrite Hrun. cbn [app]. reflexivity.
Qed.

Theorem DE_all : forall n, DE n.
Proof.
  induction n as [n IHn] using (well_founded_induction lt_wf).
  unfold DE. intros sg outer ns. induction ns as [|x ns IH];
    intros done grp T pre rp tail fuel Hsz Hwm Hdj Hwf Hd Hnd Hfirst I Hst Hpok Hrest Hlen Hfuel.
  - (* no node left *)
    rewrite app_nil_r in *. cbn [flat_map app lenN] in *. rewrite N.add_0_r.
    destruct fuel as [|fuel]; [lia|]. exists grp, T. split; [|exact I]. rewrite dgE_S.
    destruct Hst as [Hs1 Hs2]. destruct rp as [|[f v] rp].
    + cbn [flat_map lenN] in Hs2. replace (lenN pre <? fsize) with false by (symmetry; apply N.ltb_ge; lia). reflexivity.
    + assert (Hoff : (lenN pre <? fsize) = true).
      { apply N.ltb_lt. rewrite Hs2. cbn [flat_map]. rewrite lenN_app. pose proof (pbytes_pos (f, v)). lia. }
      rewrite Hoff. pose proof (Forall_inv Hpok) as Hp.
      rewrite (tok_next from fsize pre (f, v) rp tail (conj Hs1 Hs2) Hp). cbn [fst snd].
      destruct Hp as (_ & _ & _ & Hf). cbn [fst] in Hf. cbv zeta. rewrite atoi_u32_itoa by lia.
      rewrite N.mod_small by exact Hf. cbn [stopw].
      destruct (memN f (map n_tag done)) eqn:Em.
      * apply memN_In in Em. destruct (Inv_find_done c sg grp done T f I Em) as (tr & Htr & Hpr). rewrite Htr, Hpr. reflexivity.
      * apply memN_false in Em. rewrite (Inv_find c sg grp done T f I Em).
        cbn [rest_g] in Hrest. destruct Hrest as [Hin|Hin]; [contradiction|].
        rewrite find_trait_notin by (intros Hc; exact (Hdj f Hc Hin)).
        destruct done as [|d0 done']; [exfalso; exact (Hfirst eq_refl)|].
        replace (lenN (d0 :: done') =? 0) with false by (symmetry; apply N.eqb_neq; cbn [lenN]; lia). reflexivity.
  - (* next node *)
    destruct fuel as [|fuel]; [lia|].
    pose proof (Forall_inv Hwf) as Hwx. pose proof (Forall_inv_tail Hwf) as Hwf'.
    cbn [dnodes_ok forallb] in Hd. apply andb_prop in Hd. destruct Hd as [Hdx Hd'].
    destruct x as [k f rv els]. pose proof Hwx as Hwx0. rewrite wf_node_unfold in Hwx. rewrite dnode_ok_unfold in Hdx.
    destruct (find_trait (g_traits sg) f) as [tr|] eqn:Etr; [|discriminate].
    apply andb_prop in Hwx. destruct Hwx as [Hwx Hgrp]. apply andb_prop in Hwx. destruct Hwx as [Hpos _]. apply N.eqb_eq in Hpos.
    repeat (apply andb_prop in Hdx; let H := fresh "D" in destruct Hdx as [Hdx H]).
    rename D into Dels, D0 into Dlen, D1 into Dflag, D2 into Dren, D3 into Dpok, D4 into Dbe, D5 into Dhp, D6 into Dsup.
    apply list_eqb_eq in Dren. apply Bool.eqb_prop in Dflag.
    assert (Hnin : ~ In f (map n_tag done)).
    { rewrite map_app in Hnd. cbn [map n_tag] in Hnd. apply NoDup_remove_2 in Hnd. intros Hc. apply Hnd. apply in_or_app. left. exact Hc. }
    rewrite P_cons in Hst, Hsz, Hfuel |- *. cbn [npairs] in Hst, Hsz, Hfuel |- *. cbn [app] in Hst. rewrite <- app_assoc in Hst.
    cbn [app length] in Hsz, Hfuel. rewrite app_length in Hsz, Hfuel.
    pose proof Hst as [Hs1 Hs2].
    assert (Hoff : (lenN pre <? fsize) = true).
    { apply N.ltb_lt. rewrite Hs2. cbn [flat_map]. rewrite lenN_app. pose proof (pbytes_pos (f, rv)). lia. }
    pose proof (pokv_sound f rv Dpok) as Hp.
    rewrite dgE_S, Hoff, (tok_next from fsize pre (f, rv) _ tail Hst Hp). cbn [fst snd]. cbv zeta.
    pose proof Hp as (_ & Hnul & _ & Hf). cbn [fst snd] in Hf, Hnul.
    rewrite atoi_u32_itoa by lia. rewrite N.mod_small by exact Hf.
    rewrite (Inv_find c sg grp done T f I Hnin), Etr.
    destruct (t_present tr); [discriminate|]. destruct (t_suppress tr) eqn:Esup; [discriminate|].
    assert (Hfirstok : ((lenN done =? 0) && negb (getPos tr =? 1)) = false).
    { destruct done as [|d0 done'].
      - specialize (Hfirst eq_refl). cbn [n_key] in Hfirst. unfold getPos. rewrite Dhp, Hpos, Hfirst. reflexivity.
      - replace (lenN (d0 :: done') =? 0) with false by (symmetry; apply N.eqb_neq; cbn [lenN]; lia). reflexivity. }
    rewrite Hfirstok. destruct (find_be (c_fields c) f) as [ty|]; [|discriminate].
    rewrite (cstr_no_nul rv Hnul).
    change (mark_present (add_field_decoder grp f (lenN done + 1) rv) f) with (add_dec grp (lenN done) (TN k f rv els)).
    assert (Hl1 : lenN done + 1 < 65536) by (rewrite lenN_app in Hlen; cbn [lenN] in Hlen; lia).
    assert (Hstep : done ++ TN k f rv els :: ns = (done ++ [TN k f rv els]) ++ ns) by (rewrite <- app_assoc; reflexivity).
    assert (Hfirst' : done ++ [TN k f rv els] = [] -> match ns with x :: _ => n_key x = 1 | [] => False end).
    { intros E. apply app_eq_nil in E. destruct E; discriminate. }
    replace (lenN pre + lenN (pbytes (f, rv))) with (lenN (pre ++ pbytes (f, rv))) by apply lenN_app.
    rewrite Dflag. destruct els as [|e0 els0].
    + (* plain field *)
      cbn [nonempty]. cbn [PE flat_map app] in *.
      assert (Hg0 : (t_group tr && has_group_count_c c f rv) = false) by exact Dflag.
      pose proof (Inv_plain c sg grp done T k f rv tr I Hnin Hl1 Etr Esup Hg0 Dren) as I1.
      destruct (IH (done ++ [TN k f rv []]) _ _ (pre ++ pbytes (f, rv)) rp tail fuel ltac:(lia) Hwm Hdj Hwf' Hd'
                  ltac:(rewrite <- Hstep; exact Hnd) Hfirst' I1 (stream_step from fsize pre (f, rv) _ tail Hst) Hpok
                  ltac:(rewrite <- Hstep; exact Hrest) ltac:(rewrite <- Hstep; exact Hlen) ltac:(lia)) as (grp' & T' & Hrun & I').
      exists grp', T'. rewrite <- Hstep in *. split; [|exact I'].
      rewrite lenN_snoc in Hrun. rewrite Hrun. f_equal. f_equal. f_equal. cbn [flat_map]. rewrite !lenN_app. lia.
    + (* group count field followed by its elements *)
      cbn [nonempty].
      destruct (t_group tr) eqn:Egrp; [|discriminate Dflag].
      destruct (decimal rv) as [cnt|]; [|discriminate]. destruct (find_sub (g_subs sg) f) as [ssg|] eqn:Esub; [|discriminate].
      apply andb_prop in Hgrp. destruct Hgrp as [_ Hwels].
      destruct (wf_meta_parts _ _ Hwm) as (_ & _ & Hsubs). destruct (Hsubs f ssg Esub) as [Hdsg Hwsg].
      set (els := e0 :: els0) in *.
      assert (HDLn : DL (length (PE els))).
      { apply DL_of_DE. intros k0 Hk0. apply IHn. unfold PE in Hk0. lia. }
      assert (Hhead : head_in (tags sg ++ outer) (P ns ++ rp)).
      { destruct ns as [|y ns'].
        - cbn [flat_map app]. destruct rp as [|[f2 v2] rp2]; [exact Logic.I|]. cbn [head_in rest_g] in *.
          apply in_or_app. destruct Hrest as [Hin|Hin]; [left|right; exact Hin].
          rewrite map_app in Hin. apply in_app_or in Hin. destruct Hin as [Hin|[<-|[]]].
          + pose proof (inv_legal _ _ _ _ _ I f2 Hin) as Hl2. destruct (find_trait (g_traits sg) f2) as [t2|] eqn:E2; [|congruence]. apply (find_trait_In _ _ _ E2).
          + cbn [n_tag]. apply (find_trait_In _ _ _ Etr).
        - pose proof (Forall_inv Hwf') as Hwy. destruct y as [ky fy rvy elsy]. rewrite P_cons. cbn [npairs app head_in].
          apply in_or_app. left. rewrite wf_node_unfold in Hwy. destruct (find_trait (g_traits sg) fy) as [ty'|] eqn:Ey; [|discriminate].
          apply (find_trait_In _ _ _ Ey). }
      assert (Hpok2 : Forall pok (P ns ++ rp)).
      { apply Forall_app. split; [apply (dnodes_pok c _ false sg ns (le_n _) Hd')|exact Hpok]. }
      (* the object right after the count field, before the group is attached: use the Inv of grp for decode_group *)
      assert (Ig : exists objs ts,
                 dgG fuel (add_dec grp (lenN done) (TN k f rv els)) f (lenN (pre ++ pbytes (f, rv))) =
                 Ok (attach (add_dec grp (lenN done) (TN k f rv els)) f objs,
                     lenN (pre ++ pbytes (f, rv)) + lenN (flat_map pbytes (PE els))) /\
                 elts_trees c objs = Some ts /\ PE ts = PE els).
      { (* the groups / subs of add_dec grp are those of grp *)
        destruct fuel as [|fuel0]; [lia|].
        destruct (HDLn ssg (tags sg ++ outer) els [] (pre ++ pbytes (f, rv)) (P ns ++ rp) tail fuel0
                    (wf_elems_sizes els) Hwsg (disjN_spec _ _ Hdsg) Hwels Dels ltac:(discriminate)
                    (stream_step from fsize pre (f, rv) _ tail Hst) Hpok2 Hhead) as (objs & ts & Hrun & Hts & HPE).
        { unfold PE. lia. }
        exists objs, ts. split; [|split; assumption].
        rewrite dgG_S. unfold find_add_group. rewrite mb_subs_add_dec, (inv_subs _ _ _ _ _ I), Esub.
        rewrite mb_groups_add_dec.
        pose proof (inv_grp _ _ _ _ _ I f Hnin) as Hnone.
        destruct (add_dec grp (lenN done) (TN k f rv els)) as [fp1 subs1 fl1 pos1 gr1 unk1] eqn:Ead.
        assert (Hg1 : gr1 = mb_groups grp) by (rewrite <- (mb_groups_add_dec grp (lenN done) (TN k f rv els)), Ead; reflexivity).
        subst gr1. cbn [mb_groups with_groups]. rewrite map_find_insert_same by exact Hnone. cbv zeta.
        rewrite Hrun. cbn [app]. unfold attach. cbn [mb_groups with_groups]. reflexivity. }
      destruct Ig as (objs & ts & Hg & Hts & HPE). rewrite Hg.
      assert (Hg1 : (t_group tr && has_group_count_c c f rv) = true) by (rewrite Egrp; exact Dflag).
      pose proof (Inv_group c sg grp done T k f rv els tr objs ts I Hnin Hl1 Etr Esup Hg1 Dren Hts HPE) as I1.
      change (flat_map (fun e => flat_map npairs e) els) with (PE els) in *.
      assert (Hst2 : stream from fsize ((pre ++ pbytes (f, rv)) ++ flat_map pbytes (PE els)) (P ns ++ rp) tail).
      { destruct (stream_step from fsize pre (f, rv) _ tail Hst) as [Ha Hb]. split.
        - rewrite Ha, flat_map_app, <- !app_assoc. reflexivity.
        - rewrite Hb, flat_map_app, !lenN_app. generalize (lenN pre) (lenN (pbytes (f, rv))) (lenN (flat_map pbytes (PE els))) (lenN (flat_map pbytes (P ns ++ rp))). intros; lia. }
      replace (lenN (pre ++ pbytes (f, rv)) + lenN (flat_map pbytes (PE els))) with (lenN ((pre ++ pbytes (f, rv)) ++ flat_map pbytes (PE els))) by apply lenN_app.
      destruct (IH (done ++ [TN k f rv els]) _ _ ((pre ++ pbytes (f, rv)) ++ flat_map pbytes (PE els)) rp tail fuel ltac:(lia) Hwm Hdj Hwf' Hd'
                  ltac:(rewrite <- Hstep; exact Hnd) Hfirst' I1 Hst2 Hpok
                  ltac:(rewrite <- Hstep; exact Hrest) ltac:(rewrite <- Hstep; exact Hlen) ltac:(lia)) as (grp' & T' & Hrun & I').
      exists grp', T'. rewrite <- Hstep in *. split; [|exact I'].
      rewrite lenN_snoc in Hrun. rewrite Hrun. f_equal. f_equal. f_equal.
      change (((f, rv) :: PE els) ++ P ns) with ((f, rv) :: (PE els ++ P ns)). cbn [flat_map]. rewrite flat_map_app, !lenN_app.
      generalize (lenN pre) (lenN (pbytes (f, rv))) (lenN (flat_map pbytes (PE els))) (lenN (flat_map pbytes (P ns))). intros; lia.
Qed.
End Loops.

(* ---------------------------------------------------------------- MessageBase::decode on a part with groups *)
Section Part.
Variable c : ctx.
Variable from : list N.
Variable fsize : N.

(* decode_group for the count field just filed in m *)
Lemma DG_step g outer m done T k f rv els tr ssg pre rp tail fuel :
  Inv c g m done T -> ~ In f (map n_tag done) -> wf_meta outer g = true ->
  find_trait (g_traits g) f = Some tr -> find_sub (g_subs g) f = Some ssg ->
  wf_elems ssg els = true -> delems_ok c ssg els = true -> els <> [] ->
  stream from fsize pre (PE els ++ rp) tail -> Forall pok rp -> head_in (tags g ++ outer) rp ->
  (3 * length (PE els) + 3 <= fuel)%nat ->
  exists objs ts,
    decode_group c real_caps from fsize fuel (add_dec m (lenN done) (TN k f rv els)) f (lenN pre) =
      Ok (attach (add_dec m (lenN done) (TN k f rv els)) f objs, lenN pre + lenN (flat_map pbytes (PE els))) /\
    elts_trees c objs = Some ts /\ PE ts = PE els.
Proof.
  intros I Hnin Hwm Etr Esub Hwels Dels Hne Hst Hpok Hhead Hfuel.
  destruct (wf_meta_parts _ _ Hwm) as (_ & _ & Hsubs). destruct (Hsubs f ssg Esub) as [Hdsg Hwsg].
  assert (HDLn : DL c from fsize (length (PE els))) by (apply DL_of_DE; intros k0 _; apply DE_all).
  destruct fuel as [|fuel0]; [lia|].
  destruct (HDLn ssg (tags g ++ outer) els [] pre rp tail fuel0 (wf_elems_sizes els) Hwsg (disjN_spec _ _ Hdsg) Hwels Dels Hne
              Hst Hpok Hhead ltac:(lia)) as (objs & ts & Hrun & Hts & HPE).
  exists objs, ts. split; [|split; assumption].
  rewrite dgG_S. unfold find_add_group. rewrite mb_subs_add_dec, (inv_subs _ _ _ _ _ I), Esub.
  pose proof (inv_grp _ _ _ _ _ I f Hnin) as Hnone.
  destruct (add_dec m (lenN done) (TN k f rv els)) as [fp1 subs1 fl1 pos1 gr1 unk1] eqn:Ead.
  assert (Hg1 : gr1 = mb_groups m) by (rewrite <- (mb_groups_add_dec m (lenN done) (TN k f rv els)), Ead; reflexivity).
  subst gr1. cbn [mb_groups with_groups]. rewrite map_find_insert_same by exact Hnone. cbv zeta.
  rewrite Hrun. cbn [app]. unfold attach. cbn [mb_groups with_groups]. reflexivity.
Qed.

Lemma dec_loop_tree g outer gfuel : forall ns done m T pre tb fuel rp tail,
  wf_meta outer g = true -> disj (tags g) outer ->
  Forall (fun x => wf_node g x = true) ns -> dnodes_ok c true g ns = true ->
  NoDup (map n_tag (done ++ ns)) -> Inv c g m done T ->
  stream from fsize pre (P ns ++ rp) tail -> Forall pok rp -> head_in outer rp ->
  lenN (done ++ ns) < 65536 -> (length ns < fuel)%nat -> (3 * length (P ns) + 3 <= gfuel)%nat ->
  exists m' T',
    dec_loop c real_caps from fsize false gfuel fuel m (lenN pre) (lenN done) None 0 tb =
      dec_finish false m' (lenN pre + lenN (flat_map pbytes (P ns))) (lenN (done ++ ns)) None 0 /\
    Inv c g m' (done ++ ns) T'.
Proof.
  induction ns as [|x ns IH]; intros done m T pre tb fuel rp tail Hwm Hdj Hwf Hd Hnd I Hst Hpok Hrp Hlen Hfuel Hgf.
  - rewrite app_nil_r in *. cbn [flat_map app lenN] in *. rewrite N.add_0_r.
    destruct fuel as [|fuel]; [lia|]. exists m, T. split; [|exact I]. cbn [dec_loop].
    destruct Hst as [Hs1 Hs2]. replace (lenN pre <=? fsize) with true by (symmetry; apply N.leb_le; lia).
    destruct rp as [|[f v] rp].
    + rewrite (tok_end from fsize pre tail (conj Hs1 Hs2)). reflexivity.
    + pose proof (Forall_inv Hpok) as Hp.
      rewrite (tok_next from fsize pre (f, v) rp tail (conj Hs1 Hs2) Hp). cbn [fst snd].
      destruct Hp as (_ & _ & _ & Hf). cbn [fst] in Hf. rewrite atoi_u16_itoa by assumption.
      cbn [head_in] in Hrp.
      assert (Hn : ~ In f (map n_tag done)).
      { intros Hc. pose proof (inv_legal _ _ _ _ _ I f Hc) as Hl. destruct (find_trait (g_traits g) f) as [t|] eqn:E; [|congruence].
        exact (Hdj f (proj1 (find_trait_In _ _ _ E)) Hrp). }
      rewrite (Inv_find c g m done T f I Hn). rewrite find_trait_notin by (intros Hc; exact (Hdj f Hc Hrp)). reflexivity.
  - destruct fuel as [|fuel]; [lia|].
    pose proof (Forall_inv Hwf) as Hwx. pose proof (Forall_inv_tail Hwf) as Hwf'.
    cbn [dnodes_ok forallb] in Hd. apply andb_prop in Hd. destruct Hd as [Hdx Hd'].
    destruct x as [k f rv els]. rewrite wf_node_unfold in Hwx. rewrite dnode_ok_unfold in Hdx.
    destruct (find_trait (g_traits g) f) as [tr|] eqn:Etr; [|discriminate].
    apply andb_prop in Hwx. destruct Hwx as [_ Hgrp].
    repeat (apply andb_prop in Hdx; let H := fresh "D" in destruct Hdx as [Hdx H]).
    rename D into Dels, D0 into Dlen, D1 into Dflag, D2 into Dren, D3 into Dpok, D4 into Dbe, D5 into Dhp, D6 into Dsup.
    apply list_eqb_eq in Dren. apply Bool.eqb_prop in Dflag. cbn [negb orb] in Dlen.
    assert (Hnin : ~ In f (map n_tag done)).
    { rewrite map_app in Hnd. cbn [map n_tag] in Hnd. apply NoDup_remove_2 in Hnd. intros Hc. apply Hnd. apply in_or_app. left. exact Hc. }
    rewrite P_cons in Hst, Hgf |- *. cbn [npairs] in Hst, Hgf |- *. cbn [app] in Hst. rewrite <- app_assoc in Hst.
    cbn [app length] in Hgf. rewrite app_length in Hgf.
    pose proof Hst as [Hs1 Hs2].
    pose proof (pokv_sound f rv Dpok) as Hp.
    cbn [dec_loop]. replace (lenN pre <=? fsize) with true by (symmetry; apply N.leb_le; lia).
    rewrite (tok_next from fsize pre (f, rv) _ tail Hst Hp). cbn [fst snd].
    pose proof Hp as (_ & Hnul & _ & Hf). cbn [fst snd] in Hf, Hnul.
    rewrite atoi_u16_itoa by assumption.
    rewrite (Inv_find c g m done T f I Hnin), Etr.
    destruct (t_present tr); [discriminate|]. destruct (t_suppress tr) eqn:Esup; [discriminate|].
    destruct (find_be (c_fields c) f) as [ty|]; [|discriminate].
    rewrite (cstr_no_nul rv Hnul).
    assert (Hl1 : lenN done + 1 < 65536) by (rewrite lenN_app in Hlen; cbn [lenN] in Hlen; lia).
    replace ((lenN done + 1) mod 4294967296) with (lenN done + 1) by (symmetry; apply N.mod_small; lia).
    change (mark_present (add_field_decoder m f (lenN done + 1) rv) f) with (add_dec m (lenN done) (TN k f rv els)).
    assert (Hstep : done ++ TN k f rv els :: ns = (done ++ [TN k f rv els]) ++ ns) by (rewrite <- app_assoc; reflexivity).
    replace (lenN pre + lenN (pbytes (f, rv))) with (lenN (pre ++ pbytes (f, rv))) by apply lenN_app.
    unfold opt_group. rewrite Dflag. rewrite Dlen.
    destruct els as [|e0 els0].
    + cbn [nonempty]. cbn [PE flat_map app] in *.
      assert (Hg0 : (t_group tr && has_group_count_c c f rv) = false) by exact Dflag.
      pose proof (Inv_plain c g m done T k f rv tr I Hnin Hl1 Etr Esup Hg0 Dren) as I1.
      rewrite <- (lenN_snoc done (TN k f rv [])).
      destruct (IH (done ++ [TN k f rv []]) _ _ (pre ++ pbytes (f, rv)) (tagbuf_after (itoa_N f) tb) fuel rp tail Hwm Hdj Hwf' Hd'
                  ltac:(rewrite <- Hstep; exact Hnd) I1 (stream_step from fsize pre (f, rv) _ tail Hst) Hpok Hrp
                  ltac:(rewrite <- Hstep; exact Hlen) ltac:(cbn [length] in Hfuel; lia) ltac:(lia)) as (m' & T' & Hrun & I').
      exists m', T'. rewrite <- Hstep in *. split; [|exact I'].
      rewrite Hrun. f_equal. cbn [flat_map]. rewrite !lenN_app. lia.
    + cbn [nonempty].
      destruct (t_group tr) eqn:Egrp; [|discriminate Dflag].
      destruct (decimal rv) as [cnt|]; [|discriminate]. destruct (find_sub (g_subs g) f) as [ssg|] eqn:Esub; [|discriminate].
      apply andb_prop in Hgrp. destruct Hgrp as [_ Hwels].
      set (els := e0 :: els0) in *.
      assert (Hhead : head_in (tags g ++ outer) (P ns ++ rp)).
      { destruct ns as [|y ns'].
        - cbn [flat_map app]. destruct rp as [|[f2 v2] rp2]; [exact Logic.I|]. cbn [head_in] in *. apply in_or_app. right. exact Hrp.
        - pose proof (Forall_inv Hwf') as Hwy. destruct y as [ky fy rvy elsy]. rewrite P_cons. cbn [npairs app head_in].
          apply in_or_app. left. rewrite wf_node_unfold in Hwy. destruct (find_trait (g_traits g) fy) as [ty'|] eqn:Ey; [|discriminate].
          apply (find_trait_In _ _ _ Ey). }
      assert (Hpok2 : Forall pok (P ns ++ rp)).
      { apply Forall_app. split; [apply (dnodes_pok c _ true g ns (le_n _) Hd')|exact Hpok]. }
      change (flat_map (fun e => flat_map npairs e) els) with (PE els) in *.
      destruct (DG_step g outer m done T k f rv els tr ssg (pre ++ pbytes (f, rv)) (P ns ++ rp) tail gfuel I Hnin Hwm Etr Esub
                  Hwels Dels ltac:(discriminate) (stream_step from fsize pre (f, rv) _ tail Hst) Hpok2 Hhead ltac:(lia))
        as (objs & ts & Hg & Hts & HPE).
      rewrite Hg.
      assert (Hg1 : (t_group tr && has_group_count_c c f rv) = true) by (rewrite Egrp; exact Dflag).
      pose proof (Inv_group c g m done T k f rv els tr objs ts I Hnin Hl1 Etr Esup Hg1 Dren Hts HPE) as I1.
      assert (Hst2 : stream from fsize ((pre ++ pbytes (f, rv)) ++ flat_map pbytes (PE els)) (P ns ++ rp) tail).
      { destruct (stream_step from fsize pre (f, rv) _ tail Hst) as [Ha Hb]. split.
        - rewrite Ha, flat_map_app, <- !app_assoc. reflexivity.
        - rewrite Hb, flat_map_app, !lenN_app. generalize (lenN pre) (lenN (pbytes (f, rv))) (lenN (flat_map pbytes (PE els))) (lenN (flat_map pbytes (P ns ++ rp))). intros; lia. }
      replace (lenN (pre ++ pbytes (f, rv)) + lenN (flat_map pbytes (PE els))) with (lenN ((pre ++ pbytes (f, rv)) ++ flat_map pbytes (PE els))) by apply lenN_app.
      rewrite <- (lenN_snoc done (TN k f rv els)).
      destruct (IH (done ++ [TN k f rv els]) _ _ ((pre ++ pbytes (f, rv)) ++ flat_map pbytes (PE els)) (tagbuf_after (itoa_N f) tb) fuel rp tail Hwm Hdj Hwf' Hd'
                  ltac:(rewrite <- Hstep; exact Hnd) I1 Hst2 Hpok Hrp
                  ltac:(rewrite <- Hstep; exact Hlen) ltac:(cbn [length] in Hfuel; lia) ltac:(lia)) as (m' & T' & Hrun & I').
      exists m', T'. rewrite <- Hstep in *. split; [|exact I'].
      rewrite Hrun. f_equal.
      change (((f, rv) :: PE els) ++ P ns) with ((f, rv) :: (PE els ++ P ns)). cbn [flat_map]. rewrite flat_map_app, !lenN_app.
      generalize (lenN pre) (lenN (pbytes (f, rv))) (lenN (flat_map pbytes (PE els))) (lenN (flat_map pbytes (P ns))). intros; lia.
Qed.
End Part.
