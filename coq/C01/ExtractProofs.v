(* extract_element of the codec model inverts one printed field (Appendix A.1 on the real model,
   with the buffer capacities): for a tag printed by itoa_N, a value without SOH, enough room in
   the caller's buffers and in the window sz,
     extract_element (pbytes (f, v) ++ rest) sz tcap vcap = XOk (itoa_N f) v (lenN (pbytes (f, v))). *)
From Coq Require Import NArith ZArith List Bool Lia.
From F8 Require Import Codec.Bytes Codec.Meta Codec.Extract C02.Spec_C02 C02.DigitsProofs C02.TokenProofs.
Import ListNotations.
Local Open Scope N_scope.

Lemma xe_digits : forall ds rest sz ii tag val nt nv tcap vcap,
  all_digits ds -> ii + lenN ds <= sz -> nt + lenN ds < tcap ->
  xe_loop (ds ++ rest) sz ii false tag val nt nv tcap vcap =
  xe_loop rest sz (ii + lenN ds) false (rev ds ++ tag) val (nt + lenN ds) nv tcap vcap.
Proof.
  induction ds as [|d ds IH]; intros rest sz ii tag val nt nv tcap vcap Hd Hsz Hcap.
  - cbn [app lenN rev]. rewrite !N.add_0_r. reflexivity.
  - inversion Hd as [|? ? Hx Hd']; subst. cbn [lenN] in *. cbn [app xe_loop].
    replace (ii <? sz) with true by (symmetry; apply N.ltb_lt; lia). rewrite Hx.
    replace (nt + 1 <? tcap) with true by (symmetry; apply N.ltb_lt; lia).
    rewrite IH by (try assumption; lia). cbn [rev]. rewrite <- app_assoc. cbn [app].
    f_equal; lia.
Qed.

Lemma xe_value : forall v rest sz ii tag val nt nv tcap vcap,
  no_soh v -> ii + lenN v < sz -> nv + lenN v < vcap -> nt < tcap ->
  xe_loop (v ++ SOH :: rest) sz ii true tag val nt nv tcap vcap =
  XOk (rev tag) (rev val ++ v) (ii + lenN v + 1).
Proof.
  induction v as [|x v IH]; intros rest sz ii tag val nt nv tcap vcap Hv Hsz Hcap Ht.
  - cbn [app lenN] in *. cbn [xe_loop]. replace (ii <? sz) with true by (symmetry; apply N.ltb_lt; lia).
    rewrite N.eqb_refl. unfold zero_write.
    replace (nt <? tcap) with true by (symmetry; apply N.ltb_lt; lia).
    replace (nv <? vcap) with true by (symmetry; apply N.ltb_lt; lia). cbn [negb].
    rewrite app_nil_r, N.add_0_r. reflexivity.
  - inversion Hv as [|? ? Hx Hv']; subst. cbn [lenN] in *. cbn [app xe_loop].
    replace (ii <? sz) with true by (symmetry; apply N.ltb_lt; lia). rewrite Hx.
    replace (nv + 1 <? vcap) with true by (symmetry; apply N.ltb_lt; lia).
    rewrite IH by (try assumption; lia). cbn [rev]. rewrite <- app_assoc. cbn [app]. f_equal. lia.
Qed.

Theorem extract_field f v rest sz tcap vcap :
  no_soh v -> lenN (pbytes (f, v)) <= sz -> lenN (itoa_N f) < tcap -> lenN v < vcap ->
  extract_element (pbytes (f, v) ++ rest) sz tcap vcap = XOk (itoa_N f) v (lenN (pbytes (f, v))).
Proof.
  intros Hv Hsz Ht Hvc. unfold extract_element, pbytes in *. cbn [fst snd] in *.
  rewrite lenN_app in Hsz. cbn [lenN] in Hsz. rewrite lenN_app in Hsz. cbn [lenN] in Hsz.
  rewrite <- app_assoc. rewrite xe_digits by (try apply itoa_digits; lia).
  cbn [app xe_loop]. replace (0 + lenN (itoa_N f) <? sz) with true by (symmetry; apply N.ltb_lt; lia).
  change (is_digit EQC) with false. cbn iota. rewrite N.eqb_refl.
  rewrite <- app_assoc. cbn [app]. rewrite xe_value by (try assumption; lia).
  rewrite app_nil_r, rev_involutive. cbn [rev app]. f_equal.
  rewrite lenN_app. cbn [lenN]. rewrite lenN_app. cbn [lenN]. lia.
Qed.

(* at the end of the window nothing is extracted *)
Lemma extract_empty from tcap vcap : 0 < tcap -> 0 < vcap -> extract_element from 0 tcap vcap = XFail [] [].
Proof.
  intros Ht Hv. unfold extract_element. destruct from; cbn [xe_loop]; cbn [N.ltb N.compare]; unfold zero_write;
  replace (0 <? tcap) with true by (symmetry; apply N.ltb_lt; lia);
  replace (0 <? vcap) with true by (symmetry; apply N.ltb_lt; lia); reflexivity.
Qed.
