(* Objects under construction by the decoder: how one decoded field (and, for a group count
   field, its decoded elements) changes the content tree of the object. *)
From Coq Require Import NArith ZArith List Bool Lia Arith.
From F8 Require Import Codec.Bytes Codec.Meta Codec.Extract Codec.Decode Codec.Encode Codec.Render
                       C02.Spec_C02 C02.WfC02 C02.DigitsProofs C02.TokenProofs C02.TreeProofs C02.StructProofs
                       C02.AuxProofs C02.RenderProofs C02.EncodeProofs
                       C01.WfC01 C01.ExtractProofs C01.DecodeProofs C01.FactoryProofs C01.ReencodeProofs.
Import ListNotations.
Local Open Scope N_scope.

(* the trees of the elements of one group *)
Fixpoint elts_trees (c : ctx) (es : list mbase) : option (list (list tnode)) :=
  match es with
  | [] => Some []
  | e :: r => match mb_unknown e, tree_of c e, elts_trees c r with
              | [], Some a, Some b => Some (a :: b)
              | _, _, _ => None
              end
  end.

Lemma gts_find c : forall groups f,
  map_find f (gts_of c groups) = match map_find f groups with Some es => Some (elts_trees c es) | None => None end.
Proof.
  induction groups as [|[g es] groups IH]; intros f; cbn [gts_of map_find]; [reflexivity|].
  destruct (f =? g); [|apply IH]. f_equal.
  induction es as [|e es IHe]; cbn [elts_trees]; [reflexivity|]. rewrite IHe. reflexivity.
Qed.

(* nodes_of depends on the group table only at the fnums of its entries *)
Lemma nodes_of_gts c fp g1 g2 : forall pos,
  (forall q f v, In (q, (f, v)) pos -> map_find f g1 = map_find f g2) ->
  nodes_of c fp g1 pos = nodes_of c fp g2 pos.
Proof.
  induction pos as [|[k [f v]] pos IH]; intros H; cbn [nodes_of]; [reflexivity|].
  rewrite (H k f v (or_introl eq_refl)). rewrite IH; [reflexivity|].
  intros q f' v' Hin. apply (H q f' v'). right. exact Hin.
Qed.

(* ---------------------------------------------------------------- one plain field *)
Definition keys_le (m : mbase) (j : N) : Prop := forall q y, In (q, y) (mb_pos m) -> q <= j.
Definition no_entry (m : mbase) (f : N) : Prop := forall q g w, In (q, (g, w)) (mb_pos m) -> g <> f.

Lemma add_dec_shape fp subs fl pos groups unk j n :
  (forall q y, In (q, y) pos -> q <= j) -> j + 1 < 65536 ->
  add_dec (MB fp subs fl pos groups unk) j n =
  MB (upd_trait (set_present true) fp (n_tag n)) subs (map_insert (n_tag n) (n_val n) fl)
     (pos ++ [(j + 1, (n_tag n, n_val n))]) groups unk.
Proof.
  intros Hk Hj. unfold add_dec, mark_present, add_field_decoder. cbn [mb_fields mb_pos mb_fp with_fields with_pos with_fp].
  unfold pos_insert, pos_key. rewrite N.mod_small by lia.
  rewrite pos_insert_append by (intros q y Hq; specialize (Hk q y Hq); lia). reflexivity.
Qed.

Lemma keys_le_add_dec m j n : keys_le m j -> j + 1 < 65536 -> keys_le (add_dec m j n) (j + 1).
Proof.
  destruct m as [fp subs fl pos groups unk]. unfold keys_le. cbn [mb_pos]. intros Hk Hj.
  rewrite add_dec_shape by assumption. cbn [mb_pos]. intros q y Hq. apply in_app_or in Hq.
  destruct Hq as [Hq|[Hq|[]]]; [specialize (Hk q y Hq); lia|injection Hq as <- _; lia].
Qed.

(* a plain (non-group, or count = 0) field appended *)
Lemma tree_add_plain c m j n T tr :
  keys_le m j -> j + 1 < 65536 -> tree_of c m = Some T ->
  find_trait (mb_fp m) (n_tag n) = Some tr -> t_suppress tr = false ->
  (t_group tr && has_group_count_c c (n_tag n) (n_val n)) = false ->
  c_render c (ftype_of c (n_tag n) (t_ftype tr)) (n_val n) = n_val n ->
  tree_of c (add_dec m j n) = Some (T ++ [TN (j + 1) (n_tag n) (n_val n) []]).
Proof.
  destruct m as [fp subs fl pos groups unk]. unfold keys_le. cbn [mb_pos mb_fp]. intros Hk Hj HT Htr Hs Hg Hr.
  rewrite add_dec_shape by assumption. rewrite tree_of_unfold in *.
  rewrite <- (nodes_of_static c fp _ _ (same_static_upd fp (n_tag n))).
  apply nodes_of_app; [exact HT|]. cbn [nodes_of]. rewrite Htr, Hs, Hg, Hr. reflexivity.
Qed.

(* ---------------------------------------------------------------- a group count field with its elements *)
(* what decode_group leaves: find_add_group inserted the (empty) group, the loop stored the elements *)
Definition attach (m : mbase) (f : N) (es : list mbase) : mbase :=
  let m1 := with_groups m (map_insert f [] (mb_groups m)) in
  with_groups m1 (map_set f es (mb_groups m1)).

Lemma map_find_insert_same {A} k (v : A) l : map_find k l = None -> map_find k (map_insert k v l) = Some v.
Proof.
  induction l as [|[q w] l IH]; cbn [map_insert map_find]; intros H.
  - rewrite N.eqb_refl. reflexivity.
  - destruct (k =? q) eqn:E; [discriminate|]. destruct (k <? q).
    + cbn [map_find]. rewrite N.eqb_refl. reflexivity.
    + cbn [map_find]. rewrite E. apply IH. exact H.
Qed.

Lemma tree_add_group c m j n T tr es ts :
  keys_le m j -> j + 1 < 65536 -> tree_of c m = Some T ->
  find_trait (mb_fp m) (n_tag n) = Some tr -> t_suppress tr = false ->
  (t_group tr && has_group_count_c c (n_tag n) (n_val n)) = true ->
  c_render c (ftype_of c (n_tag n) (t_ftype tr)) (n_val n) = n_val n ->
  map_find (n_tag n) (mb_groups m) = None -> no_entry m (n_tag n) ->
  elts_trees c es = Some ts ->
  tree_of c (attach (add_dec m j n) (n_tag n) es) = Some (T ++ [TN (j + 1) (n_tag n) (n_val n) ts]).
Proof.
  destruct m as [fp subs fl pos groups unk]. unfold keys_le, no_entry. cbn [mb_pos mb_fp mb_groups].
  intros Hk Hj HT Htr Hs Hg Hr Hnone Hne Hes.
  rewrite add_dec_shape by assumption. unfold attach. cbn [mb_groups with_groups]. rewrite tree_of_unfold in *.
  rewrite <- (nodes_of_static c fp _ _ (same_static_upd fp (n_tag n))).
  set (G2 := map_set (n_tag n) es (map_insert (n_tag n) [] groups)).
  assert (Hf : map_find (n_tag n) (gts_of c G2) = Some (Some ts)).
  { rewrite gts_find. unfold G2. rewrite map_find_set_same by (rewrite map_find_insert_same by exact Hnone; discriminate).
    rewrite Hes. reflexivity. }
  assert (Ho : forall g, g <> n_tag n -> map_find g (gts_of c G2) = map_find g (gts_of c groups)).
  { intros g Hgn. rewrite !gts_find. unfold G2. rewrite map_find_set_other, map_find_insert_other by exact Hgn. reflexivity. }
  apply nodes_of_app.
  - rewrite <- HT. apply nodes_of_gts. intros q f v Hin. apply Ho. exact (Hne q f v Hin).
  - cbn [nodes_of]. rewrite Htr, Hs, Hg, Hr, Hf. reflexivity.
Qed.

Lemma mb_unknown_add_dec m j n : mb_unknown (add_dec m j n) = mb_unknown m.
Proof. destruct m. reflexivity. Qed.
Lemma mb_unknown_attach m f es : mb_unknown (attach m f es) = mb_unknown m.
Proof. destruct m. reflexivity. Qed.
Lemma mb_pos_attach m f es : mb_pos (attach m f es) = mb_pos m.
Proof. destruct m. reflexivity. Qed.
Lemma mb_fp_attach m f es : mb_fp (attach m f es) = mb_fp m.
Proof. destruct m. reflexivity. Qed.
Lemma mb_subs_add_dec m j n : mb_subs (add_dec m j n) = mb_subs m.
Proof. destruct m. reflexivity. Qed.
Lemma mb_subs_attach m f es : mb_subs (attach m f es) = mb_subs m.
Proof. destruct m. reflexivity. Qed.
Lemma mb_groups_add_dec m j n : mb_groups (add_dec m j n) = mb_groups m.
Proof. destruct m. reflexivity. Qed.
Lemma mb_groups_attach_other m f es g : g <> f -> map_find g (mb_groups (attach m f es)) = map_find g (mb_groups m).
Proof. destruct m. intros H. unfold attach. cbn [mb_groups with_groups]. rewrite map_find_set_other, map_find_insert_other by exact H. reflexivity. Qed.
