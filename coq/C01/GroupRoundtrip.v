(* The round trip for messages whose body carries repeating groups (any number of elements, any
   depth): generalises ReencodeProofs.roundtrip_flat_prop, which stays as it is. *)
From Coq Require Import NArith ZArith List Bool Lia Arith.
From F8 Require Import Codec.Bytes Codec.Meta Codec.Extract Codec.Decode Codec.Encode Codec.Render
                       C02.Spec_C02 C02.WfC02 C02.DigitsProofs C02.TokenProofs C02.TreeProofs C02.StructProofs
                       C02.AuxProofs C02.RenderProofs C02.EncodeProofs
                       C01.WfC01 C01.WfGroups C01.ExtractProofs C01.DecodeProofs C01.FactoryProofs C01.ReencodeProofs
                       C01.GroupRoundtripObj C01.GroupRoundtripDecode C01.GroupRoundtripFactory.
Import ListNotations.
Local Open Scope N_scope.

Section RTG.
Variable c : ctx.
Variable m : message.
Variables (hn' bn : list tnode) (rv35 : list N) (md : msgdef) (t10 : trait).
Hypothesis HR : render_ok c.
(* what wf_msg says about the built object *)
Hypothesis Eh : tree_of c (set_value (m_hdr m) Common_MsgType (m_type m)) = Some (TN 3 35 rv35 [] :: hn').
Hypothesis Eb : tree_of c (m_body m) = Some bn.
Hypothesis Et : tree_of c (m_trl m) = Some [].
Hypothesis E10 : find_trait (g_traits (c_trailer c)) 10 = Some t10.
Hypothesis Hfm : find_msg (c_msgs c) rv35 = Some md.
Hypothesis Hctx : wf_ctx c md = true.
Hypothesis HwH : wf_nodes (c_header c) 2 (TN 3 35 rv35 [] :: hn') = true.
Hypothesis HwB : wf_nodes (md_meta md) 0 bn = true.
Hypothesis Hh10 : has_field (m_trl m) 10 = true.
Hypothesis H89 : match map_find 8 (mb_fields (set_value (m_hdr m) Common_MsgType (m_type m))),
                       map_find 9 (mb_fields (set_value (m_hdr m) Common_MsgType (m_type m))) with
                 | Some bsv, Some _ => list_eqb (c_render c ft_string bsv) (c_begin c)
                 | _, _ => false
                 end = true.
Hypothesis Uh : mb_unknown (set_value (m_hdr m) Common_MsgType (m_type m)) = [].
Hypothesis Ub : mb_unknown (m_body m) = [].
Hypothesis Ut : mb_unknown (m_trl m) = [].
Hypothesis Hlen : encoded_len c (TN 3 35 rv35 [] :: hn') bn [] < 10000000.
(* what decoding needs in addition *)
Hypothesis Fh : all_flat hn'.
Hypothesis Hpok : Forall pok (P hn').
Hypothesis Hm2 : no_nul rv35.
Hypothesis Hm3 : lenN rv35 < 32.
(* the freshly constructed header *)
Variables (a8 b9 d35 : list N) (t8 t9 t35 : trait) (f8v : list N).
Hypothesis Hpos0 : mb_pos (H0 c) = [(1, (8, a8)); (2, (9, b9)); (3, (35, d35))].
Hypothesis F8 : find_trait (mb_fp (H0 c)) 8 = Some t8.   Hypothesis S8 : t_suppress t8 = true.
Hypothesis F9 : find_trait (mb_fp (H0 c)) 9 = Some t9.   Hypothesis S9 : t_suppress t9 = true.
Hypothesis F35 : find_trait (mb_fp (H0 c)) 35 = Some t35. Hypothesis S35 : t_suppress t35 = false.
Hypothesis G35 : t_group t35 = false.
Hypothesis U0 : mb_unknown (H0 c) = [].
Hypothesis Hf8 : map_find 8 (mb_fields (H0 c)) = Some f8v.
Hypothesis Hf8r : c_render c ft_string f8v = c_begin c.
Hypothesis Hf9 : map_find 9 (mb_fields (H0 c)) <> None.
Hypothesis Hf35 : map_find 35 (mb_fields (H0 c)) <> None.
Hypothesis HkH : 3 + lenN hn' < 65536.
Hypothesis HndH : NoDup (map n_tag hn').
Hypothesis HokH : Forall (flat_ok c (mb_fp (H0 c))) hn'.
Hypothesis HvH : Forall (vis_ok c (mb_fp (H0 c))) hn'.
Hypothesis HtagsH : Forall (fun n => n_tag n <> 8 /\ n_tag n <> 9 /\ n_tag n <> 35) hn'.
Hypothesis HstH : forall v, stops (mb_fp (H0 c)) (P bn ++ [(10, v)]).
Hypothesis HmsH : find_missing (fp_after (mb_fp (H0 c)) hn') = None.
(* the body: any tree, groups at any depth *)
Hypothesis HkB : lenN bn < 65536.
Hypothesis HndB : NoDup (map n_tag bn).
Hypothesis HdB : dnodes_ok c true (md_meta md) bn = true.
Hypothesis HmsB : find_missing (fp_after (g_traits (md_meta md)) bn) = None.
(* the freshly constructed trailer *)
Variables (p10 : N) (e10 : list N) (t10' : trait).
Hypothesis HposT : mb_pos (T0 c) = [(p10, (10, e10))].
Hypothesis FT : find_trait (mb_fp (T0 c)) 10 = Some t10'.  Hypothesis ST : t_suppress t10' = true.
Hypothesis UT : mb_unknown (T0 c) = [].
Hypothesis HfT : map_find 10 (mb_fields (T0 c)) <> None.
Hypothesis HmsT : find_missing (mb_fp (T0 c)) = None.

Theorem roundtrip_groups_prop :
  exists b m1 m' m2 hn2 bn2,
    msg_encode c m = Ok (b, m1) /\ factory c real_caps b false false = Ok m' /\ msg_encode c m' = Ok (b, m2) /\
    tree_of c (set_value (m_hdr m') Common_MsgType (m_type m')) = Some hn2 /\ P hn2 = P (TN 3 35 rv35 [] :: hn') /\
    tree_of c (m_body m') = Some bn2 /\ P bn2 = P bn /\ tree_of c (m_trl m') = Some [] /\ m_type m' = md_type md.
Proof.
  pose proof HR as [Rint Rstr].
  assert (Emd : msg_def c (TN 3 35 rv35 [] :: hn') = Some md) by (unfold msg_def; cbn [N.eqb Pos.eqb andb]; exact Hfm).
  destruct (encode_shape c m _ bn [] md t10 HR Eh Eb Et E10 Emd Hctx HwH HwB eq_refl Hh10 H89 Uh Ub Ut Hlen)
    as (csv & m1 & Henc & Hcd & Hcl & Hcv & Hcsv).
  set (L := encoded_len c (TN 3 35 rv35 [] :: hn') bn []) in *.
  set (b := flat_map pbytes (all_pairs c (TN 3 35 rv35 [] :: hn') bn [] L csv)) in *.
  assert (Hfacts : is_ty c 8 ft_string = true /\ is_int_field c 9 = true /\ is_ty c 10 ft_string = true /\
                   is_ty c 35 ft_string = true /\ val_ok (c_begin c) = true /\ lenN (c_begin c) < 1000).
  { clear - Hctx. unfold wf_ctx in Hctx. split_ands. repeat split; try assumption.
    - unfold val_ok. rewrite forallb_forall. intros x Hx.
      match goal with H : forallb (fun b => b <? 256) (c_begin c) = true |- _ => rewrite forallb_forall in H; rewrite (H x Hx) end.
      match goal with H : forallb (fun b => negb (b =? SOH)) (c_begin c) = true |- _ => rewrite forallb_forall in H; rewrite (H x Hx) end.
      reflexivity.
    - apply N.ltb_lt. assumption. }
  destruct Hfacts as (T8 & T9 & T10 & T35 & Hbeg & Hbl).
  (* values of the tree *)
  assert (HpvAll : Forall pv (P (TN 3 35 rv35 [] :: hn') ++ P bn ++ P [])).
  { apply Forall_app. split; [eapply wf_pairs; [apply le_n|exact HwH]|].
    apply Forall_app. split; [eapply wf_pairs; [apply le_n|exact HwB]|constructor]. }
  assert (Hv35 : val_ok rv35 = true) by (rewrite P_cons in HpvAll; cbn [npairs flat_map app] in HpvAll; exact (Forall_inv HpvAll)).
  assert (Hpv : Forall pv (P hn' ++ P bn)).
  { rewrite P_cons in HpvAll. cbn [npairs flat_map app] in HpvAll. apply Forall_inv_tail in HpvAll.
    cbn [flat_map] in HpvAll. rewrite app_nil_r in HpvAll. exact HpvAll. }
  (* the bytes in the shape factory_flat expects *)
  assert (Hb : b = pbytes (8, c_begin c) ++ pbytes (9, itoa_N L) ++ pbytes (35, rv35) ++
                   flat_map pbytes (P hn' ++ P bn) ++ pbytes (10, csv)).
  { unfold b, all_pairs. rewrite P_cons. cbn [npairs flat_map app]. rewrite !app_nil_r.
    rewrite (flat_map_app pbytes (P hn' ++ P bn) [(10, csv)]). cbn [flat_map]. rewrite app_nil_r. reflexivity. }
  assert (HLeq : L = lenN (pbytes (35, rv35)) + lenN (flat_map pbytes (P hn' ++ P bn))).
  { unfold L. rewrite encoded_len_pairs, P_cons. cbn [npairs flat_map app lenN]. rewrite ?app_nil_r, !flat_map_app, !lenN_app. cbn [flat_map lenN]. rewrite ?app_nil_r. lia. }
  assert (Hcv' : dec_val csv 0 = Some (bytesumN (pbytes (8, c_begin c) ++ pbytes (9, itoa_N L) ++ pbytes (35, rv35) ++ flat_map pbytes (P hn' ++ P bn)))).
  { rewrite Hcv. f_equal. f_equal. rewrite P_cons. cbn [npairs flat_map app]. rewrite !app_nil_r. reflexivity. }
  assert (H3 : lenN (mb_pos (H0 c)) = 3) by (rewrite Hpos0; reflexivity).
  assert (Hwx : wf_meta (tags (c_header c) ++ tags (c_trailer c)) (md_meta md) = true /\
                disj (tags (md_meta md)) (tags (c_header c) ++ tags (c_trailer c)) /\ In 10 (tags (c_header c) ++ tags (c_trailer c))).
  { clear - Hctx E10. unfold wf_ctx in Hctx. split_ands. split; [assumption|]. split.
    - assert (bHB : disjN (tags (c_header c)) (tags (md_meta md)) = true) by assumption.
      assert (bBT : disjN (tags (md_meta md)) (tags (c_trailer c)) = true) by assumption.
      exact (disj_app_r _ _ _ (disj_sym _ _ (disjN_spec _ _ bHB)) (disjN_spec _ _ bBT)).
    - apply in_or_app. right. apply (find_trait_In _ _ _ E10). }
  destruct Hwx as (HwmB & HdjB & H10o).
  destruct (factory_groups c md (c_begin c) L rv35 hn' bn csv (tags (c_header c) ++ tags (c_trailer c))
               Hbeg Hbl Hlen Hv35 Hm2 Hm3 Hfm ltac:(lia) Hcd Hcl Hcv' Hpok Hpv
               ltac:(rewrite H3; exact HkH) HndH HokH (HstH csv) HmsH HkB HndB HwmB HdjB H10o (wf_nodes_each _ _ _ HwB) HdB HmsB HmsT
               ltac:(rewrite HposT; cbn [lenN]; lia)) as (B' & Tb & Hfac & IB).
  cbn zeta in Hfac. rewrite <- Hb in Hfac. rewrite H3 in Hfac.
  set (m' := mkMsg (md_type md)
        (set_value (set_value (dec_flat (H0 c) 3 hn') Common_BodyLength (itoa_N L)) Common_MsgType rv35)
        B' (set_value (T0 c) Common_CheckSum csv)) in *.
  (* the decoded object's trees *)
  assert (Hty : md_type md = rv35) by (apply (find_msg_type _ _ _ Hfm)).
  assert (Eh' : tree_of c (set_value (m_hdr m') Common_MsgType (m_type m')) = Some (TN 3 35 rv35 [] :: renum 3 hn')).
  { unfold m'. cbn [m_hdr m_type]. rewrite Hty.
    exact (hdr_tree c (H0 c) a8 b9 d35 hn' (itoa_N L) rv35 rv35 t8 t9 t35 Hpos0 F8 S8 F9 S9 F35 S35 G35 T35 Rstr HkH HvH). }
  assert (Eb' : tree_of c (m_body m') = Some Tb) by (unfold m'; cbn [m_body]; exact (inv_tree _ _ _ _ _ IB)).
  assert (Et' : tree_of c (m_trl m') = Some []) by (unfold m'; cbn [m_trl]; exact (trl_tree c (T0 c) p10 e10 csv t10' HposT FT ST)).
  assert (Ph : P (TN 3 35 rv35 [] :: renum 3 hn') = P (TN 3 35 rv35 [] :: hn')) by (rewrite !P_cons, P_renum by exact Fh; reflexivity).
  assert (Pb : P Tb = P bn) by (exact (inv_P _ _ _ _ _ IB)).
  (* encode the decoded object *)
  assert (Hshape : exists fp' subs' pos' groups',
            dec_flat (H0 c) 3 hn' = MB fp' subs' (fields_after (mb_fields (H0 c)) hn') pos' groups' (mb_unknown (H0 c))).
  { destruct (H0 c) as [fp0 subs0 fl0 pos0 groups0 unk0] eqn:EH0. cbn [mb_pos mb_fields mb_unknown] in *.
    rewrite dec_flat_shape; [|rewrite Hpos0; intros q yy Hq; cbn [In] in Hq; destruct Hq as [Hq|[Hq|[Hq|[]]]]; injection Hq as <- _; lia|exact HkH].
    do 4 eexists. reflexivity. }
  destruct Hshape as (fp' & subs' & pos' & groups' & Hshape).
  assert (Ht8 : Forall (fun n => n_tag n <> 8) hn') by (eapply Forall_impl; [|exact HtagsH]; cbn; intros n Hn; apply Hn).
  assert (Ht9 : Forall (fun n => n_tag n <> 9) hn') by (eapply Forall_impl; [|exact HtagsH]; cbn; intros n Hn; apply Hn).
  assert (Hfields8 : map_find 8 (mb_fields (set_value (m_hdr m') Common_MsgType (m_type m'))) = Some f8v).
  { unfold m'. cbn [m_hdr m_type]. rewrite Hshape. unfold set_value. cbn [mb_fields with_pos with_fields].
    change Common_MsgType with 35. change Common_BodyLength with 9.
    rewrite !map_find_set_other by (intros E; discriminate E).
    rewrite map_find_fields_after; [exact Hf8|exact Ht8]. }
  assert (Hfields9 : map_find 9 (mb_fields (set_value (m_hdr m') Common_MsgType (m_type m'))) <> None).
  { unfold m'. cbn [m_hdr m_type]. rewrite Hshape. unfold set_value. cbn [mb_fields with_pos with_fields].
    change Common_MsgType with 35. change Common_BodyLength with 9.
    rewrite !map_find_set_other by (intros E; discriminate E).
    rewrite map_find_set_same; [discriminate|].
    rewrite map_find_fields_after; [exact Hf9|exact Ht9]. }
  assert (HL2 : encoded_len c (TN 3 35 rv35 [] :: renum 3 hn') Tb [] = L).
  { unfold L. rewrite !encoded_len_pairs, Ph, Pb. reflexivity. }
  destruct (encode_shape_gen c m' (TN 3 35 rv35 [] :: renum 3 hn') Tb [] HR Eh' Eb' Et' T8 T9 T10 Hbeg Hbl)
    as (csv2 & m2 & Henc2 & _ & _ & _ & Hcsv2).
  - rewrite Ph, Pb. exact HpvAll.
  - unfold m'. cbn [m_trl]. unfold has_field. rewrite mb_fields_set_value.
    change Common_CheckSum with 10. rewrite map_find_set_same by exact HfT. reflexivity.
  - rewrite Hfields8. destruct (map_find 9 (mb_fields (set_value (m_hdr m') Common_MsgType (m_type m')))) eqn:E9x; [|exfalso; apply Hfields9; reflexivity]. rewrite Hf8r. apply list_eqb_refl.
  - unfold m'. cbn [m_hdr m_type]. rewrite !mb_unknown_set_value, mb_unknown_dec_flat. exact U0.
  - unfold m'. cbn [m_body]. exact (inv_unk _ _ _ _ _ IB).
  - unfold m'. cbn [m_trl]. rewrite mb_unknown_set_value. exact UT.
  - rewrite HL2. exact Hlen.
  - exists b, m1, m', m2, (TN 3 35 rv35 [] :: renum 3 hn'), Tb.
    split; [exact Henc|]. split; [exact Hfac|]. split.
    + rewrite Henc2. f_equal. f_equal. unfold b, all_pairs. rewrite HL2, Ph, Pb.
      rewrite Hcsv2, HL2, Ph, Pb, <- Hcsv. reflexivity.
    + repeat split; assumption.
Qed.
End RTG.
