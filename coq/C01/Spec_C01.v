(* Property C01 "Message encode/decode round trip preserves every field" as an executable
   predicate on observables: the content the message was built with (per part: the inserted
   fields with their value texts and group elements), the content of the decoded message as
   dumped (fields with their printed values, group elements), the first encoding and the
   re-encoding.  Written from the property text; uses no function of the codec model.

   c01_ok = the decoded message has, at every level, exactly the fields of the original
            (same tag, same value text, same elements in the same order; the order of the
            fields of one level is not significant), its type is the original type, and the
            re-encoded bytes equal the first encoding.
   The automatic fields 8, 9, 35 (header) and 10 (trailer) of the decoded message are not part
   of the built content and are ignored. *)
From Coq Require Import NArith ZArith List Bool.
From F8 Require Import Codec.Bytes Codec.Meta.
Import ListNotations.
Local Open Scope N_scope.

Inductive cnode := CN (f : N) (v : list N) (els : list (list cnode)).
Definition c_tag (x : cnode) := match x with CN f _ _ => f end.

Fixpoint node_eqb (x y : cnode) {struct x} : bool :=
  match x, y with
  | CN f v els, CN f' v' els' =>
    (f =? f') && list_eqb v v' &&
    (fix elsb (a b : list (list cnode)) : bool :=
       match a, b with
       | [], [] => true
       | e :: a', e' :: b' =>
         (lenN e =? lenN e') &&
         (fix allin (l : list cnode) : bool :=
            match l with
            | [] => true
            | x' :: r => existsb (node_eqb x') e' && allin r
            end) e &&
         elsb a' b'
       | _, _ => false
       end) els els'
  end.

Fixpoint nodup_tags (l : list cnode) (seen : list N) : bool :=
  match l with
  | [] => true
  | x :: r => negb (existsb (N.eqb (c_tag x)) seen) && nodup_tags r (c_tag x :: seen)
  end.

Definition level_same (a b : list cnode) : bool :=
  (lenN a =? lenN b) && nodup_tags a [] && forallb (fun x => existsb (node_eqb x) b) a.

Definition not_auto (auto : list N) (x : cnode) : bool := negb (existsb (N.eqb (c_tag x)) auto).

Record content := mkContent { ct_type : list N; ct_hdr : list cnode; ct_body : list cnode; ct_trl : list cnode }.

Definition c01_ok (built decoded : content) (enc1 enc2 : list N) : bool :=
  list_eqb (ct_type built) (ct_type decoded) &&
  level_same (ct_hdr built) (filter (not_auto [8; 9; 35]) (ct_hdr decoded)) &&
  level_same (ct_body built) (ct_body decoded) &&
  level_same (ct_trl built) (filter (not_auto [10]) (ct_trl decoded)) &&
  list_eqb enc1 enc2.
