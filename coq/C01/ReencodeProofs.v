(* The object Message::factory returns (FactoryProofs.factory_flat) has the content tree of the
   original, renumbered in arrival order, and encodes to the same bytes. *)
From Coq Require Import NArith ZArith List Bool Lia Arith.
From F8 Require Import Codec.Bytes Codec.Meta Codec.Extract Codec.Decode Codec.Encode Codec.Render
                       C02.Spec_C02 C02.WfC02 C02.DigitsProofs C02.TokenProofs C02.TreeProofs C02.StructProofs
                       C02.AuxProofs C02.RenderProofs C02.EncodeProofs
                       C01.WfC01 C01.ExtractProofs C01.DecodeProofs C01.FactoryProofs.
Import ListNotations.
Local Open Scope N_scope.

Definition all_flat (ns : list tnode) : Prop := Forall (fun n => n_els n = []) ns.

Lemma P_renum : forall ns k, all_flat ns -> P (renum k ns) = P ns.
Proof.
  induction ns as [|n ns IH]; intros k H; cbn [renum]; [reflexivity|].
  rewrite (P_flat n ns (Forall_inv H)). cbn [flat_map npairs app]. rewrite (IH _ (Forall_inv_tail H)). reflexivity.
Qed.

(* tree_of an object is nodes_of over its _pos with the group trees of its _groups *)
Definition gts_of (c : ctx) (groups : list (N * list mbase)) : list (N * option (list (list tnode))) :=
  (fix gl (gs : list (N * list mbase)) : list (N * option (list (list tnode))) :=
     match gs with
     | [] => []
     | (f, els) :: r =>
       (f, (fix el (es : list mbase) : option (list (list tnode)) :=
              match es with
              | [] => Some []
              | e :: r' => match mb_unknown e, tree_of c e, el r' with
                           | [], Some a, Some b => Some (a :: b)
                           | _, _, _ => None
                           end
              end) els) :: gl r
     end) groups.
Lemma tree_of_unfold c fp subs fl pos groups unk :
  tree_of c (MB fp subs fl pos groups unk) = nodes_of c fp (gts_of c groups) pos.
Proof. reflexivity. Qed.

(* a decoded part: base object B with keys <= k, decoded nodes ns (flat) *)
Lemma tree_dec_flat c B ns base :
  (forall q y, In (q, y) (mb_pos B) -> q <= lenN (mb_pos B)) -> lenN (mb_pos B) + lenN ns < 65536 ->
  tree_of c B = Some base -> Forall (vis_ok c (mb_fp B)) ns ->
  tree_of c (dec_flat B (lenN (mb_pos B)) ns) = Some (base ++ renum (lenN (mb_pos B)) ns).
Proof.
  destruct B as [fp subs fl pos groups unk]. cbn [mb_pos mb_fp]. intros Hk Hlen Hb Hv.
  rewrite dec_flat_shape by assumption. rewrite tree_of_unfold in *.
  rewrite <- (nodes_of_static c fp (fp_after fp ns) _ (same_static_after fp ns)).
  apply nodes_of_app; [exact Hb|]. apply nodes_of_entries. exact Hv.
Qed.

Lemma mb_unknown_dec_flat : forall ns m k, mb_unknown (dec_flat m k ns) = mb_unknown m.
Proof.
  induction ns as [|n ns IH]; intros m k; cbn [dec_flat]; [reflexivity|]. rewrite IH. destruct m. reflexivity.
Qed.
Lemma mb_fields_set_value m f v : mb_fields (set_value m f v) = map_set f v (mb_fields m).
Proof. destruct m. reflexivity. Qed.
Lemma mb_unknown_set_value m f v : mb_unknown (set_value m f v) = mb_unknown m.
Proof. destruct m. reflexivity. Qed.

Lemma find_msg_type ms ty md : find_msg ms ty = Some md -> md_type md = ty.
Proof.
  induction ms as [|x r IH]; cbn [find_msg]; [discriminate|].
  destruct (list_eqb (md_type x) ty) eqn:E; [|exact IH]. intros H. injection H as <-. apply list_eqb_eq. exact E.
Qed.

Lemma hdr_tree c Hb a b9 d hn' x y z t8 t9 t35 :
  mb_pos Hb = [(1, (8, a)); (2, (9, b9)); (3, (35, d))] ->
  find_trait (mb_fp Hb) 8 = Some t8 -> t_suppress t8 = true ->
  find_trait (mb_fp Hb) 9 = Some t9 -> t_suppress t9 = true ->
  find_trait (mb_fp Hb) 35 = Some t35 -> t_suppress t35 = false -> t_group t35 = false ->
  is_ty c 35 ft_string = true -> (forall v, c_render c ft_string v = v) ->
  3 + lenN hn' < 65536 -> Forall (vis_ok c (mb_fp Hb)) hn' ->
  tree_of c (set_value (set_value (set_value (dec_flat Hb 3 hn') 9 x) 35 y) 35 z) = Some (TN 3 35 z [] :: renum 3 hn').
Proof.
  destruct Hb as [fp subs fl pos groups unk]. cbn [mb_pos mb_fp]. intros -> F8 S8 F9 S9 F35 S35 G35 T35 Rstr Hlen Hv.
  rewrite dec_flat_shape; [|intros q yy Hq; cbn [In] in Hq; destruct Hq as [Hq|[Hq|[Hq|[]]]]; injection Hq as <- _; lia|exact Hlen].
  unfold set_value. cbn [mb_fields mb_pos with_pos with_fields app pos_set N.eqb Pos.eqb].
  rewrite tree_of_unfold. rewrite <- (nodes_of_static c fp (fp_after fp hn') _ (same_static_after fp hn')).
  cbn [nodes_of]. rewrite F8, S8, F9, S9, F35, S35, G35. cbn [andb].
  rewrite (ftype_of_is_ty c 35 ft_string _ T35), Rstr.
  rewrite (nodes_of_entries c fp _ hn' 3 Hv). reflexivity.
Qed.

Lemma trl_tree c Tb p e v t10 :
  mb_pos Tb = [(p, (10, e))] -> find_trait (mb_fp Tb) 10 = Some t10 -> t_suppress t10 = true ->
  tree_of c (set_value Tb 10 v) = Some [].
Proof.
  destruct Tb as [fp subs fl pos groups unk]. cbn [mb_pos mb_fp]. intros -> F S.
  unfold set_value. cbn [mb_fields mb_pos with_pos with_fields pos_set N.eqb Pos.eqb].
  rewrite tree_of_unfold. cbn [nodes_of]. rewrite F, S. reflexivity.
Qed.

Lemma body_tree c md bn :
  lenN bn < 65536 -> Forall (vis_ok c (g_traits (md_meta md))) bn ->
  tree_of c (dec_flat (B0 md) 0 bn) = Some (renum 0 bn).
Proof.
  intros Hl Hv. change 0 with (lenN (mb_pos (B0 md))) at 1 2.
  rewrite (tree_dec_flat c (B0 md) bn []); [reflexivity| | |reflexivity|exact Hv].
  - intros q y Hq. destruct Hq.
  - cbn [B0 create_group mb_pos lenN]. lia.
Qed.

(* ---------------------------------------------------------------- map lemmas *)
Lemma map_find_set_other {A} k k' (v : A) l : k <> k' -> map_find k (map_set k' v l) = map_find k l.
Proof.
  intros Hne. induction l as [|[q w] l IH]; cbn [map_set map_find]; [reflexivity|].
  destruct (k' =? q) eqn:E.
  - apply N.eqb_eq in E. subst q. cbn [map_find]. replace (k =? k') with false by (symmetry; apply N.eqb_neq; exact Hne). reflexivity.
  - cbn [map_find]. destruct (k =? q); [reflexivity|exact IH].
Qed.
Lemma map_find_set_same {A} k (v : A) l : map_find k l <> None -> map_find k (map_set k v l) = Some v.
Proof.
  induction l as [|[q w] l IH]; cbn [map_set map_find]; [congruence|].
  destruct (k =? q) eqn:E; cbn [map_find]; rewrite E; [reflexivity|exact IH].
Qed.
Lemma map_find_insert_other {A} k k' (v : A) l : k <> k' -> map_find k (map_insert k' v l) = map_find k l.
Proof.
  intros Hne. induction l as [|[q w] l IH]; cbn [map_insert map_find].
  - replace (k =? k') with false by (symmetry; apply N.eqb_neq; exact Hne). reflexivity.
  - destruct (k' <? q); [cbn [map_find]; replace (k =? k') with false by (symmetry; apply N.eqb_neq; exact Hne); reflexivity|].
    destruct (k' =? q); [reflexivity|]. cbn [map_find]. destruct (k =? q); [reflexivity|exact IH].
Qed.
Lemma map_find_fields_after k fl ns : Forall (fun n => n_tag n <> k) ns -> map_find k (fields_after fl ns) = map_find k fl.
Proof.
  revert fl. induction ns as [|n ns IH]; intros fl H; cbn [fields_after fold_left]; [reflexivity|].
  change (fold_left (fun fl0 n0 => map_insert (n_tag n0) (n_val n0) fl0) ns (map_insert (n_tag n) (n_val n) fl))
    with (fields_after (map_insert (n_tag n) (n_val n) fl) ns).
  rewrite (IH _ (Forall_inv_tail H)). apply map_find_insert_other. intros E. exact (Forall_inv H (eq_sym E)).
Qed.

Lemma encoded_len_pairs c h b t :
  encoded_len c h b t = lenN (flat_map pbytes (P h)) + lenN (flat_map pbytes (P b)) + lenN (flat_map pbytes (P t)).
Proof. unfold encoded_len. rewrite !nodes_bytes_pairs. reflexivity. Qed.

(* ---------------------------------------------------------------- the round trip *)
Section RT.
Variable c : ctx.
Variable m : message.
Variables (hn' bn : list tnode) (rv35 : list N) (md : msgdef) (t10 : trait).
Hypothesis HR : render_ok c.
(* what wf_msg says about the built object *)
Hypothesis Eh : tree_of c (set_value (m_hdr m) Common_MsgType (m_type m)) = Some (TN 3 35 rv35 [] :: hn').
Hypothesis Eb : tree_of c (m_body m) = Some bn.
Hypothesis Et : tree_of c (m_trl m) = Some [].
Hypothesis E10 : find_trait (g_traits (c_trailer c)) 10 = Some t10.
Hypothesis Hfm : find_msg (c_msgs c) rv35 = Some md.
Hypothesis Hctx : wf_ctx c md = true.
Hypothesis HwH : wf_nodes (c_header c) 2 (TN 3 35 rv35 [] :: hn') = true.
Hypothesis HwB : wf_nodes (md_meta md) 0 bn = true.
Hypothesis Hh10 : has_field (m_trl m) 10 = true.
Hypothesis H89 : match map_find 8 (mb_fields (set_value (m_hdr m) Common_MsgType (m_type m))),
                       map_find 9 (mb_fields (set_value (m_hdr m) Common_MsgType (m_type m))) with
                 | Some bsv, Some _ => list_eqb (c_render c ft_string bsv) (c_begin c)
                 | _, _ => false
                 end = true.
Hypothesis Uh : mb_unknown (set_value (m_hdr m) Common_MsgType (m_type m)) = [].
Hypothesis Ub : mb_unknown (m_body m) = [].
Hypothesis Ut : mb_unknown (m_trl m) = [].
Hypothesis Hlen : encoded_len c (TN 3 35 rv35 [] :: hn') bn [] < 10000000.
(* what decoding needs in addition *)
Hypothesis Fh : all_flat hn'.
Hypothesis Fb : all_flat bn.
Hypothesis Hpok : Forall pok (P hn' ++ P bn).
Hypothesis Hm2 : no_nul rv35.
Hypothesis Hm3 : lenN rv35 < 32.
(* the freshly constructed header *)
Variables (a8 b9 d35 : list N) (t8 t9 t35 : trait) (f8v : list N).
Hypothesis Hpos0 : mb_pos (H0 c) = [(1, (8, a8)); (2, (9, b9)); (3, (35, d35))].
Hypothesis F8 : find_trait (mb_fp (H0 c)) 8 = Some t8.   Hypothesis S8 : t_suppress t8 = true.
Hypothesis F9 : find_trait (mb_fp (H0 c)) 9 = Some t9.   Hypothesis S9 : t_suppress t9 = true.
Hypothesis F35 : find_trait (mb_fp (H0 c)) 35 = Some t35. Hypothesis S35 : t_suppress t35 = false.
Hypothesis G35 : t_group t35 = false.
Hypothesis U0 : mb_unknown (H0 c) = [].
Hypothesis Hf8 : map_find 8 (mb_fields (H0 c)) = Some f8v.
Hypothesis Hf8r : c_render c ft_string f8v = c_begin c.
Hypothesis Hf9 : map_find 9 (mb_fields (H0 c)) <> None.
Hypothesis Hf35 : map_find 35 (mb_fields (H0 c)) <> None.
Hypothesis HkH : 3 + lenN hn' < 65536.
Hypothesis HndH : NoDup (map n_tag hn').
Hypothesis HokH : Forall (flat_ok c (mb_fp (H0 c))) hn'.
Hypothesis HvH : Forall (vis_ok c (mb_fp (H0 c))) hn'.
Hypothesis HtagsH : Forall (fun n => n_tag n <> 8 /\ n_tag n <> 9 /\ n_tag n <> 35) hn'.
Hypothesis HstH : forall v, stops (mb_fp (H0 c)) (P bn ++ [(10, v)]).
Hypothesis HmsH : find_missing (fp_after (mb_fp (H0 c)) hn') = None.
(* the body *)
Hypothesis HkB : lenN bn < 65536.
Hypothesis HndB : NoDup (map n_tag bn).
Hypothesis HokB : Forall (flat_ok c (g_traits (md_meta md))) bn.
Hypothesis HvB : Forall (vis_ok c (g_traits (md_meta md))) bn.
Hypothesis HstB : find_trait (g_traits (md_meta md)) 10 = None.
Hypothesis HmsB : find_missing (fp_after (g_traits (md_meta md)) bn) = None.
(* the freshly constructed trailer *)
Variables (p10 : N) (e10 : list N) (t10' : trait).
Hypothesis HposT : mb_pos (T0 c) = [(p10, (10, e10))].
Hypothesis FT : find_trait (mb_fp (T0 c)) 10 = Some t10'.  Hypothesis ST : t_suppress t10' = true.
Hypothesis UT : mb_unknown (T0 c) = [].
Hypothesis HfT : map_find 10 (mb_fields (T0 c)) <> None.
Hypothesis HmsT : find_missing (mb_fp (T0 c)) = None.

Theorem roundtrip_flat_prop :
  exists b m1 m' m2 hn2 bn2,
    msg_encode c m = Ok (b, m1) /\ factory c real_caps b false false = Ok m' /\ msg_encode c m' = Ok (b, m2) /\
    tree_of c (set_value (m_hdr m') Common_MsgType (m_type m')) = Some hn2 /\ P hn2 = P (TN 3 35 rv35 [] :: hn') /\
    tree_of c (m_body m') = Some bn2 /\ P bn2 = P bn /\ tree_of c (m_trl m') = Some [] /\ m_type m' = md_type md.
Proof.
  pose proof HR as [Rint Rstr].
  assert (Emd : msg_def c (TN 3 35 rv35 [] :: hn') = Some md) by (unfold msg_def; cbn [N.eqb Pos.eqb andb]; exact Hfm).
  destruct (encode_shape c m _ bn [] md t10 HR Eh Eb Et E10 Emd Hctx HwH HwB eq_refl Hh10 H89 Uh Ub Ut Hlen)
    as (csv & m1 & Henc & Hcd & Hcl & Hcv & Hcsv).
  set (L := encoded_len c (TN 3 35 rv35 [] :: hn') bn []) in *.
  set (b := flat_map pbytes (all_pairs c (TN 3 35 rv35 [] :: hn') bn [] L csv)) in *.
  assert (Hfacts : is_ty c 8 ft_string = true /\ is_int_field c 9 = true /\ is_ty c 10 ft_string = true /\
                   is_ty c 35 ft_string = true /\ val_ok (c_begin c) = true /\ lenN (c_begin c) < 1000).
  { clear - Hctx. unfold wf_ctx in Hctx. split_ands. repeat split; try assumption.
    - unfold val_ok. rewrite forallb_forall. intros x Hx.
      match goal with H : forallb (fun b => b <? 256) (c_begin c) = true |- _ => rewrite forallb_forall in H; rewrite (H x Hx) end.
      match goal with H : forallb (fun b => negb (b =? SOH)) (c_begin c) = true |- _ => rewrite forallb_forall in H; rewrite (H x Hx) end.
      reflexivity.
    - apply N.ltb_lt. assumption. }
  destruct Hfacts as (T8 & T9 & T10 & T35 & Hbeg & Hbl).
  (* values of the tree *)
  assert (HpvAll : Forall pv (P (TN 3 35 rv35 [] :: hn') ++ P bn ++ P [])).
  { apply Forall_app. split; [eapply wf_pairs; [apply le_n|exact HwH]|].
    apply Forall_app. split; [eapply wf_pairs; [apply le_n|exact HwB]|constructor]. }
  assert (Hv35 : val_ok rv35 = true) by (rewrite P_cons in HpvAll; cbn [npairs flat_map app] in HpvAll; exact (Forall_inv HpvAll)).
  assert (Hpv : Forall pv (P hn' ++ P bn)).
  { rewrite P_cons in HpvAll. cbn [npairs flat_map app] in HpvAll. apply Forall_inv_tail in HpvAll.
    cbn [flat_map] in HpvAll. rewrite app_nil_r in HpvAll. exact HpvAll. }
  (* the bytes in the shape factory_flat expects *)
  assert (Hb : b = pbytes (8, c_begin c) ++ pbytes (9, itoa_N L) ++ pbytes (35, rv35) ++
                   flat_map pbytes (P hn' ++ P bn) ++ pbytes (10, csv)).
  { unfold b, all_pairs. rewrite P_cons. cbn [npairs flat_map app]. rewrite !app_nil_r.
    rewrite (flat_map_app pbytes (P hn' ++ P bn) [(10, csv)]). cbn [flat_map]. rewrite app_nil_r. reflexivity. }
  assert (HLeq : L = lenN (pbytes (35, rv35)) + lenN (flat_map pbytes (P hn' ++ P bn))).
  { unfold L. rewrite encoded_len_pairs, P_cons. cbn [npairs flat_map app lenN]. rewrite ?app_nil_r, !flat_map_app, !lenN_app. cbn [flat_map lenN]. rewrite ?app_nil_r. lia. }
  assert (Hcv' : dec_val csv 0 = Some (bytesumN (pbytes (8, c_begin c) ++ pbytes (9, itoa_N L) ++ pbytes (35, rv35) ++ flat_map pbytes (P hn' ++ P bn)))).
  { rewrite Hcv. f_equal. f_equal. rewrite P_cons. cbn [npairs flat_map app]. rewrite !app_nil_r. reflexivity. }
  assert (H3 : lenN (mb_pos (H0 c)) = 3) by (rewrite Hpos0; reflexivity).
  pose proof (factory_flat c md (c_begin c) L rv35 hn' bn csv Hbeg Hbl Hlen Hv35 Hm2 Hm3 Hfm ltac:(lia) Hcd Hcl Hcv' Hpok Hpv
               ltac:(rewrite H3; exact HkH) HndH HokH (HstH csv) HmsH HkB HndB HokB HstB HmsB HmsT
               ltac:(rewrite HposT; cbn [lenN]; lia)) as Hfac.
  cbn zeta in Hfac. rewrite <- Hb in Hfac. rewrite H3 in Hfac.
  set (m' := mkMsg (md_type md)
        (set_value (set_value (dec_flat (H0 c) 3 hn') Common_BodyLength (itoa_N L)) Common_MsgType rv35)
        (dec_flat (B0 md) 0 bn) (set_value (T0 c) Common_CheckSum csv)) in *.
  (* the decoded object's trees *)
  assert (Hty : md_type md = rv35) by (apply (find_msg_type _ _ _ Hfm)).
  assert (Eh' : tree_of c (set_value (m_hdr m') Common_MsgType (m_type m')) = Some (TN 3 35 rv35 [] :: renum 3 hn')).
  { unfold m'. cbn [m_hdr m_type]. rewrite Hty.
    exact (hdr_tree c (H0 c) a8 b9 d35 hn' (itoa_N L) rv35 rv35 t8 t9 t35 Hpos0 F8 S8 F9 S9 F35 S35 G35 T35 Rstr HkH HvH). }
  assert (Eb' : tree_of c (m_body m') = Some (renum 0 bn)) by (unfold m'; cbn [m_body]; exact (body_tree c md bn HkB HvB)).
  assert (Et' : tree_of c (m_trl m') = Some []) by (unfold m'; cbn [m_trl]; exact (trl_tree c (T0 c) p10 e10 csv t10' HposT FT ST)).
  assert (Ph : P (TN 3 35 rv35 [] :: renum 3 hn') = P (TN 3 35 rv35 [] :: hn')) by (rewrite !P_cons, P_renum by exact Fh; reflexivity).
  assert (Pb : P (renum 0 bn) = P bn) by (apply P_renum; exact Fb).
  (* encode the decoded object *)
  assert (Hshape : exists fp' subs' pos' groups',
            dec_flat (H0 c) 3 hn' = MB fp' subs' (fields_after (mb_fields (H0 c)) hn') pos' groups' (mb_unknown (H0 c))).
  { destruct (H0 c) as [fp0 subs0 fl0 pos0 groups0 unk0] eqn:EH0. cbn [mb_pos mb_fields mb_unknown] in *.
    rewrite dec_flat_shape; [|rewrite Hpos0; intros q yy Hq; cbn [In] in Hq; destruct Hq as [Hq|[Hq|[Hq|[]]]]; injection Hq as <- _; lia|exact HkH].
    do 4 eexists. reflexivity. }
  destruct Hshape as (fp' & subs' & pos' & groups' & Hshape).
  assert (Ht8 : Forall (fun n => n_tag n <> 8) hn') by (eapply Forall_impl; [|exact HtagsH]; cbn; intros n Hn; apply Hn).
  assert (Ht9 : Forall (fun n => n_tag n <> 9) hn') by (eapply Forall_impl; [|exact HtagsH]; cbn; intros n Hn; apply Hn).
  assert (Hfields8 : map_find 8 (mb_fields (set_value (m_hdr m') Common_MsgType (m_type m'))) = Some f8v).
  { unfold m'. cbn [m_hdr m_type]. rewrite Hshape. unfold set_value. cbn [mb_fields with_pos with_fields].
    change Common_MsgType with 35. change Common_BodyLength with 9.
    rewrite !map_find_set_other by (intros E; discriminate E).
    rewrite map_find_fields_after; [exact Hf8|exact Ht8]. }
  assert (Hfields9 : map_find 9 (mb_fields (set_value (m_hdr m') Common_MsgType (m_type m'))) <> None).
  { unfold m'. cbn [m_hdr m_type]. rewrite Hshape. unfold set_value. cbn [mb_fields with_pos with_fields].
    change Common_MsgType with 35. change Common_BodyLength with 9.
    rewrite !map_find_set_other by (intros E; discriminate E).
    rewrite map_find_set_same; [discriminate|].
    rewrite map_find_fields_after; [exact Hf9|exact Ht9]. }
  assert (HL2 : encoded_len c (TN 3 35 rv35 [] :: renum 3 hn') (renum 0 bn) [] = L).
  { unfold L. rewrite !encoded_len_pairs, Ph, Pb. reflexivity. }
  destruct (encode_shape_gen c m' (TN 3 35 rv35 [] :: renum 3 hn') (renum 0 bn) [] HR Eh' Eb' Et' T8 T9 T10 Hbeg Hbl)
    as (csv2 & m2 & Henc2 & _ & _ & _ & Hcsv2).
  - rewrite Ph, Pb. exact HpvAll.
  - unfold m'. cbn [m_trl]. unfold has_field. rewrite mb_fields_set_value.
    change Common_CheckSum with 10. rewrite map_find_set_same by exact HfT. reflexivity.
  - rewrite Hfields8. destruct (map_find 9 (mb_fields (set_value (m_hdr m') Common_MsgType (m_type m')))) eqn:E9x; [|exfalso; apply Hfields9; reflexivity]. rewrite Hf8r. apply list_eqb_refl.
  - unfold m'. cbn [m_hdr m_type]. rewrite !mb_unknown_set_value, mb_unknown_dec_flat. exact U0.
  - unfold m'. cbn [m_body]. rewrite mb_unknown_dec_flat. reflexivity.
  - unfold m'. cbn [m_trl]. rewrite mb_unknown_set_value. exact UT.
  - rewrite HL2. exact Hlen.
  - exists b, m1, m', m2, (TN 3 35 rv35 [] :: renum 3 hn'), (renum 0 bn).
    split; [exact Henc|]. split; [exact Hfac|]. split.
    + rewrite Henc2. f_equal. f_equal. unfold b, all_pairs. rewrite HL2, Ph, Pb.
      rewrite Hcsv2, HL2, Ph, Pb, <- Hcsv. reflexivity.
    + repeat split; assumption.
Qed.
End RT.
