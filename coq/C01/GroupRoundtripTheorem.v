(* c01_roundtrip_groups_partial: the boolean hypotheses imply those of GroupRoundtrip.roundtrip_groups_prop;
   the flat theorem c01_roundtrip_partial (FlatTheorem.v) stays as it is and is also a corollary. *)
From Coq Require Import NArith ZArith List Bool Lia Arith.
From F8 Require Import Codec.Bytes Codec.Meta Codec.Extract Codec.Decode Codec.Encode Codec.Render
                       C02.Spec_C02 C02.WfC02 C02.DigitsProofs C02.TokenProofs C02.TreeProofs C02.StructProofs
                       C02.AuxProofs C02.RenderProofs C02.EncodeProofs
                       C01.WfC01 C01.WfGroups C01.ExtractProofs C01.DecodeProofs C01.FactoryProofs C01.ReencodeProofs
                       C01.FlatTheorem C01.GroupRoundtripObj C01.GroupRoundtripDecode C01.GroupRoundtripFactory C01.GroupRoundtrip.
Import ListNotations.
Local Open Scope N_scope.

Theorem c01_roundtrip_groups_partial_lemma c m :
  render_ok c -> wf_msg c m = true -> fresh m = true -> vals_canonical c m = true -> c01_groups c m = true ->
  exists b m1 m' m2,
    msg_encode c m = Ok (b, m1) /\ factory c real_caps b false false = Ok m' /\
    msg_encode c m' = Ok (b, m2) /\
    content c m <> None /\ content c m' = content c m /\ m_type m' = m_type m.
Proof.
  intros HR Hwf _ _ Hfl. pose proof HR as [Rint Rstr].
  unfold wf_msg in Hwf. unfold c01_groups in Hfl.
  destruct (tree_of c (set_value (m_hdr m) Common_MsgType (m_type m))) as [hn|] eqn:Eh; [|discriminate].
  destruct (tree_of c (m_body m)) as [bn|] eqn:Eb; [|discriminate].
  destruct (tree_of c (m_trl m)) as [tn|] eqn:Et; [|discriminate].
  destruct (find_trait (g_traits (c_trailer c)) 10) as [t10|] eqn:E10; [|discriminate].
  destruct (msg_def c hn) as [md|] eqn:Emd; [|discriminate].
  destruct (msg_def_shape c hn md Emd) as (rv35 & hn' & -> & Hfm).
  destruct tn as [|? ?]; [|discriminate]. rewrite Hfm in Hfl.
  (* wf_msg *)
  apply andb_prop in Hwf. destruct Hwf as [Hwf Hlen]. apply andb_prop in Hwf. destruct Hwf as [Hwf Hunk].
  apply andb_prop in Hwf. destruct Hwf as [Hwf H89]. apply andb_prop in Hwf. destruct Hwf as [Hwf Hh10].
  apply andb_prop in Hwf. destruct Hwf as [Hwf _]. apply andb_prop in Hwf. destruct Hwf as [Hwf _].
  apply andb_prop in Hwf. destruct Hwf as [Hwf HwB]. apply andb_prop in Hwf. destruct Hwf as [Hctx HwH].
  apply N.ltb_lt in Hlen.
  destruct (mb_unknown (set_value (m_hdr m) Common_MsgType (m_type m))) eqn:Uh; [|discriminate].
  destruct (mb_unknown (m_body m)) eqn:Ub; [|discriminate].
  destruct (mb_unknown (m_trl m)) eqn:Ut; [|discriminate].
  (* c01_flat *)
  repeat (apply andb_prop in Hfl; let H := fresh "Q" in destruct Hfl as [Hfl H]).
  (* order of the conjuncts: Hfl = no-nul rv35; Q.. from the last to the first *)
  rename Q into QmsB, Q0 into QdB, Q1 into QndB, Q2 into QkB,
         Q3 into QmsH, Q4 into QstH, Q5 into QtagH, Q6 into QpH, Q7 into QvH, Q8 into QokH, Q9 into QndH,
         Q10 into QkH, Q11 into Qtrl, Q12 into Qhdr, Q13 into Qm3, Q14 into Qnul.
  (* header base *)
  unfold hdr0_ok in Qhdr. repeat (apply andb_prop in Qhdr; let H := fresh "R" in destruct Qhdr as [Qhdr H]).
  destruct (mb_pos (H0 c)) as [|[p1 [f1 a8]] [|[p2 [f2 b9]] [|[p3 [f3 d35]] [|? ?]]]] eqn:Hpos0; try discriminate.
  repeat (apply andb_prop in Qhdr; let H := fresh "K" in destruct Qhdr as [Qhdr H]).
  apply N.eqb_eq in Qhdr, K, K0, K1, K2, K3. subst p1 f1 p2 f2 p3 f3.
  destruct (find_trait (mb_fp (H0 c)) 8) as [t8|] eqn:F8; [|discriminate].
  destruct (find_trait (mb_fp (H0 c)) 9) as [t9|] eqn:F9; [|discriminate].
  destruct (find_trait (mb_fp (H0 c)) 35) as [t35|] eqn:F35; [|discriminate].
  repeat (apply andb_prop in R3; let H := fresh "S" in destruct R3 as [R3 H]).
  destruct (mb_unknown (H0 c)) eqn:U0; [|discriminate].
  destruct (map_find 8 (mb_fields (H0 c))) as [f8v|] eqn:Hf8; [|discriminate].
  apply list_eqb_eq in R1.
  unfold has_key in R0, R. 
  (* trailer base *)
  unfold trl0_ok in Qtrl. repeat (apply andb_prop in Qtrl; let H := fresh "W" in destruct Qtrl as [Qtrl H]).
  destruct (mb_pos (T0 c)) as [|[p10 [f10 e10]] [|? ?]] eqn:HposT; try discriminate. apply N.eqb_eq in Qtrl. subst f10.
  destruct (find_trait (mb_fp (T0 c)) 10) as [t10'|] eqn:FT; [|discriminate].
  destruct (mb_unknown (T0 c)) eqn:UT; [|discriminate].
  unfold has_key in W0.
  (* lists *)
  assert (HokH : Forall (flat_ok c (mb_fp (H0 c))) hn') by (eapply forallb_Forall; [apply flat_okb_sound|exact QokH]).
  assert (Fh : all_flat hn') by (eapply Forall_impl; [|exact HokH]; apply flat_ok_els).
  assert (Hpok : Forall pok (P hn')).
  { rewrite (P_all_flat hn' Fh). apply Forall_map. eapply forallb_Forall; [apply pokb_sound|assumption]. }
  assert (Hm2 : no_nul rv35).
  { apply Forall_forall. intros x Hx. rewrite forallb_forall in Qnul. specialize (Qnul x Hx). destruct (x =? 0); [discriminate|reflexivity]. }
  assert (HstH : forall v, stops (mb_fp (H0 c)) (P bn ++ [(10, v)])).
  { intros v. unfold no_trait in QstH. destruct bn as [|nb bn'].
    - cbn [flat_map app stops]. destruct (find_trait (mb_fp (H0 c)) 10); [discriminate|reflexivity].
    - destruct nb as [kb fb rvb elsb]. rewrite P_cons. cbn [npairs app stops n_tag] in *. destruct (find_trait (mb_fp (H0 c)) fb); [discriminate|reflexivity]. }
  assert (HtagsH : Forall (fun n => n_tag n <> 8 /\ n_tag n <> 9 /\ n_tag n <> 35) hn').
  { eapply forallb_Forall; [|exact QtagH]. intros n Hn. unfold not_auto_tag in Hn.
    apply andb_prop in Hn. destruct Hn as [Hn N3]. apply andb_prop in Hn. destruct Hn as [N1 N2].
    repeat split; intros E; rewrite E in *; discriminate. }
  destruct (roundtrip_groups_prop c m hn' bn rv35 md t10 HR Eh Eb Et E10 Hfm Hctx HwH HwB Hh10 H89 Uh Ub Ut Hlen
              Fh Hpok Hm2 ltac:(apply N.ltb_lt; exact Qm3)
              a8 b9 d35 t8 t9 t35 f8v Hpos0 F8 ltac:(destruct (t_suppress t8); [reflexivity|discriminate])
              F9 ltac:(destruct (t_suppress t9); [reflexivity|discriminate])
              F35 ltac:(destruct (t_suppress t35); [discriminate|reflexivity])
              ltac:(destruct (t_group t35); [discriminate|reflexivity])
              U0 Hf8 R1
              ltac:(destruct (map_find 9 (mb_fields (H0 c))); [discriminate|discriminate])
              ltac:(destruct (map_find 35 (mb_fields (H0 c))); [discriminate|discriminate])
              ltac:(apply N.ltb_lt; exact QkH) (nodupN_NoDup _ QndH) HokH
              ltac:(eapply forallb_Forall; [apply vis_okb_sound|exact QvH]) HtagsH HstH
              ltac:(destruct (find_missing (fp_after (mb_fp (H0 c)) hn')); [discriminate|reflexivity])
              ltac:(apply N.ltb_lt; exact QkB) (nodupN_NoDup _ QndB) QdB
              ltac:(destruct (find_missing (fp_after (g_traits (md_meta md)) bn)); [discriminate|reflexivity])
              p10 e10 t10' HposT FT ltac:(destruct (t_suppress t10'); [reflexivity|discriminate]) UT
              ltac:(destruct (map_find 10 (mb_fields (T0 c))); [discriminate|discriminate])
              ltac:(destruct (find_missing (mb_fp (T0 c))); [discriminate|reflexivity]))
    as (b & m1 & m' & m2 & hn2 & bn2 & Henc & Hfac & Henc2 & Eh2 & Ph & Eb2 & Pb & Et2 & Hty).
  exists b, m1, m', m2. split; [exact Henc|]. split; [exact Hfac|]. split; [exact Henc2|].
  unfold content. rewrite Eh, Eb, Et, Eh2, Eb2, Et2, Ph, Pb. split; [discriminate|]. split; [reflexivity|].
  rewrite Hty. rewrite (find_msg_type _ _ _ Hfm).
  apply list_eqb_eq. exact Hfl.
Qed.
