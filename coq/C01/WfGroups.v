(* Decidable hypothesis of c01_roundtrip_groups_partial (extracted, evaluated at run time): the
   nodes of a content tree are decodable -- every field is legal and positioned in its table,
   its value is canonical, short, without SOH/NUL, a group count field carries elements exactly
   when the decoder will look for them, every element has its mandatory fields and no tag twice,
   recursively at any depth.  No proofs here. *)
From Coq Require Import NArith ZArith List Bool.
From F8 Require Import Codec.Bytes Codec.Meta Codec.Extract Codec.Decode Codec.Encode C02.Spec_C02 C02.WfC02 C01.WfC01.
Import ListNotations.
Local Open Scope N_scope.

Definition pokv (f : N) (rv : list N) : bool :=
  forallb (fun b => negb (b =? SOH) && negb (b =? 0)) rv && (lenN rv <? 2048) && (f <? 65536).
Definition nonempty {A} (l : list A) : bool := match l with [] => false | _ => true end.
Definition mand_okb (sg : gmeta) (e : list tnode) : bool :=
  match find_missing (fp_after (g_traits sg) e) with None => true | Some _ => false end.

Fixpoint dnode_ok (c : ctx) (top : bool) (g : gmeta) (n : tnode) {struct n} : bool :=
  match n with
  | TN k f rv els =>
    match find_trait (g_traits g) f with
    | None => false
    | Some tr =>
      negb (t_present tr) && negb (t_suppress tr) && t_haspos tr &&
      match find_be (c_fields c) f with Some _ => true | None => false end &&
      pokv f rv && list_eqb (c_render c (ftype_of c f (t_ftype tr)) rv) rv &&
      Bool.eqb (t_group tr && has_group_count_c c f rv) (nonempty els) &&
      (negb top || negb (t_ftype tr =? ft_Length) || (f =? Common_BodyLength)) &&
      match els with
      | [] => true
      | _ :: _ =>
        match find_sub (g_subs g) f with
        | None => false
        | Some sg =>
          (fix el (es : list (list tnode)) : bool :=
             match es with
             | [] => true
             | e :: r =>
               (fix nl (l : list tnode) : bool :=
                  match l with [] => true | x :: r' => dnode_ok c false sg x && nl r' end) e &&
               mand_okb sg e && nodupN (map n_tag e) && (lenN e <? 65536) && el r
             end) els
        end
      end
    end
  end.
Definition dnodes_ok (c : ctx) (top : bool) (g : gmeta) (ns : list tnode) : bool := forallb (dnode_ok c top g) ns.

(* c01_groups: the hypothesis of c01_roundtrip_groups_partial besides wf_msg / fresh / vals_canonical:
   header without group elements and Length fields (as in c01_flat), no trailer field besides
   CheckSum, BODY = any decodable tree (groups with any number of elements nested to any depth;
   no Length-typed field at message level of the body, inside elements they are plain fields) *)
Definition c01_groups (c : ctx) (m : message) : bool :=
  let h0 := set_value (m_hdr m) Common_MsgType (m_type m) in
  match tree_of c h0, tree_of c (m_body m), tree_of c (m_trl m) with
  | Some (TN _ _ rv35 _ :: hn'), Some bn, Some [] =>
    match find_msg (c_msgs c) rv35 with
    | None => false
    | Some md =>
      list_eqb rv35 (m_type m) && forallb (fun b => negb (b =? 0)) rv35 && (lenN rv35 <? 32) &&
      hdr0_ok c && trl0_ok c &&
      (* header *)
      (3 + lenN hn' <? 65536) && nodupN (map n_tag hn') &&
      forallb (flat_okb c (mb_fp (H0 c))) hn' && forallb (vis_okb c (mb_fp (H0 c))) hn' &&
      forallb pokb hn' && forallb not_auto_tag hn' &&
      no_trait (mb_fp (H0 c)) (match bn with n :: _ => n_tag n | [] => 10 end) &&
      match find_missing (fp_after (mb_fp (H0 c)) hn') with None => true | Some _ => false end &&
      (* body *)
      (lenN bn <? 65536) && nodupN (map n_tag bn) && dnodes_ok c true (md_meta md) bn &&
      match find_missing (fp_after (g_traits (md_meta md)) bn) with None => true | Some _ => false end
    end
  | _, _, _ => false
  end.
