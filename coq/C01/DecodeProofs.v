(* The decode loop of the codec model on the byte stream of printed fields (strict mode, no
   repeating-group elements, no Length/data pairing): dec_loop consumes exactly the fields of the
   part and files them in arrival order. *)
From Coq Require Import NArith ZArith List Bool Lia Arith.
From F8 Require Import Codec.Bytes Codec.Meta Codec.Extract Codec.Decode Codec.Encode Codec.Render
                       C02.Spec_C02 C02.WfC02 C02.DigitsProofs C02.TokenProofs C02.TreeProofs C02.StructProofs
                       C02.AuxProofs C02.RenderProofs C01.WfC01 C01.ExtractProofs.
Import ListNotations.
Local Open Scope N_scope.

(* ---------------------------------------------------------------- lists and offsets *)
Lemma skipN_app {A} (a b : list A) : skipN (lenN a) (a ++ b) = b.
Proof.
  induction a as [|x a IH]; cbn [lenN app skipN].
  - destruct b; reflexivity.
  - replace (N.succ (lenN a) =? 0) with false by (symmetry; apply N.eqb_neq; lia).
    replace (N.succ (lenN a) - 1) with (lenN a) by lia. exact IH.
Qed.

Definition no_nul (v : list N) : Prop := Forall (fun b => (b =? 0) = false) v.
Lemma cstr_no_nul v : no_nul v -> cstr v = v.
Proof.
  induction v as [|x v IH]; intros H; cbn [cstr]; [reflexivity|]. inversion H as [|? ? Hx Hv]; subst.
  rewrite Hx, IH by assumption. reflexivity.
Qed.

(* a printed pair the decoder can take back *)
Definition pok (p : N * list N) : Prop :=
  no_soh (snd p) /\ no_nul (snd p) /\ lenN (snd p) < 2048 /\ fst p < 65536.

Lemma tag_len_small f : f < 65536 -> lenN (itoa_N f) < 32.
Proof.
  intros H. rewrite len_digits_itoa by lia. unfold len_digits. repeat destruct (_ <? _); lia.
Qed.

Lemma atoi_u16_itoa f : f < 65536 -> fast_atoi_u16 (itoa_N f) = f.
Proof.
  intros H. unfold fast_atoi_u16, fast_atoi_mod. rewrite cstr_digits by apply itoa_digits.
  change 0%Z with (Z.of_N 0 mod two16)%Z.
  rewrite (fold_atoi two16 ltac:(reflexivity) _ 0 f (itoa_digits f) (dec_val_itoa f)).
  unfold two16. rewrite Z.mod_small by lia. apply N2Z.id.
Qed.
Lemma atoi_u32_itoa f : f < 4294967296 -> fast_atoi_u32 (itoa_N f) = f.
Proof.
  intros H. unfold fast_atoi_u32, fast_atoi_mod. rewrite cstr_digits by apply itoa_digits.
  change 0%Z with (Z.of_N 0 mod two32)%Z.
  rewrite (fold_atoi two32 ltac:(reflexivity) _ 0 f (itoa_digits f) (dec_val_itoa f)).
  unfold two32. rewrite Z.mod_small by lia. apply N2Z.id.
Qed.

(* ---------------------------------------------------------------- the stream *)
Section Stream.
Variable from : list N.
Variable fsize : N.

(* from = pre ++ (printed pairs l) ++ tail, the window [0, fsize) ends after the pairs *)
Definition stream (pre : list N) (l : list (N * list N)) (tail : list N) : Prop :=
  from = pre ++ flat_map pbytes l ++ tail /\ fsize = lenN pre + lenN (flat_map pbytes l).

Lemma stream_step pre p l tail : stream pre (p :: l) tail -> stream (pre ++ pbytes p) l tail.
Proof.
  intros [H1 H2]. split.
  - rewrite H1. cbn [flat_map]. rewrite <- !app_assoc. reflexivity.
  - rewrite H2. cbn [flat_map]. rewrite !lenN_app. lia.
Qed.

Lemma tok_next pre p l tail : stream pre (p :: l) tail -> pok p ->
  tok_at real_caps from fsize (lenN pre) = XOk (itoa_N (fst p)) (snd p) (lenN (pbytes p)).
Proof.
  intros [H1 H2] (Hs & _ & Hl & Hf). unfold tok_at. rewrite H1, skipN_app. cbn [flat_map]. rewrite <- app_assoc.
  destruct p as [f v]. cbn [fst snd] in *. apply extract_field; [assumption| | |].
  - rewrite H2. cbn [flat_map]. rewrite lenN_app.
    generalize (lenN pre) (lenN (pbytes (f, v))) (lenN (flat_map pbytes l)). intros a b d. lia.
  - pose proof (tag_len_small f Hf). change (cap_tag real_caps) with 2048. lia.
  - change (cap_val real_caps) with 2048. exact Hl.
Qed.

Lemma tok_end pre tail : stream pre [] tail -> tok_at real_caps from fsize (lenN pre) = XFail [] [].
Proof.
  intros [_ H2]. unfold tok_at. cbn [flat_map lenN] in H2. rewrite H2, N.add_0_r, N.sub_diag.
  apply extract_empty; reflexivity.
Qed.
End Stream.

(* ---------------------------------------------------------------- trait table updates *)
Lemma find_trait_upd_other g ts f f' : (forall t, t_fnum (g t) = t_fnum t) -> f <> f' ->
  find_trait (upd_trait g ts f') f = find_trait ts f.
Proof.
  intros Hg Hne. induction ts as [|x r IH]; cbn [upd_trait find_trait]; [reflexivity|].
  destruct (t_fnum x =? f') eqn:E.
  - cbn [find_trait]. rewrite Hg. apply N.eqb_eq in E.
    replace (t_fnum x =? f) with false by (symmetry; apply N.eqb_neq; congruence). reflexivity.
  - cbn [find_trait]. destruct (t_fnum x =? f); [reflexivity|exact IH].
Qed.
Lemma find_trait_upd_none g ts f f' : (forall t, t_fnum (g t) = t_fnum t) ->
  find_trait ts f = None -> find_trait (upd_trait g ts f') f = None.
Proof.
  intros Hg. induction ts as [|x r IH]; cbn [upd_trait find_trait]; [reflexivity|].
  destruct (t_fnum x =? f) eqn:E; [discriminate|]. intros H.
  destruct (t_fnum x =? f'); cbn [find_trait]; [rewrite Hg|]; rewrite E; [exact H|apply IH; exact H].
Qed.
Lemma set_present_fnum v t : t_fnum (set_present v t) = t_fnum t.
Proof. reflexivity. Qed.

(* ---------------------------------------------------------------- the flat loop *)
Definition add_dec (m : mbase) (k : N) (n : tnode) : mbase :=
  mark_present (add_field_decoder m (n_tag n) (k + 1) (n_val n)) (n_tag n).
Fixpoint dec_flat (m : mbase) (k : N) (ns : list tnode) : mbase :=
  match ns with [] => m | n :: r => dec_flat (add_dec m k n) (k + 1) r end.

Definition flat_ok (c : ctx) (fp : list trait) (n : tnode) : Prop :=
  exists tr, find_trait fp (n_tag n) = Some tr /\ t_present tr = false /\
    (t_group tr && has_group_count_c c (n_tag n) (n_val n)) = false /\
    (negb (t_ftype tr =? ft_Length) || (n_tag n =? Common_BodyLength)) = true /\
    find_be (c_fields c) (n_tag n) <> None /\ n_els n = [].
Definition stops (fp : list trait) (rp : list (N * list N)) : Prop :=
  match rp with [] => True | (f, _) :: _ => find_trait fp f = None end.

Lemma mb_fp_add_dec m k n : mb_fp (add_dec m k n) = upd_trait (set_present true) (mb_fp m) (n_tag n).
Proof. destruct m. reflexivity. Qed.

Lemma P_flat n r : n_els n = [] -> P (n :: r) = (n_tag n, n_val n) :: P r.
Proof. destruct n as [k f rv els]. cbn [n_els n_tag n_val]. intros ->. reflexivity. Qed.

Lemma dec_loop_flat c from fsize gfuel : forall ns m pre k tb fuel rp tail,
  stream from fsize pre (P ns ++ rp) tail -> Forall pok (P ns ++ rp) ->
  NoDup (map n_tag ns) -> Forall (flat_ok c (mb_fp m)) ns -> stops (mb_fp m) rp ->
  k + lenN ns < 4294967296 -> (length ns < fuel)%nat ->
  dec_loop c real_caps from fsize false gfuel fuel m (lenN pre) k None 0 tb =
  dec_finish false (dec_flat m k ns) (lenN pre + lenN (flat_map pbytes (P ns))) (k + lenN ns) None 0.
Proof.
  induction ns as [|n ns IH]; intros m pre k tb fuel rp tail Hst Hpok Hnd Hok Hstop Hk Hfuel.
  - destruct fuel as [|fuel]; [lia|]. cbn [flat_map app lenN dec_flat] in *. rewrite !N.add_0_r.
    cbn [dec_loop]. destruct Hst as [Hs1 Hs2].
    replace (lenN pre <=? fsize) with true by (symmetry; apply N.leb_le; lia).
    destruct rp as [|[f v] rp].
    + rewrite (tok_end from fsize pre tail (conj Hs1 Hs2)). reflexivity.
    + pose proof (Forall_inv Hpok) as Hp.
      rewrite (tok_next from fsize pre (f, v) rp tail (conj Hs1 Hs2) Hp). cbn [fst snd].
      destruct Hp as (_ & _ & _ & Hf). cbn [fst] in Hf. rewrite atoi_u16_itoa by assumption.
      cbn [stops] in Hstop. rewrite Hstop. reflexivity.
  - destruct fuel as [|fuel]; [lia|].
    pose proof (Forall_inv Hok) as Hn. pose proof (Forall_inv_tail Hok) as Hok'. destruct Hn as (tr & Htr & Hpr & Hgrp & Hlen & Hbe & Hels).
    rewrite (P_flat n ns Hels) in *. cbn [app] in Hst, Hpok. pose proof (Forall_inv Hpok) as Hp. pose proof (Forall_inv_tail Hpok) as Hpok'.
    cbn [dec_loop]. pose proof Hst as [Hs1 Hs2].
    replace (lenN pre <=? fsize) with true by (symmetry; apply N.leb_le; lia).
    rewrite (tok_next from fsize pre _ _ tail Hst Hp). cbn [fst snd].
    pose proof Hp as (_ & Hnul & _ & Hf). cbn [fst snd] in Hf, Hnul. rewrite atoi_u16_itoa by assumption.
    rewrite Htr, Hpr. destruct (find_be (c_fields c) (n_tag n)) as [ty|] eqn:Ebe; [|congruence].
    rewrite cstr_no_nul by assumption. unfold opt_group. rewrite Hgrp. rewrite Hlen.
    cbn [lenN] in Hk. replace ((k + 1) mod 4294967296) with (k + 1) by (symmetry; apply N.mod_small; lia).
    change (mark_present (add_field_decoder m (n_tag n) (k + 1) (n_val n)) (n_tag n)) with (add_dec m k n).
    replace (lenN pre + lenN (pbytes (n_tag n, n_val n))) with (lenN (pre ++ pbytes (n_tag n, n_val n))) by apply lenN_app.
    cbn [map] in Hnd. apply NoDup_cons_iff in Hnd. destruct Hnd as [Hni Hnd'].
    rewrite (IH (add_dec m k n) (pre ++ pbytes (n_tag n, n_val n)) (k + 1) _ fuel rp tail).
    + cbn [dec_flat flat_map lenN]. rewrite !lenN_app. f_equal; lia.
    + apply stream_step. exact Hst.
    + exact Hpok'.
    + exact Hnd'.
    + rewrite mb_fp_add_dec. rewrite Forall_forall in *. intros x Hx. destruct (Hok' x Hx) as (trx & Hx1 & Hx2).
      exists trx. split; [|exact Hx2]. rewrite find_trait_upd_other; [exact Hx1|apply set_present_fnum|].
      intros Heq. apply Hni. rewrite <- Heq. apply in_map. exact Hx.
    + rewrite mb_fp_add_dec. destruct rp as [|[f v] rp]; [exact I|]. cbn [stops] in *.
      apply find_trait_upd_none; [apply set_present_fnum|exact Hstop].
    + lia.
    + cbn [length] in Hfuel. lia.
Qed.

(* ---------------------------------------------------------------- the decoded object *)
Fixpoint entries (k : N) (ns : list tnode) : list (N * (N * list N)) :=
  match ns with [] => [] | n :: r => (k + 1, (n_tag n, n_val n)) :: entries (k + 1) r end.
Fixpoint renum (k : N) (ns : list tnode) : list tnode :=
  match ns with [] => [] | n :: r => TN (k + 1) (n_tag n) (n_val n) [] :: renum (k + 1) r end.
Definition fields_after (fl : list (N * list N)) (ns : list tnode) : list (N * list N) :=
  fold_left (fun fl n => map_insert (n_tag n) (n_val n) fl) ns fl.

Lemma pos_insert_append {A} (x : A) : forall l p, (forall q y, In (q, y) l -> q <= p) ->
  pos_insert_k p x l = l ++ [(p, x)].
Proof.
  induction l as [|[q y] l IH]; intros p H; cbn [pos_insert_k app]; [reflexivity|].
  replace (p <? q) with false by (symmetry; apply N.ltb_ge; apply (H q y); left; reflexivity).
  rewrite IH; [reflexivity|]. intros q' y' Hin. apply (H q' y'). right. exact Hin.
Qed.

Lemma entries_keys k ns : forall q y, In (q, y) (entries k ns) -> k < q <= k + lenN ns.
Proof.
  revert k. induction ns as [|n ns IH]; intros k q y H; cbn [entries lenN] in *; [destruct H|].
  destruct H as [H|H]; [injection H as <- _; lia|]. specialize (IH _ _ _ H). lia.
Qed.

Lemma dec_flat_shape : forall ns fp subs fl pos groups unk k,
  (forall q y, In (q, y) pos -> q <= k) -> k + lenN ns < 65536 ->
  dec_flat (MB fp subs fl pos groups unk) k ns =
  MB (fp_after fp ns) subs (fields_after fl ns) (pos ++ entries k ns) groups unk.
Proof.
  induction ns as [|n ns IH]; intros fp subs fl pos groups unk k Hk Hlen; cbn [dec_flat entries fp_after fields_after fold_left].
  - rewrite app_nil_r. reflexivity.
  - cbn [lenN] in Hlen. unfold add_dec, mark_present, add_field_decoder. cbn [mb_fields mb_pos mb_fp with_fields with_pos with_fp].
    unfold pos_insert, pos_key. rewrite N.mod_small by lia.
    rewrite pos_insert_append by (intros q y Hq; specialize (Hk q y Hq); lia).
    rewrite IH.
    + rewrite <- app_assoc. reflexivity.
    + intros q y Hq. apply in_app_or in Hq. destruct Hq as [Hq|[Hq|[]]]; [specialize (Hk q y Hq); lia|injection Hq as <- _; lia].
    + lia.
Qed.

(* nodes_of only looks at the suppress / group / ftype attributes of the traits *)
Definition same_static (fp fp' : list trait) : Prop :=
  forall f, match find_trait fp f, find_trait fp' f with
            | Some a, Some b => t_suppress a = t_suppress b /\ t_group a = t_group b /\ t_ftype a = t_ftype b
            | None, None => True
            | _, _ => False
            end.
Lemma same_static_refl fp : same_static fp fp.
Proof. intros f. destruct (find_trait fp f); auto. Qed.
Lemma same_static_trans a b d : same_static a b -> same_static b d -> same_static a d.
Proof.
  intros H1 H2 f. specialize (H1 f). specialize (H2 f).
  destruct (find_trait a f), (find_trait b f), (find_trait d f); try tauto.
  destruct H1 as (A1 & A2 & A3), H2 as (B1 & B2 & B3). repeat split; congruence.
Qed.
Lemma same_static_upd fp f' : same_static fp (upd_trait (set_present true) fp f').
Proof.
  intros f. induction fp as [|x r IH]; cbn [upd_trait find_trait]; [exact I|].
  destruct (t_fnum x =? f') eqn:E'.
  - cbn [find_trait]. rewrite set_present_fnum. destruct (t_fnum x =? f); [repeat split|].
    destruct (find_trait r f); auto.
  - cbn [find_trait]. destruct (t_fnum x =? f); [repeat split|exact IH].
Qed.
Lemma same_static_after fp ns : same_static fp (fp_after fp ns).
Proof.
  revert fp. induction ns as [|n ns IH]; intros fp; cbn [fp_after fold_left]; [apply same_static_refl|].
  eapply same_static_trans; [apply same_static_upd|apply IH].
Qed.

Lemma nodes_of_static c fp fp' gts : same_static fp fp' -> forall pos, nodes_of c fp gts pos = nodes_of c fp' gts pos.
Proof.
  intros H. induction pos as [|[k [f v]] pos IH]; cbn [nodes_of]; [reflexivity|].
  specialize (H f). destruct (find_trait fp f) as [a|], (find_trait fp' f) as [b|]; try tauto.
  destruct H as (H1 & H2 & H3). rewrite H1, H2, H3, IH. reflexivity.
Qed.

Lemma nodes_of_app c fp gts : forall p1 p2 a b,
  nodes_of c fp gts p1 = Some a -> nodes_of c fp gts p2 = Some b -> nodes_of c fp gts (p1 ++ p2) = Some (a ++ b).
Proof.
  induction p1 as [|[k [f v]] p1 IH]; intros p2 a b H1 H2; cbn [app nodes_of] in *.
  - injection H1 as <-. exact H2.
  - destruct (find_trait fp f) as [tr|]; [|discriminate].
    destruct (t_suppress tr); [apply IH; assumption|].
    destruct (t_group tr && has_group_count_c c f v).
    + destruct (map_find f gts) as [[els|]|]; try discriminate.
      destruct (nodes_of c fp gts p1) as [ns|] eqn:E; [|discriminate]. injection H1 as <-.
      rewrite (IH p2 ns b eq_refl H2). reflexivity.
    + destruct (nodes_of c fp gts p1) as [ns|] eqn:E; [|discriminate]. injection H1 as <-.
      rewrite (IH p2 ns b eq_refl H2). reflexivity.
Qed.

(* a decoded (flat) node seen by the encoder *)
Definition vis_ok (c : ctx) (fp : list trait) (n : tnode) : Prop :=
  exists tr, find_trait fp (n_tag n) = Some tr /\ t_suppress tr = false /\
    (t_group tr && has_group_count_c c (n_tag n) (n_val n)) = false /\
    c_render c (ftype_of c (n_tag n) (t_ftype tr)) (n_val n) = n_val n.

Lemma nodes_of_entries c fp gts : forall ns k, Forall (vis_ok c fp) ns ->
  nodes_of c fp gts (entries k ns) = Some (renum k ns).
Proof.
  induction ns as [|n ns IH]; intros k H; cbn [entries renum nodes_of]; [reflexivity|].
  pose proof (Forall_inv H) as (tr & Htr & Hs & Hg & Hr). rewrite Htr, Hs, Hg, Hr.
  rewrite (IH (k + 1) (Forall_inv_tail H)). reflexivity.
Qed.
