(* Message::factory on the bytes of a message whose BODY carries repeating groups (any number of
   elements, any depth); header without group elements, no trailer field.  Generalises
   FactoryProofs.factory_flat (which stays as it is). *)
From Coq Require Import NArith ZArith List Bool Lia Arith.
From F8 Require Import Codec.Bytes Codec.Meta Codec.Extract Codec.Decode Codec.Encode Codec.Render
                       C07.Chksum C07.Spec_C07 C07.ChksumProofs
                       C02.Spec_C02 C02.WfC02 C02.DigitsProofs C02.TokenProofs C02.TreeProofs C02.StructProofs
                       C02.AuxProofs C02.RenderProofs C02.EncodeProofs
                       C01.WfC01 C01.WfGroups C01.ExtractProofs C01.DecodeProofs C01.FactoryProofs C01.ReencodeProofs
                       C01.GroupRoundtripObj C01.GroupRoundtripDecode.
Import ListNotations.
Local Open Scope N_scope.

Lemma pbytes_len3 p : (3 <= length (pbytes p))%nat.
Proof.
  destruct p as [f v]. unfold pbytes. cbn [fst snd]. rewrite app_length. cbn [length]. rewrite app_length. cbn [length].
  pose proof (itoa_nonempty f). destruct (itoa_N f); [congruence|cbn [length]; lia].
Qed.
Lemma pairs_len3 ps : (3 * length ps <= length (flat_map pbytes ps))%nat.
Proof.
  induction ps as [|p ps IH]; cbn [flat_map length]; [lia|]. rewrite app_length. pose proof (pbytes_len3 p). lia.
Qed.

(* MessageBase::decode of the body *)
Lemma body_decode_tree c from md outer bn pre rp tail :
  lenN from < 4294967296 -> (1 <= length from)%nat ->
  stream from (lenN from - 0) pre (P bn ++ rp) tail -> Forall pok rp -> head_in outer rp ->
  lenN bn < 65536 -> NoDup (map n_tag bn) ->
  wf_meta outer (md_meta md) = true -> disj (tags (md_meta md)) outer ->
  Forall (fun x => wf_node (md_meta md) x = true) bn -> dnodes_ok c true (md_meta md) bn = true ->
  find_missing (fp_after (g_traits (md_meta md)) bn) = None ->
  exists B' Tb,
    mbase_decode c real_caps from (B0 md) (lenN pre) 0 false = Ok (B', lenN pre + lenN (flat_map pbytes (P bn))) /\
    Inv c (md_meta md) B' bn Tb.
Proof.
  intros Hlen Hne1 Hst Hpok Hrp HkB Hnd Hwm Hdj Hwf Hd Hmiss. unfold mbase_decode, mb_decode.
  replace ((lenN from + 4294967296 - 0) mod 4294967296) with (lenN from - 0).
  2:{ rewrite !N.sub_0_r. replace (lenN from + 4294967296) with (lenN from + 1 * 4294967296) by lia.
      rewrite N.mod_add by lia. symmetry. apply N.mod_small. lia. }
  assert (Hbytes : (length (flat_map pbytes (P bn)) <= length from)%nat).
  { destruct Hst as [Hs1 _]. apply (f_equal (@length N)) in Hs1. rewrite !app_length, flat_map_app, app_length in Hs1. lia. }
  pose proof (pairs_len3 (P bn)) as H3. pose proof (nodes_len_le bn) as Hn.
  destruct (dec_loop_tree c from (lenN from - 0) (md_meta md) outer (dec_fuel from) bn [] (B0 md) [] pre [] (dec_fuel from) rp tail
              Hwm Hdj Hwf Hd Hnd (Inv_init c (md_meta md)) Hst Hpok Hrp HkB) as (B' & Tb & Hrun & IB).
  - unfold dec_fuel. lia.
  - unfold dec_fuel. lia.
  - exists B', Tb. split; [|exact IB]. change (lenN (mb_pos (B0 md))) with (lenN (@nil tnode)).
    cbn [app] in Hrun, IB. rewrite Hrun. unfold dec_finish. rewrite (inv_fp _ _ _ _ _ IB), Hmiss. reflexivity.
Qed.

Lemma factory_groups c md bg L rv35 hn' bn csv outer :
  let from := pbytes (8, bg) ++ pbytes (9, itoa_N L) ++ pbytes (35, rv35) ++
              flat_map pbytes (P hn' ++ P bn) ++ pbytes (10, csv) in
  val_ok bg = true -> lenN bg < 1000 -> L < 10000000 ->
  val_ok rv35 = true -> no_nul rv35 -> lenN rv35 < 32 -> find_msg (c_msgs c) rv35 = Some md ->
  lenN (flat_map pbytes (P hn' ++ P bn)) < 10000000 ->
  all_digits csv -> lenN csv = 3 ->
  dec_val csv 0 = Some (bytesumN (pbytes (8, bg) ++ pbytes (9, itoa_N L) ++ pbytes (35, rv35) ++ flat_map pbytes (P hn' ++ P bn))) ->
  Forall pok (P hn') -> Forall pv (P hn' ++ P bn) ->
  (* header *)
  lenN (mb_pos (H0 c)) + lenN hn' < 65536 ->
  NoDup (map n_tag hn') -> Forall (flat_ok c (mb_fp (H0 c))) hn' -> stops (mb_fp (H0 c)) (P bn ++ [(10, csv)]) ->
  find_missing (fp_after (mb_fp (H0 c)) hn') = None ->
  (* body: any tree *)
  lenN bn < 65536 -> NoDup (map n_tag bn) ->
  wf_meta outer (md_meta md) = true -> disj (tags (md_meta md)) outer -> In 10 outer ->
  Forall (fun x => wf_node (md_meta md) x = true) bn -> dnodes_ok c true (md_meta md) bn = true ->
  find_missing (fp_after (g_traits (md_meta md)) bn) = None ->
  (* trailer *)
  find_missing (mb_fp (T0 c)) = None -> lenN (mb_pos (T0 c)) < 65536 ->
  exists B' Tb,
  factory c real_caps from false false =
  Ok (mkMsg (md_type md)
        (set_value (set_value (dec_flat (H0 c) (lenN (mb_pos (H0 c))) hn') Common_BodyLength (itoa_N L)) Common_MsgType rv35)
        B'
        (set_value (T0 c) Common_CheckSum csv)) /\
  Inv c (md_meta md) B' bn Tb.
Proof.
  intros from Hbg Hbgl HL Hm1 Hm2 Hm3 Hfm Hmid Hcd Hcl Hcv HpokH Hpv HkH HndH HokH HstH HmsH HkB HndB HwmB HdjB H10o HwfB HdB HmsB HmsT HkT.
  assert (HpokB : Forall pok (P bn)) by (apply (dnodes_pok c _ true (md_meta md) bn (le_n _) HdB)).
  assert (Hpok : Forall pok (P hn' ++ P bn)) by (apply Forall_app; split; assumption).
  set (p8 := pbytes (8, bg)) in *. set (p9 := pbytes (9, itoa_N L)) in *. set (p35 := pbytes (35, rv35)) in *.
  set (mid := flat_map pbytes (P hn' ++ P bn)) in *. set (cs := pbytes (10, csv)) in *.
  assert (Hcs : lenN cs = 7) by (unfold cs; rewrite pbytes_len, itoa_10, Hcl; reflexivity).
  assert (HLd : lenN (itoa_N L) < 32) by (rewrite len_digits_itoa by assumption; unfold len_digits; repeat destruct (_ <? _); lia).
  assert (Hflen : lenN from = lenN p8 + lenN p9 + lenN p35 + lenN mid + 7) by (unfold from; rewrite !lenN_app, Hcs; lia).
  assert (Hp8 : lenN p8 = 1 + 1 + lenN bg + 1) by (unfold p8; rewrite pbytes_len, itoa_8; reflexivity).
  assert (Hp9 : lenN p9 = 1 + 1 + lenN (itoa_N L) + 1) by (unfold p9; rewrite pbytes_len, itoa_9; reflexivity).
  assert (Hp35 : lenN p35 = 2 + 1 + lenN rv35 + 1) by (unfold p35; rewrite pbytes_len, itoa_35; reflexivity).
  assert (Hfsmall : lenN from < 4294967296) by lia.
  unfold factory. change (cap_htag real_caps) with 32. change (cap_hval real_caps) with 2048.
  change (cap_len real_caps) with 32. change (cap_mtype real_caps) with 32.
  unfold from at 1, p8, p9, p35.
  rewrite extract_header_shape; [|apply val_ok_no_soh; exact Hbg|lia|apply val_ok_no_soh, digits_val_ok, itoa_digits|exact HLd|apply val_ok_no_soh; exact Hm1|exact Hm3].
  fold p8 p9 p35. cbn [bind].
  replace (lenN p8 + lenN p9 + lenN p35 =? 0) with false by (symmetry; apply N.eqb_neq; lia).
  rewrite (cstr_no_nul rv35 Hm2), Hfm.
  change (mk_message c md false) with (mkMsg (md_type md) (H0 c) (B0 md) (T0 c)).
  unfold msg_decode. cbn [m_hdr m_body m_trl m_type].
  (* header *)
  set (pre1 := p8 ++ p9 ++ p35).
  assert (Hpre1 : lenN pre1 = lenN p8 + lenN p9 + lenN p35) by (unfold pre1; rewrite !lenN_app; lia).
  rewrite <- Hpre1.
  assert (Hpk10 : pok (10, csv)) by (apply digits_pok; [lia|exact Hcd|lia]).
  assert (Hfrom1 : from = pre1 ++ flat_map pbytes (P hn' ++ P bn ++ [(10, csv)]) ++ []).
  { unfold from, pre1, mid, cs. rewrite app_nil_r. rewrite (app_assoc (P hn') (P bn)), (flat_map_app pbytes (P hn' ++ P bn) [(10, csv)]).
    cbn [flat_map]. rewrite app_nil_r. rewrite <- !app_assoc. reflexivity. }
  rewrite (mbase_decode_flat c from (H0 c) pre1 hn' (P bn ++ [(10, csv)]) [] 0); try assumption; try lia.
  2:{ split; [exact Hfrom1|]. rewrite N.sub_0_r. rewrite Hfrom1 at 1. rewrite app_nil_r, lenN_app. reflexivity. }
  2:{ rewrite app_assoc. apply Forall_app. split; [exact Hpok|constructor; [exact Hpk10|constructor]]. }
  cbn [bind].
  (* body *)
  set (pre2 := pre1 ++ flat_map pbytes (P hn')).
  replace (lenN pre1 + lenN (flat_map pbytes (P hn'))) with (lenN pre2) by (unfold pre2; apply lenN_app).
  assert (Hfrom2 : from = pre2 ++ flat_map pbytes (P bn ++ [(10, csv)]) ++ []).
  { rewrite Hfrom1. unfold pre2. rewrite !app_nil_r, flat_map_app, <- app_assoc. reflexivity. }
  assert (Hst2 : stream from (lenN from - 0) pre2 (P bn ++ [(10, csv)]) []).
  { split; [exact Hfrom2|]. rewrite N.sub_0_r. rewrite Hfrom2 at 1. rewrite app_nil_r, lenN_app. reflexivity. }
  destruct (body_decode_tree c from md outer bn pre2 [(10, csv)] [] Hfsmall ltac:(rewrite lenN_length in Hflen; lia) Hst2 ltac:(constructor; [exact Hpk10|constructor])
              H10o HkB HndB HwmB HdjB HwfB HdB HmsB) as (B' & Tb & HB & IB).
  rewrite HB. cbn [bind].
  (* trailer: ignore = 7 *)
  set (pre3 := pre2 ++ flat_map pbytes (P bn)).
  replace (lenN pre2 + lenN (flat_map pbytes (P bn))) with (lenN pre3) by (unfold pre3; apply lenN_app).
  assert (Hfrom3 : from = pre3 ++ flat_map pbytes (P [] ++ []) ++ cs).
  { rewrite Hfrom2. unfold pre3, cs. cbn [flat_map app]. rewrite !app_nil_r, flat_map_app. cbn [flat_map]. rewrite app_nil_r, <- app_assoc. reflexivity. }
  assert (Hpre3 : lenN pre3 = lenN from - 7).
  { assert (Hx : lenN from = lenN pre3 + 7).
    { rewrite Hfrom3 at 1. cbn [flat_map app]. rewrite lenN_app, Hcs. reflexivity. }
    lia. }
  assert (Hst3 : stream from (lenN from - 7) pre3 (P [] ++ []) cs).
  { split; [exact Hfrom3|]. cbn [flat_map app lenN]. lia. }
  rewrite (mbase_decode_flat c from (T0 c) pre3 [] [] cs 7 Hfsmall ltac:(lia) Hst3 (Forall_nil _) (NoDup_nil _)
             (Forall_nil _) I ltac:(cbn [lenN]; lia) HmsT).
  exists B', Tb. split; [|exact IB].
  cbn [bind dec_flat flat_map lenN m_type m_hdr m_body m_trl].
  replace (lenN from <? 7) with false by (symmetry; apply N.ltb_ge; lia).
  rewrite <- Hpre3.
  assert (Hfrom3' : from = pre3 ++ cs) by (rewrite Hfrom3 at 1; reflexivity).
  destruct (len3 csv Hcl) as (ca & cb & cd & Ecsv).
  assert (Hcsb : cs = 49 :: 48 :: 61 :: ca :: cb :: cd :: [1]).
  { unfold cs, pbytes. cbn [fst snd]. rewrite itoa_10, Ecsv. reflexivity. }
  replace (nthN from (lenN pre3)) with 49 by (rewrite Hfrom3', nthN_app_at, Hcsb; reflexivity).
  replace (nthN from (lenN pre3 + 1)) with 48 by (unfold nthN; rewrite Hfrom3', skipN_app_plus, Hcsb; reflexivity).
  cbn [N.eqb Pos.eqb negb orb].
  replace (firstN 3 (skipN (lenN pre3 + 3) from)) with csv by (rewrite Hfrom3', skipN_app_plus, Hcsb, Ecsv; reflexivity).
  rewrite atoi_u32_itoa by lia.
  assert (Hbl : itoa_Z (to_i32 (Z.of_N L)) = itoa_N L).
  { unfold to_i32, two32, two31. rewrite Z.mod_small by lia.
    replace (Z.of_N L <? 2147483648)%Z with true by (symmetry; apply Z.ltb_lt; lia).
    unfold itoa_Z. replace (Z.of_N L <? 0)%Z with false by (symmetry; apply Z.ltb_ge; lia). rewrite N2Z.id. reflexivity. }
  rewrite Hbl.
  (* the checksum over [0, size - 7) *)
  assert (Hpre3eq : pre3 = p8 ++ p9 ++ p35 ++ mid).
  { unfold pre3, pre2, pre1, mid. rewrite flat_map_app, <- !app_assoc. reflexivity. }
  assert (Hsmall : small_bytes (from ++ [0])).
  { apply Forall_app. split; [|constructor; [lia|constructor]]. rewrite Hfrom3', Hpre3eq.
    assert (Hp8s : small_bytes p8) by (apply pbytes_small; exact Hbg).
    assert (Hp9s : small_bytes p9) by (apply pbytes_small, digits_val_ok, itoa_digits).
    assert (Hp35s : small_bytes p35) by (apply pbytes_small; exact Hm1).
    apply Forall_app; split; [|apply pbytes_small, digits_val_ok; exact Hcd].
    apply Forall_app; split; [exact Hp8s|]. apply Forall_app; split; [exact Hp9s|].
    apply Forall_app; split; [exact Hp35s|apply pairs_small; exact Hpv]. }
  pose proof (c07_len_lemma (map Z.of_N (from ++ [0])) (Z.of_N (lenN from)) 0 (Z.of_N (lenN from) - 7)
                (small_bytes_ok _ Hsmall) ltac:(lia) ltac:(lia)) as Hck.
  assert (Hfl : Z.of_nat (length (map Z.of_N (from ++ [0]))) = (Z.of_N (lenN from) + 1)%Z).
  { rewrite map_length, app_length, lenN_length. cbn [length]. lia. }
  specialize (Hck ltac:(lia)).
  destruct (calc_chksum (map Z.of_N (from ++ [0])) (Z.of_N (lenN from)) 0 (Z.of_N (lenN from) - 7)) as [[mchk hull]|]; [|discriminate].
  cbn [c07_ok] in Hck. apply andb_prop in Hck. destruct Hck as [Hck _]. apply Z.eqb_eq in Hck.
  assert (Hmv : Z.to_N mchk = bytesumN pre3).
  { rewrite Hck. unfold c07_spec, bytesumN, range_len, sub.
    replace (Z.of_N (lenN from) - 7 =? -1)%Z with false by (symmetry; apply Z.eqb_neq; lia).
    cbn [Z.to_nat skipn]. replace (Z.to_nat (Z.of_N (lenN from) - 7)) with (length pre3) by (rewrite lenN_length in Hpre3; lia).
    rewrite Hfrom3', <- app_assoc, firstn_map_app. reflexivity. }
  assert (Hv256 : bytesumN pre3 < 256).
  { unfold bytesumN. pose proof (Z.mod_pos_bound (bytesum (map Z.of_N pre3)) 256 ltac:(lia)). lia. }
  rewrite Hmv. rewrite <- Hpre3eq in Hcv. rewrite (atoi_u32_digits csv _ Hcd Hcv) by lia.
  rewrite N.eqb_refl. reflexivity.
Qed.
