(* Property C19 "Inbound messages reach the application only when in sequence" as an executable
   predicate on observables: the history (case line: what the counterparty and the timer did) and the
   trace (result line) of either side.  Written from the property text; it does not call the session
   model (only the byte/token utilities, the framing of the byte stream into messages and the
   syntax of histories and traces are shared).

   Per inbound message the oracle looks at the message as the COUNTERPARTY wrote it:
     F        = the value of its MsgSeqNum FIELD (the first token whose tag is 34; tokens are cut the FIX way:
                the content of a data field is the number of bytes its Length field announces),
     PossDup  = PossDupFlag (43) is Y,  Orig/Sending = OrigSendingTime (122) / SendingTime (52),
     CompIDs  = SenderCompID (49) / TargetCompID (56) against the session identity,
     decodable= 8,9,35 lead, the type is known, no tag occurs twice, every mandatory header and body
                field is present and the CheckSum is right,
   and at what the session did while it processed that message (the events up to the `RET` of
   Session::process): DELIVER (handle_application passed the message to the router), the messages it
   put on the wire, the return value.  E = the expected number = next_recv of the previous snapshot.

     (dec)   not decodable            : no DELIVER, and a Reject (35=3) goes out
     (only)  DELIVER                  : only if decodable, the session is logged on, and F = E or
                                        (F < E, PossDup, Orig not after Sending)
     (comp)  CompIDs wrong, enforcement on, logged on
                                      : no DELIVER, a Logout (35=5) goes out (unless silent_disconnect),
                                        process returns false (the session ends)
     (high)  F > E, logged on         : no DELIVER, a ResendRequest (35=2) with BeginSeqNo = E goes out
     (low)   F < E without PossDup    : as (comp)
     (dup)   F < E, PossDup, Orig after Sending : no DELIVER
     (deliv) in sequence (F = E, or F < E with PossDup and Orig not after Sending), logged on, CompIDs right:
             an APPLICATION message (any type the schema does not mark administrative, also a two-character
             type that starts with the character of an administrative type) is delivered exactly once, as its
             own type; an administrative message is not delivered
   Scope: (comp) (high) (low) (dup) are applied to every message type except SequenceReset (its
   MsgSeqNum is exempt from the sequence rule by the FIX protocol; (comp) still applies) and Logon
   outside the logon phase (a second Logon is answered with a Reject: C23's subject); a Logon in
   the logon phase (state wait_for_logon / logon_sent) is checked for (high) (low) (dup) against the
   number the session expects at that point (acceptor: 1 on ResetSeqNumFlag=Y, else the configured
   receive number, else the recovered control record, else 1); its CompIDs are C23's subject.
   Before logon nothing may be delivered (an acceptor that has not accepted a Logon yet counts as not
   logged on whatever its state says: a ResendRequest before the Logon moves fix8 to `continuous`,
   C23's subject).  When one IN operation carries several messages only the first one is checked
   against E (the expected number between them is not observable); the others are checked for (dec)
   only. *)
From Coq Require Import NArith ZArith List Bool.
From F8 Require Import Sess.Bytes Sess.Msg Sess.Persist Sess.Session Sess.Wire.
Import ListNotations.
Local Open Scope N_scope.

Definition fld (t : N) (toks : list (bytes * bytes)) : option bytes := tok_get (dec t) toks.
Definition has (t : N) (toks : list (bytes * bytes)) : bool :=
  match fld t toks with Some _ => true | None => false end.
Definition flagY (v : option bytes) : bool := match v with Some (c :: _) => c =? 89 | _ => false end.
Definition val (v : option bytes) : bytes := match v with Some b => b | None => [] end.

(* the tokens of a message as the counterparty wrote it: tag=value SOH ..., where the value of the field that
   follows a Length field (type Length: SecureDataLen 90, XmlDataLen 212, RawDataLength 95, ...) with value n is
   the next n bytes whatever they are (they may contain SOH) -- FIX "data" fields.  `lens` = the Length tags of
   the schema.  Without such fields this is Sess.Msg.tokens. *)
Fixpoint toks_d (fuel : nat) (lens : list N) (raw : bytes) (pending : option N) : list (bytes * bytes) :=
  match fuel with
  | O => []
  | S f =>
    match raw with
    | [] => []
    | _ =>
      let plain :=
        match cut SOH raw with
        | (tok, Some rest) =>
          let '(t, v) := match cut ch_eq tok with (a, Some b) => (a, b) | (a, None) => (a, []) end in
          let pend := match undec t with
                      | Some tag => if existsb (N.eqb tag) lens then undec v else None
                      | None => None
                      end in
          (t, v) :: toks_d f lens rest pend
        | (_, None) => []
        end in
      match pending with
      | None => plain
      | Some n =>
        match cut ch_eq raw with
        | (t, Some r) =>
          let k := N.to_nat n in
          if forallb (fun b => negb (b =? SOH)) t && (k <=? length r)%nat then
            match skipn k r with
            | 1 :: rest => (t, firstn k r) :: toks_d f lens rest None
            | _ => plain
            end
          else plain
        | _ => plain
        end
      end
    end
  end.
Definition tokens_d (lens : list N) (raw : bytes) : list (bytes * bytes) := toks_d (length raw) lens raw None.

(* CheckSum: the last seven bytes are "10=ccc|", ccc = byte sum of everything before, mod 256 *)
Definition chk_ok (raw : bytes) : bool :=
  let n := length raw in
  match skipn (n - 7) raw with
  | [49; 48; 61; a; b; c; 1] =>
    match undec [a; b; c] with
    | Some v => v =? bytesum (firstn (n - 7) raw) mod 256
    | None => false
    end
  | _ => false
  end.

(* no tag twice (the generators send no repeating groups) *)
Fixpoint nodup_tags (toks : list (bytes * bytes)) : bool :=
  match toks with
  | [] => true
  | (t, _) :: r => negb (existsb (fun tv => beq (fst tv) t) r) && nodup_tags r
  end.

Definition decodable (sc : schema) (lens : list N) (raw : bytes) : bool :=
  let toks := tokens_d lens raw in
  match toks with
  | (t8, _) :: (t9, _) :: (t35, mt) :: _ =>
    beq t8 [56] && beq t9 [57] && beq t35 [51; 53] && nodup_tags toks &&
    match find_def mt (sc_msgs sc) with
    | Some d => forallb (fun t => has t toks) (sc_hdr_mand sc) && forallb (fun t => has t toks) (d_mand d)
    | None => false
    end && chk_ok raw
  | _ => false
  end.

Definition seq_field (toks : list (bytes * bytes)) : option N :=
  match fld T_MsgSeqNum toks with Some v => undec v | None => None end.
Definition possdup (toks : list (bytes * bytes)) : bool := flagY (fld T_PossDupFlag toks).
Definition orig_late (toks : list (bytes * bytes)) : bool :=
  match fld T_OrigSendingTime toks, fld T_SendingTime toks with
  | Some o, Some s => bgt o s
  | _, _ => false
  end.

(* ---- what the session did ----------------------------------------------------------------------------- *)
Definition is_deliver (e : event) : bool := match e with EDeliver _ _ _ => true | _ => false end.
Definition has_deliver (seg : list event) : bool := existsb is_deliver seg.
Definition out_is (ty : bytes) (e : event) : bool :=
  match e with
  | EOut b => beq (val (fld T_MsgType (tokens b))) ty
  | _ => false
  end.
Definition has_out (ty : bytes) (seg : list event) : bool := existsb (out_is ty) seg.
Definition resend_from (E : N) (seg : list event) : bool :=
  existsb (fun e => match e with
                    | EOut b => let t := tokens b in
                                beq (val (fld T_MsgType t)) [50] && beq (val (fld T_BeginSeqNo t)) (dec E)
                    | _ => false
                    end) seg.

(* the events of one operation cut at the RETs of Session::process: one segment per processed message *)
Fixpoint segments (evs cur : list event) : list (list event * Z) :=
  match evs with
  | [] => []
  | ERet z :: r => (rev cur, z) :: segments r []
  | e :: r => segments r (e :: cur)
  end.

(* ---- oracle state -------------------------------------------------------------------------------------- *)
Record ost := mkO {
  o_sp : startp;
  o_own : bytes;                 (* the session's own CompID *)
  o_peer : bytes;                (* the counterparty's *)
  o_ids : bool;                  (* identity known (an acceptor learns it from the Logon) *)
  o_state : N;                   (* STATE of the previous snapshot *)
  o_exp : N;                     (* next_recv of the previous snapshot *)
  o_ctrl : option (N * N)        (* control record of the previous snapshot *)
}.

Definition logged_on (st : N) : bool :=
  negb ((st =? 0) || (st =? 2) || (st =? 3) || (st =? 4) || (st =? 5)).
Definition logon_phase (st : N) : bool := (st =? 3) || (st =? 5).

(* the number expected of a Logon in the logon phase *)
Definition logon_expected (o : ost) (toks : list (bytes * bytes)) : N :=
  match sp_role (o_sp o) with
  | Initiator => o_exp o
  | Acceptor =>
    if flagY (fld T_ResetSeqNumFlag toks) then 1
    else if negb (sp_rs (o_sp o) =? 0) then sp_rs (o_sp o)
    else match sp_pk (o_sp o), o_ctrl o with
         | PFile, Some (_, b) => b
         | _, _ => o_exp o
         end
  end.

Definition stop_clause (o : ost) (seg : list event) (ret : Z) : bool :=
  negb (has_deliver seg) && (pr_sd (sp_par (o_sp o)) || has_out [53] seg) && (ret =? 0)%Z.

(* (deliv) an application message that is in sequence is handed to the application exactly once, under its own
   type; an administrative message never is *)
Definition delivers_of (seg : list event) : list bytes :=
  flat_map (fun e => match e with EDeliver t _ _ => [t] | _ => [] end) seg.
Definition deliv_clause (app : bool) (ty : bytes) (seg : list event) : bool :=
  if app then match delivers_of seg with [t] => beq t ty | _ => false end
  else negb (has_deliver seg).

Definition seq_clauses (o : ost) (app : bool) (ty : bytes) (F E : N) (toks : list (bytes * bytes))
                       (seg : list event) (ret : Z) : bool :=
  if E <? F then negb (has_deliver seg) && resend_from E seg
  else if F <? E then
    if negb (possdup toks) then stop_clause o seg ret
    else if orig_late toks then negb (has_deliver seg)
    else deliv_clause app ty seg
  else deliv_clause app ty seg.

(* application message = a type the schema does not mark administrative (whatever its first character is) *)
Definition is_app (sc : schema) (ty : bytes) : bool :=
  match find_def ty (sc_msgs sc) with Some d => negb (d_admin d) | None => false end.

Definition compid_wrong (o : ost) (toks : list (bytes * bytes)) : bool :=
  pr_ec (sp_par (o_sp o)) && o_ids o &&
  negb (beq (val (fld T_TargetCompID toks)) (o_own o) && beq (val (fld T_SenderCompID toks)) (o_peer o)).

Definition check_msg (sc : schema) (lens : list N) (o : ost) (first : bool) (raw : bytes) (seg : list event) (ret : Z) : bool :=
  let toks := tokens_d lens raw in
  let dl := has_deliver seg in
  if negb (decodable sc lens raw) then negb dl && has_out [51] seg
  else if negb first then true
  else
    match seq_field toks with
    | None => negb dl
    | Some F =>
      let ty := val (fld T_MsgType toks) in
      if beq ty [65] then
        if logon_phase (o_state o) then seq_clauses o false ty F (logon_expected o toks) toks seg ret
        else negb dl
      else if negb (logged_on (o_state o)) || negb (o_ids o) then negb dl
      else if compid_wrong o toks then stop_clause o seg ret
      else if beq ty [52] then negb dl
      else seq_clauses o (is_app sc ty) ty F (o_exp o) toks seg ret
    end.

Fixpoint check_msgs (sc : schema) (lens : list N) (o : ost) (first : bool) (msgs : list bytes) (segs : list (list event * Z)) : bool :=
  match msgs, segs with
  | raw :: ms, (seg, ret) :: ss => check_msg sc lens o first raw seg ret && check_msgs sc lens o false ms ss
  | _, _ => true
  end.

(* identity an acceptor takes from a Logon it accepted (first message of the operation); a Logon further
   down the same operation makes the identity unknown *)
Definition learn_ids (lens : list N) (o : ost) (msgs : list bytes) (segs : list (list event * Z)) : ost :=
  match sp_role (o_sp o) with
  | Initiator => o
  | Acceptor =>
    let is_logon raw := beq (val (fld T_MsgType (tokens_d lens raw))) [65] in
    match msgs, segs with
    | raw :: ms, (_, ret) :: _ =>
      let o1 :=
        if is_logon raw && negb (o_state o =? 1) && (ret =? 1)%Z then
          let t := tokens_d lens raw in
          mkO (o_sp o) (val (fld T_TargetCompID t)) (val (fld T_SenderCompID t)) true (o_state o) (o_exp o) (o_ctrl o)
        else o in
      if existsb is_logon ms then mkO (o_sp o1) (o_own o1) (o_peer o1) false (o_state o1) (o_exp o1) (o_ctrl o1) else o1
    | _, _ => o
    end
  end.

Definition of_start (p : startp) : ost :=
  match sp_role p with
  | Initiator => mkO p (sp_snd p) (sp_tgt p) true 0 0 None
  | Acceptor => mkO p [] [] false 0 0 None
  end.

Definition observe (o : ost) (st : step) : ost :=
  match st_snap st with
  | Some sn => mkO (o_sp o) (o_own o) (o_peer o) (o_ids o) (sn_state sn) (sn_recv sn) (sn_ctrl sn)
  | None => o
  end.

Definition c19_step (sc : schema) (lens : list N) (o : ost) (oper : op) (st : step) : bool * ost :=
  match oper with
  | OStart p _ => (true, observe (of_start p) st)
  | ORestart =>
    let o1 := of_start (o_sp o) in
    (* the control record on disk survives a restart *)
    (true, observe (mkO (o_sp o1) (o_own o1) (o_peer o1) (o_ids o1) 0 0 (o_ctrl o)) st)
  | OIn chunks =>
    let msgs := fst (frames (concat chunks)) in
    let segs := segments (st_events st) [] in
    (check_msgs sc lens o true msgs segs, observe (learn_ids lens o msgs segs) st)
  | _ => (true, observe o st)
  end.

Fixpoint c19_steps (sc : schema) (lens : list N) (o : ost) (ops : list op) (tr : trace) : bool :=
  match ops, tr with
  | [], [] => true
  | oper :: ops', st :: tr' =>
    let '(ok, o') := c19_step sc lens o oper st in
    ok && c19_steps sc lens o' ops' tr'
  | _, _ => false
  end.

Definition ost0 : ost := of_start default_sp.

Definition c19_ok (sc : schema) (lens : list N) (ops : list op) (tr : trace) : bool := c19_steps sc lens ost0 ops tr.

Definition c19_ok_line (sc : schema) (lens : list N) (case result : bytes) : bool :=
  c19_ok sc lens (parse_history case) (parse_trace result).
