(* C19 after the repair of F24 (/repo 57dfe06: Session::process searches for SOH "34=", Sess.Session.pat_34):
   the number process gates on IS the MsgSeqNum field of the decoded message, for every message that consists of
   tag=value tokens none of whose values contains SOH and whose tags are canonical decimals.  What still escapes is
   exactly a value that contains SOH: the content of a FIX data field (SecureData 91, XmlData 213, ... behind
   their Length fields) in front of the header's MsgSeqNum -- see c19_34_data_refuted. *)
From Coq Require Import NArith ZArith List Bool Lia.
From F8 Require Import Sess.Bytes Sess.Msg Sess.Persist Sess.Session Sess.SimpleCodec Sess.SessLemmas
  C19.Run19 C19.DeliverProofs.
Import ListNotations.
Local Open Scope N_scope.

Definition s34 : bytes := [51; 52].          (* "34" *)
Lemma dec34 : dec T_MsgSeqNum = s34.
Proof. reflexivity. Qed.

(* ---- searching for SOH "34=" in a token stream ------------------------------------------------------------------ *)
Lemma find_after_skip : forall p b l, nosoh b = true -> find_after (SOH :: p) (b ++ l) = find_after (SOH :: p) l.
Proof.
  induction b as [|x b IH]; intros l H; [reflexivity|].
  cbn [nosoh forallb] in H. apply andb_true_iff in H. destruct H as [H1 H2]. apply negb_true_iff in H1.
  cbn [app find_after starts_with]. rewrite N.eqb_sym, H1. cbn [andb]. apply IH. exact H2.
Qed.

Lemma find_after_skip34 : forall b l, nosoh b = true -> find_after pat_34 (b ++ l) = find_after pat_34 l.
Proof. exact (find_after_skip [51; 52; 61]). Qed.

Lemma starts34 : forall t r, noeq t = true -> starts_with [51; 52; 61] (t ++ 61 :: r) = beq t s34.
Proof.
  intros t r H. unfold s34.
  destruct t as [|a [|b0 [|c t']]]; cbn [app starts_with beq].
  - reflexivity.
  - rewrite (N.eqb_sym 51 a). destruct (a =? 51); reflexivity.
  - rewrite (N.eqb_sym 51 a), (N.eqb_sym 52 b0), N.eqb_refl. destruct (a =? 51); destruct (b0 =? 52); reflexivity.
  - cbn [noeq forallb] in H. apply andb_true_iff in H. destruct H as [_ H]. apply andb_true_iff in H. destruct H as [_ H].
    apply andb_true_iff in H. destruct H as [H _]. apply negb_true_iff in H. unfold ch_eq in H.
    rewrite (N.eqb_sym 61 c), H. rewrite !andb_false_r. reflexivity.
Qed.

Lemma fast_atoi_nosoh : forall v r acc, nosoh v = true -> fast_atoi_u (v ++ SOH :: r) SOH acc = Some (atoi_u v acc).
Proof.
  induction v as [|x v IH]; intros r acc H; cbn [app fast_atoi_u atoi_u].
  - rewrite N.eqb_refl. reflexivity.
  - cbn [nosoh forallb] in H. apply andb_true_iff in H. destruct H as [H1 H2]. apply negb_true_iff in H1.
    rewrite H1. apply IH. exact H2.
Qed.

Lemma find_after_cons : forall p x l,
  find_after p (x :: l) = if starts_with p (x :: l) then Some (skipn (length p) (x :: l)) else find_after p l.
Proof. reflexivity. Qed.
Lemma starts_with_cons : forall a p b l, starts_with (a :: p) (b :: l) = (a =? b) && starts_with p l.
Proof. reflexivity. Qed.

(* what follows the first token whose tag is "34" *)
Fixpoint after34 (toks : list (bytes * bytes)) : option bytes :=
  match toks with
  | [] => None
  | (t, v) :: r => if beq t s34 then Some (v ++ SOH :: enc_toks r)%list else after34 r
  end.

Lemma enc_toks_cons : forall t v r, enc_toks ((t, v) :: r) = ((t ++ ch_eq :: v) ++ SOH :: enc_toks r)%list.
Proof.
  intros. unfold enc_toks. cbn [flat_map]. unfold enc_tok. cbn [fst snd].
  repeat (rewrite <- app_assoc; cbn [app]). reflexivity.
Qed.

Lemma tok_ok_parts : forall t v, tok_ok (t, v) = true -> nosoh t = true /\ noeq t = true /\ nosoh v = true.
Proof.
  intros t v H. unfold tok_ok in H. cbn [fst snd] in H. apply andb_true_iff in H. destruct H as [H Hv].
  apply andb_true_iff in H. tauto.
Qed.

Lemma nosoh_tv : forall t v, nosoh t = true -> nosoh v = true -> nosoh (t ++ ch_eq :: v) = true.
Proof. intros t v A B. rewrite nosoh_app, A. cbn [nosoh forallb]. unfold ch_eq, SOH. cbn [N.eqb Pos.eqb negb andb]. exact B. Qed.

Lemma find_soh_toks : forall toks, forallb tok_ok toks = true ->
  find_after pat_34 (SOH :: enc_toks toks) = after34 toks.
Proof.
  induction toks as [|[t v] r IH]; intro H; [reflexivity|].
  cbn [forallb] in H. apply andb_true_iff in H. destruct H as [H1 H2].
  destruct (tok_ok_parts _ _ H1) as [Nt [Et Nv]].
  rewrite enc_toks_cons. rewrite find_after_cons. unfold pat_34 at 1. rewrite starts_with_cons.
  unfold SOH at 1. rewrite N.eqb_refl. cbn [andb].
  rewrite <- app_assoc. cbn [app]. unfold ch_eq. rewrite (starts34 t _ Et).
  cbn [after34]. destruct (beq t s34) eqn:B.
  - apply beq_eq in B. subst t. reflexivity.
  - replace (t ++ 61 :: v ++ SOH :: enc_toks r)%list with ((t ++ ch_eq :: v) ++ SOH :: enc_toks r)%list
      by (rewrite <- app_assoc; reflexivity).
    rewrite (find_after_skip34 _ _ (nosoh_tv _ _ Nt Nv)). apply IH. exact H2.
Qed.

Lemma after34_atoi : forall toks, forallb tok_ok toks = true ->
  match after34 toks with Some rest => fast_atoi_u rest SOH 0 | None => None end =
  match tok_get s34 toks with Some v => Some (atoi_u v 0) | None => None end.
Proof.
  induction toks as [|[t v] r IH]; intro H; [reflexivity|].
  cbn [forallb] in H. apply andb_true_iff in H. destruct H as [H1 H2].
  destruct (tok_ok_parts _ _ H1) as [_ [_ Nv]].
  cbn [after34 tok_get]. destruct (beq t s34); [apply fast_atoi_nosoh; exact Nv|apply IH; exact H2].
Qed.

(* THE SCAN LEMMA: in a token stream the first SOH "34=" is the first token (after the leading one) whose tag is 34 *)
Theorem raw_seq_tokens : forall t0 toks, forallb tok_ok (t0 :: toks) = true ->
  raw_seq (enc_toks (t0 :: toks)) =
  match tok_get (dec T_MsgSeqNum) toks with Some v => Some (atoi_u v 0) | None => None end.
Proof.
  intros [t v] toks H. cbn [forallb] in H. apply andb_true_iff in H. destruct H as [H1 H2].
  destruct (tok_ok_parts _ _ H1) as [Nt [_ Nv]].
  unfold raw_seq. rewrite enc_toks_cons.
  rewrite (find_after_skip34 _ _ (nosoh_tv _ _ Nt Nv)). rewrite (find_soh_toks toks H2). rewrite dec34. apply after34_atoi. exact H2.
Qed.

(* ---- decoders that take the header's MsgSeqNum from that token ------------------------------------------------------ *)
(* canonical decimal tag (no leading zeros): a tag such as "034" is read as 34 by the decoders but is not found by the
   byte search *)
Definition canon (t : bytes) : bool := match undec t with Some n => beq t (dec n) | None => true end.
Definition tok_ok19 (tv : bytes * bytes) : bool := tok_ok tv && canon (fst tv).

Lemma tok_ok19_ok : forall l, forallb tok_ok19 l = true -> forallb tok_ok l = true.
Proof. intro l. apply forallb_impl. intros x H. unfold tok_ok19 in H. apply andb_true_iff in H. tauto. Qed.

Definition seq_from_token (decode : bytes -> decode_result) : Prop :=
  forall t0 toks m, forallb tok_ok19 (t0 :: toks) = true -> decode (enc_toks (t0 :: toks)) = DecOk m ->
  get_field T_MsgSeqNum (m_hdr m) = tok_get (dec T_MsgSeqNum) toks.

Theorem gate_is_msgseqnum : forall decode t0 toks m,
  seq_from_token decode -> forallb tok_ok19 (t0 :: toks) = true -> decode (enc_toks (t0 :: toks)) = DecOk m ->
  (raw_seq (enc_toks (t0 :: toks)) = Some (field_seq m) /\ get_field T_MsgSeqNum (m_hdr m) <> None) \/
  (raw_seq (enc_toks (t0 :: toks)) = None /\ get_field T_MsgSeqNum (m_hdr m) = None).
Proof.
  intros decode t0 toks m SF OK D. rewrite (raw_seq_tokens t0 toks (tok_ok19_ok _ OK)).
  unfold field_seq. rewrite (SF t0 toks m OK D).
  destruct (tok_get (dec T_MsgSeqNum) toks); [left; split; [reflexivity|discriminate]|right; split; reflexivity].
Qed.

(* without a sequence number nothing is delivered *)
Lemma no_seq_quiet : forall sc decode fl now raw s r s' e,
  raw_seq raw = None -> process sc decode fl now raw s = (r, s', e) -> quiet e.
Proof.
  intros sc decode fl now raw s r s' e R P. unfold raw_seq in R.
  destruct (find_after pat_34 raw) as [rest|] eqn:FA.
  - unfold process in P. rewrite FA, R in P. inversion P. reflexivity.
  - rewrite (process_no34 sc decode fl now _ _ FA) in P. apply catch19_events in P.
    destruct P as [e2 [E Q2]]. subst. exact Q2.
Qed.

(* THE DELIVERY THEOREM AT FULL STRENGTH for token-structured messages *)
Theorem delivery_tokens : forall sc decode fl now t0 toks s m r s' e,
  seq_from_token decode -> forallb tok_ok19 (t0 :: toks) = true ->
  decode (enc_toks (t0 :: toks)) = DecOk m ->
  process sc decode fl now (enc_toks (t0 :: toks)) s = (r, s', e) -> delivered e = true ->
  is_established (s_state s) = true /\
  (s_state s = st_logon_received \/ compid_pass s m = true) /\
  (field_seq m = s_next_recv s \/
   (field_seq m < s_next_recv s /\ possdup_of m = true /\ orig_after m = false)).
Proof.
  intros sc decode fl now t0 toks s m r s' e SF OK D P Dl.
  destruct (gate_is_msgseqnum decode t0 toks m SF OK D) as [[R _]|[R _]].
  - eapply delivery_partial; eassumption.
  - exfalso. pose proof (no_seq_quiet _ _ _ _ _ _ _ _ _ R P) as Qe. unfold quiet in Qe. congruence.
Qed.

(* ---- Sess.SimpleCodec is such a decoder (when MsgSeqNum is a mandatory header field of the schema) ---------------- *)
Lemma take_part_acc : forall tbl l pos acc,
  take_part tbl pos l acc = ((rev acc ++ fst (take_part tbl pos l []))%list, snd (take_part tbl pos l [])).
Proof.
  induction l as [|[t v] l IH]; intros pos acc; cbn [take_part].
  - cbn. rewrite app_nil_r. reflexivity.
  - destruct (tag_of t) as [tag|]; [|cbn; rewrite app_nil_r; reflexivity].
    destruct (assoc tag tbl); [|cbn; rewrite app_nil_r; reflexivity].
    rewrite (IH (pos + 1) (mkF (pos + 1) tag v :: acc)). rewrite (IH (pos + 1) [mkF (pos + 1) tag v]).
    cbn [rev fst snd app]. rewrite <- app_assoc. reflexivity.
Qed.

Lemma take_part_seq : forall tbl l pos,
  forallb (fun tv => canon (fst tv)) l = true ->
  has_field T_MsgSeqNum (fst (take_part tbl pos l [])) = true ->
  get_field T_MsgSeqNum (fst (take_part tbl pos l [])) = tok_get (dec T_MsgSeqNum) l.
Proof.
  induction l as [|[t v] l IH]; intros pos C H; [discriminate H|].
  cbn [forallb fst] in C. apply andb_true_iff in C. destruct C as [C1 C2].
  cbn [take_part] in *. unfold tag_of in *. unfold canon in C1.
  destruct (undec t) as [tag|] eqn:U; [|discriminate H].
  destruct (assoc tag tbl); [|discriminate H].
  rewrite take_part_acc in *. cbn [rev app fst] in *. unfold has_field in H. cbn [get_field f_tag f_val] in *.
  cbn [tok_get]. apply beq_eq in C1. rewrite C1 at 1. rewrite beq_dec.
  destruct (tag =? T_MsgSeqNum); [reflexivity|].
  apply IH; [exact C2|]. unfold has_field. exact H.
Qed.

Lemma first_missing_has : forall mand l t, first_missing mand l = None -> In t mand -> has_field t l = true.
Proof.
  induction mand as [|x mand IH]; intros l t H I; [destruct I|].
  cbn [first_missing] in H. destruct (has_field x l) eqn:E; [|discriminate].
  destruct I as [I|I]; [subst; exact E|apply IH; assumption].
Qed.

Theorem simple_decode_seq_from_token : forall sc fl,
  In T_MsgSeqNum (sc_hdr_mand sc) -> seq_from_token (simple_decode sc fl).
Proof.
  intros sc fl MAND t0 toks m OK D.
  unfold simple_decode in D.
  destruct (enc_toks (t0 :: toks)) as [|b0 l0] eqn:E; [discriminate D|]. rewrite <- E in D. clear E b0 l0.
  rewrite (tokens_enc_toks _ (tok_ok19_ok _ OK)) in D.
  destruct t0 as [t8 v8]. destruct toks as [|[t9 v9] [|[t35 mt] rest]]; try discriminate D.
  destruct (beq t8 [56] && beq t9 [57] && beq t35 [51; 53]) eqn:C; [|discriminate D].
  apply andb_true_iff in C. destruct C as [C C35]. apply andb_true_iff in C. destruct C as [_ C9].
  apply beq_eq in C9. apply beq_eq in C35. subst t9 t35.
  destruct (find_def mt (sc_msgs sc)) as [d|]; [|discriminate D].
  destruct (take_part (sc_hdr sc) 3 rest []) as [hdr rest1] eqn:TP.
  destruct (first_missing (filter (fun t => negb ((t =? 8) || (t =? 9) || (t =? 35))) (sc_hdr_mand sc)) hdr) eqn:FM;
    [discriminate D|].
  assert (HF : has_field T_MsgSeqNum hdr = true).
  { eapply first_missing_has; [exact FM|]. apply filter_In. split; [exact MAND|reflexivity]. }
  assert (G : get_field T_MsgSeqNum hdr = tok_get (dec T_MsgSeqNum) rest).
  { assert (Eh : hdr = fst (take_part (sc_hdr sc) 3 rest [])) by (rewrite TP; reflexivity).
    rewrite Eh in *. apply take_part_seq; [|exact HF].
    cbn [forallb] in OK. repeat (apply andb_true_iff in OK; destruct OK as [? OK]).
    eapply forallb_impl; [|exact OK]. intros x Hx. unfold tok_ok19 in Hx. apply andb_true_iff in Hx. tauto. }
  assert (M : m_hdr m = hdr).
  { destruct (take_part (d_pos d) 0 rest1 []) as [body r2].
    destruct (first_missing (d_mand d) body); [discriminate D|].
    repeat match type of D with
           | context [match ?x with _ => _ end] => destruct x; try discriminate D
           end.
    inversion D. reflexivity. }
  rewrite M, G. cbn [tok_get]. rewrite dec34. reflexivity.
Qed.
