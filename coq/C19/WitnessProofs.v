(* C19: the witnesses of Witness19.v evaluated (vm_compute) on the model and judged by the oracle. *)
From Coq Require Import NArith ZArith List Bool String.
From F8 Require Import Sess.Bytes Sess.Msg Sess.Persist Sess.Session Sess.SimpleCodec Sess.Wire Sess.SessLemmas
  Sess.SendLemmas C19.Run19 C19.Spec_C19 C19.CodecDecode C19.Witness19 C19.DeliverProofs C19.ResendWire C19.GateProofs.
Import ListNotations.
Local Open Scope N_scope.

Definition decoded_seq (raw : list N) : option N :=
  match dec0 raw with DecOk m => Some (field_seq m) | DecExc _ _ => None end.
Definition proc (raw : list N) (s : sess) := process sc0 dec0 fl0 T0 raw s.
Definition p_ret (x : bool * sess * list event) : bool := fst (fst x).
Definition p_sess (x : bool * sess * list event) : sess := snd (fst x).
Definition p_evs (x : bool * sess * list event) : list event := snd x.

(* F24 as it was (Session::process searching for "34=" anywhere: pat_34_orig): expected 2, MsgSeqNum 7, "34=2"
   inside OnBehalfOfCompID: delivered *)
Definition proc_orig (raw : list N) (s : sess) := process_with sc0 dec0 fl0 pat_34_orig T0 raw s.
Lemma w34_orig :
  s_state s_cont = st_continuous /\ s_next_recv s_cont = 2 /\
  decoded_seq raw_34 = Some 7 /\ raw_seq_with pat_34_orig raw_34 = Some 2 /\
  delivered (p_evs (proc_orig raw_34 s_cont)) = true.
Proof. vm_compute. repeat split; reflexivity. Qed.

(* ... and since the repair (SOH "34=": pat_34): the same message is gated on 7, not delivered, answered with
   ResendRequest(2..); the oracle accepts the history *)
Lemma w34_fixed :
  raw_seq raw_34 = Some 7 /\
  delivered (p_evs (proc raw_34 s_cont)) = false /\ resend_from 2 (p_evs (proc raw_34 s_cont)) = true /\
  c19_ok sc0 lens0 ops_34 (run0 ops_34) = true.
Proof. vm_compute. repeat split; reflexivity. Qed.

(* what still escapes: SOH "34=2" inside the content of a data field (SecureData 91 behind SecureDataLen 90) in
   front of MsgSeqNum 7; decoder = the Codec group's model of Message::factory *)
Definition decoded_seq_c (raw : list N) : option N :=
  match dec0c raw with DecOk m => Some (field_seq m) | DecExc _ _ => None end.
Definition proc_c (raw : list N) (s : sess) := process sc0 dec0c fl0 T0 raw s.
Lemma wd34 :
  s_state s_cont = st_continuous /\ s_next_recv s_cont = 2 /\
  decoded_seq_c raw_d34 = Some 7 /\ raw_seq raw_d34 = Some 2 /\
  delivered (p_evs (proc_c raw_d34 s_cont)) = true /\
  c19_ok sc0 lens0 ops_d34 (run0c ops_d34) = false.
Proof. vm_compute. repeat split; reflexivity. Qed.

(* F26: a second message above the expected number while the resend is pending: the session stops, nothing is sent *)
Lemma wgap :
  s_state s_pending = st_resend_request_sent /\ s_next_recv s_pending = 3 /\
  decoded_seq (order_msg "6" []) = Some 6 /\ raw_seq (order_msg "6" []) = Some 6 /\
  p_ret (proc (order_msg "6" []) s_pending) = false /\ p_evs (proc (order_msg "6" []) s_pending) = [] /\
  s_shutdown (p_sess (proc (order_msg "6" []) s_pending)) = true /\
  c19_ok sc0 lens0 ops_second_gap (run0 ops_second_gap) = false.
Proof. vm_compute. repeat split; reflexivity. Qed.

(* F25: too low / wrong CompID in state continuous: the session stops WITHOUT a Logout *)
Lemma wlow :
  s_state s_cont3 = st_continuous /\ s_next_recv s_cont3 = 3 /\
  decoded_seq (order_msg "2" []) = Some 2 /\ raw_seq (order_msg "2" []) = Some 2 /\
  p_ret (proc (order_msg "2" []) s_cont3) = false /\ p_evs (proc (order_msg "2" []) s_cont3) = [] /\
  s_shutdown (p_sess (proc (order_msg "2" []) s_cont3)) = true /\
  c19_ok sc0 lens0 ops_low (run0 ops_low) = false /\
  pr_ec (s_par s_cont) = true /\ decoded_seq raw_xxx = Some 2 /\
  p_ret (proc raw_xxx s_cont) = false /\ p_evs (proc raw_xxx s_cont) = [] /\
  s_shutdown (p_sess (proc raw_xxx s_cont)) = true /\
  c19_ok sc0 lens0 ops_compid (run0 ops_compid) = false.
Proof. vm_compute. repeat split; reflexivity. Qed.

(* no "34=": Reject with RefSeqNum 0, expected number 2 -> 3 *)
Lemma wno34 :
  raw_seq raw_no34 = None /\ s_next_recv s_cont = 2 /\
  p_ret (proc raw_no34 s_cont) = true /\ s_next_recv (p_sess (proc raw_no34 s_cont)) = 3 /\
  existsb (fun e => match e with
                    | EOut o => beq (val (fld T_MsgType (tokens o))) [51] && beq (val (fld T_RefSeqNum (tokens o))) [48]
                    | _ => false end) (p_evs (proc raw_no34 s_cont)) = true /\
  c19_ok sc0 lens0 ops_no34 (run0 ops_no34) = true.
Proof. vm_compute. repeat split; reflexivity. Qed.

(* the hypotheses of the partial theorems are met by ordinary traffic, and the oracle accepts it:
   step 2: number 2 at expected 2 delivered; step 3: duplicate 2 (PossDup, Orig before Sending) at expected 3
   delivered; step 5: number 7 at expected 5: not delivered, ResendRequest from 5; a too-low Logon in state
   logon_received is answered with a Logout *)
Lemma wgood :
  c19_ok sc0 lens0 ops_good (run0 ops_good) = true /\
  has_deliver (nth_events 2 (run0 ops_good)) = true /\
  has_deliver (nth_events 3 (run0 ops_good)) = true /\
  has_deliver (nth_events 5 (run0 ops_good)) = false /\
  resend_from 5 (nth_events 5 (run0 ops_good)) = true /\
  c19_ok sc0 lens0 ops_logon_low (run0 ops_logon_low) = true /\
  has_out [53] (last_events (run0 ops_logon_low)) = true.
Proof. vm_compute. repeat split; reflexivity. Qed.

(* the same on the level of process, as instances of the hypotheses of delivery_partial *)
Lemma wdeliver :
  decoded_seq (order_msg "2" []) = Some 2 /\ raw_seq (order_msg "2" []) = Some 2 /\ s_next_recv s_cont = 2 /\
  delivered (p_evs (proc (order_msg "2" []) s_cont)) = true /\
  decoded_seq (order_msg "2" dup_hdr) = Some 2 /\ raw_seq (order_msg "2" dup_hdr) = Some 2 /\ s_next_recv s_cont3 = 3 /\
  delivered (p_evs (proc (order_msg "2" dup_hdr) s_cont3)) = true.
Proof. vm_compute. repeat split; reflexivity. Qed.

(* ---- the refutations in `exists` form ------------------------------------------------------------------------ *)
Lemma decoded_seq_inv : forall raw q, decoded_seq raw = Some q -> exists m, dec0 raw = DecOk m /\ field_seq m = q.
Proof.
  intros raw q. unfold decoded_seq. destruct (dec0 raw) as [m|t f]; [|discriminate].
  intro H. inversion H. exists m. split; reflexivity.
Qed.

Lemma refuted_34_orig :
  exists (s : sess) (raw : list N) (m : msg),
    dec0 raw = DecOk m /\ field_seq m = 7 /\ raw_seq_with pat_34_orig raw = Some 2 /\
    s_state s = st_continuous /\ s_next_recv s = 2 /\
    delivered (p_evs (proc_orig raw s)) = true /\
    (* the repaired search gates the same message on its MsgSeqNum *)
    raw_seq raw = Some 7 /\ delivered (p_evs (proc raw s)) = false /\ resend_from 2 (p_evs (proc raw s)) = true.
Proof.
  destruct w34_orig as [A [B [C [D E]]]]. destruct w34_fixed as [F [G [H _]]].
  destruct (decoded_seq_inv _ _ C) as [m [M1 M2]].
  exists s_cont, raw_34, m.
  split; [exact M1|]. split; [exact M2|]. split; [exact D|]. split; [exact A|]. split; [exact B|].
  split; [exact E|]. split; [exact F|]. split; [exact G|exact H].
Qed.

Lemma decoded_seq_c_inv : forall raw q, decoded_seq_c raw = Some q -> exists m, dec0c raw = DecOk m /\ field_seq m = q.
Proof.
  intros raw q. unfold decoded_seq_c. destruct (dec0c raw) as [m|t f]; [|discriminate].
  intro H. inversion H. exists m. split; reflexivity.
Qed.

Lemma refuted_34_data :
  exists (s : sess) (raw : list N) (m : msg),
    dec0c raw = DecOk m /\ field_seq m = 7 /\ raw_seq raw = Some 2 /\
    s_state s = st_continuous /\ s_next_recv s = 2 /\
    delivered (p_evs (proc_c raw s)) = true /\
    exists ops, c19_ok sc0 lens0 ops (run0c ops) = false.
Proof.
  destruct wd34 as [A [B [C [D [E F]]]]]. destruct (decoded_seq_c_inv _ _ C) as [m [M1 M2]].
  exists s_cont, raw_d34, m.
  split; [exact M1|]. split; [exact M2|]. split; [exact D|]. split; [exact A|]. split; [exact B|].
  split; [exact E|]. exists ops_d34. exact F.
Qed.

Lemma proc_eq : forall raw s r s' e,
  p_ret (proc raw s) = r -> p_sess (proc raw s) = s' -> p_evs (proc raw s) = e ->
  proc raw s = (r, s', e).
Proof.
  intros raw s r s' e. unfold p_ret, p_sess, p_evs.
  destruct (proc raw s) as [[a b0] c]. cbn. intros; subst; reflexivity.
Qed.

Lemma stopped_gap : p_sess (proc (order_msg "6" []) s_pending) = stop s_pending.
Proof. vm_compute. reflexivity. Qed.
Lemma stopped_low : p_sess (proc (order_msg "2" []) s_cont3) = stop s_cont3.
Proof. vm_compute. reflexivity. Qed.
Lemma stopped_xxx : p_sess (proc raw_xxx s_cont) = stop s_cont.
Proof. vm_compute. reflexivity. Qed.
Lemma facts_low : forall m, dec0 (order_msg "2" []) = DecOk m -> possdup_of m = false.
Proof. intro m. vm_compute. intro H. inversion H. reflexivity. Qed.
Lemma facts_xxx : forall m, dec0 raw_xxx = DecOk m -> compid_pass s_cont m = false.
Proof. intro m. vm_compute. intro H. inversion H. reflexivity. Qed.

Lemma refuted_second_gap :
  exists (s : sess) (raw : list N) (m : msg),
    dec0 raw = DecOk m /\ raw_seq raw = Some (field_seq m) /\
    s_state s = st_resend_request_sent /\ s_next_recv s < field_seq m /\
    proc raw s = (false, stop s, []) /\
    exists ops, c19_ok sc0 lens0 ops (run0 ops) = false.
Proof.
  destruct wgap as [A [B [C [D [E [F [G H]]]]]]]. destruct (decoded_seq_inv _ _ C) as [m [M1 M2]].
  exists s_pending, (order_msg "6" []), m.
  split; [exact M1|]. split; [rewrite M2; exact D|]. split; [exact A|]. split; [rewrite M2, B; reflexivity|].
  split; [apply proc_eq; [exact E|exact stopped_gap|exact F]|].
  exists ops_second_gap. exact H.
Qed.

Lemma refuted_no_logout :
  (exists (s : sess) (raw : list N) (m : msg),
     dec0 raw = DecOk m /\ raw_seq raw = Some (field_seq m) /\
     s_state s = st_continuous /\ field_seq m < s_next_recv s /\ possdup_of m = false /\
     proc raw s = (false, stop s, []) /\
     exists ops, c19_ok sc0 lens0 ops (run0 ops) = false) /\
  (exists (s : sess) (raw : list N) (m : msg),
     dec0 raw = DecOk m /\ s_state s = st_continuous /\ pr_ec (s_par s) = true /\ compid_pass s m = false /\
     proc raw s = (false, stop s, []) /\
     exists ops, c19_ok sc0 lens0 ops (run0 ops) = false).
Proof.
  destruct wlow as [A [B [C [D [E [F [G [H [I [J [K [L [M N]]]]]]]]]]]]]. split.
  - destruct (decoded_seq_inv _ _ C) as [m [M1 M2]].
    exists s_cont3, (order_msg "2" []), m.
    split; [exact M1|]. split; [rewrite M2; exact D|]. split; [exact A|]. split; [rewrite M2, B; reflexivity|].
    split; [exact (facts_low m M1)|].
    split; [apply proc_eq; [exact E|exact stopped_low|exact F]|].
    exists ops_low. exact H.
  - destruct (decoded_seq_inv _ _ J) as [m [M1 M2]].
    exists s_cont, raw_xxx, m.
    split; [exact M1|]. split; [destruct w34_orig as [S _]; exact S|]. split; [exact I|].
    split; [exact (facts_xxx m M1)|].
    split; [apply proc_eq; [exact K|exact stopped_xxx|exact L]|].
    exists ops_compid. exact N.
Qed.

(* the side conditions of high_continuous_wire hold for the witness schema and the witness session *)
Lemma sc0_wire_ok :
  wf_schema sc0 = true /\ knows_rr sc0 /\ wf_sess s_cont = true /\ s_closed s_cont = false /\ s_batch s_cont = [].
Proof.
  split; [vm_compute; reflexivity|]. split.
  - unfold knows_rr. eexists; eexists; eexists. vm_compute. repeat split; reflexivity.
  - vm_compute. repeat split; reflexivity.
Qed.

(* the witness schema and an ordinary message meet the hypotheses of delivery_tokens *)
Local Open Scope string_scope.
Local Open Scope list_scope.
Local Open Scope N_scope.
Definition toks_order2 : list (list N * list N) :=
  map bb ([("8","FIX.4.2"); ("9","101"); ("35","D"); ("49","SRV"); ("56","CLI"); ("34","2"); ("52",T)] ++ order ++ [("10","131")]).
Lemma wtokens :
  In T_MsgSeqNum (sc_hdr_mand sc0) /\
  forallb tok_ok19 toks_order2 = true /\ enc_toks toks_order2 = order_msg "2" [] /\
  decoded_seq (enc_toks toks_order2) = Some 2 /\
  delivered (p_evs (proc (enc_toks toks_order2) s_cont)) = true.
Proof. split; [left; reflexivity|]. vm_compute. repeat split; reflexivity. Qed.

Lemma w0x :
  app_type (b "0X") = true /\ is_app sc0 (b "0X") = true /\
  decoded_seq raw_0x = Some 2 /\ raw_seq raw_0x = Some 2 /\ s_next_recv s_cont = 2 /\
  delivers_of (p_evs (proc raw_0x s_cont)) = [b "0X"] /\
  c19_ok sc0 lens0 ops_0x (run0 ops_0x) = true /\
  c19_ok sc0 lens0 ops_0x (run0c ops_0x) = true /\
  c19_ok sc0 lens0 ops_0x (drop_delivers (run0 ops_0x)) = false.
Proof. vm_compute. repeat split; reflexivity. Qed.

Lemma wpad :
  forallb tok_ok19 toks_pad = true /\ enc_toks toks_pad = raw_pad /\
  decoded_seq raw_pad = Some 10 /\ raw_seq raw_pad = Some 10 /\
  s_next_recv s_exp10 = 10 /\ delivers_of (p_evs (proc raw_pad s_exp10)) = [b "D"] /\
  s_next_recv s_exp8 = 8 /\ delivered (p_evs (proc raw_pad s_exp8)) = false /\
  resend_from 8 (p_evs (proc raw_pad s_exp8)) = true.
Proof. vm_compute. repeat split; reflexivity. Qed.
