(* C19: what the ResendRequest of c19_high_partial looks like on the wire -- the link between the statement
   "process calls send(generate_resend_request(expected, 0)) first" and the oracle's clause
   `resend_from expected` (a 35=2 message whose BeginSeqNo is the expected number). *)
From Coq Require Import NArith ZArith List Bool Lia.
From F8 Require Import Sess.Bytes Sess.Msg Sess.Persist Sess.Session Sess.SessLemmas Sess.SendLemmas
  C19.Run19 C19.Spec_C19 C19.DeliverProofs.
Import ListNotations.
Local Open Scope N_scope.

Section RW.
Variable sc : schema.

(* the schema knows the ResendRequest and its two fields *)
Definition knows_rr : Prop :=
  exists d p7 p16, find_def mt_resend_request (sc_msgs sc) = Some d /\
                   assoc T_BeginSeqNo (d_pos d) = Some p7 /\ assoc T_EndSeqNo (d_pos d) = Some p16.

Lemma rr_shape : knows_rr -> forall b e, exists p7 p16,
  generate_resend_request sc b e =
  mkMsg mt_resend_request [] (add_field p16 T_EndSeqNo (dec e) [mkF p7 T_BeginSeqNo (dec b)]) 0 false true.
Proof.
  intros [d [p7 [p16 [Hd [H7 H16]]]]] b e. exists p7, p16.
  unfold generate_resend_request, add_body', add_body, new_msg. cbn [m_type m_hdr m_body m_custom m_noinc m_eob].
  rewrite Hd, H7. cbn [m_type m_hdr m_body m_custom m_noinc m_eob]. rewrite Hd, H16. reflexivity.
Qed.

Lemma rr_plain : knows_rr -> forall b e, plain_msg (generate_resend_request sc b e) = true.
Proof.
  intros K b e. destruct (rr_shape K b e) as [p7 [p16 E]]. rewrite E.
  unfold plain_msg. cbn [m_type m_hdr m_body m_custom m_noinc m_eob].
  assert (G : forall t, t <> T_EndSeqNo -> t <> T_BeginSeqNo ->
              has_field t (add_field p16 T_EndSeqNo (dec e) [mkF p7 T_BeginSeqNo (dec b)]) = false).
  { intros t N1 N2. unfold has_field. rewrite get_add_other by exact N1. cbn [get_field f_tag f_val].
    apply N.eqb_neq in N2. rewrite N.eqb_sym in N2. rewrite N2. reflexivity. }
  rewrite (G T_MsgSeqNum) by discriminate. rewrite (G T_PossDupFlag) by discriminate.
  assert (V : vals_ok (add_field p16 T_EndSeqNo (dec e) [mkF p7 T_BeginSeqNo (dec b)]) = true).
  { apply vals_ok_add; [apply clean_nosoh, dec_clean|]. unfold vals_ok. cbn [forallb f_val].
    rewrite (clean_nosoh _ (dec_clean b)). reflexivity. }
  rewrite V. reflexivity.
Qed.

Lemma rr_begin : knows_rr -> forall b e,
  get_field T_BeginSeqNo (m_body (generate_resend_request sc b e)) = Some (dec b).
Proof.
  intros K b e. destruct (rr_shape K b e) as [p7 [p16 E]]. rewrite E. cbn [m_body].
  rewrite get_add_other by discriminate. reflexivity.
Qed.

(* the header the session fills in holds no BeginSeqNo *)
Lemma filled_hdr_no7 : forall now s b e, knows_rr ->
  get_field T_BeginSeqNo (m_hdr (filled sc now s (generate_resend_request sc b e))) = None.
Proof.
  intros now s b e K. destruct (rr_shape K b e) as [p7 [p16 E]].
  unfold filled. rewrite E. cbn [m_hdr has_field get_field].
  rewrite !add_hdr'_get_other by discriminate.
  match goal with |- context [if ?c then _ else _] => destruct c end;
    rewrite ?add_hdr'_get_other by discriminate; reflexivity.
Qed.

Theorem resend_request_wire : forall now s E,
  wf_schema sc = true -> knows_rr -> wf_sess s = true -> s_closed s = false -> s_batch s = [] ->
  exists s1 w,
    send sc now s (generate_resend_request sc E 0) 0 false = (true, s1, [EOut w]) /\
    resend_from E [EOut w] = true.
Proof.
  intros now s E WS K WSS C B.
  pose proof (rr_plain K E 0) as P.
  unfold send. cbn [N.eqb]. rewrite (send_process_plain sc now s _ P C).
  unfold plain_result.
  assert (EOB : m_eob (generate_resend_request sc E 0) = true).
  { destruct (rr_shape K E 0) as [p7 [p16 R]]. rewrite R. reflexivity. }
  rewrite EOB, B.
  destruct (filled_ok sc now s _ WS WSS P) as [Fwf Fty Fbody Fseq Fdup].
  assert (Nb : nosoh (sc_begin sc) = true).
  { unfold wf_msg in Fwf. repeat (apply andb_true_iff in Fwf; destruct Fwf as [Fwf ?]). exact Fwf. }
  assert (OE : out_events (wire sc now s (generate_resend_request sc E 0)) =
               [EOut (wire sc now s (generate_resend_request sc E 0))]).
  { unfold out_events, wire.
    pose proof (frames_encodes sc [filled sc now s (generate_resend_request sc E 0)] Nb) as FE.
    cbn [map concat] in FE. rewrite app_nil_r in FE. rewrite FE. reflexivity. }
  rewrite OE. eexists; eexists. split; [reflexivity|].
  unfold resend_from. cbn [existsb]. rewrite orb_false_r. unfold wire, fld.
  rewrite (tok_get_encode_type sc _ Fwf). rewrite Fty.
  rewrite (tok_get_encode sc _ T_BeginSeqNo Fwf) by discriminate.
  rewrite (filled_hdr_no7 now s E 0 K). rewrite Fbody. rewrite (rr_begin K E 0).
  destruct (rr_shape K E 0) as [p7 [p16 R]]. rewrite R. cbn [m_type val]. rewrite !beq_refl. reflexivity.
Qed.


(* the "higher number" clause of the property for state continuous, in the oracle's own terms *)
Theorem high_continuous_wire : forall decode fl now raw s m q,
  decode raw = DecOk m -> raw_seq raw = Some q -> checked m = true -> s_active s = true ->
  is_established (s_state s) = true -> compid_pass s m = true -> s_next_recv s < q ->
  s_state s = st_continuous ->
  wf_schema sc = true -> knows_rr -> wf_sess s = true -> s_closed s = false -> s_batch s = [] ->
  forall r s' e, process sc decode fl now raw s = (r, s', e) ->
  has_deliver e = false /\ exists w rest, e = EOut w :: rest /\ resend_from (s_next_recv s) [EOut w] = true.
Proof.
  intros decode fl now raw s m q D R C A Est Cp H St WS K WSS Cl B r s' e P.
  destruct (high_partial sc decode fl now raw s m q D R C A Est Cp H) as [Qt [Hc _]].
  destruct (resend_request_wire now s (s_next_recv s) WS K WSS Cl B) as [s1 [w [Sd RF]]].
  split.
  - apply Qt in P. exact P.
  - destruct (Hc St _ _ _ Sd _ _ _ P) as [e2 Ee]. exists w, e2. split; [exact Ee|exact RF].
Qed.

End RW.
