(* C19: the model of the inbound path is Sess.Session.process (shared session core, not edited here).
   This file only adds what the session core leaves open for C19:
     * the history interpreter of Sess.Wire with the two remaining Section variables of the session
       model supplied by the caller: `decode` (Message::factory) and `fl_process` (the
       __FILE__:__LINE__ text of the InvalidMessage thrown by Session::process for a message that
       contains no "34="; Sess.Wire.run_op passes the empty string there);
     * the two numbers the property talks about: the sequence number Session::process takes from the
       RAW BYTES (first occurrence of "34=", fast_atoi up to the next SOH) and the MsgSeqNum FIELD of
       the decoded message.
   No proofs in this file. *)
From Coq Require Import NArith ZArith List Bool.
From F8 Require Import Sess.Bytes Sess.Msg Sess.Persist Sess.Session Sess.SimpleCodec Sess.Wire.
Import ListNotations.
Local Open Scope N_scope.

(* what Session::process uses as "the sequence number": from.find("34="), fast_atoi<unsigned>(.., SOH) *)
Definition raw_seq (raw : bytes) : option N :=
  match find_after pat_34 raw with
  | Some rest => fast_atoi_u rest SOH 0
  | None => None
  end.

(* the same with the search pattern as a parameter: Session::process before /repo 57dfe06 searched for "34="
   (Sess.Session.pat_34_orig) anywhere in the bytes, since then for SOH "34=" (pat_34) *)
Definition raw_seq_with (pat raw : bytes) : option N :=
  match find_after pat raw with
  | Some rest => fast_atoi_u rest SOH 0
  | None => None
  end.

(* the MsgSeqNum field of the decoded message (Field<int>: the same digit loop over the value) *)
Definition field_seq (m : msg) : N := int_field (get_field T_MsgSeqNum (m_hdr m)).

Definition possdup_of (m : msg) : bool := bool_field (get_field T_PossDupFlag (m_hdr m)).

(* OrigSendingTime present and after SendingTime *)
Definition orig_after (m : msg) : bool :=
  match get_field T_OrigSendingTime (m_hdr m), get_field T_SendingTime (m_hdr m) with
  | Some ost, Some st => bgt ost st
  | _, _ => false
  end.

(* compid_check passes (or is switched off) *)
Definition compid_pass (s : sess) (m : msg) : bool :=
  negb (pr_ec (s_par s)) ||
  (beq (match get_field T_TargetCompID (m_hdr m) with Some v => v | None => [] end) (s_snd s) &&
   beq (match get_field T_SenderCompID (m_hdr m) with Some v => v | None => [] end) (s_tgt s)).

Section Run19.
Variable sc : schema.
Variable decode : bytes -> decode_result.
Variable fl_process : bytes.

(* Session::process with the search pattern as a parameter (process_with pat_34 = Sess.Session.process);
   process_with pat_34_orig is the code before the repair of F24 *)
Definition process_with (pat : bytes) (now : Z) (raw : bytes) (s : sess) : bool * sess * list event :=
  match find_after pat raw with
  | None => process_catch sc now 0 None (throw (fmt2 txt_invmsg raw txt_at fl_process) false s)
  | Some rest =>
    match fast_atoi_u rest SOH 0 with
    | None => (false, s, [ENote [85;78;68;69;70]])
    | Some seqnum =>
      match decode raw with
      | DecExc text force => process_catch sc now seqnum None (throw text force s)
      | DecOk m => process_catch sc now seqnum (Some (m_type m)) (process_body sc decode now seqnum m s)
      end
    end
  end.

(* Sess.Wire.run_op with the inbound path instantiated by (decode, fl_process) *)
Definition run_op19 (w : world) (o : op) : world * list event :=
  match o, w_sess w with
  | OIn chunks, Some s =>
    let '(s1, e1) := feed sc decode fl_process (w_now w) chunks s in (with_sess w s1, e1)
  | _, _ => run_op sc w o
  end.

Fixpoint run_ops19 (w : world) (l : list op) : trace :=
  match l with
  | [] => []
  | o :: l' =>
    let '(w1, evs) := run_op19 w o in
    let '(w2, sn) := snapshot w1 in
    mkStep evs sn :: run_ops19 w2 l'
  end.

Definition run_history19 (l : list op) : trace := run_ops19 world0 l.

End Run19.

(* the whole model on a case line; decoding = Sess.SimpleCodec (exact on the message classes the C19
   generators produce: well-formed messages, bad checksum, missing mandatory field) *)
Definition run_line19 (sc : schema) (fl_process : bytes) (line : bytes) : bytes :=
  render_trace (run_history19 sc (simple_decode sc []) fl_process (parse_history line)).
