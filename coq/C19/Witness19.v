(* C19: concrete witnesses (a small schema with the positions of the UTEST dump, histories run through the
   model interpreter and judged by the oracle c19_ok).  Used by the ..._refuted / ..._nonvacuous theorems.
   The same histories are replayed on the real code by the suite (known_findings.d/C19.json, corpus/C19). *)
From Coq Require Import NArith ZArith List Bool String Ascii.
From F8 Require Import Sess.Bytes Sess.Msg Sess.Persist Sess.Session Sess.SimpleCodec Sess.Wire C19.Run19 C19.Spec_C19
  C19.CodecDecode.
From F8 Require Codec.Meta Codec.Render Codec.Example.
Import ListNotations.
Local Open Scope string_scope.
Local Open Scope list_scope.
Local Open Scope N_scope.

Fixpoint b (s : string) : list N :=
  match s with EmptyString => [] | String a r => N_of_ascii a :: b r end.

Definition tok (kv : string * string) : list N := (b (fst kv) ++ [61] ++ b (snd kv) ++ [1]).

(* a complete message: 8, 9 (computed), the tokens, 10 (computed) *)
Definition mk_rawb (fields : list (list N * list N)) : list N :=
  let body := flat_map (fun kv => fst kv ++ [61] ++ snd kv ++ [1]) fields in
  let pre := (b "8=FIX.4.2" ++ [1] ++ b "9=" ++ dec (N.of_nat (List.length body)) ++ [1]) in
  let chk := bytesum (pre ++ body) mod 256 in
  (pre ++ body ++ b "10=" ++ pad 3 chk ++ [1]).
Definition bb (kv : string * string) : list N * list N := (b (fst kv), b (snd kv)).

Definition mk_raw (fields : list (string * string)) : list N :=
  let body := flat_map tok fields in
  let pre := (b "8=FIX.4.2" ++ [1] ++ b "9=" ++ dec (N.of_nat (List.length body)) ++ [1]) in
  let chk := bytesum (pre ++ body) mod 256 in
  (pre ++ body ++ b "10=" ++ pad 3 chk ++ [1]).

Definition sc0 : schema :=
  mkSchema (b "FIX.4.2")
    [(8,1);(9,2);(35,3);(49,4);(56,5);(115,6);(34,10);(50,11);(43,19);(52,21);(122,22)]
    [34;49;52;56]
    [(34, b "MsgSeqNum");(49, b "SenderCompID");(52, b "SendingTime");(56, b "TargetCompID");(11, b "ClOrdID")]
    [mkDef (b "0") true [(112,1)] [];
     mkDef (b "1") true [(112,1)] [112];
     mkDef (b "2") true [(7,1);(16,2)] [7;16];
     mkDef (b "3") true [(45,1);(371,2);(372,3);(373,4);(58,5)] [45];
     mkDef (b "4") true [(123,1);(36,2)] [36];
     mkDef (b "5") true [(58,1)] [];
     mkDef (b "A") true [(98,1);(108,2);(141,5)] [98;108];
     mkDef (b "D") false [(1,6);(11,3);(21,10);(55,20);(54,40);(60,42);(38,43);(40,45);(44,46);(58,63)] [11;21;40;54;55;60];
     (* an APPLICATION type of two characters whose first character is that of the Heartbeat (schema utest2c) *)
     mkDef (b "0X") false [(11,1);(58,2)] [11]]
    [b "D"] [].

Definition dec0 := simple_decode sc0 [].
Definition fl0 : list N := b "/repo/runtime/session.cpp:290".

Definition T : string := "20260922-00:00:00.000".
Definition order : list (string * string) :=
  [("11","a");("21","1");("55","IBM");("54","1");("60",T);("40","1")].

Definition start_I : op :=
  OStart (mkStart Initiator PMem (b "CLI") (b "SRV") (mkParams false true false false []) 30 0 0) None.
Definition start_I_rs5 : op :=
  OStart (mkStart Initiator PMem (b "CLI") (b "SRV") (mkParams false true false false []) 30 0 5) None.

Definition logon (seq : string) : list N :=
  mk_raw [("35","A");("49","SRV");("56","CLI");("34",seq);("52",T);("98","0");("108","30")].
Definition order_msg (seq : string) (extra : list (string * string)) : list N :=
  mk_raw ([("35","D");("49","SRV");("56","CLI");("34",seq)] ++ extra ++ [("52",T)] ++ order).

(* F24: "34=2" inside OnBehalfOfCompID, before the real MsgSeqNum 7 *)
Definition raw_34 : list N :=
  mk_raw ([("35","D");("49","SRV");("56","CLI");("115","X34=2");("34","7");("52",T)] ++ order).
Definition ops_34 : list op := [start_I; OIn [logon "1"]; OIn [raw_34]].

(* a gap, then a second message above the expected number while the resend is pending *)
Definition ops_second_gap : list op :=
  [start_I; OIn [logon "1"]; OIn [order_msg "5" []]; OIn [order_msg "6" []]].

(* a number that is too low / a wrong SenderCompID once the session is continuous *)
Definition ops_low : list op := [start_I; OIn [logon "1"]; OIn [order_msg "2" []]; OIn [order_msg "2" []]].
Definition ops_compid : list op :=
  [start_I; OIn [logon "1"];
   OIn [mk_raw ([("35","D");("49","XXX");("56","CLI");("34","2");("52",T)] ++ order)]].

(* no "34=" anywhere *)
Definition raw_no34 : list N := mk_raw ([("35","D");("49","SRV");("56","CLI");("52",T)] ++ order).
Definition ops_no34 : list op := [start_I; OIn [logon "1"]; OIn [raw_no34]].

(* healthy traffic: in sequence, a duplicate with PossDupFlag, a gap answered with a ResendRequest, a bad checksum
   answered with a Reject; a too-low Logon answered with a Logout (state logon_received) *)
Definition dup_hdr : list (string * string) := [("43","Y");("122","20260921-23:59:59.000")].
Definition ops_good : list op :=
  [start_I; OIn [logon "1"]; OIn [order_msg "2" []]; OIn [order_msg "2" dup_hdr]; OIn [order_msg "4" []];
   OIn [order_msg "7" []]].
Definition ops_logon_low : list op := [start_I_rs5; OIn [logon "3"]].

Definition run0 (ops : list op) : trace := run_history19 sc0 dec0 fl0 ops.

Definition last_events (tr : trace) : list event :=
  match rev tr with st :: _ => st_events st | [] => [] end.
Definition last_snap (tr : trace) : option (N * N * N) :=
  match rev tr with
  | st :: _ => match st_snap st with Some sn => Some (sn_state sn, sn_send sn, sn_recv sn) | None => None end
  | [] => None
  end.
Definition nth_events (n : nat) (tr : trace) : list event :=
  match nth_error tr n with Some st => st_events st | None => [] end.

(* the session after a prefix of a history *)
Definition sess_after (ops : list op) : sess :=
  match w_sess (fold_left (fun w o => fst (snapshot (fst (run_op19 sc0 dec0 fl0 w o)))) ops world0) with
  | Some s => s
  | None => new_session default_sp (p_empty PNone)
  end.

Definition s_cont : sess := sess_after [start_I; OIn [logon "1"]].                         (* continuous, expects 2 *)
Definition s_cont3 : sess := sess_after [start_I; OIn [logon "1"]; OIn [order_msg "2" []]]. (* continuous, expects 3 *)
Definition s_pending : sess := sess_after [start_I; OIn [logon "1"]; OIn [order_msg "5" []]]. (* resend_request_sent, expects 3 *)
Definition raw_xxx : list N := mk_raw ([("35","D");("49","XXX");("56","CLI");("34","2");("52",T)] ++ order).

(* ---- after the repair of F24: what still escapes ------------------------------------------------------------------
   A data field in front of MsgSeqNum whose content contains SOH "34=": SecureDataLen 90 = 6, SecureData 91 =
   X SOH 3 4 = 2.  Decoding such a message needs the real decoder's Length/data pairing: the witness uses the Codec
   group's model of Message::factory on a small context with the same positions as sc0. *)
Definition tr := F8.Codec.Example.tr.
Definition ctx0 : F8.Codec.Meta.ctx :=
  let hdr := F8.Codec.Meta.GM
    [ tr 8 15 1 false false true true; tr 9 1 2 false false true true; tr 35 15 3 false false false true;
      tr 49 15 4 true false false false; tr 56 15 5 true false false false; tr 115 15 6 false false false false;
      tr 90 2 8 false false false false; tr 91 28 9 false false false false; tr 34 1 10 true false false false;
      tr 50 15 11 false false false false; tr 43 8 19 false false false false; tr 52 22 21 true false false false;
      tr 122 22 22 false false false false ] [] true in
  let gm l := F8.Codec.Meta.GM l [] true in
  F8.Codec.Meta.mkCtx
    [ (1,15); (7,1); (8,15); (9,1); (10,15); (11,15); (16,1); (21,7); (34,1); (35,15); (36,1); (38,10); (40,7); (43,8);
      (44,11); (45,1); (49,15); (50,15); (52,22); (54,7); (55,15); (56,15); (58,15); (60,22); (89,28); (90,2); (91,28);
      (93,2); (98,1); (108,1); (112,15); (115,15); (122,22); (123,8); (141,8); (371,1); (372,15); (373,1) ]
    [ F8.Codec.Meta.mkMD (b "0") true (gm [tr 112 15 1 false false false false]);
      F8.Codec.Meta.mkMD (b "1") true (gm [tr 112 15 1 true false false false]);
      F8.Codec.Meta.mkMD (b "2") true (gm [tr 7 1 1 true false false false; tr 16 1 2 true false false false]);
      F8.Codec.Meta.mkMD (b "3") true (gm [tr 45 1 1 true false false false; tr 58 15 5 false false false false;
                                           tr 371 1 2 false false false false; tr 372 15 3 false false false false;
                                           tr 373 1 4 false false false false]);
      F8.Codec.Meta.mkMD (b "4") true (gm [tr 36 1 2 true false false false; tr 123 8 1 false false false false]);
      F8.Codec.Meta.mkMD (b "5") true (gm [tr 58 15 1 false false false false]);
      F8.Codec.Meta.mkMD (b "A") true (gm [tr 98 1 1 true false false false; tr 108 1 2 true false false false;
                                           tr 141 8 5 false false false false]);
      F8.Codec.Meta.mkMD (b "D") false (gm [tr 1 15 6 false false false false; tr 11 15 3 true false false false;
                                            tr 21 7 10 true false false false; tr 38 10 43 false false false false;
                                            tr 40 7 45 true false false false; tr 44 11 46 false false false false;
                                            tr 54 7 40 true false false false; tr 55 15 20 true false false false;
                                            tr 58 15 63 false false false false; tr 60 22 42 true false false false]);
      F8.Codec.Meta.mkMD (b "0X") false (gm [tr 11 15 1 true false false false; tr 58 15 2 false false false false]) ]
    hdr F8.Codec.Example.ex_trailer
    [ (1, (8, b "FIX.4.2")); (2, (9, b "0")); (3, (35, [])) ]
    [ (3, (10, [])) ]
    (b "FIX.4.2")
    F8.Codec.Render.render_default.

Definition dec0c := codec_decode sc0 ctx0 (mkFl [] [] []).
Definition lens0 : list N := [90].

Definition raw_d34 : list N :=
  mk_rawb ([bb ("35","D"); bb ("49","SRV"); bb ("56","CLI"); bb ("90","6"); (b "91", b "X" ++ [1] ++ b "34=2");
            bb ("34","7"); bb ("52",T)] ++ map bb order).
Definition ops_d34 : list op := [start_I; OIn [logon "1"]; OIn [raw_d34]].
Definition run0c (ops : list op) : trace := run_history19 sc0 dec0c fl0 ops.

(* a two-character application message in sequence: delivered (Session::process: msgtype.size() > 1 goes to the
   application whatever the first character is); the same trace with the DELIVER events removed (what a session
   that sends "0X" to the Heartbeat handler produces) is rejected by the oracle *)
Definition raw_0x : list N := mk_raw [("35","0X");("49","SRV");("56","CLI");("34","2");("52",T);("11","a")].
Definition ops_0x : list op := [start_I; OIn [logon "1"]; OIn [raw_0x]].
Definition drop_delivers (tr : trace) : trace :=
  map (fun st => mkStep (filter (fun e => negb (is_deliver e)) (st_events st)) (st_snap st)) tr.

(* a MsgSeqNum written with a leading zero: `34=010` (a VALUE with leading zeros is inside the domain of the
   full-strength theorems: tok_ok19 asks for canonical TAGS and SOH-free values only; the gating number and the
   decoded field are the same decimal reading of the same text) *)
Definition start_I_rs (n : N) : op :=
  OStart (mkStart Initiator PMem (b "CLI") (b "SRV") (mkParams false true false false []) 30 0 n) None.
Definition s_exp10 : sess := sess_after [start_I_rs 9; OIn [logon "9"]].     (* continuous, expects 10 *)
Definition s_exp8 : sess := sess_after [start_I_rs 7; OIn [logon "7"]].      (* continuous, expects 8 *)
Definition raw_pad : list N := order_msg "010" [].
Definition toks_pad : list (list N * list N) := tokens raw_pad.
