(* C19, decoding of corrupt messages: the session model's `decode` parameter instantiated with the Codec
   group's model of Message::factory (coq/Codec: extract_header, MessageBase::decode incl. duplicate test,
   unknown fields, Length/data pairs, repeating groups, trailer and checksum), instead of the stand-in
   Sess.SimpleCodec.  This file converts its results into the session model's vocabulary:
     * a decoded message: header = the header's _pos entries without 8, 9, 35, body = the body's _pos entries,
       keys kept (they are the decode-order positions); repeating groups are dropped (the session never looks
       inside them; the C19 generators send none);
     * an exception: the `what()` text the session puts into its Reject, force_logoff = false for all of them.
       InvalidMessage carries __FILE__:__LINE__ of one of three throw sites in Message::factory: the texts are
       obtained from the real code (fl_hlen: the metadata dump's factory_empty, fl_type: the suite's probe run).
   No proofs in this file. *)
From Coq Require Import NArith ZArith List Bool.
From F8 Require Import Sess.Bytes Sess.Msg Sess.Persist Sess.Session Sess.SimpleCodec Sess.Wire C19.Run19.
From F8 Require Codec.Bytes Codec.Meta Codec.Extract Codec.Decode.
Import ListNotations.
Local Open Scope N_scope.

Definition conv_fields (skip : list N) (pos : list (N * (N * list N))) : list field :=
  map (fun e => mkF (fst e) (fst (snd e)) (snd (snd e)))
      (filter (fun e => negb (existsb (N.eqb (fst (snd e))) skip)) pos).

Definition conv_msg (m : F8.Codec.Meta.message) : msg :=
  mkMsg (F8.Codec.Meta.m_type m)
        (conv_fields [8; 9; 35] (F8.Codec.Meta.mb_pos (F8.Codec.Meta.m_hdr m)))
        (conv_fields [] (F8.Codec.Meta.mb_pos (F8.Codec.Meta.m_body m)))
        0 false true.

(* ASCII texts of f8exception.hpp *)
Definition t_dup : bytes := [68;117;112;108;105;99;97;116;101;32;70;105;101;108;100].                (* Duplicate Field *)
Definition t_unknown : bytes :=                                                                        (* Unknown Field Decoded *)
  [85;110;107;110;111;119;110;32;70;105;101;108;100;32;68;101;99;111;100;101;100].
Definition t_fixed : bytes :=                                                   (* Unable to extract fixed width field *)
  [85;110;97;98;108;101;32;116;111;32;101;120;116;114;97;99;116;32;102;105;120;101;100;32;119;105;100;116;104;32;102;105;101;108;100].
Definition t_toolarge : bytes := [86;97;108;117;101;32;115;105;122;101;32;116;111;111;32;108;97;114;103;101].  (* Value size too large *)
Definition t_grpfirst : bytes :=                                  (* First Field in a Repeating Group is Mandatory *)
  [70;105;114;115;116;32;70;105;101;108;100;32;105;110;32;97;32;82;101;112;101;97;116;105;110;103;32;71;114;111;117;112;32;105;115;32;77;97;110;100;97;116;111;114;121].
Definition t_grpinv : bytes :=                                                                   (* Invalid Repeating Group *)
  [73;110;118;97;108;105;100;32;82;101;112;101;97;116;105;110;103;32;71;114;111;117;112].
Definition t_invfield : bytes := [73;110;118;97;108;105;100;32;70;105;101;108;100;32;65;100;100;101;100].   (* Invalid Field Added *)
Definition t_component : bytes :=                                                              (* Missing Message Component *)
  [77;105;115;115;105;110;103;32;77;101;115;115;97;103;101;32;67;111;109;112;111;110;101;110;116].
Definition t_model : bytes := [77;79;68;69;76;45;79;79;66].                                                 (* MODEL-OOB *)

Record flines := mkFl { fl_hlen : bytes; fl_type : bytes; fl_trailer : bytes }.

Section CD.
Variable sc : schema.                 (* for the field names of MissingMandatoryField *)
Variable c : F8.Codec.Meta.ctx.
Variable fls : flines.

Definition invalid_text (raw : bytes) : bytes :=
  let cp := F8.Codec.Decode.real_caps in
  match F8.Codec.Extract.extract_header raw (F8.Codec.Decode.cap_htag cp) (F8.Codec.Decode.cap_hval cp)
                                        (F8.Codec.Decode.cap_len cp) (F8.Codec.Decode.cap_mtype cp) with
  | F8.Codec.Meta.Ok (hlen, _, mtype) =>
    if hlen =? 0 then fmt2 txt_invmsg raw txt_at (fl_hlen fls)
    else match F8.Codec.Meta.find_msg (F8.Codec.Meta.c_msgs c) (F8.Codec.Bytes.cstr mtype) with
         | None => fmt2 txt_invmsg (F8.Codec.Bytes.cstr mtype) txt_at (fl_type fls)
         | Some _ => fmt2 txt_invmsg raw txt_at (fl_trailer fls)
         end
  | _ => fmt2 txt_invmsg raw txt_at (fl_hlen fls)
  end.

Definition exc_text (raw : bytes) (e : F8.Codec.Meta.exc) : bytes :=
  match e with
  | F8.Codec.Meta.EInvalidMessage => invalid_text raw
  | F8.Codec.Meta.EDuplicateField t => fmt1 t_dup (dec t)
  | F8.Codec.Meta.EUnknownField t => fmt1 t_unknown (dec t)
  | F8.Codec.Meta.EMissingMandatory t => missing_text sc t
  | F8.Codec.Meta.EFixedWidth => fmt1 txt_missing t_fixed
  | F8.Codec.Meta.EValueTooLarge => t_toolarge
  | F8.Codec.Meta.EMissingGroupField t => fmt1 t_grpfirst (dec t)
  | F8.Codec.Meta.EInvalidGroup t => fmt1 t_grpinv (dec t)
  | F8.Codec.Meta.EBadCheckSum v => fmt1 txt_chk (dec v)
  | F8.Codec.Meta.EInvalidField t => fmt1 t_invfield (dec t)
  | F8.Codec.Meta.EMissingComponent => t_component
  end.

(* Message::factory(ctx, raw, false, false) in the session model's vocabulary *)
Definition codec_decode (raw : bytes) : decode_result :=
  match raw with
  | [] => DecExc (sc_factory_empty sc) false
  | _ =>
    match F8.Codec.Decode.factory c F8.Codec.Decode.real_caps raw false false with
    | F8.Codec.Meta.Ok m => DecOk (conv_msg m)
    | F8.Codec.Meta.Exc e => DecExc (exc_text raw e) false
    | _ => DecExc t_model false            (* memory error / divergence in the real code: not generated *)
    end
  end.

End CD.

(* the whole model on a case line, decoding by the Codec model *)
Definition run_line19c (sc : schema) (c : F8.Codec.Meta.ctx) (fls : flines) (fl_process : bytes) (line : bytes) : bytes :=
  render_trace (run_history19 sc (codec_decode sc c fls) fl_process (parse_history line)).
