(* C19: proofs about the inbound path of the session model (Sess.Session.process and everything below it).
   All statements are for EVERY schema, EVERY decode function, EVERY session state and EVERY message. *)
From Coq Require Import NArith ZArith List Bool Lia.
From F8 Require Import Sess.Bytes Sess.Msg Sess.Persist Sess.Session Sess.SessLemmas C19.Run19.
Import ListNotations.
Local Open Scope N_scope.

(* ---- events without a delivery ---------------------------------------------------------------------- *)
Definition is_deliver (e : event) : bool := match e with EDeliver _ _ _ => true | _ => false end.
Definition delivered (l : list event) : bool := existsb is_deliver l.
Definition quiet (l : list event) : Prop := delivered l = false.

Lemma quiet_nil : quiet [].
Proof. reflexivity. Qed.

Lemma quiet_app : forall a b, quiet a -> quiet b -> quiet (a ++ b).
Proof. unfold quiet, delivered. intros. rewrite existsb_app, H, H0. reflexivity. Qed.

Lemma delivered_app : forall a b, delivered (a ++ b) = delivered a || delivered b.
Proof. intros. apply existsb_app. Qed.

Lemma quiet_map_out : forall l, quiet (map EOut l).
Proof. induction l; [reflexivity|]. unfold quiet, delivered in *. cbn. exact IHl. Qed.

Section Proofs.
Variable sc : schema.
Variable decode : bytes -> decode_result.
Variable fl : bytes.

Lemma out_events_quiet : forall b, quiet (out_events b).
Proof.
  intros b. unfold out_events. destruct (frames b) as [ms rest].
  apply quiet_app; [apply quiet_map_out|]. destruct rest; reflexivity.
Qed.

Lemma send_process_quiet : forall now s m ok s' e, send_process sc now s m = (ok, s', e) -> quiet e.
Proof.
  intros now s m ok s' e. cbv beta delta [send_process]. cbv zeta.
  match goal with |- (match ?X with pair _ _ => _ end) = _ -> _ => destruct X as [m3 is_dup] end.
  match goal with |- (match ?X with pair _ _ => _ end) = _ -> _ => destruct X as [[[ok1 s1] evs] ptr] eqn:ES end.
  assert (Q : quiet evs).
  { destruct (m_eob m).
    - match type of ES with (match ?X with pair _ _ => _ end) = _ => destruct X as [tosend appended] end.
      destruct (s_closed s); inversion ES; subst; [reflexivity|apply out_events_quiet].
    - inversion ES; subst. reflexivity. }
  destruct (negb ok1); [intro H; inversion H; subst; exact Q|].
  destruct is_dup; intro H; inversion H; subst; exact Q.
Qed.

Lemma send_quiet : forall now s m c n ok s' e, send sc now s m c n = (ok, s', e) -> quiet e.
Proof. intros until e. unfold send. apply send_process_quiet. Qed.

(* ---- the monad: computations that never deliver -------------------------------------------------------- *)
Notation "x <- a ;; b" := (bind a (fun x => b)) (at level 61, a at next level, right associativity).
Notation "a ;;; b" := (bind a (fun _ => b)) (at level 61, right associativity).

Definition Q {A : Type} (x : M A) : Prop := forall s r s' e, x s = (r, s', e) -> quiet e.

Lemma Q_ret : forall A (a : A), Q (ret a).
Proof. intros A a s r s' e H. inversion H. reflexivity. Qed.
Lemma Q_throw : forall A t f, Q (@throw A t f).
Proof. intros A t f s r s' e H. inversion H. reflexivity. Qed.
Lemma Q_get : Q get.
Proof. intros s r s' e H. inversion H. reflexivity. Qed.
Lemma Q_modify : forall f, Q (modify f).
Proof. intros f s r s' e H. inversion H. reflexivity. Qed.
Lemma Q_note : forall b, Q (emit (ENote b)).
Proof. intros b s r s' e H. inversion H. reflexivity. Qed.
Lemma Q_bind : forall A B (x : M A) (f : A -> M B), Q x -> (forall a, Q (f a)) -> Q (bind x f).
Proof.
  intros A B x f Hx Hf s r s' e. unfold bind. destruct (x s) as [[r1 s1] e1] eqn:E1. destruct r1 as [a|ex].
  - destruct (f a s1) as [[r2 s2] e2] eqn:E2. intro H. inversion H; subst.
    apply quiet_app; [eapply Hx; exact E1|eapply Hf; exact E2].
  - intro H. inversion H; subst. eapply Hx. exact E1.
Qed.
Lemma Q_do_send : forall now m c n, Q (do_send sc now m c n).
Proof.
  intros now m c n s r s' e. unfold do_send. destruct (send sc now s m c n) as [[ok s1] e1] eqn:E.
  intro H. inversion H; subst. eapply send_quiet. exact E.
Qed.
Lemma Q_set_state : forall st, Q (set_state st).
Proof. intros. apply Q_modify. Qed.

Ltac solveQ :=
  repeat first
    [ apply Q_ret | apply Q_throw | apply Q_get | apply Q_modify | apply Q_set_state | apply Q_do_send | apply Q_note
    | assumption
    | match goal with H : _ |- Q _ => apply H end
    | apply Q_bind; [|intro]
    | match goal with
      | |- Q (if ?c then _ else _) => destruct c
      | |- Q (match ?x with _ => _ end) => destruct x
      end ].

Section Now.
Variable now : Z.

Lemma Q_compid_check : forall m, Q (compid_check m).
Proof. intros. unfold compid_check. solveQ. Qed.

Lemma Q_sequence_check : forall q m, Q (sequence_check sc now q m).
Proof. intros. unfold sequence_check. solveQ. Qed.

Lemma Q_enforce : forall q m, Q (enforce sc now q m).
Proof.
  intros. unfold enforce. pose proof (Q_compid_check m). pose proof (Q_sequence_check q m). solveQ.
Qed.

Lemma Q_handle_outbound_reject : forall q mt t, Q (handle_outbound_reject sc now q mt t).
Proof. intros. unfold handle_outbound_reject. apply Q_do_send. Qed.

Lemma Q_handle_logon : forall q m, Q (handle_logon sc now q m).
Proof. intros. unfold handle_logon. pose proof (Q_enforce q m). solveQ. Qed.

Lemma Q_handle_logout : forall q m, Q (handle_logout sc now q m).
Proof. intros. unfold handle_logout. pose proof (Q_enforce q m). solveQ. Qed.

Lemma Q_handle_sequence_reset : forall q m, Q (handle_sequence_reset sc now q m).
Proof. intros. unfold handle_sequence_reset. pose proof (Q_enforce q m). solveQ. Qed.

Lemma Q_handle_test_request : forall q m, Q (handle_test_request sc now q m).
Proof. intros. unfold handle_test_request. pose proof (Q_enforce q m). solveQ. Qed.

Lemma Q_handle_heartbeat : forall q m, Q (handle_heartbeat sc now q m).
Proof. intros. unfold handle_heartbeat. pose proof (Q_enforce q m). solveQ. Qed.

Lemma Q_retrans_record : forall b l q raw, Q (retrans_record sc decode now b l q raw).
Proof. intros. unfold retrans_record. solveQ. Qed.

Lemma Q_retrans_loop : forall fuel b f l c, Q (retrans_loop sc decode now fuel b f l c).
Proof.
  induction fuel; intros; cbn [retrans_loop]; [solveQ|].
  apply Q_bind; [apply Q_get|intro s0].
  destruct (p_next_after (s_per s0) c) as [[seq raw]|]; [|apply Q_ret].
  destruct (f <? seq); [apply Q_ret|].
  apply Q_bind; [apply Q_retrans_record|intro ok]. destruct ok; [apply IHfuel|apply Q_ret].
Qed.

Lemma Q_retrans_final : forall b i l, Q (retrans_final sc now b i l).
Proof. intros. unfold retrans_final. solveQ. Qed.

Lemma Q_handle_resend_request : forall q m, Q (handle_resend_request sc decode now q m).
Proof.
  intros. unfold handle_resend_request.
  pose proof (Q_enforce q m). pose proof Q_retrans_final. pose proof Q_retrans_loop. pose proof Q_handle_outbound_reject.
  solveQ.
Qed.

(* ---- compid_check, sequence_check, enforce: what they return -------------------------------------------- *)
Lemma compid_check_pass : forall m s, compid_pass s m = true -> compid_check m s = (inl tt, s, []).
Proof.
  intros m s H. unfold compid_pass in H. unfold compid_check, bind, get.
  destruct (pr_ec (s_par s)); cbn in H |- *; [|reflexivity].
  apply andb_true_iff in H. destruct H as [H1 H2]. rewrite H1, H2. reflexivity.
Qed.

Lemma compid_check_fail : forall m s, compid_pass s m = false ->
  exists text, compid_check m s = (inr (Exc text true), s, []).
Proof.
  intros m s H. unfold compid_pass in H. unfold compid_check, bind, get.
  destruct (pr_ec (s_par s)); cbn in H |- *; [|discriminate].
  destruct (beq _ (s_snd s)); cbn in H |- *; [|eexists; reflexivity].
  rewrite H. cbn. eexists; reflexivity.
Qed.

Definition inseq (s : sess) (q : N) (m : msg) : Prop :=
  q = s_next_recv s \/ (q < s_next_recv s /\ possdup_of m = true /\ orig_after m = false).

(* the request for retransmission the session sends on a gap *)
Definition resend_msg (s : sess) : msg := generate_resend_request sc (s_next_recv s) 0.

Lemma sequence_check_high_cont : forall q m s,
  s_next_recv s < q -> s_state s = st_continuous ->
  sequence_check sc now q m s =
  (let '(ok, s1, e1) := send sc now s (resend_msg s) 0 false in (inl false, w_state st_resend_request_sent s1, e1)).
Proof.
  intros q m s H St. unfold sequence_check, bind, get. apply N.ltb_lt in H. rewrite H.
  rewrite St. cbn [N.eqb st_continuous Pos.eqb]. unfold do_send, resend_msg.
  destruct (send sc now s (generate_resend_request sc (s_next_recv s) 0) 0 false) as [[ok s1] e1].
  unfold set_state, modify, ret. cbn. rewrite !app_nil_r. reflexivity.
Qed.

Lemma sequence_check_high_other : forall q m s,
  s_next_recv s < q -> s_state s <> st_continuous ->
  sequence_check sc now q m s =
  (inr (Exc (fmt2 txt_invseq (dec q) txt_expected (dec (s_next_recv s))) true), s, []).
Proof.
  intros q m s H St. unfold sequence_check, bind, get. apply N.ltb_lt in H. rewrite H.
  apply N.eqb_neq in St. rewrite St. reflexivity.
Qed.

Lemma sequence_check_low_nodup : forall q m s,
  q < s_next_recv s -> possdup_of m = false ->
  sequence_check sc now q m s =
  (inr (Exc (fmt2 txt_toolow (dec q) txt_expected (dec (s_next_recv s))) true), s, []).
Proof.
  intros q m s H P. unfold sequence_check, bind, get.
  assert (A : (s_next_recv s <? q) = false) by (apply N.ltb_ge; lia). rewrite A.
  apply N.ltb_lt in H. rewrite H. unfold possdup_of in P. rewrite P. reflexivity.
Qed.

Lemma sequence_check_low_late : forall q m s,
  q < s_next_recv s -> possdup_of m = true -> orig_after m = true ->
  exists text, sequence_check sc now q m s = (inr (Exc text true), s, []).
Proof.
  intros q m s H P O. unfold sequence_check, bind, get.
  assert (A : (s_next_recv s <? q) = false) by (apply N.ltb_ge; lia). rewrite A.
  apply N.ltb_lt in H. rewrite H. unfold possdup_of in P. rewrite P. cbn [negb].
  unfold orig_after in O.
  destruct (get_field T_OrigSendingTime (m_hdr m)); [|discriminate].
  destruct (get_field T_SendingTime (m_hdr m)); [|discriminate].
  rewrite O. eexists; reflexivity.
Qed.

(* sequence_check lets the message through (returns true) only when it is in sequence; then nothing happens *)
Lemma sequence_check_true : forall q m s s' e,
  sequence_check sc now q m s = (inl true, s', e) -> inseq s q m /\ s' = s /\ e = [].
Proof.
  intros q m s s' e. unfold sequence_check, bind, get, inseq.
  destruct (s_next_recv s <? q) eqn:A.
  - destruct (s_state s =? st_continuous).
    + unfold do_send. destruct (send sc now s _ 0 false) as [[ok s1] e1]. cbn. intro H. inversion H.
    + intro H. inversion H.
  - apply N.ltb_ge in A. destruct (q <? s_next_recv s) eqn:B.
    + apply N.ltb_lt in B. unfold possdup_of, orig_after.
      destruct (bool_field (get_field T_PossDupFlag (m_hdr m))); cbn [negb]; [|intro H; inversion H].
      destruct (get_field T_OrigSendingTime (m_hdr m)) as [ost|];
        [destruct (get_field T_SendingTime (m_hdr m)) as [st|]; [destruct (bgt ost st); [intro H; inversion H|]|]|];
        intro H; inversion H; subst; (split; [right; repeat split; assumption|split; reflexivity]).
    + apply N.ltb_ge in B. intro H. inversion H; subst. split; [left; lia|split; reflexivity].
Qed.

(* enforce passes (returns false) only for an established session, right CompIDs (not checked in state
   logon_received), a type other than SequenceReset and a number in sequence; and then it did nothing *)
Lemma enforce_pass : forall q m s s' e,
  enforce sc now q m s = (inl false, s', e) ->
  is_established (s_state s) = true /\
  (s_state s = st_logon_received \/ compid_pass s m = true) /\
  beq (m_type m) mt_sequence_reset = false /\ inseq s q m /\ s' = s /\ e = [].
Proof.
  intros q m s s' e. unfold enforce. unfold bind at 1. unfold get at 1.
  destruct (is_established (s_state s)) eqn:Est; [|intro H; inversion H].
  unfold bind at 1.
  destruct (s_state s =? st_logon_received) eqn:L; cbn [negb].
  - unfold ret at 1. apply N.eqb_eq in L.
    destruct (beq (m_type m) mt_sequence_reset) eqn:T; cbn [negb]; [intro H; inversion H|].
    unfold bind. destruct (sequence_check sc now q m s) as [[r1 s1] e1] eqn:SC.
    destruct r1 as [b|x]; [|intro H; inversion H].
    destruct b; cbn; intro H; inversion H; subst.
    apply sequence_check_true in SC. destruct SC as [I [A B]]. subst. rewrite app_nil_r.
    repeat split; auto.
  - destruct (compid_pass s m) eqn:C.
    + rewrite (compid_check_pass _ _ C).
      destruct (beq (m_type m) mt_sequence_reset) eqn:T; cbn [negb]; [intro H; inversion H|].
      unfold bind. destruct (sequence_check sc now q m s) as [[r1 s1] e1] eqn:SC.
      destruct r1 as [b|x]; [|intro H; inversion H].
      destruct b; cbn; intro H; inversion H; subst.
      apply sequence_check_true in SC. destruct SC as [I [A B]]. subst. rewrite app_nil_r.
      repeat split; auto.
    + destruct (compid_check_fail _ _ C) as [text E]. rewrite E. intro H. inversion H.
Qed.

Lemma enforce_high_cont : forall q m s ok s1 e1,
  is_established (s_state s) = true -> compid_pass s m = true -> beq (m_type m) mt_sequence_reset = false ->
  s_next_recv s < q -> s_state s = st_continuous ->
  send sc now s (resend_msg s) 0 false = (ok, s1, e1) ->
  enforce sc now q m s = (inl true, w_state st_resend_request_sent s1, e1).
Proof.
  intros q m s ok s1 e1 Est C T H St Sd. unfold enforce. unfold bind at 1. unfold get at 1. rewrite Est.
  unfold bind at 1. rewrite St. cbn [N.eqb st_continuous st_logon_received Pos.eqb negb].
  rewrite (compid_check_pass _ _ C). rewrite T. cbn [negb]. unfold bind.
  rewrite (sequence_check_high_cont q m s H St). rewrite Sd. cbn. rewrite app_nil_r. reflexivity.
Qed.

(* a fatal verdict of enforce: the exception leaves enforce with the session untouched *)
Definition enforce_fatal (q : N) (m : msg) (s : sess) : Prop :=
  exists text, enforce sc now q m s = (inr (Exc text true), s, []).

Lemma enforce_compid_fatal : forall q m s,
  is_established (s_state s) = true -> s_state s <> st_logon_received -> compid_pass s m = false ->
  enforce_fatal q m s.
Proof.
  intros q m s Est L C. unfold enforce_fatal, enforce. unfold bind at 1. unfold get at 1. rewrite Est.
  unfold bind at 1. apply N.eqb_neq in L. rewrite L. cbn [negb].
  destruct (compid_check_fail _ _ C) as [text E]. rewrite E. eexists; reflexivity.
Qed.

Lemma enforce_seq_fatal : forall q m s,
  is_established (s_state s) = true -> (s_state s = st_logon_received \/ compid_pass s m = true) ->
  beq (m_type m) mt_sequence_reset = false ->
  forall text, sequence_check sc now q m s = (inr (Exc text true), s, []) ->
  enforce_fatal q m s.
Proof.
  intros q m s Est C T text SC. unfold enforce_fatal, enforce. unfold bind at 1. unfold get at 1. rewrite Est.
  unfold bind at 1.
  assert (P : (if negb (s_state s =? st_logon_received) then compid_check m else ret tt) s = (inl tt, s, [])).
  { destruct (s_state s =? st_logon_received) eqn:L; cbn [negb]; [reflexivity|].
    destruct C as [C|C]; [apply N.eqb_eq in C; congruence|]. apply compid_check_pass. exact C. }
  rewrite P. rewrite T. cbn [negb]. unfold bind. rewrite SC. eexists; reflexivity.
Qed.

(* ---- handle_application and dispatch --------------------------------------------------------------------- *)
Lemma bind_ret_inv : forall A B (x : M A) (g : A -> B) s r s' e,
  bind x (fun a => ret (g a)) s = (r, s', e) -> exists r0, x s = (r0, s', e).
Proof.
  intros A B x g s r s' e. unfold bind, ret. destruct (x s) as [[[a|ex] s1] e1]; intro H; inversion H; subst;
    rewrite ?app_nil_r; eexists; reflexivity.
Qed.

Lemma Q_contra : forall A (x : M A) s r s' e, Q x -> x s = (r, s', e) -> delivered e = true -> False.
Proof. intros A x s r s' e HQ E D. apply HQ in E. unfold quiet in E. congruence. Qed.

Lemma handle_application_delivered : forall q m s r s' e,
  handle_application sc now q m s = (r, s', e) -> delivered e = true ->
  exists s0 e0, enforce sc now q m s = (inl false, s0, e0).
Proof.
  intros q m s r s' e. unfold handle_application. unfold bind at 1.
  destruct (enforce sc now q m s) as [[r1 s1] e1] eqn:E.
  pose proof (Q_enforce q m s _ _ _ E) as Qe.
  destruct r1 as [b|x].
  - destruct b.
    + cbn. intro H. inversion H; subst. rewrite app_nil_r. intro D. unfold quiet in Qe. congruence.
    + intros _ _. eexists; eexists; reflexivity.
  - intro H. inversion H; subst. intro D. unfold quiet in Qe. congruence.
Qed.

Definition app_call (q : N) (m : msg) : M bool :=
  bind get (fun s => if s_active s then handle_application sc now q m else ret false).

Lemma app_call_delivered : forall q m s r s' e,
  app_call q m s = (r, s', e) -> delivered e = true ->
  exists s0 e0, enforce sc now q m s = (inl false, s0, e0).
Proof.
  intros q m s r s' e. unfold app_call, bind, get.
  destruct (s_active s).
  - destruct (handle_application sc now q m s) as [[r1 s1] e1] eqn:E.
    destruct r1; intro H; inversion H; subst; cbn [app]; intro D; eapply handle_application_delivered; eauto.
  - cbn. intro H. inversion H; subst. cbn. discriminate.
Qed.

Lemma dispatch_delivered : forall q m s r s' e,
  dispatch sc decode now q m s = (r, s', e) -> delivered e = true ->
  exists s0 e0, enforce sc now q m s = (inl false, s0, e0).
Proof.
  intros q m s r s' e. unfold dispatch. fold (app_call q m).
  assert (APP : forall r s' e, bind (app_call q m) (fun r0 => ret (r0, false)) s = (r, s', e) -> delivered e = true ->
                exists s0 e0, enforce sc now q m s = (inl false, s0, e0)).
  { intros r0 s0 e0 H D. apply bind_ret_inv in H. destruct H as [r1 H]. eapply app_call_delivered; eauto. }
  assert (ADM : forall (h : M bool) (b : bool) r s' e, Q h -> bind h (fun r0 => ret (r0, b)) s = (r, s', e) -> delivered e = true ->
                exists s0 e0, enforce sc now q m s = (inl false, s0, e0)).
  { intros h b r0 s0 e0 Qh H D. apply bind_ret_inv in H. destruct H as [r1 H]. exfalso. eapply Q_contra; eauto. }
  destruct (m_type m) as [|c [|c2 l]]; [apply APP| |apply APP].
  destruct (c =? 48); [apply ADM, Q_handle_heartbeat|].
  destruct (c =? 49); [apply ADM, Q_handle_test_request|].
  destruct (c =? 50); [apply ADM, Q_handle_resend_request|].
  destruct (c =? 51); [intro H; inversion H; subst; cbn; discriminate|].
  destruct (c =? 52); [apply ADM, Q_handle_sequence_reset|].
  destruct (c =? 53); [apply ADM, Q_handle_logout|].
  destruct (c =? 65); [apply ADM, Q_handle_logon|].
  apply APP.
Qed.

(* ---- Session::process -------------------------------------------------------------------------------------- *)
(* the catch (f8Exception&) block and the try block of process (Sess.Session.process_catch / process_body) *)
Definition catch19 (q : N) (mt : option bytes) (r : (bool + exc) * sess * list event) : bool * sess * list event :=
  process_catch sc now q mt r.
Definition body19 (q : N) (m : msg) : M bool := process_body sc decode now q m.

Lemma process_decoded : forall raw s q m,
  raw_seq raw = Some q -> decode raw = DecOk m ->
  process sc decode fl now raw s = catch19 q (Some (m_type m)) (body19 q m s).
Proof.
  intros raw s q m R D. unfold process, raw_seq in *.
  destruct (find_after pat_34 raw) as [rest|]; [|discriminate]. rewrite R, D. reflexivity.
Qed.

Lemma process_undecoded : forall raw s q text force,
  raw_seq raw = Some q -> decode raw = DecExc text force ->
  process sc decode fl now raw s = catch19 q None (inr (Exc text force), s, []).
Proof.
  intros raw s q text force R D. unfold process, raw_seq in *.
  destruct (find_after pat_34 raw) as [rest|]; [|discriminate]. rewrite R, D. reflexivity.
Qed.

Lemma process_no34 : forall raw s,
  find_after pat_34 raw = None ->
  process sc decode fl now raw s = catch19 0 None (inr (Exc (fmt2 txt_invmsg raw txt_at fl) false), s, []).
Proof. intros raw s R. unfold process. rewrite R. reflexivity. Qed.

Lemma catch19_events : forall q mt r s1 e1 b s' e,
  catch19 q mt (r, s1, e1) = (b, s', e) -> exists e2, e = (e1 ++ e2)%list /\ quiet e2.
Proof.
  intros q mt r s1 e1 b s' e. unfold catch19, process_catch. destruct r as [b0|[text force]].
  - intro H. inversion H; subst. exists []. rewrite app_nil_r. split; [reflexivity|apply quiet_nil].
  - destruct force.
    + destruct ((s_state s1 =? st_logon_received) && negb (pr_sd (s_par s1))).
      * destruct (send sc now (w_state st_session_terminated s1) (generate_logout sc (Some text)) 0 true) as [[ok sb] eb] eqn:E.
        intro H. inversion H; subst. exists eb. split; [reflexivity|eapply send_quiet; exact E].
      * intro H. inversion H; subst. exists []. split; [reflexivity|apply quiet_nil].
    + destruct (handle_outbound_reject sc now q mt text s1) as [[ok s2] e2] eqn:E.
      intro H. inversion H; subst. exists e2. split; [reflexivity|eapply Q_handle_outbound_reject; exact E].
Qed.

(* events of the try block = events of dispatch *)
Lemma body19_events : forall q m s r s' e,
  body19 q m s = (r, s', e) -> exists r0 s0, dispatch sc decode now q m s = (r0, s0, e).
Proof.
  intros q m s r s' e. unfold body19, process_body. unfold bind at 1.
  destruct (dispatch sc decode now q m s) as [[[rr|x] s1] e1] eqn:E.
  - unfold bind, modify, ret. destruct (snd rr); cbn; intro H; inversion H; subst; rewrite !app_nil_r; eauto.
  - intro H. inversion H; subst. eauto.
Qed.

Lemma body19_exc : forall q m s x s1 e1,
  dispatch sc decode now q m s = (inr x, s1, e1) -> body19 q m s = (inr x, s1, e1).
Proof. intros. unfold body19, process_body. unfold bind at 1. rewrite H. reflexivity. Qed.

(* THE DELIVERY THEOREM on the number process scans from the raw bytes *)
Theorem process_delivered : forall raw s q m r s' e,
  raw_seq raw = Some q -> decode raw = DecOk m ->
  process sc decode fl now raw s = (r, s', e) -> delivered e = true ->
  is_established (s_state s) = true /\
  (s_state s = st_logon_received \/ compid_pass s m = true) /\
  beq (m_type m) mt_sequence_reset = false /\ inseq s q m.
Proof.
  intros raw s q m r s' e R D P Dl. rewrite (process_decoded _ _ _ _ R D) in P.
  destruct (body19 q m s) as [[rb sb] eb] eqn:B.
  apply catch19_events in P. destruct P as [e2 [Ee Q2]]. subst e.
  rewrite delivered_app in Dl. unfold quiet in Q2. rewrite Q2, orb_false_r in Dl.
  apply body19_events in B. destruct B as [r0 [s0 B]].
  destruct (dispatch_delivered _ _ _ _ _ _ B Dl) as [s1 [e1 E]].
  apply enforce_pass in E. tauto.
Qed.

(* a message that is not decoded is never delivered *)
Theorem process_undecoded_quiet : forall raw s r s' e,
  (forall m, decode raw <> DecOk m) -> process sc decode fl now raw s = (r, s', e) -> quiet e.
Proof.
  intros raw s r s' e ND P.
  destruct (find_after pat_34 raw) as [rest|] eqn:FA.
  - destruct (fast_atoi_u rest SOH 0) as [q|] eqn:FQ.
    + assert (R : raw_seq raw = Some q) by (unfold raw_seq; rewrite FA; exact FQ).
      destruct (decode raw) as [m|text force] eqn:D; [exfalso; eapply ND; reflexivity|].
      rewrite (process_undecoded _ _ _ _ _ R D) in P. apply catch19_events in P.
      destruct P as [e2 [E Q2]]. subst. exact Q2.
    + unfold process in P. rewrite FA, FQ in P. inversion P. reflexivity.
  - rewrite (process_no34 _ _ FA) in P. apply catch19_events in P.
    destruct P as [e2 [E Q2]]. subst. exact Q2.
Qed.

(* ---- the message types whose handler starts with enforce -------------------------------------------------- *)
(* every type except Reject (handle_reject: no check at all), SequenceReset (exempt from the sequence check)
   and Logon (handle_logon has its own preamble) *)
Definition checked (m : msg) : bool :=
  negb (beq (m_type m) mt_reject) && negb (beq (m_type m) mt_sequence_reset) && negb (beq (m_type m) mt_logon).

Lemma bind_ret_inv2 : forall A B (x : M A) (g : A -> B) s r s' e,
  bind x (fun a => ret (g a)) s = (r, s', e) ->
  exists r0, x s = (r0, s', e) /\ r = match r0 with inl a => inl (g a) | inr ex => inr ex end.
Proof.
  intros A B x g s r s' e. unfold bind, ret. destruct (x s) as [[[a|ex] s1] e1]; intro H; inversion H; subst;
    rewrite ?app_nil_r; eexists; split; reflexivity.
Qed.

Lemma dispatch_shape : forall q m s r s' e,
  checked m = true -> s_active s = true ->
  dispatch sc decode now q m s = (r, s', e) ->
  exists (f : bool -> M bool) r0 b,
    bind (enforce sc now q m) f s = (r0, s', e) /\
    r = match r0 with inl a => inl (a, b) | inr ex => inr ex end.
Proof.
  intros q m s r s' e C A. unfold dispatch. fold (app_call q m).
  assert (APP : bind (app_call q m) (fun r0 => ret (r0, false)) s = (r, s', e) ->
                exists (f : bool -> M bool) r0 b, bind (enforce sc now q m) f s = (r0, s', e) /\
                  r = match r0 with inl a => inl (a, b) | inr ex => inr ex end).
  { intro H. apply bind_ret_inv2 in H. destruct H as [r0 [H R]].
    unfold app_call in H. unfold bind at 1 in H. unfold get in H. rewrite A in H.
    destruct (handle_application sc now q m s) as [[r1 s1] e1] eqn:E.
    assert (E' : handle_application sc now q m s = (r0, s', e)).
    { rewrite E. destruct r1; cbn [app] in H; inversion H; subst; reflexivity. }
    unfold handle_application in E'. eexists; exists r0; exists false. split; [exact E'|exact R]. }
  unfold checked in C. apply andb_true_iff in C. destruct C as [C C3]. apply andb_true_iff in C. destruct C as [C1 C2].
  destruct (m_type m) as [|c [|c2 l]]; [exact APP| |exact APP].
  destruct (c =? 48).
  { intro H. apply bind_ret_inv2 in H. destruct H as [r0 [H R]]. unfold handle_heartbeat in H. eauto. }
  destruct (c =? 49).
  { intro H. apply bind_ret_inv2 in H. destruct H as [r0 [H R]]. unfold handle_test_request in H. eauto. }
  destruct (c =? 50).
  { intro H. apply bind_ret_inv2 in H. destruct H as [r0 [H R]]. unfold handle_resend_request in H. eauto. }
  destruct (c =? 51) eqn:E51.
  { apply N.eqb_eq in E51. subst c. discriminate C1. }
  destruct (c =? 52) eqn:E52.
  { apply N.eqb_eq in E52. subst c. discriminate C2. }
  destruct (c =? 53).
  { intro H. apply bind_ret_inv2 in H. destruct H as [r0 [H R]]. unfold handle_logout in H. eauto. }
  destruct (c =? 65) eqn:E65.
  { apply N.eqb_eq in E65. subst c. discriminate C3. }
  exact APP.
Qed.

Lemma dispatch_total : forall q m s, exists r s' e, dispatch sc decode now q m s = (r, s', e).
Proof. intros. destruct (dispatch sc decode now q m s) as [[r s'] e]. eauto. Qed.

(* an exception of enforce leaves dispatch unchanged *)
Lemma dispatch_enforce_exc : forall q m s x s1 e1,
  checked m = true -> s_active s = true ->
  enforce sc now q m s = (inr x, s1, e1) ->
  dispatch sc decode now q m s = (inr x, s1, e1).
Proof.
  intros q m s x s1 e1 C A E.
  destruct (dispatch_total q m s) as [r [s' [e D]]].
  destruct (dispatch_shape _ _ _ _ _ _ C A D) as [f [r0 [b [B R]]]].
  unfold bind in B. rewrite E in B. inversion B; subst. exact D.
Qed.

(* whatever enforce put on the wire comes first *)
Lemma dispatch_enforce_prefix : forall q m s a s1 e1 r s' e,
  checked m = true -> s_active s = true ->
  enforce sc now q m s = (inl a, s1, e1) ->
  dispatch sc decode now q m s = (r, s', e) -> exists e2, e = (e1 ++ e2)%list.
Proof.
  intros q m s a s1 e1 r s' e C A E D.
  destruct (dispatch_shape _ _ _ _ _ _ C A D) as [f [r0 [b [B R]]]].
  unfold bind in B. rewrite E in B. destruct (f a s1) as [[r2 s2] e2]. inversion B; subst. eauto.
Qed.

(* a fatal verdict of enforce: process = the force_logoff branch on the untouched session *)
Theorem process_fatal : forall raw s q m,
  raw_seq raw = Some q -> decode raw = DecOk m -> checked m = true -> s_active s = true ->
  enforce_fatal q m s ->
  exists text, process sc decode fl now raw s = catch19 q (Some (m_type m)) (inr (Exc text true), s, []).
Proof.
  intros raw s q m R D C A [text E]. exists text.
  rewrite (process_decoded _ _ _ _ R D).
  rewrite (body19_exc _ _ _ _ _ _ (dispatch_enforce_exc _ _ _ _ _ _ C A E)). reflexivity.
Qed.

(* the force_logoff branch: the Logout is sent only in state logon_received *)
Lemma catch19_fatal_silent : forall q mt text s,
  s_state s <> st_logon_received ->
  catch19 q mt (inr (Exc text true), s, []) = (false, stop s, []).
Proof.
  intros q mt text s L. unfold catch19, process_catch. apply N.eqb_neq in L. rewrite L. reflexivity.
Qed.

Lemma catch19_fatal_logout : forall q mt text s,
  s_state s = st_logon_received -> pr_sd (s_par s) = false ->
  catch19 q mt (inr (Exc text true), s, []) =
  (let '(_, sb, eb) := send sc now (w_state st_session_terminated s) (generate_logout sc (Some text)) 0 true in
   (false, stop (w_state st_logoff_sent sb), eb)).
Proof.
  intros q mt text s L SD. unfold catch19, process_catch. rewrite L, SD. cbn [N.eqb st_logon_received Pos.eqb negb andb].
  destruct (send sc now (w_state st_session_terminated s) (generate_logout sc (Some text)) 0 true) as [[ok sb] eb].
  reflexivity.
Qed.

Lemma stop_shutdown : forall s, s_shutdown (stop s) = true.
Proof. intro s. unfold stop. destruct (s_shutdown s) eqn:E; [exact E|reflexivity]. Qed.

(* ---- an application message that is in sequence IS delivered -------------------------------------------------- *)
(* the types process sends to handle_application: everything but the seven one-character administrative types --
   in particular every type of two or more characters, whatever its first character *)
Definition app_type (t : bytes) : bool :=
  match t with
  | [c] => negb ((c =? 48) || (c =? 49) || (c =? 50) || (c =? 51) || (c =? 52) || (c =? 53) || (c =? 65))
  | _ => true
  end.

Lemma dispatch_app : forall q m s, app_type (m_type m) = true ->
  dispatch sc decode now q m s = bind (app_call q m) (fun r => ret (r, false)) s.
Proof.
  intros q m s A. unfold dispatch. fold (app_call q m).
  destruct (m_type m) as [|c [|c2 l]]; [reflexivity| |reflexivity].
  cbn [app_type] in A. apply negb_true_iff in A.
  repeat (apply orb_false_iff in A; destruct A as [A ?]).
  repeat match goal with H : (c =? _) = false |- _ => rewrite H; clear H end. reflexivity.
Qed.

Lemma app_type_not_reset : forall t, app_type t = true -> beq t mt_sequence_reset = false.
Proof.
  intros t A. destruct t as [|c [|c2 l]]; [reflexivity| |].
  - cbn [app_type] in A. apply negb_true_iff in A. repeat (apply orb_false_iff in A; destruct A as [A ?]).
    unfold mt_sequence_reset. cbn [beq]. match goal with H : (c =? 52) = false |- _ => rewrite H end. reflexivity.
  - unfold mt_sequence_reset. cbn [beq]. rewrite andb_false_r. reflexivity.
Qed.

Lemma sequence_check_inseq : forall q m s, inseq s q m -> sequence_check sc now q m s = (inl true, s, []).
Proof.
  intros q m s I. unfold sequence_check, bind, get. destruct I as [I|[I [P O]]].
  - subst q. rewrite N.ltb_irrefl. reflexivity.
  - assert (A : (s_next_recv s <? q) = false) by (apply N.ltb_ge; lia). rewrite A.
    apply N.ltb_lt in I. rewrite I. unfold possdup_of in P. rewrite P. cbn [negb].
    unfold orig_after in O.
    destruct (get_field T_OrigSendingTime (m_hdr m)); [|reflexivity].
    destruct (get_field T_SendingTime (m_hdr m)); [|reflexivity]. rewrite O. reflexivity.
Qed.

Lemma enforce_inseq : forall q m s,
  is_established (s_state s) = true -> (s_state s = st_logon_received \/ compid_pass s m = true) ->
  beq (m_type m) mt_sequence_reset = false -> inseq s q m ->
  enforce sc now q m s = (inl false, s, []).
Proof.
  intros q m s Est C T I. unfold enforce. unfold bind at 1. unfold get at 1. rewrite Est. unfold bind at 1.
  assert (P : (if negb (s_state s =? st_logon_received) then compid_check m else ret tt) s = (inl tt, s, [])).
  { destruct (s_state s =? st_logon_received) eqn:L; cbn [negb]; [reflexivity|].
    destruct C as [C|C]; [apply N.eqb_eq in C; congruence|]. apply compid_check_pass. exact C. }
  rewrite P. rewrite T. cbn [negb]. unfold bind. rewrite (sequence_check_inseq q m s I). reflexivity.
Qed.

Theorem process_in_sequence : forall raw s q m,
  raw_seq raw = Some q -> decode raw = DecOk m -> app_type (m_type m) = true -> s_active s = true ->
  is_established (s_state s) = true -> (s_state s = st_logon_received \/ compid_pass s m = true) ->
  inseq s q m ->
  exists s', process sc decode fl now raw s =
             (mem_bytes (m_type m) (sc_routed sc), s', [EDeliver (m_type m) q (possdup_of m)]).
Proof.
  intros raw s q m R D A Act Est C I.
  rewrite (process_decoded _ _ _ _ R D). unfold catch19, body19, process_body.
  unfold bind at 1. rewrite (dispatch_app q m s A).
  unfold app_call. unfold bind at 1. unfold bind at 1. unfold get at 1. rewrite Act.
  unfold handle_application. unfold bind at 1.
  rewrite (enforce_inseq q m s Est C (app_type_not_reset _ A) I).
  unfold bind, emit, ret, modify. cbn. eexists. reflexivity.
Qed.

End Now.

(* sending does not touch the expected number nor the state *)
Lemma send_process_keeps : forall now s m ok s' e,
  send_process sc now s m = (ok, s', e) -> s_next_recv s' = s_next_recv s /\ s_state s' = s_state s.
Proof.
  intros now s m ok s' e. cbv beta delta [send_process]. cbv zeta.
  match goal with |- (match ?X with pair _ _ => _ end) = _ -> _ => destruct X as [m3 is_dup] end.
  match goal with |- (match ?X with pair _ _ => _ end) = _ -> _ => destruct X as [[[ok1 s1] evs] ptr] eqn:ES end.
  assert (K : s_next_recv s1 = s_next_recv s /\ s_state s1 = s_state s).
  { destruct (m_eob m).
    - match type of ES with (match ?X with pair _ _ => _ end) = _ => destruct X as [tosend appended] end.
      destruct (s_closed s); [destruct appended|]; inversion ES; subst; split; reflexivity.
    - inversion ES; subst. split; reflexivity. }
  destruct K as [K1 K2].
  destruct (negb ok1); [intro H; inversion H; subst; split; assumption|].
  destruct is_dup; [intro H; inversion H; subst; split; assumption|].
  match goal with |- context [if ?c then w_next_send _ _ else _] => destruct c end;
    intro H; inversion H; subst; cbn; split; assumption.
Qed.

Lemma send_keeps : forall now s m c n ok s' e,
  send sc now s m c n = (ok, s', e) -> s_next_recv s' = s_next_recv s /\ s_state s' = s_state s.
Proof. intros until e. unfold send. apply send_process_keeps. Qed.

(* ================================================================================================== *)
(* the statements of the property, one by one                                                          *)
(* ================================================================================================== *)

(* (1) delivery only in sequence -- under the hypothesis that the number scanned from the raw bytes is the
       MsgSeqNum field of the decoded message *)
Theorem delivery_partial : forall now raw s m r s' e,
  decode raw = DecOk m -> raw_seq raw = Some (field_seq m) ->
  process sc decode fl now raw s = (r, s', e) -> delivered e = true ->
  is_established (s_state s) = true /\
  (s_state s = st_logon_received \/ compid_pass s m = true) /\
  (field_seq m = s_next_recv s \/
   (field_seq m < s_next_recv s /\ possdup_of m = true /\ orig_after m = false)).
Proof.
  intros now raw s m r s' e D R P Dl.
  destruct (process_delivered now _ _ _ _ _ _ _ R D P Dl) as [A [B [_ C]]]. repeat split; assumption.
Qed.

(* (2) a higher number is never delivered; in state continuous the first thing put on the wire is
       send(generate_resend_request(expected, 0)); in any other state the session takes the force_logoff
       branch instead (no ResendRequest) *)
Theorem high_partial : forall now raw s m q,
  decode raw = DecOk m -> raw_seq raw = Some q -> checked m = true -> s_active s = true ->
  is_established (s_state s) = true -> compid_pass s m = true -> s_next_recv s < q ->
  (forall r s' e, process sc decode fl now raw s = (r, s', e) -> quiet e) /\
  (s_state s = st_continuous ->
   forall ok s1 e1, send sc now s (generate_resend_request sc (s_next_recv s) 0) 0 false = (ok, s1, e1) ->
   forall r s' e, process sc decode fl now raw s = (r, s', e) -> exists e2, e = (e1 ++ e2)%list) /\
  (s_state s <> st_continuous ->
   exists text, process sc decode fl now raw s = catch19 now q (Some (m_type m)) (inr (Exc text true), s, [])).
Proof.
  intros now raw s m q D R C A Est Cp H.
  assert (T : beq (m_type m) mt_sequence_reset = false).
  { unfold checked in C. apply andb_true_iff in C. destruct C as [C _]. apply andb_true_iff in C. destruct C as [_ C].
    apply negb_true_iff in C. exact C. }
  split; [|split].
  - intros r s' e P. unfold quiet. destruct (delivered e) eqn:Dl; [|reflexivity]. exfalso.
    destruct (process_delivered now _ _ _ _ _ _ _ R D P Dl) as [_ [_ [_ I]]].
    unfold inseq in I. destruct I as [I|[I _]]; lia.
  - intros St ok s1 e1 Sd r s' e P.
    pose proof (enforce_high_cont now q m s ok s1 e1 Est Cp T H St Sd) as E.
    rewrite (process_decoded now _ _ _ _ R D) in P.
    destruct (body19 now q m s) as [[rb sb] eb] eqn:B.
    apply catch19_events in P. destruct P as [e3 [Ee _]]. subst e.
    apply body19_events in B. destruct B as [r0 [s0 B]].
    destruct (dispatch_enforce_prefix now _ _ _ _ _ _ _ _ _ C A E B) as [e2 Ee]. subst eb.
    exists (e2 ++ e3)%list. rewrite app_assoc. reflexivity.
  - intro St. apply process_fatal; try assumption.
    eapply enforce_seq_fatal; try assumption; [right; exact Cp|].
    apply sequence_check_high_other; assumption.
Qed.

(* (3) a lower number without PossDup, a duplicate whose OrigSendingTime is after its SendingTime, or
       wrong CompIDs under enforcement: the force_logoff branch on the untouched session *)
Definition violation (s : sess) (q : N) (m : msg) : Prop :=
  (s_state s <> st_logon_received /\ compid_pass s m = false) \/
  ((s_state s = st_logon_received \/ compid_pass s m = true) /\ q < s_next_recv s /\
   (possdup_of m = false \/ orig_after m = true)).

Theorem stop_partial : forall now raw s m q,
  decode raw = DecOk m -> raw_seq raw = Some q -> checked m = true -> s_active s = true ->
  is_established (s_state s) = true -> violation s q m ->
  exists text, process sc decode fl now raw s = catch19 now q (Some (m_type m)) (inr (Exc text true), s, []).
Proof.
  intros now raw s m q D R C A Est V.
  assert (T : beq (m_type m) mt_sequence_reset = false).
  { unfold checked in C. apply andb_true_iff in C. destruct C as [C _]. apply andb_true_iff in C. destruct C as [_ C].
    apply negb_true_iff in C. exact C. }
  apply process_fatal; try assumption.
  destruct V as [[L Cf]|[Cp [H P]]].
  - apply enforce_compid_fatal; assumption.
  - destruct (possdup_of m) eqn:PD.
    + destruct P as [P|P]; [discriminate|].
      destruct (sequence_check_low_late now q m s H PD P) as [text SC].
      eapply enforce_seq_fatal; eassumption.
    + eapply enforce_seq_fatal; try eassumption. apply sequence_check_low_nodup; assumption.
Qed.

(* what the force_logoff branch does: process returns false, the session is shut down, and the ONLY thing
   that can go on the wire is the Logout of state logon_received *)
Theorem fatal_branch : forall now q mt text s,
  (s_state s <> st_logon_received ->
   catch19 now q mt (inr (Exc text true), s, []) = (false, stop s, [])) /\
  (s_state s = st_logon_received -> pr_sd (s_par s) = false ->
   catch19 now q mt (inr (Exc text true), s, []) =
   (let '(_, sb, eb) := send sc now (w_state st_session_terminated s) (generate_logout sc (Some text)) 0 true in
    (false, stop (w_state st_logoff_sent sb), eb))) /\
  (forall r s' e, catch19 now q mt (inr (Exc text true), s, []) = (r, s', e) -> r = false /\ s_shutdown s' = true).
Proof.
  intros now q mt text s. split; [apply catch19_fatal_silent|split; [apply catch19_fatal_logout|]].
  intros r s' e. unfold catch19, process_catch.
  destruct ((s_state s =? st_logon_received) && negb (pr_sd (s_par s))).
  - destruct (send sc now (w_state st_session_terminated s) (generate_logout sc (Some text)) 0 true) as [[ok sb] eb].
    intro H. inversion H; subst. split; [reflexivity|apply stop_shutdown].
  - intro H. inversion H; subst. split; [reflexivity|apply stop_shutdown].
Qed.

(* (4) a message that fails decoding is never delivered; unless the exception forces logoff it is answered
       with send(generate_reject(raw number, text)), process returns true and the expected number is
       incremented *)
Theorem decode_failure : forall now raw s q text force,
  decode raw = DecExc text force -> raw_seq raw = Some q ->
  (forall r s' e, process sc decode fl now raw s = (r, s', e) -> quiet e) /\
  (force = false ->
   process sc decode fl now raw s =
   (let '(_, s2, e2) := send sc now s (generate_reject sc q (Some text) None) 0 false in
    (true, update_persist_seqnums (w_next_recv (s_next_recv s + 1) s2), e2))) /\
  (force = true -> process sc decode fl now raw s = catch19 now q None (inr (Exc text true), s, [])).
Proof.
  intros now raw s q text force D R. split; [|split].
  - intros r s' e P. eapply process_undecoded_quiet; [|exact P]. intros m E. congruence.
  - intro F. subst force. rewrite (process_undecoded now _ _ _ _ _ R D). unfold catch19, process_catch, handle_outbound_reject, do_send.
    destruct (send sc now s (generate_reject sc q (Some text) None) 0 false) as [[ok s2] e2] eqn:E.
    destruct (send_keeps _ _ _ _ _ _ _ _ E) as [K _]. rewrite K. reflexivity.
  - intro F. subst force. apply process_undecoded; assumption.
Qed.

(* (5) note: a message without any "34=" is answered with Reject(RefSeqNum = 0, "Invalid FIX Message: ...") and
       the expected number is still incremented *)
Theorem no34_note : forall now raw s,
  find_after pat_34 raw = None ->
  process sc decode fl now raw s =
  (let '(_, s2, e2) := send sc now s (generate_reject sc 0 (Some (fmt2 txt_invmsg raw txt_at fl)) None) 0 false in
   (true, update_persist_seqnums (w_next_recv (s_next_recv s + 1) s2), e2)).
Proof.
  intros now raw s F. rewrite (process_no34 now _ _ F). unfold catch19, process_catch, handle_outbound_reject, do_send.
  destruct (send sc now s (generate_reject sc 0 (Some (fmt2 txt_invmsg raw txt_at fl)) None) 0 false) as [[ok s2] e2] eqn:E.
  destruct (send_keeps _ _ _ _ _ _ _ _ E) as [K _]. rewrite K. reflexivity.
Qed.

(* (7) an application message (any type process sends to handle_application, in particular every type of two or
       more characters) that is in sequence IS delivered, exactly once and as the only event *)
Theorem in_sequence_delivered : forall now raw s m,
  decode raw = DecOk m -> raw_seq raw = Some (field_seq m) -> app_type (m_type m) = true -> s_active s = true ->
  is_established (s_state s) = true -> (s_state s = st_logon_received \/ compid_pass s m = true) ->
  (field_seq m = s_next_recv s \/
   (field_seq m < s_next_recv s /\ possdup_of m = true /\ orig_after m = false)) ->
  exists s', process sc decode fl now raw s =
             (mem_bytes (m_type m) (sc_routed sc), s', [EDeliver (m_type m) (field_seq m) (possdup_of m)]).
Proof. intros now raw s m D R. apply process_in_sequence; assumption. Qed.

(* (6) once the session is shut down the reader loop hands nothing more to process *)
Theorem after_stop_nothing : forall now l s evs,
  is_shutdown s = true -> snd (reader_loop sc decode fl now l s evs) = evs.
Proof.
  intros now l s evs H. destruct l; [reflexivity|]. cbn [reader_loop]. rewrite H, orb_true_r. reflexivity.
Qed.

End Proofs.
