(* Auxiliary facts for the C02 assembly: values of well-formed trees, byte ranges, the checksum
   text, list helpers, render_default satisfies render_ok. *)
From Coq Require Import NArith ZArith List Bool Lia Arith.
From F8 Require Import Codec.Bytes Codec.Meta Codec.Extract Codec.Decode Codec.Encode Codec.Render
                       C07.Chksum C07.Spec_C07
                       C02.Spec_C02 C02.WfC02 C02.DigitsProofs C02.TokenProofs C02.TreeProofs C02.StructProofs.
Import ListNotations.
Local Open Scope N_scope.

(* what the theorems need to know about the per-type rendering *)
Definition render_ok (c : ctx) : Prop :=
  (forall ty n, is_int_type ty = true -> n < 2147483648 -> c_render c ty (itoa_N n) = itoa_N n) /\
  (forall v, c_render c ft_string v = v).

Lemma list_eqb_eq a b : list_eqb a b = true -> a = b.
Proof.
  revert b. induction a as [|x a IH]; intros [|y b] H; cbn [list_eqb] in H; try discriminate; [reflexivity|].
  apply andb_prop in H. destruct H as [E H]. apply N.eqb_eq in E. subst. f_equal. apply IH. assumption.
Qed.
Lemma list_eqb_refl a : list_eqb a a = true.
Proof. induction a as [|x a IH]; cbn [list_eqb]; [reflexivity|]. rewrite N.eqb_refl, IH. reflexivity. Qed.

Lemma firstN_app_exact {A} (a b : list A) : firstN (lenN a) (a ++ b) = a.
Proof.
  induction a as [|x a IH]; cbn [lenN app firstN].
  - destruct b; reflexivity.
  - replace (N.succ (lenN a) =? 0) with false by (symmetry; apply N.eqb_neq; lia).
    replace (N.succ (lenN a) - 1) with (lenN a) by lia. rewrite IH. reflexivity.
Qed.

(* ---------------------------------------------------------------- values of a wf tree *)
Definition pv (p : N * list N) : Prop := val_ok (snd p) = true.

Lemma wf_pairs : forall n g last ns, (length (P ns) <= n)%nat -> wf_nodes g last ns = true -> Forall pv (P ns).
Proof.
  induction n as [n IHn] using (well_founded_induction lt_wf).
  intros g last ns. revert last. induction ns as [|x ns IH]; intros last Hsz H; [constructor|].
  cbn [wf_nodes] in H. apply andb_prop in H. destruct H as [H Hns]. apply andb_prop in H. destruct H as [_ Hx].
  destruct x as [k f rv els]. rewrite wf_node_unfold in Hx.
  destruct (find_trait (g_traits g) f) as [tr|]; [|discriminate].
  apply andb_prop in Hx. destruct Hx as [Hx Hg]. apply andb_prop in Hx. destruct Hx as [_ Hv].
  rewrite P_cons in *. cbn [npairs] in *. cbn [app length] in Hsz. rewrite app_length in Hsz.
  cbn [app]. constructor; [exact Hv|]. apply Forall_app. split.
  - destruct (t_group tr).
    + destruct (decimal rv); [|discriminate]. destruct (find_sub (g_subs g) f) as [sg|]; [|discriminate].
      apply andb_prop in Hg. destruct Hg as [_ Hels].
      change (flat_map (fun e => flat_map npairs e) els) with (PE els) in *.
      clear -Hels IHn Hsz. induction els as [|e es IHe]; [constructor|].
      rewrite PE_cons in *. rewrite app_length in Hsz.
      cbn [wf_elems] in Hels. apply andb_prop in Hels. destruct Hels as [He Hes]. apply andb_prop in He. destruct He as [_ He].
      apply Forall_app. split; [apply (IHn (length (P e)) ltac:(lia) sg 0 e (le_n _) He)|apply IHe; [lia|assumption]].
    + destruct els; [constructor|discriminate].
  - apply (IH k); [lia|assumption].
Qed.

Lemma val_ok_no_soh v : val_ok v = true -> no_soh v.
Proof.
  unfold val_ok, no_soh. rewrite forallb_forall, Forall_forall. intros H x Hx. specialize (H x Hx).
  apply andb_prop in H. destruct H as [H _]. destruct (x =? SOH); [discriminate|reflexivity].
Qed.
Definition small_bytes (l : list N) : Prop := Forall (fun b => b < 256) l.
Lemma val_ok_small v : val_ok v = true -> small_bytes v.
Proof.
  unfold val_ok, small_bytes. rewrite forallb_forall, Forall_forall. intros H x Hx. specialize (H x Hx).
  apply andb_prop in H. destruct H as [_ H]. apply N.ltb_lt in H. assumption.
Qed.
Lemma digits_small l : all_digits l -> small_bytes l.
Proof.
  unfold all_digits, small_bytes. intros H. eapply Forall_impl; [|exact H]. cbn. intros a Ha.
  unfold is_digit in Ha. apply andb_prop in Ha. destruct Ha as [_ Ha]. apply N.leb_le in Ha. lia.
Qed.
Lemma digits_val_ok l : all_digits l -> val_ok l = true.
Proof.
  unfold all_digits, val_ok. rewrite forallb_forall, Forall_forall. intros H x Hx. specialize (H x Hx).
  unfold is_digit in H. apply andb_prop in H. destruct H as [H1 H2]. apply N.leb_le in H1, H2.
  apply andb_true_intro. split; [|apply N.ltb_lt; lia].
  unfold SOH. destruct (x =? 1) eqn:E; [apply N.eqb_eq in E; lia|reflexivity].
Qed.
Lemma pbytes_small p : pv p -> small_bytes (pbytes p).
Proof.
  intros H. unfold pbytes. apply Forall_app. split; [apply digits_small, itoa_digits|].
  constructor; [unfold EQC; lia|]. apply Forall_app. split; [apply val_ok_small; exact H|].
  constructor; [unfold SOH; lia|constructor].
Qed.
Lemma pairs_small ps : Forall pv ps -> small_bytes (flat_map pbytes ps).
Proof.
  induction ps as [|p ps IH]; intros H; cbn [flat_map]; [constructor|].
  inversion H; subst. apply Forall_app. split; [apply pbytes_small; assumption|apply IH; assumption].
Qed.
Lemma small_bytes_ok l : small_bytes l -> bytes_ok (map Z.of_N l) = true.
Proof.
  unfold small_bytes, bytes_ok. intros H. rewrite forallb_forall. intros z Hz.
  apply in_map_iff in Hz. destruct Hz as (x & <- & Hx). rewrite Forall_forall in H. specialize (H x Hx).
  apply andb_true_intro. split; [apply Z.leb_le|apply Z.ltb_lt]; lia.
Qed.

(* ---------------------------------------------------------------- fmt_chksum *)
Lemma fmt_chksum_spec v : v < 256 ->
  all_digits (fmt_chksum v) /\ lenN (fmt_chksum v) = 3 /\ dec_val (fmt_chksum v) 0 = Some v.
Proof.
  intros H. unfold fmt_chksum.
  assert (D0 : is_digit 48 = true) by reflexivity.
  destruct (99 <? v) eqn:E1.
  - apply N.ltb_lt in E1. split; [apply itoa_digits|]. split; [|apply dec_val_itoa].
    rewrite len_digits_itoa by lia. unfold len_digits.
    replace (v <? 10) with false by (symmetry; apply N.ltb_ge; lia).
    replace (v <? 100) with false by (symmetry; apply N.ltb_ge; lia).
    replace (v <? 1000) with true by (symmetry; apply N.ltb_lt; lia). reflexivity.
  - apply N.ltb_ge in E1. destruct (9 <? v) eqn:E2.
    + apply N.ltb_lt in E2. split; [constructor; [exact D0|apply itoa_digits]|]. split.
      * cbn [lenN]. rewrite len_digits_itoa by lia. unfold len_digits.
        replace (v <? 10) with false by (symmetry; apply N.ltb_ge; lia).
        replace (v <? 100) with true by (symmetry; apply N.ltb_lt; lia). reflexivity.
      * cbn [dec_val]. rewrite D0. apply dec_val_itoa.
    + apply N.ltb_ge in E2. split; [constructor; [exact D0|constructor; [exact D0|apply itoa_digits]]|]. split.
      * cbn [app lenN]. rewrite itoa_small by lia. reflexivity.
      * cbn [app dec_val]. rewrite D0. apply dec_val_itoa.
Qed.

(* ---------------------------------------------------------------- tokens *)
Lemma last_tok_offs : forall a p off,
  last_tok (offs off (a ++ [p])) =
  Some (mkTok (fst p) (snd p) (off + lenN (flat_map pbytes a)) (off + lenN (flat_map pbytes a) + lenN (pbytes p))).
Proof.
  induction a as [|q a IH]; intros p off.
  - cbn [app offs last_tok flat_map lenN]. rewrite N.add_0_r. reflexivity.
  - cbn [app]. rewrite offs_cons. cbn [flat_map]. rewrite lenN_app.
    specialize (IH p (off + lenN (pbytes q))). rewrite <- !N.add_assoc in *. 
    destruct (offs (off + lenN (pbytes q)) (a ++ [p])) eqn:E.
    + destruct a; discriminate.
    + cbn [last_tok]. exact IH.
Qed.
