(* Decidable hypotheses of the C02 / C01 theorems, evaluated on the dumped metadata and on every
   generated message at each run (extracted).  No proofs here.

   tree_of c m   = the content of an object as the encoder will see it: for every _pos entry
                   whose trait is not suppressed, the node (key, fnum, rendered value, elements)
                   where the elements of a group field with count > 0 are those of _groups[fnum]
                   (None if a trait or group is missing or an element carries _unknown bytes).
   wf_meta       = per trait table: unique tags, unique positions, every group trait has its
                   nested class, and no tag of a group occurs at an enclosing level or in the
                   other parts of the message ("unambiguous").
   wf_nodes      = per part / element: every node's tag is in the table, its key is the schema
                   position, keys strictly increase, the rendered value contains neither SOH nor
                   a byte >= 256; a group field's rendered value is the decimal count of its
                   elements, every element is non-empty and starts with the position-1 field. *)
From Coq Require Import NArith ZArith List Bool.
From F8 Require Import Codec.Bytes Codec.Meta Codec.Extract Codec.Decode Codec.Encode C02.Spec_C02.
Import ListNotations.
Local Open Scope N_scope.

Inductive tnode := TN (k f : N) (rv : list N) (els : list (list tnode)).
Definition n_key (n : tnode) := match n with TN k _ _ _ => k end.
Definition n_tag (n : tnode) := match n with TN _ f _ _ => f end.
Definition n_val (n : tnode) := match n with TN _ _ v _ => v end.
Definition n_els (n : tnode) := match n with TN _ _ _ e => e end.

Fixpoint nodes_of (c : ctx) (fp : list trait) (gts : list (N * option (list (list tnode))))
                  (pos : list (N * (N * list N))) : option (list tnode) :=
  match pos with
  | [] => Some []
  | (k, (f, v)) :: rest =>
    match find_trait fp f with
    | None => None
    | Some tr =>
      if t_suppress tr then nodes_of c fp gts rest
      else
        let rv := c_render c (ftype_of c f (t_ftype tr)) v in
        if t_group tr && has_group_count_c c f v then
          match map_find f gts, nodes_of c fp gts rest with
          | Some (Some els), Some ns => Some (TN k f rv els :: ns)
          | _, _ => None
          end
        else match nodes_of c fp gts rest with
             | Some ns => Some (TN k f rv [] :: ns)
             | None => None
             end
    end
  end.

Fixpoint tree_of (c : ctx) (m : mbase) : option (list tnode) :=
  match m with
  | MB fp _ _ pos groups _ =>
    let gts :=
      (fix gl (gs : list (N * list mbase)) : list (N * option (list (list tnode))) :=
         match gs with
         | [] => []
         | (f, els) :: r =>
           (f, (fix el (es : list mbase) : option (list (list tnode)) :=
                  match es with
                  | [] => Some []
                  | e :: r' => match mb_unknown e, tree_of c e, el r' with
                               | [], Some a, Some b => Some (a :: b)
                               | _, _, _ => None
                               end
                  end) els) :: gl r
         end) groups in
    nodes_of c fp gts pos
  end.

(* the bytes of a node list: each field followed by its elements *)
Fixpoint nbytes (n : tnode) : list N :=
  match n with
  | TN _ f rv els => itoa_N f ++ EQC :: rv ++ SOH :: flat_map (fun e => flat_map nbytes e) els
  end.
Fixpoint ncount (n : tnode) : nat :=
  match n with
  | TN _ _ _ els => S (fold_right (fun e a => (fold_right (fun x b => ncount x + b) 0 e + a)%nat) 0%nat els)
  end.

(* ------------------------------------------------------------------ metadata *)
Definition tags (g : gmeta) : list N := map t_fnum (g_traits g).
Definition memN (x : N) (l : list N) : bool := existsb (N.eqb x) l.
Fixpoint nodupN (l : list N) : bool :=
  match l with [] => true | x :: r => negb (memN x r) && nodupN r end.
Definition disjN (a b : list N) : bool := forallb (fun x => negb (memN x b)) a.

Fixpoint wf_meta (outer : list N) (g : gmeta) : bool :=
  match g with
  | GM ts subs _ =>
    let tg := map t_fnum ts in
    nodupN tg && nodupN (map t_pos ts) && forallb (fun t => 1 <=? t_pos t) ts &&
    forallb (fun t => negb (t_group t) ||
                      match find_sub subs (t_fnum t) with Some _ => true | None => false end) ts &&
    (fix sl (ss : list (N * gmeta)) : bool :=
       match ss with
       | [] => true
       | (_, sg) :: r => disjN (map t_fnum (g_traits sg)) (tg ++ outer) && wf_meta (tg ++ outer) sg && sl r
       end) subs
  end.

Definition plain_at (g : gmeta) (f p : N) : bool :=
  match find_trait (g_traits g) f with
  | Some t => (t_pos t =? p) && negb (t_group t)
  | None => false
  end.
Definition is_ty (c : ctx) (f ty : N) : bool :=
  match find_be (c_fields c) f with Some t => t =? ty | None => false end.
Definition is_int_field (c : ctx) (f : N) : bool :=
  match find_be (c_fields c) f with Some t => is_int_type t | None => false end.

(* per message type *)
Definition wf_ctx (c : ctx) (md : msgdef) : bool :=
  let H := tags (c_header c) in let B := tags (md_meta md) in let T := tags (c_trailer c) in
  wf_meta (B ++ T) (c_header c) && wf_meta (H ++ T) (md_meta md) && wf_meta (H ++ B) (c_trailer c) &&
  disjN H B && disjN H T && disjN B T &&
  plain_at (c_header c) 8 1 && plain_at (c_header c) 9 2 && plain_at (c_header c) 35 3 &&
  match find_trait (g_traits (c_trailer c)) 10 with
  | Some t => negb (t_group t) && forallb (fun u => t_pos u <=? t_pos t) (g_traits (c_trailer c))
  | None => false
  end &&
  is_ty c 8 ft_string && is_int_field c 9 && is_ty c 10 ft_string && is_ty c 35 ft_string &&
  forallb (fun b => b <? 256) (c_begin c) && forallb (fun b => negb (b =? SOH)) (c_begin c) &&
  (lenN (c_begin c) <? 1000).

(* ------------------------------------------------------------------ content *)
Definition val_ok (rv : list N) : bool := forallb (fun b => negb (b =? SOH) && (b <? 256)) rv.

Fixpoint wf_node (g : gmeta) (n : tnode) {struct n} : bool :=
  match n with
  | TN k f rv els =>
    match find_trait (g_traits g) f with
    | None => false
    | Some tr =>
      (t_pos tr =? k) && val_ok rv &&
      (if t_group tr then
         match decimal rv, find_sub (g_subs g) f with
         | Some cnt, Some sg =>
           (cnt =? lenN els) &&
           (fix el (es : list (list tnode)) : bool :=
              match es with
              | [] => true
              | e :: r =>
                match e with x :: _ => n_key x =? 1 | [] => false end &&
                (fix nl (last : N) (l : list tnode) : bool :=
                   match l with
                   | [] => true
                   | x :: r' => (last <? n_key x) && wf_node sg x && nl (n_key x) r'
                   end) 0 e &&
                el r
              end) els
         | _, _ => false
         end
       else match els with [] => true | _ => false end)
    end
  end.
Fixpoint wf_nodes (g : gmeta) (last : N) (ns : list tnode) : bool :=
  match ns with
  | [] => true
  | x :: r => (last <? n_key x) && wf_node g x && wf_nodes g (n_key x) r
  end.

Definition is_suppressed (m : mbase) (f : N) : bool :=
  match find_trait (mb_fp m) f with Some t => t_suppress t | None => false end.
Definition has_field (m : mbase) (f : N) : bool :=
  match map_find f (mb_fields m) with Some _ => true | None => false end.
Fixpoint last_key (last : N) (ns : list tnode) : N :=
  match ns with [] => last | n :: r => last_key (n_key n) r end.

(* the object has never been encoded: the suppress bits of 8, 9 and 10 are still set *)
Definition fresh (m : message) : bool :=
  is_suppressed (m_hdr m) 8 && is_suppressed (m_hdr m) 9 && is_suppressed (m_trl m) 10.

Definition encoded_len (c : ctx) (h b t : list tnode) : N :=
  lenN (flat_map nbytes h) + lenN (flat_map nbytes b) + lenN (flat_map nbytes t).

(* the message definition named by the object's MsgType as the encoder will print it *)
Definition msg_def (c : ctx) (hn : list tnode) : option msgdef :=
  match hn with
  | TN k f rv35 els :: _ =>
    if (k =? 3) && (f =? 35) && match els with [] => true | _ => false end
    then find_msg (c_msgs c) rv35 else None
  | [] => None
  end.

Definition wf_msg (c : ctx) (m : message) : bool :=
  let h0 := set_value (m_hdr m) Common_MsgType (m_type m) in
  match tree_of c h0, tree_of c (m_body m), tree_of c (m_trl m), find_trait (g_traits (c_trailer c)) 10 with
  | Some hn, Some bn, Some tn, Some t10 =>
    match msg_def c hn with
    | None => false
    | Some md =>
      wf_ctx c md &&
      wf_nodes (c_header c) 2 hn && wf_nodes (md_meta md) 0 bn && wf_nodes (c_trailer c) 0 tn &&
      (last_key 0 tn <? t_pos t10) &&
      has_field (m_trl m) 10 &&
      match map_find 8 (mb_fields h0), map_find 9 (mb_fields h0) with
      | Some bsv, Some _ => list_eqb (c_render c ft_string bsv) (c_begin c)
      | _, _ => false
      end &&
      match mb_unknown h0, mb_unknown (m_body m), mb_unknown (m_trl m) with
      | [], [], [] => true
      | _, _, _ => false
      end &&
      (encoded_len c hn bn tn <? 10000000)
    end
  | _, _, _, _ => false
  end.
