(* part_ok / elems_ok of Spec_C02 accept the token sequence of a well-formed content tree. *)
From Coq Require Import NArith ZArith List Bool Lia Arith.
From F8 Require Import Codec.Bytes Codec.Meta Codec.Extract Codec.Decode Codec.Encode
                       C02.Spec_C02 C02.WfC02 C02.DigitsProofs C02.TokenProofs C02.TreeProofs.
Import ListNotations.
Local Open Scope N_scope.

Notation P := (flat_map npairs).
Definition PE (els : list (list tnode)) : list (N * list N) := flat_map (fun e => flat_map npairs e) els.

(* ---------------------------------------------------------------- boolean list facts *)
Lemma memN_In x l : memN x l = true <-> In x l.
Proof.
  unfold memN. rewrite existsb_exists. split.
  - intros (y & Hy & He). apply N.eqb_eq in He. subst. assumption.
  - intros H. exists x. split; [assumption|apply N.eqb_refl].
Qed.
Lemma disjN_spec a b : disjN a b = true -> forall x, In x a -> ~ In x b.
Proof.
  unfold disjN. rewrite forallb_forall. intros H x Hx Hb. specialize (H x Hx).
  apply memN_In in Hb. rewrite Hb in H. discriminate.
Qed.
Lemma find_trait_In ts f tr : find_trait ts f = Some tr -> In f (map t_fnum ts) /\ t_fnum tr = f /\ In tr ts.
Proof.
  induction ts as [|x r IH]; cbn [find_trait map]; [discriminate|].
  destruct (t_fnum x =? f) eqn:E.
  - intros H. injection H as <-. apply N.eqb_eq in E. split; [left; assumption|split; [assumption|left; reflexivity]].
  - intros H. destruct (IH H) as (A & B & C). split; [right; assumption|split; [assumption|right; assumption]].
Qed.
Lemma find_trait_notin ts f : ~ In f (map t_fnum ts) -> find_trait ts f = None.
Proof.
  induction ts as [|x r IH]; cbn [find_trait map]; [reflexivity|]. intros H.
  destruct (t_fnum x =? f) eqn:E; [apply N.eqb_eq in E; exfalso; apply H; left; assumption|].
  apply IH. intros Hc. apply H. right. assumption.
Qed.

(* positions are unique: the trait at position 1 is the first_tag *)
Lemma nodupN_notin x l : nodupN (x :: l) = true -> ~ In x l /\ nodupN l = true.
Proof.
  cbn [nodupN]. intros H. apply andb_prop in H. destruct H as [A B]. split; [|assumption].
  intros Hc. apply memN_In in Hc. rewrite Hc in A. discriminate.
Qed.
Lemma first_tag_unique g f tr :
  nodupN (map t_pos (g_traits g)) = true -> find_trait (g_traits g) f = Some tr -> t_pos tr = 1 ->
  first_tag g = Some f.
Proof.
  unfold first_tag. generalize (g_traits g). intros ts. induction ts as [|x r IH]; intros Hnd Hf Hp.
  - discriminate.
  - cbn [find_trait] in Hf. cbn [filter]. cbn [map] in Hnd. apply nodupN_notin in Hnd. destruct Hnd as [Hni Hnd].
    destruct (t_fnum x =? f) eqn:E.
    + injection Hf as <-. rewrite Hp. cbn [N.eqb Pos.eqb]. apply N.eqb_eq in E. rewrite E. reflexivity.
    + destruct (t_pos x =? 1) eqn:Ex.
      * exfalso. apply N.eqb_eq in Ex. apply Hni. rewrite Ex, <- Hp.
        apply in_map. apply (find_trait_In _ _ _ Hf).
      * apply IH; assumption.
Qed.

(* ---------------------------------------------------------------- wf_meta projections *)
Lemma wf_meta_parts outer g : wf_meta outer g = true ->
  nodupN (tags g) = true /\ nodupN (map t_pos (g_traits g)) = true /\
  (forall f sg, find_sub (g_subs g) f = Some sg ->
                disjN (tags sg) (tags g ++ outer) = true /\ wf_meta (tags g ++ outer) sg = true).
Proof.
  destruct g as [ts subs dp]. cbn [wf_meta g_traits g_subs tags]. intros H.
  apply andb_prop in H; destruct H as [H Hs]. apply andb_prop in H; destruct H as [H _].
  apply andb_prop in H; destruct H as [H _]. apply andb_prop in H; destruct H as [Ha Hb].
  unfold tags. cbn [g_traits]. split; [assumption|]. split; [assumption|].
  clear -Hs. revert Hs. generalize (map t_fnum ts ++ outer) as o. intros o.
  induction subs as [|[k sg0] subs IH]; intros H f sg Hf; cbn [find_sub] in Hf; [discriminate|].
  apply andb_prop in H; destruct H as [H Hr]. apply andb_prop in H; destruct H as [Hd Hw].
  destruct (k =? f).
  - injection Hf as <-. split; assumption.
  - apply (IH Hr f sg Hf).
Qed.

(* ---------------------------------------------------------------- wf_node unfolded *)
Fixpoint wf_elems (sg : gmeta) (es : list (list tnode)) : bool :=
  match es with
  | [] => true
  | e :: r => match e with x :: _ => n_key x =? 1 | [] => false end && wf_nodes sg 0 e && wf_elems sg r
  end.

Lemma wf_nodes_inner sg : forall l last,
  (fix nl (last : N) (l : list tnode) : bool :=
     match l with
     | [] => true
     | x :: r' => (last <? n_key x) && wf_node sg x && nl (n_key x) r'
     end) last l = wf_nodes sg last l.
Proof. induction l as [|x l IH]; intros last; cbn [wf_nodes]; [reflexivity|rewrite IH; reflexivity]. Qed.

Lemma wf_node_unfold g k f rv els :
  wf_node g (TN k f rv els) =
  match find_trait (g_traits g) f with
  | None => false
  | Some tr =>
    (t_pos tr =? k) && val_ok rv &&
    (if t_group tr then
       match decimal rv, find_sub (g_subs g) f with
       | Some cnt, Some sg => (cnt =? lenN els) && wf_elems sg els
       | _, _ => false
       end
     else match els with [] => true | _ => false end)
  end.
Proof.
  cbn [wf_node]. destruct (find_trait (g_traits g) f) as [tr|]; [|reflexivity].
  destruct (t_group tr); [|reflexivity]. destruct (decimal rv) as [cnt|]; [|reflexivity].
  destruct (find_sub (g_subs g) f) as [sg|]; [|reflexivity]. f_equal. f_equal.
  induction els as [|e els IH]; cbn [wf_elems]; [reflexivity|].
  rewrite IH. rewrite wf_nodes_inner. reflexivity.
Qed.

(* ---------------------------------------------------------------- the rest condition *)
Definition rest_ok (g : gmeta) (outer : list N) (lastf : N) (rp : list (N * list N)) : Prop :=
  match rp with
  | [] => True
  | (f, _) :: _ => In f outer \/ exists tr, find_trait (g_traits g) f = Some tr /\ t_pos tr <= lastf
  end.
Definition disj (a b : list N) : Prop := forall x, In x a -> ~ In x b.


(* ---------------------------------------------------------------- keys *)
Lemma last_key_ge g : forall ns last, wf_nodes g last ns = true -> last <= last_key last ns.
Proof.
  induction ns as [|x ns IH]; intros last H; cbn [last_key wf_nodes] in *; [lia|].
  apply andb_prop in H. destruct H as [H Hr]. apply andb_prop in H. destruct H as [Hk _].
  apply N.ltb_lt in Hk. specialize (IH _ Hr). lia.
Qed.

Lemma offs_cons off p r : offs off (p :: r) = mkTok (fst p) (snd p) off (off + lenN (pbytes p)) :: offs (off + lenN (pbytes p)) r.
Proof. reflexivity. Qed.

Lemma P_cons x ns : P (x :: ns) = npairs x ++ P ns.
Proof. reflexivity. Qed.
Lemma PE_cons e es : PE (e :: es) = P e ++ PE es.
Proof. reflexivity. Qed.

Definition head_in (outer : list N) (rp : list (N * list N)) : Prop :=
  match rp with [] => True | (f, _) :: _ => In f outer end.

Definition part_stmt (n : nat) : Prop :=
  forall g outer ns last rp off fuel,
    (length (P ns) <= n)%nat -> wf_meta outer g = true -> disj (tags g) outer ->
    wf_nodes g last ns = true -> rest_ok g outer (last_key last ns) rp ->
    (2 * length (P ns) + 1 <= fuel)%nat ->
    exists off', part_ok fuel g last (offs off (P ns ++ rp)) = Some (offs off' rp).

Lemma elems_lemma n : part_stmt n ->
  forall sg outer els rp off fuel,
    (forall e, In e els -> (length (P e) <= n)%nat) -> wf_meta outer sg = true -> disj (tags sg) outer ->
    wf_elems sg els = true -> head_in outer rp ->
    (2 * length (PE els) + 2 <= fuel)%nat ->
    exists off', elems_ok fuel sg (lenN els) (offs off (PE els ++ rp)) = Some (offs off' rp).
Proof.
  intros HP sg outer els. induction els as [|e es IH]; intros rp off fuel Hsz Hwm Hdj Hwf Hrp Hfuel.
  - destruct fuel as [|fuel]; [lia|]. cbn [elems_ok lenN PE flat_map app]. cbn [N.eqb]. eexists. reflexivity.
  - destruct fuel as [|fuel]; [lia|].
    cbn [wf_elems] in Hwf. apply andb_prop in Hwf. destruct Hwf as [Hwf Hes].
    apply andb_prop in Hwf. destruct Hwf as [Hk1 He].
    destruct e as [|x e']; [discriminate|]. apply N.eqb_eq in Hk1.
    destruct x as [k f rv els0]. cbn [n_key] in Hk1. subst k.
    assert (Hwx : wf_node sg (TN 1 f rv els0) = true).
    { cbn [wf_nodes] in He. apply andb_prop in He. destruct He as [He _]. apply andb_prop in He. apply He. }
    rewrite wf_node_unfold in Hwx. destruct (find_trait (g_traits sg) f) as [tr|] eqn:Etr; [|discriminate].
    apply andb_prop in Hwx. destruct Hwx as [Hwx _]. apply andb_prop in Hwx. destruct Hwx as [Hpos _].
    apply N.eqb_eq in Hpos.
    destruct (wf_meta_parts _ _ Hwm) as (_ & Hndp & _).
    pose proof (first_tag_unique sg f tr Hndp Etr Hpos) as Hft.
    rewrite PE_cons, <- app_assoc.
    (* the element itself *)
    assert (Hrest : rest_ok sg outer (last_key 0 (TN 1 f rv els0 :: e')) (PE es ++ rp)).
    { destruct es as [|e2 es2].
      - cbn [PE flat_map app]. destruct rp as [|[f2 v2] rp2]; [exact I|]. left. exact Hrp.
      - cbn [wf_elems] in Hes. apply andb_prop in Hes. destruct Hes as [Hes _]. apply andb_prop in Hes. destruct Hes as [Hk2 He2].
        destruct e2 as [|[k2 f2 rv2 els2] e2']; [discriminate|]. apply N.eqb_eq in Hk2. cbn [n_key] in Hk2. subst k2.
        rewrite PE_cons, P_cons. cbn [npairs app rest_ok]. right.
        cbn [wf_nodes] in He2. apply andb_prop in He2. destruct He2 as [He2 _]. apply andb_prop in He2. destruct He2 as [_ Hw2].
        rewrite wf_node_unfold in Hw2. destruct (find_trait (g_traits sg) f2) as [tr2|]; [|discriminate].
        apply andb_prop in Hw2. destruct Hw2 as [Hw2 _]. apply andb_prop in Hw2. destruct Hw2 as [Hp2 _]. apply N.eqb_eq in Hp2.
        exists tr2. split; [reflexivity|]. rewrite Hp2.
        pose proof (last_key_ge sg _ _ He) as Hge. cbn [last_key n_key] in *.
        cbn [wf_nodes] in He. apply andb_prop in He. destruct He as [_ He']. pose proof (last_key_ge sg _ _ He'). cbn [n_key] in *. lia. }
    assert (Hlen : (length (P (TN 1 f rv els0 :: e')) <= n)%nat) by (apply Hsz; left; reflexivity).
    assert (Hall : length (PE (( TN 1 f rv els0 :: e') :: es)) = (length (P (TN 1 f rv els0 :: e')) + length (PE es))%nat).
    { rewrite PE_cons, app_length. reflexivity. }
    destruct (HP sg outer (TN 1 f rv els0 :: e') 0 (PE es ++ rp) off fuel Hlen Hwm Hdj He Hrest ltac:(lia)) as [off1 H1].
    remember (TN 1 f rv els0 :: e') as el eqn:Eel.
    assert (Hne : P el = (f, rv) :: PE els0 ++ P e') by (subst el; reflexivity).
    cbn [elems_ok lenN]. 
    replace (N.succ (lenN es) =? 0) with false by (symmetry; apply N.eqb_neq; lia).
    rewrite Hne in *. cbn [app] in *. rewrite offs_cons in *. cbn [fst snd] in *. rewrite Hft. cbn [k_tag]. rewrite N.eqb_refl.
    rewrite H1.
    assert (Hprog : (lenN (offs off1 (PE es ++ rp)) <?
                     lenN ({| k_tag := f; k_val := rv; k_start := off; k_end := off + lenN (pbytes (f, rv)) |}
                           :: offs (off + lenN (pbytes (f, rv))) ((PE els0 ++ P e') ++ PE es ++ rp))) = true).
    { apply N.ltb_lt. rewrite !lenN_length. cbn [length]. rewrite !offs_length, !app_length. lia. }
    rewrite Hprog. replace (N.succ (lenN es) - 1) with (lenN es) by lia.
    apply IH; try assumption.
    + intros e0 He0. apply Hsz. right. assumption.
    + cbn [length] in *. rewrite app_length in *. lia.
Qed.

Lemma wf_elems_sizes (els : list (list tnode)) : forall e, In e els -> (length (P e) <= length (PE els))%nat.
Proof.
  induction els as [|e0 es IH]; intros e He; [destruct He|].
  rewrite PE_cons, app_length. destruct He as [<-|He]; [lia|]. specialize (IH e He). lia.
Qed.

Lemma node_tag_in g last x ns : wf_nodes g last (x :: ns) = true -> In (n_tag x) (tags g).
Proof.
  cbn [wf_nodes]. intros H. apply andb_prop in H. destruct H as [H _]. apply andb_prop in H. destruct H as [_ H].
  destruct x as [k f rv els]. rewrite wf_node_unfold in H.
  destruct (find_trait (g_traits g) f) as [tr|] eqn:E; [|discriminate].
  apply (find_trait_In _ _ _ E).
Qed.

Theorem part_ok_nodes : forall n, part_stmt n.
Proof.
  induction n as [n IHn] using (well_founded_induction lt_wf).
  unfold part_stmt. intros g outer ns. induction ns as [|x ns IH]; intros last rp off fuel Hsz Hwm Hdj Hwf Hrest Hfuel.
  - (* no node left: the part ends at the next token *)
    destruct fuel as [|fuel]; [lia|]. cbn [flat_map app]. exists off.
    destruct rp as [|[f v] rp]; [reflexivity|]. rewrite offs_cons. cbn [part_ok fst snd k_tag].
    cbn [rest_ok last_key] in Hrest. destruct Hrest as [Hin|(tr & Htr & Hle)].
    + rewrite find_trait_notin; [reflexivity|]. intros Hc. exact (Hdj f Hc Hin).
    + rewrite Htr. replace (t_pos tr <=? last) with true by (symmetry; apply N.leb_le; assumption). reflexivity.
  - destruct fuel as [|fuel]; [lia|].
    pose proof Hwf as Hwf0.
    cbn [wf_nodes] in Hwf. apply andb_prop in Hwf. destruct Hwf as [Hwf Hns]. apply andb_prop in Hwf. destruct Hwf as [Hk Hx].
    apply N.ltb_lt in Hk. destruct x as [k f rv els]. cbn [n_key] in *.
    rewrite wf_node_unfold in Hx. destruct (find_trait (g_traits g) f) as [tr|] eqn:Etr; [|discriminate].
    apply andb_prop in Hx. destruct Hx as [Hx Hg]. apply andb_prop in Hx. destruct Hx as [Hpos _]. apply N.eqb_eq in Hpos.
    rewrite P_cons. cbn [npairs]. cbn [app]. rewrite <- app_assoc. rewrite offs_cons. cbn [fst snd].
    cbn [part_ok k_tag k_val]. rewrite Etr.
    replace (t_pos tr <=? last) with false by (symmetry; apply N.leb_gt; lia).
    rewrite P_cons in Hsz, Hfuel. cbn [npairs] in Hsz, Hfuel. cbn [app length] in Hsz, Hfuel. rewrite app_length in Hsz, Hfuel.
    assert (Hrest' : rest_ok g outer (last_key k ns) rp) by exact Hrest.
    destruct (t_group tr) eqn:Egrp.
    + destruct (decimal rv) as [cnt|]; [|discriminate].
      destruct (find_sub (g_subs g) f) as [sg|] eqn:Esub; [|discriminate].
      apply andb_prop in Hg. destruct Hg as [Hcnt Hels]. apply N.eqb_eq in Hcnt. subst cnt.
      destruct (wf_meta_parts _ _ Hwm) as (_ & _ & Hsub). destruct (Hsub f sg Esub) as [Hdsg Hwsg].
      assert (Hhead : head_in (tags g ++ outer) (P ns ++ rp)).
      { destruct ns as [|y ns'].
        - cbn [flat_map app]. destruct rp as [|[f2 v2] rp2]; [exact I|]. cbn [head_in rest_ok last_key] in *.
          apply in_or_app. destruct Hrest as [Hin|(tr2 & Htr2 & _)]; [right; assumption|left; apply (find_trait_In _ _ _ Htr2)].
        - pose proof (node_tag_in g k y ns' Hns) as Hin. destruct y as [ky fy rvy elsy]. rewrite P_cons. cbn [npairs app head_in].
          apply in_or_app. left. exact Hin. }
      assert (HPn : part_stmt (length (PE els))).
      { apply IHn. change (PE els) with (flat_map (fun e => flat_map npairs e) els). lia. }
      destruct (elems_lemma _ HPn sg (tags g ++ outer) els (P ns ++ rp) (off + lenN (pbytes (f, rv))) fuel
                  (wf_elems_sizes els) Hwsg (disjN_spec _ _ Hdsg) Hels Hhead) as [off1 H1].
      { change (PE els) with (flat_map (fun e => flat_map npairs e) els). lia. }
      change (flat_map (fun e => flat_map npairs e) els) with (PE els).
      rewrite H1. rewrite Hpos. apply IH; try assumption; lia.
    + destruct els as [|? ?]; [|discriminate]. cbn [flat_map app]. rewrite Hpos. apply IH; try assumption; cbn [flat_map length] in *; lia.
Qed.
