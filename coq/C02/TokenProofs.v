(* The tokenizer of Spec_C02 on a concatenation of printed fields:
   tokenize (flat_map pbytes ps) = Some (offs 0 ps). *)
From Coq Require Import NArith ZArith List Bool Lia.
From F8 Require Import Codec.Bytes Codec.Meta Codec.Encode C02.Spec_C02 C02.DigitsProofs.
Import ListNotations.
Local Open Scope N_scope.

Definition pbytes (p : N * list N) : list N := itoa_N (fst p) ++ EQC :: snd p ++ [SOH].
Fixpoint offs (off : N) (ps : list (N * list N)) : list tok :=
  match ps with
  | [] => []
  | p :: r => let e := off + lenN (pbytes p) in mkTok (fst p) (snd p) off e :: offs e r
  end.
Definition no_soh (v : list N) : Prop := Forall (fun b => (b =? SOH) = false) v.

Lemma scan_digits : forall ds rest off start tag ndig lead0 val tv,
  all_digits ds -> dec_val ds tag = Some tv ->
  scan (ds ++ rest) true off start tag ndig lead0 val =
  scan rest true (off + lenN ds) start tv (ndig + lenN ds)
       (match ds with [] => lead0 | c :: _ => if ndig =? 0 then c =? 48 else lead0 end) val.
Proof.
  induction ds as [|c ds IH]; intros rest off start tag ndig lead0 val tv Hd Hv.
  - cbn [app lenN dec_val] in *. injection Hv as <-. rewrite !N.add_0_r. reflexivity.
  - inversion Hd as [|? ? Hc Hd']; subst. cbn [app scan dec_val lenN] in *. rewrite Hc in *.
    rewrite (IH rest (off + 1) start _ (ndig + 1) _ val tv Hd' Hv).
    replace (off + 1 + lenN ds) with (off + N.succ (lenN ds)) by lia.
    replace (ndig + 1 + lenN ds) with (ndig + N.succ (lenN ds)) by lia.
    f_equal. destruct ds as [|c2 ds2]; [reflexivity|].
    replace (ndig + 1 =? 0) with false by (symmetry; apply N.eqb_neq; lia). reflexivity.
Qed.

Lemma scan_val : forall v rest off start tag ndig lead0 acc,
  no_soh v ->
  scan (v ++ SOH :: rest) false off start tag ndig lead0 acc =
  match scan rest true (off + lenN v + 1) (off + lenN v + 1) 0 0 false [] with
  | Some ts => Some (mkTok tag (rev acc ++ v) start (off + lenN v + 1) :: ts)
  | None => None
  end.
Proof.
  induction v as [|c v IH]; intros rest off start tag ndig lead0 acc Hv.
  - cbn [app scan lenN]. rewrite N.eqb_refl, N.add_0_r, app_nil_r. reflexivity.
  - inversion Hv as [|? ? Hc Hv']; subst. cbn [app scan lenN]. rewrite Hc.
    rewrite (IH rest (off + 1) start tag ndig lead0 (c :: acc) Hv').
    replace (off + 1 + lenN v + 1) with (off + N.succ (lenN v) + 1) by lia.
    cbn [rev]. rewrite <- app_assoc. reflexivity.
Qed.

Lemma scan_field f v rest off :
  no_soh v ->
  scan (pbytes (f, v) ++ rest) true off off 0 0 false [] =
  match scan rest true (off + lenN (pbytes (f, v))) (off + lenN (pbytes (f, v))) 0 0 false [] with
  | Some ts => Some (mkTok f v off (off + lenN (pbytes (f, v))) :: ts)
  | None => None
  end.
Proof.
  intros Hv. unfold pbytes. cbn [fst snd]. rewrite <- app_assoc.
  rewrite (scan_digits (itoa_N f) _ off off 0 0 false [] f (itoa_digits f) (dec_val_itoa f)).
  cbn [app]. pose proof (itoa_nonempty f) as Hne. pose proof (itoa_hd f) as Hhd.
  destruct (itoa_N f) as [|c ds] eqn:E; [congruence|].
  cbn [scan]. change (is_digit EQC) with false. cbn iota. rewrite N.eqb_refl.
  cbn [N.eqb]. 
  assert (Hnd : (0 + lenN (c :: ds) =? 0) = false) by (apply N.eqb_neq; cbn [lenN]; lia).
  rewrite Hnd. cbn [negb andb].
  assert (Hl0 : ((c =? 48) && negb (0 + lenN (c :: ds) =? 1)) = false).
  { destruct (c =? 48) eqn:Ec; [|reflexivity]. apply N.eqb_eq in Ec. cbn [hd] in Hhd. specialize (Hhd Ec). subst f.
    rewrite itoa_small in E by lia. injection E as <- <-. reflexivity. }
  rewrite Hl0. cbn [negb].
  rewrite <- app_assoc. cbn [app]. rewrite scan_val by assumption. cbn [rev app].
  assert (Hlen : lenN (c :: ds ++ EQC :: v ++ [SOH]) = lenN (c :: ds) + 1 + lenN v + 1).
  { change (c :: ds ++ EQC :: v ++ [SOH]) with ((c :: ds) ++ EQC :: v ++ [SOH]).
    rewrite lenN_app. cbn [lenN]. rewrite lenN_app. cbn [lenN]. lia. }
  rewrite Hlen. rewrite !N.add_assoc. reflexivity.
Qed.

Lemma tokenize_flat : forall ps off, Forall (fun p => no_soh (snd p)) ps ->
  scan (flat_map pbytes ps) true off off 0 0 false [] = Some (offs off ps).
Proof.
  induction ps as [|[f v] ps IH]; intros off H; cbn [flat_map offs]; [reflexivity|].
  inversion H as [|? ? Hv H']; subst. cbn [snd] in Hv. rewrite scan_field by assumption.
  rewrite IH by assumption. reflexivity.
Qed.

Lemma offs_app a b off :
  offs off (a ++ b) = offs off a ++ offs (off + lenN (flat_map pbytes a)) b.
Proof.
  revert off. induction a as [|p a IH]; intros off; cbn [app offs flat_map lenN].
  - rewrite N.add_0_r. reflexivity.
  - rewrite IH. rewrite lenN_app. rewrite N.add_assoc. reflexivity.
Qed.

Lemma offs_length off ps : length (offs off ps) = length ps.
Proof. revert off. induction ps as [|p ps IH]; intros off; cbn [offs length]; [reflexivity|rewrite IH; reflexivity]. Qed.
