(* Decimal rendering lemmas shared by the C02 / C01 proofs: itoa_N produces canonical decimal
   digits, decimal / dec_val read them back, the BodyLength digit ladder. *)
From Coq Require Import NArith ZArith List Bool Lia.
From F8 Require Import Codec.Bytes Codec.Meta Codec.Encode C02.Spec_C02.
Import ListNotations.
Local Open Scope N_scope.
Ltac Zify.zify_post_hook ::= Z.div_mod_to_equations.

Definition all_digits (l : list N) : Prop := Forall (fun b => is_digit b = true) l.

Lemma is_digit_48 d : d < 10 -> is_digit (48 + d) = true.
Proof. intros. unfold is_digit. apply andb_true_intro; split; apply N.leb_le; lia. Qed.

Lemma lenN_app {A} (a b : list A) : lenN (a ++ b) = lenN a + lenN b.
Proof. induction a as [|x a IH]; cbn [app lenN]; [reflexivity|rewrite IH; lia]. Qed.
Lemma lenN_length {A} (a : list A) : lenN a = N.of_nat (length a).
Proof. induction a as [|x a IH]; cbn [lenN length]; [reflexivity|rewrite IH; lia]. Qed.

Lemma digits_aux_acc : forall fuel n acc, digits_aux fuel n acc = digits_aux fuel n [] ++ acc.
Proof.
  induction fuel as [|fuel IH]; intros n acc; cbn [digits_aux]; [reflexivity|].
  destruct (n / 10 =? 0); [reflexivity|].
  rewrite (IH (n / 10) ((48 + n mod 10) :: acc)), (IH (n / 10) [48 + n mod 10]).
  rewrite <- app_assoc. reflexivity.
Qed.

Lemma digits_aux_mono : forall f1 n acc, n < 2 ^ N.of_nat f1 -> forall f2, (f1 <= f2)%nat ->
  digits_aux (S f2) n acc = digits_aux (S f1) n acc.
Proof.
  induction f1 as [|f1 IH]; intros n acc Hn f2 Hle.
  - change (2 ^ N.of_nat 0) with 1 in Hn. assert (n = 0) by lia. subst. reflexivity.
  - destruct f2 as [|f2]; [lia|]. cbn [digits_aux]. destruct (n / 10 =? 0) eqn:E; [reflexivity|].
    change (digits_aux (S f2) (n / 10) ((48 + n mod 10) :: acc) = digits_aux (S f1) (n / 10) ((48 + n mod 10) :: acc)).
    apply IH; [|lia]. rewrite Nat2N.inj_succ, N.pow_succ_r' in Hn. apply N.div_lt_upper_bound; lia.
Qed.

Lemma digits_aux_indep f1 f2 n acc : n < 2 ^ N.of_nat f1 -> n < 2 ^ N.of_nat f2 ->
  digits_aux (S f1) n acc = digits_aux (S f2) n acc.
Proof.
  intros H1 H2. destruct (Nat.le_ge_cases f1 f2).
  - symmetry. apply digits_aux_mono; assumption.
  - apply digits_aux_mono; assumption.
Qed.

Lemma size_bound n : n < 2 ^ N.of_nat (N.to_nat (N.size n)).
Proof. rewrite N2Nat.id. apply N.size_gt. Qed.

Lemma itoa_small n : n < 10 -> itoa_N n = [48 + n].
Proof.
  intros H. unfold itoa_N. cbn [digits_aux]. rewrite (N.div_small n 10) by assumption.
  cbn [N.eqb]. rewrite N.mod_small by assumption. reflexivity.
Qed.

Lemma itoa_step n : 10 <= n -> itoa_N n = itoa_N (n / 10) ++ [48 + n mod 10].
Proof.
  intros H. unfold itoa_N at 1. cbn [digits_aux].
  destruct (n / 10 =? 0) eqn:E.
  { apply N.eqb_eq in E. apply N.div_small_iff in E; lia. }
  rewrite digits_aux_acc. f_equal.
  pose proof (N.size_gt n) as Hs.
  destruct (N.size n) as [|p] eqn:Es.
  { change (2 ^ 0) with 1 in Hs. lia. }
  assert (Hq : n / 10 < 2 ^ N.of_nat (Pos.to_nat p - 1)).
  { replace (N.pos p) with (N.succ (N.of_nat (Pos.to_nat p - 1))) in Hs by lia.
    rewrite N.pow_succ_r' in Hs. apply N.div_lt_upper_bound; lia. }
  change (N.to_nat (N.pos p)) with (Pos.to_nat p).
  replace (Pos.to_nat p) with (S (Pos.to_nat p - 1)) at 1 by lia.
  unfold itoa_N. apply digits_aux_indep; [assumption|apply size_bound].
Qed.

(* strong induction on the value *)
Lemma N_div10_ind (P : N -> Prop) :
  (forall n, n < 10 -> P n) -> (forall n, 10 <= n -> P (n / 10) -> P n) -> forall n, P n.
Proof.
  intros Hs Hi n. induction n as [n IH] using (well_founded_induction N.lt_wf_0).
  destruct (N.lt_ge_cases n 10); [apply Hs; assumption|].
  apply Hi; [assumption|]. apply IH. apply N.div_lt; lia.
Qed.

Lemma itoa_digits n : all_digits (itoa_N n).
Proof.
  induction n as [n H|n H IH] using N_div10_ind.
  - rewrite itoa_small by assumption. constructor; [apply is_digit_48; assumption|constructor].
  - rewrite itoa_step by assumption. apply Forall_app. split; [assumption|].
    constructor; [apply is_digit_48; apply N.mod_lt; lia|constructor].
Qed.

Lemma itoa_nonempty n : itoa_N n <> [].
Proof.
  destruct (N.lt_ge_cases n 10); [rewrite itoa_small by assumption; discriminate|].
  rewrite itoa_step by assumption. intros Hc. apply app_eq_nil in Hc. destruct Hc; discriminate.
Qed.

Lemma dec_val_app a b acc :
  all_digits a ->
  dec_val (a ++ b) acc = match dec_val a acc with Some v => dec_val b v | None => None end.
Proof.
  revert acc. induction a as [|x a IH]; intros acc Ha; cbn [app dec_val]; [reflexivity|].
  inversion Ha as [|? ? Hx Ha']; subst. rewrite Hx. apply IH. assumption.
Qed.

Lemma dec_val_itoa n : dec_val (itoa_N n) 0 = Some n.
Proof.
  induction n as [n H|n H IH] using N_div10_ind.
  - rewrite itoa_small by assumption. cbn [dec_val]. rewrite is_digit_48 by assumption. f_equal. lia.
  - rewrite itoa_step by assumption. rewrite dec_val_app by apply itoa_digits. rewrite IH.
    cbn [dec_val]. rewrite is_digit_48 by (apply N.mod_lt; lia). f_equal.
    pose proof (N.div_mod n 10). lia.
Qed.

(* no leading zero: the first digit is '0' only for n = 0 *)
Lemma itoa_hd n : hd 0 (itoa_N n) = 48 -> n = 0.
Proof.
  induction n as [n H|n H IH] using N_div10_ind.
  - rewrite itoa_small by assumption. cbn [hd]. lia.
  - rewrite itoa_step by assumption. pose proof (itoa_nonempty (n / 10)) as Hne.
    destruct (itoa_N (n / 10)) as [|d ds] eqn:E; [congruence|]. cbn [app hd]. intros Hd.
    cbn [hd] in IH. specialize (IH Hd). apply N.div_small_iff in IH; lia.
Qed.

Lemma decimal_itoa n : decimal (itoa_N n) = Some n.
Proof.
  unfold decimal. pose proof (itoa_hd n) as Hh. pose proof (dec_val_itoa n) as Hv.
  pose proof (itoa_nonempty n) as Hne.
  destruct (itoa_N n) as [|c [|c2 r]] eqn:E; [congruence|assumption|].
  cbn [hd] in Hh. destruct (c =? 48) eqn:Ec; [|assumption].
  apply N.eqb_eq in Ec. specialize (Hh Ec). subst n. rewrite itoa_small in E by lia. discriminate.
Qed.

Lemma itoa_len_step n : 10 <= n -> lenN (itoa_N n) = lenN (itoa_N (n / 10)) + 1.
Proof. intros H. rewrite itoa_step by assumption. rewrite lenN_app. reflexivity. Qed.

(* the ladder of Message::encode is the digit count below 10^7 *)
Lemma len_digits_itoa n : n < 10000000 -> lenN (itoa_N n) = len_digits n.
Proof.
  intros H. unfold len_digits.
  destruct (n <? 10) eqn:E1; [apply N.ltb_lt in E1; rewrite itoa_small by assumption; reflexivity|].
  apply N.ltb_ge in E1. rewrite itoa_len_step by assumption.
  destruct (n <? 100) eqn:E2.
  { apply N.ltb_lt in E2. rewrite itoa_small by (apply N.div_lt_upper_bound; lia). reflexivity. }
  apply N.ltb_ge in E2. rewrite itoa_len_step by (apply N.div_le_lower_bound; lia).
  destruct (n <? 1000) eqn:E3.
  { apply N.ltb_lt in E3. rewrite itoa_small by (repeat apply N.div_lt_upper_bound; lia). reflexivity. }
  apply N.ltb_ge in E3. rewrite itoa_len_step by (repeat apply N.div_le_lower_bound; lia).
  destruct (n <? 10000) eqn:E4.
  { apply N.ltb_lt in E4. rewrite itoa_small by (repeat apply N.div_lt_upper_bound; lia). reflexivity. }
  apply N.ltb_ge in E4. rewrite itoa_len_step by (repeat apply N.div_le_lower_bound; lia).
  destruct (n <? 100000) eqn:E5.
  { apply N.ltb_lt in E5. rewrite itoa_small by (repeat apply N.div_lt_upper_bound; lia). reflexivity. }
  apply N.ltb_ge in E5. rewrite itoa_len_step by (repeat apply N.div_le_lower_bound; lia).
  destruct (n <? 1000000) eqn:E6.
  { apply N.ltb_lt in E6. rewrite itoa_small by (repeat apply N.div_lt_upper_bound; lia). reflexivity. }
  apply N.ltb_ge in E6. rewrite itoa_len_step by (repeat apply N.div_le_lower_bound; lia).
  rewrite itoa_small by (repeat apply N.div_lt_upper_bound; lia). reflexivity.
Qed.
