(* The encoder on an object whose content tree exists:
     tree_of c m = Some ns  ->  mb_encode c m = Ok (flat_map nbytes ns ++ mb_unknown m)
   and the bytes of a tree are the concatenation of its printed (tag, value) pairs. *)
From Coq Require Import NArith ZArith List Bool Lia.
From F8 Require Import Codec.Bytes Codec.Meta Codec.Extract Codec.Decode Codec.Encode
                       C02.Spec_C02 C02.WfC02 C02.DigitsProofs C02.TokenProofs.
Import ListNotations.
Local Open Scope N_scope.

Fixpoint npairs (n : tnode) : list (N * list N) :=
  match n with
  | TN _ f rv els => (f, rv) :: flat_map (fun e => flat_map npairs e) els
  end.

Lemma flat_map_app {A B} (f : A -> list B) a b : flat_map f (a ++ b) = flat_map f a ++ flat_map f b.
Proof. induction a as [|x a IH]; cbn [app flat_map]; [reflexivity|rewrite IH, app_assoc; reflexivity]. Qed.

Lemma nbytes_pairs : forall n, nbytes n = flat_map pbytes (npairs n).
Proof.
  fix IH 1. intros [k f rv els]. cbn [nbytes npairs flat_map]. unfold pbytes at 1. cbn [fst snd].
  rewrite <- !app_assoc. cbn [app]. f_equal. f_equal. rewrite <- app_assoc. cbn [app]. f_equal. f_equal.
  induction els as [|e els IHe]; cbn [flat_map]; [reflexivity|].
  rewrite flat_map_app. rewrite <- IHe. f_equal.
  induction e as [|x e IHx]; cbn [flat_map]; [reflexivity|].
  rewrite flat_map_app. rewrite <- IHx. f_equal. apply IH.
Qed.

Lemma nodes_bytes_pairs ns : flat_map nbytes ns = flat_map pbytes (flat_map npairs ns).
Proof.
  induction ns as [|n ns IH]; cbn [flat_map]; [reflexivity|].
  rewrite flat_map_app, <- IH, nbytes_pairs. reflexivity.
Qed.

(* the loop over _pos, given that the group tables correspond *)
Lemma enc_pos_nodes c fp gts genc :
  (forall f els, map_find f gts = Some (Some els) ->
                 map_find f genc = Some (Ok (flat_map (fun e => flat_map nbytes e) els))) ->
  forall pos ns, nodes_of c fp gts pos = Some ns -> enc_pos c fp genc pos = Ok (flat_map nbytes ns).
Proof.
  intros Hg. induction pos as [|[k [f v]] pos IH]; intros ns H; cbn [nodes_of enc_pos] in *.
  - injection H as <-. reflexivity.
  - destruct (find_trait fp f) as [tr|]; [|discriminate].
    destruct (t_suppress tr); [apply IH; assumption|].
    unfold field_bytes. destruct (t_group tr && has_group_count_c c f v).
    + destruct (map_find f gts) as [[els|]|] eqn:Eg; try discriminate.
      destruct (nodes_of c fp gts pos) as [ns'|]; [|discriminate]. injection H as <-.
      rewrite (Hg f els Eg). cbn [bind]. rewrite (IH ns' eq_refl). cbn [bind flat_map nbytes].
      repeat (rewrite <- app_assoc; cbn [app]). reflexivity.
    + destruct (nodes_of c fp gts pos) as [ns'|]; [|discriminate]. injection H as <-.
      rewrite (IH ns' eq_refl). cbn [bind flat_map nbytes].
      repeat (rewrite <- app_assoc; cbn [app]). reflexivity.
Qed.

Lemma mb_encode_tree c : forall m ns, tree_of c m = Some ns ->
  mb_encode c m = Ok (flat_map nbytes ns ++ mb_unknown m).
Proof.
  fix IH 1. intros [fp subs fields pos groups unknown] ns H. cbn [tree_of mb_encode mb_unknown] in *.
  erewrite enc_pos_nodes; [reflexivity| |exact H].
  clear H ns pos. induction groups as [|[g gels] groups IHg]; intros f els Hf; cbn [map_find] in *; [discriminate|].
  destruct (f =? g); [|apply IHg; assumption].
  injection Hf as Hf. f_equal. revert els Hf.
  induction gels as [|e gels IHe]; intros els Hf.
  - injection Hf as <-. reflexivity.
  - destruct (mb_unknown e) as [|u0 ul] eqn:Eu; [|discriminate].
    destruct (tree_of c e) as [a|] eqn:Ea; [|discriminate].
    match type of Hf with match ?X with _ => _ end = _ => destruct X as [b|] eqn:Eb; [|discriminate] end.
    injection Hf as <-. rewrite (IH e a Ea). cbn [bind]. rewrite (IHe b eq_refl). cbn [bind flat_map].
    rewrite Eu, app_nil_r. reflexivity.
Qed.
