(* render_default satisfies render_ok: int classes re-render canonical non-negative decimal texts
   below 2^31 unchanged, string classes are verbatim. *)
From Coq Require Import NArith ZArith List Bool Lia.
From F8 Require Import Codec.Bytes Codec.Meta Codec.Render C02.Spec_C02 C02.DigitsProofs C02.AuxProofs.
Import ListNotations.
Local Open Scope N_scope.

Lemma cstr_digits l : all_digits l -> cstr l = l.
Proof.
  induction l as [|x l IH]; intros H; cbn [cstr]; [reflexivity|]. inversion H as [|? ? Hx Hl]; subst.
  destruct (x =? 0) eqn:E; [apply N.eqb_eq in E; subst; discriminate|]. rewrite IH by assumption. reflexivity.
Qed.

Lemma fold_atoi m : (0 < m)%Z -> forall l a v, all_digits l -> dec_val l a = Some v ->
  fold_left (atoi_step m) l (Z.of_N a mod m)%Z = (Z.of_N v mod m)%Z.
Proof.
  intros Hm. induction l as [|x l IH]; intros a v Hd Hv; cbn [fold_left dec_val] in *.
  - injection Hv as <-. reflexivity.
  - inversion Hd as [|? ? Hx Hl]; subst. rewrite Hx in Hv.
    rewrite <- (IH (a * 10 + (x - 48)) v Hl Hv). f_equal. unfold atoi_step.
    unfold is_digit in Hx. apply andb_prop in Hx. destruct Hx as [H1 H2]. apply N.leb_le in H1, H2.
    unfold schar. replace (x <? 128) with true by (symmetry; apply N.ltb_lt; lia).
    replace (Z.of_N (a * 10 + (x - 48))) with (Z.of_N a * 10 + (Z.of_N x - 48))%Z by lia.
    replace (Z.of_N a mod m * 10 + Z.of_N x - 48)%Z with (Z.of_N a mod m * 10 + (Z.of_N x - 48))%Z by ring.
    rewrite <- (Z.add_mod_idemp_l (Z.of_N a mod m * 10)) by lia. rewrite Z.mul_mod_idemp_l by lia.
    rewrite Z.add_mod_idemp_l by lia. reflexivity.
Qed.

Lemma atoi_i32_orig_itoa n : n < 2147483648 -> fast_atoi_i32_orig (itoa_N n) = Z.of_N n.
Proof.
  intros H. unfold fast_atoi_i32_orig, fast_atoi_mod. rewrite cstr_digits by apply itoa_digits.
  change 0%Z with (Z.of_N 0 mod two32)%Z.
  rewrite (fold_atoi two32 ltac:(reflexivity) _ 0 n (itoa_digits n) (dec_val_itoa n)).
  unfold to_i32, two32, two31. rewrite Z.mod_mod by lia. rewrite Z.mod_small by lia.
  replace (Z.of_N n <? 2147483648)%Z with true by (symmetry; apply Z.ltb_lt; lia). reflexivity.
Qed.

Lemma atoi_i32_itoa n : n < 2147483648 -> fast_atoi_i32 (itoa_N n) = Z.of_N n.
Proof.
  intros H. rewrite <- (atoi_i32_orig_itoa n H). unfold fast_atoi_i32, fast_atoi_i32_orig, fast_atoi_mod.
  rewrite cstr_digits by apply itoa_digits. pose proof (itoa_digits n) as Hd.
  destruct (itoa_N n) as [|d ds]; [reflexivity|]. pose proof (Forall_inv Hd) as Hx. cbn beta in Hx.
  unfold is_digit in Hx. apply andb_prop in Hx. destruct Hx as [Hx _]. apply N.leb_le in Hx.
  replace (d =? 45) with false by (symmetry; apply N.eqb_neq; lia). reflexivity.
Qed.

Lemma render_default_orig_ok c : c_render c = render_default_orig -> render_ok c.
Proof.
  intros E. split.
  - intros ty n Hty Hn. rewrite E. unfold render_default_orig. rewrite Hty. rewrite atoi_i32_orig_itoa by assumption.
    unfold itoa_Z. replace (Z.of_N n <? 0)%Z with false by (symmetry; apply Z.ltb_ge; lia).
    rewrite N2Z.id. reflexivity.
  - intros v. rewrite E. reflexivity.
Qed.

Lemma render_default_ok c : c_render c = render_default -> render_ok c.
Proof.
  intros E. split.
  - intros ty n Hty Hn. rewrite E. unfold render_default. rewrite Hty. rewrite atoi_i32_itoa by assumption.
    unfold itoa_Z. replace (Z.of_N n <? 0)%Z with false by (symmetry; apply Z.ltb_ge; lia).
    rewrite N2Z.id. reflexivity.
  - intros v. rewrite E. reflexivity.
Qed.
