(* Proofs for property C02 (see Props/Properties_C02.v for the statements' meaning). *)
From Coq Require Import NArith ZArith List Bool Lia Arith.
From F8 Require Import Codec.Bytes Codec.Meta Codec.Extract Codec.Decode Codec.Encode Codec.Render Codec.Example
                       C07.Chksum C07.Spec_C07 C07.ChksumProofs
                       C02.Spec_C02 C02.WfC02 C02.DigitsProofs C02.TokenProofs C02.TreeProofs C02.StructProofs
                       C02.AuxProofs C02.RenderProofs.
Import ListNotations.
Local Open Scope N_scope.

(* the bytes of a successful encode, [] otherwise (so that wire_ok is false) *)
Definition enc_bytes (c : ctx) (m : message) : list N :=
  match msg_encode c m with Ok (b, _) => b | _ => [] end.
Definition enc_twice (c : ctx) (m : message) : list N :=
  match msg_encode c m with Ok (_, m') => enc_bytes c m' | _ => [] end.

Ltac split_ands :=
  repeat match goal with H : _ && _ = true |- _ => apply andb_prop in H; destruct H end.

Lemma ftype_of_is_ty c f ty d : is_ty c f ty = true -> ftype_of c f d = ty.
Proof. unfold is_ty, ftype_of. destruct (find_be (c_fields c) f); [|discriminate]. intros H. apply N.eqb_eq in H. assumption. Qed.
Lemma part_type_is_ty c m f ty : is_ty c f ty = true -> part_type c m f = ty.
Proof. unfold part_type. apply ftype_of_is_ty. Qed.
Lemma part_type_int c m f : is_int_field c f = true -> is_int_type (part_type c m f) = true.
Proof. unfold is_int_field, part_type, ftype_of. destruct (find_be (c_fields c) f); [|discriminate]. trivial. Qed.
Lemma fields_clear m f : mb_fields (clear_suppress m f) = mb_fields m.
Proof. destruct m. reflexivity. Qed.

Lemma P_app a b : P (a ++ b) = P a ++ P b.
Proof. apply flat_map_app. Qed.

Lemma wf_nodes_snoc g : forall a last x,
  wf_nodes g last a = true -> (last_key last a <? n_key x) = true -> wf_node g x = true ->
  wf_nodes g last (a ++ [x]) = true.
Proof.
  induction a as [|y a IH]; intros last x Ha Hk Hx; cbn [app wf_nodes last_key] in *.
  - rewrite Hk, Hx. reflexivity.
  - apply andb_prop in Ha. destruct Ha as [Ha Hr]. rewrite Ha. cbn [andb]. apply IH; assumption.
Qed.

Lemma last_key_snoc : forall a last x, last_key last (a ++ [x]) = n_key x.
Proof. induction a as [|y a IH]; intros last x; cbn [app last_key]; [reflexivity|apply IH]. Qed.

Lemma plain_node g f p v : plain_at g f p = true -> val_ok v = true -> wf_node g (TN p f v []) = true.
Proof.
  unfold plain_at. intros H Hv. rewrite wf_node_unfold. destruct (find_trait (g_traits g) f) as [tr|]; [|discriminate].
  apply andb_prop in H. destruct H as [Hp Hg]. rewrite Hp, Hv. cbn [andb].
  destruct (t_group tr); [discriminate|reflexivity].
Qed.

Lemma head_in_app_l (a b : list (N * list N)) outer : a <> [] -> head_in outer a -> head_in outer (a ++ b).
Proof. destruct a as [|[f v] a]; [congruence|]. trivial. Qed.

Lemma head_in_P g last ns outer : wf_nodes g last ns = true -> ns <> [] ->
  (forall x, In x (tags g) -> In x outer) -> head_in outer (P ns).
Proof.
  destruct ns as [|x ns]; [congruence|]. intros H _ Hsub. pose proof (node_tag_in g last x ns H) as Hin.
  destruct x as [k f rv els]. rewrite P_cons. cbn [npairs app head_in]. apply Hsub. exact Hin.
Qed.

Lemma disj_sym a b : disj a b -> disj b a.
Proof. intros H x Hb Ha. exact (H x Ha Hb). Qed.
Lemma disj_app_r a b c : disj a b -> disj a c -> disj a (b ++ c).
Proof. intros H1 H2 x Ha Hbc. apply in_app_or in Hbc. destruct Hbc; [exact (H1 x Ha H)|exact (H2 x Ha H)]. Qed.

Lemma rest_ok_of_head g outer lastf rp : head_in outer rp -> rest_ok g outer lastf rp.
Proof. destruct rp as [|[f v] rp]; [trivial|]. intros H. left. exact H. Qed.

(* ---------------------------------------------------------------- shape of the output *)
Definition all_pairs (c : ctx) (hn bn tn : list tnode) (L : N) (csv : list N) : list (N * list N) :=
  (8, c_begin c) :: (9, itoa_N L) :: (P hn ++ P bn ++ P tn) ++ [(10, csv)].

Lemma encode_shape_gen c m hn bn tn :
  render_ok c ->
  tree_of c (set_value (m_hdr m) Common_MsgType (m_type m)) = Some hn ->
  tree_of c (m_body m) = Some bn -> tree_of c (m_trl m) = Some tn ->
  is_ty c 8 ft_string = true -> is_int_field c 9 = true -> is_ty c 10 ft_string = true ->
  val_ok (c_begin c) = true -> lenN (c_begin c) < 1000 ->
  Forall pv (P hn ++ P bn ++ P tn) ->
  has_field (m_trl m) 10 = true ->
  match map_find 8 (mb_fields (set_value (m_hdr m) Common_MsgType (m_type m))),
        map_find 9 (mb_fields (set_value (m_hdr m) Common_MsgType (m_type m))) with
  | Some bsv, Some _ => list_eqb (c_render c ft_string bsv) (c_begin c)
  | _, _ => false
  end = true ->
  mb_unknown (set_value (m_hdr m) Common_MsgType (m_type m)) = [] -> mb_unknown (m_body m) = [] -> mb_unknown (m_trl m) = [] ->
  encoded_len c hn bn tn < 10000000 ->
  exists csv m',
    msg_encode c m = Ok (flat_map pbytes (all_pairs c hn bn tn (encoded_len c hn bn tn) csv), m') /\
    all_digits csv /\ lenN csv = 3 /\
    dec_val csv 0 = Some (bytesumN (flat_map pbytes ((8, c_begin c) :: (9, itoa_N (encoded_len c hn bn tn)) :: P hn ++ P bn ++ P tn))) /\
    csv = fmt_chksum (bytesumN (flat_map pbytes ((8, c_begin c) :: (9, itoa_N (encoded_len c hn bn tn)) :: P hn ++ P bn ++ P tn))).
Proof.
  intros [Rint Rstr] Eh Eb Et T8 T9 T10 Hbeg Hbl1000 Hpv Hh10 H89 Uh Ub Ut Hlen.
  set (h0 := set_value (m_hdr m) Common_MsgType (m_type m)) in *.
  set (L := encoded_len c hn bn tn) in *.
  destruct (map_find 8 (mb_fields h0)) as [bsv|] eqn:E8; [|discriminate].
  destruct (map_find 9 (mb_fields h0)) as [v9|] eqn:E9; [|discriminate].
  apply list_eqb_eq in H89.
  assert (Hbody : flat_map nbytes hn ++ flat_map nbytes bn ++ flat_map nbytes tn = flat_map pbytes (P hn ++ P bn ++ P tn)).
  { rewrite !flat_map_app, !nodes_bytes_pairs. reflexivity. }
  assert (HL : lenN (flat_map pbytes (P hn ++ P bn ++ P tn)) = L).
  { rewrite <- Hbody, !lenN_app. unfold L, encoded_len. lia. }
  set (prep := [(8, c_begin c); (9, itoa_N L)]).
  assert (Hpre : Forall pv prep).
  { constructor; [exact Hbeg|]. constructor; [apply digits_val_ok, itoa_digits|constructor]. }
  set (mem := flat_map pbytes (prep ++ P hn ++ P bn ++ P tn)).
  assert (Hsmall : small_bytes mem) by (apply pairs_small, Forall_app; split; assumption).
  (* the checksum *)
  pose proof (c07_nolen_lemma (map Z.of_N mem) (Z.of_N (lenN mem)) 0 (small_bytes_ok _ Hsmall)) as Hck.
  assert (Hlm : Z.of_N (lenN mem) = Z.of_nat (length (map Z.of_N mem))) by (rewrite map_length, lenN_length; lia).
  specialize (Hck ltac:(lia) ltac:(lia)).
  assert (H64 : (Z.of_N (lenN mem) < W64)%Z).
  { unfold mem. rewrite flat_map_app, lenN_app, HL. unfold prep. cbn [flat_map]. rewrite app_nil_r, lenN_app.
    unfold pbytes. cbn [fst snd]. rewrite !lenN_app. cbn [lenN]. rewrite !lenN_app. cbn [lenN].
    rewrite (itoa_small 8), (itoa_small 9) by lia. cbn [lenN]. rewrite len_digits_itoa by assumption.
    unfold W64. unfold len_digits. repeat destruct (_ <? _); lia. }
  specialize (Hck H64).
  destruct (calc_chksum (map Z.of_N mem) (Z.of_N (lenN mem)) 0 (-1)) as [[ck hull]|] eqn:Eck; [|discriminate].
  cbn [c07_ok] in Hck. apply andb_prop in Hck. destruct Hck as [Hck _]. apply Z.eqb_eq in Hck.
  assert (Hckv : Z.to_N ck = bytesumN mem).
  { rewrite Hck. unfold c07_spec, bytesumN, range_len, sub. cbn [Z.eqb]. rewrite Z.sub_0_r. cbn [Z.to_nat skipn].
    cbn [Pos.eqb]. rewrite Hlm, Nat2Z.id, firstn_all. reflexivity. }
  assert (Hck256 : Z.to_N ck < 256).
  { rewrite Hckv. unfold bytesumN. pose proof (Z.mod_pos_bound (bytesum (map Z.of_N mem)) 256 ltac:(lia)). lia. }
  destruct (fmt_chksum_spec (Z.to_N ck) Hck256) as (Hcd & Hcl & Hcv).
  exists (fmt_chksum (Z.to_N ck)). eexists. split; [|split; [exact Hcd|split; [exact Hcl|split; [rewrite Hcv, Hckv; reflexivity|rewrite Hckv; reflexivity]]]].
  unfold msg_encode, msg_encode_parts. fold h0.
  rewrite (mb_encode_tree c h0 hn Eh), (mb_encode_tree c _ bn Eb), (mb_encode_tree c _ tn Et).
  rewrite Uh, Ub, Ut, !app_nil_r. cbn [bind].
  change Common_BeginString with 8. change Common_BodyLength with 9. change Common_CheckSum with 10.
  rewrite E8. rewrite fields_clear, E9.
  unfold has_field in Hh10. destruct (map_find 10 (mb_fields (m_trl m))) as [v10|] eqn:Ev10; [|discriminate].
  rewrite Hbody. rewrite HL.
  rewrite (part_type_is_ty c _ 8 ft_string T8).
  assert (Hbl : itoa_Z (to_i32 (Z.of_N L)) = itoa_N L).
  { unfold to_i32, two32, two31. rewrite Z.mod_small by lia.
    replace (Z.of_N L <? 2147483648)%Z with true by (symmetry; apply Z.ltb_lt; lia).
    unfold itoa_Z. replace (Z.of_N L <? 0)%Z with false by (symmetry; apply Z.ltb_ge; lia). rewrite N2Z.id. reflexivity. }
  rewrite Hbl.
  unfold field_bytes. rewrite H89.
  rewrite (Rint _ L (part_type_int c _ 9 T9)) by lia.
  set (pre := (itoa_N 8 ++ EQC :: c_begin c ++ [SOH]) ++ itoa_N 9 ++ EQC :: itoa_N L ++ [SOH]).
  assert (Hprelen : lenN pre = preamble_sz c + len_digits L).
  { unfold pre, preamble_sz. rewrite !lenN_app. cbn [lenN]. rewrite !lenN_app. cbn [lenN].
    rewrite (itoa_small 8), (itoa_small 9) by lia. cbn [lenN]. rewrite len_digits_itoa by assumption. lia. }
  rewrite Hprelen, N.eqb_refl. cbn [negb].
  assert (Hmem : pre ++ flat_map pbytes (P hn ++ P bn ++ P tn) = mem).
  { unfold mem, prep, pre. cbn [app flat_map].
    change (pbytes (8, c_begin c)) with (itoa_N 8 ++ EQC :: c_begin c ++ [SOH]).
    change (pbytes (9, itoa_N L)) with (itoa_N 9 ++ EQC :: itoa_N L ++ [SOH]). rewrite <- !app_assoc. reflexivity. }
  rewrite Hmem, Eck. cbn [bind].
  rewrite (part_type_is_ty c _ 10 ft_string T10), Rstr.
  f_equal. f_equal. unfold all_pairs. cbn [flat_map].
  rewrite (flat_map_app pbytes (P hn ++ P bn ++ P tn) [(10, fmt_chksum (Z.to_N ck))]). cbn [flat_map]. rewrite app_nil_r.
  unfold pre, pbytes. cbn [fst snd]. rewrite <- !app_assoc. reflexivity.
Qed.

Lemma encode_shape c m hn bn tn md t10 :
  render_ok c ->
  tree_of c (set_value (m_hdr m) Common_MsgType (m_type m)) = Some hn ->
  tree_of c (m_body m) = Some bn -> tree_of c (m_trl m) = Some tn ->
  find_trait (g_traits (c_trailer c)) 10 = Some t10 -> msg_def c hn = Some md ->
  wf_ctx c md = true ->
  wf_nodes (c_header c) 2 hn = true -> wf_nodes (md_meta md) 0 bn = true -> wf_nodes (c_trailer c) 0 tn = true ->
  has_field (m_trl m) 10 = true ->
  match map_find 8 (mb_fields (set_value (m_hdr m) Common_MsgType (m_type m))),
        map_find 9 (mb_fields (set_value (m_hdr m) Common_MsgType (m_type m))) with
  | Some bsv, Some _ => list_eqb (c_render c ft_string bsv) (c_begin c)
  | _, _ => false
  end = true ->
  mb_unknown (set_value (m_hdr m) Common_MsgType (m_type m)) = [] -> mb_unknown (m_body m) = [] -> mb_unknown (m_trl m) = [] ->
  encoded_len c hn bn tn < 10000000 ->
  exists csv m',
    msg_encode c m = Ok (flat_map pbytes (all_pairs c hn bn tn (encoded_len c hn bn tn) csv), m') /\
    all_digits csv /\ lenN csv = 3 /\
    dec_val csv 0 = Some (bytesumN (flat_map pbytes ((8, c_begin c) :: (9, itoa_N (encoded_len c hn bn tn)) :: P hn ++ P bn ++ P tn))) /\
    csv = fmt_chksum (bytesumN (flat_map pbytes ((8, c_begin c) :: (9, itoa_N (encoded_len c hn bn tn)) :: P hn ++ P bn ++ P tn))).
Proof.
  intros HR Eh Eb Et E10 Emd Hctx HwH HwB HwT Hh10 H89 Uh Ub Ut Hlen.
  unfold wf_ctx in Hctx. split_ands.
  assert (Hbeg : val_ok (c_begin c) = true).
  { unfold val_ok. rewrite forallb_forall. intros x Hx.
    match goal with H : forallb (fun b => b <? 256) (c_begin c) = true |- _ => rewrite forallb_forall in H; rewrite (H x Hx) end.
    match goal with H : forallb (fun b => negb (b =? SOH)) (c_begin c) = true |- _ => rewrite forallb_forall in H; rewrite (H x Hx) end.
    reflexivity. }
  apply (encode_shape_gen c m hn bn tn HR Eh Eb Et); try assumption.
  - apply N.ltb_lt. assumption.
  - apply Forall_app. split; [eapply wf_pairs; [apply le_n|exact HwH]|].
    apply Forall_app. split; [eapply wf_pairs; [apply le_n|exact HwB]|eapply wf_pairs; [apply le_n|exact HwT]].
Qed.

(* ---------------------------------------------------------------- the validator accepts it *)
Lemma msg_def_shape c hn md : msg_def c hn = Some md ->
  exists rv35 hn', hn = TN 3 35 rv35 [] :: hn' /\ find_msg (c_msgs c) rv35 = Some md.
Proof.
  unfold msg_def. destruct hn as [|[k f rv els] hn']; [discriminate|].
  destruct ((k =? 3) && (f =? 35) && match els with [] => true | _ => false end) eqn:E; [|discriminate].
  apply andb_prop in E. destruct E as [E E3]. apply andb_prop in E. destruct E as [E1 E2].
  apply N.eqb_eq in E1, E2. subst. destruct els; [|discriminate].
  intros H. exists rv, hn'. split; [reflexivity|assumption].
Qed.

Lemma head_in_P_app g last ns outer rest : wf_nodes g last ns = true -> ns <> [] ->
  (forall x, In x (tags g) -> In x outer) -> head_in outer (P ns ++ rest).
Proof.
  destruct ns as [|x ns]; [congruence|]. intros H _ Hsub. pose proof (node_tag_in g last x ns H) as Hin.
  destruct x as [k f rv els]. rewrite P_cons. cbn [npairs app head_in]. apply Hsub. exact Hin.
Qed.

Lemma wire_ok_shape c hn bn tn md t10 csv :
  find_trait (g_traits (c_trailer c)) 10 = Some t10 -> msg_def c hn = Some md ->
  wf_ctx c md = true ->
  wf_nodes (c_header c) 2 hn = true -> wf_nodes (md_meta md) 0 bn = true -> wf_nodes (c_trailer c) 0 tn = true ->
  last_key 0 tn < t_pos t10 ->
  encoded_len c hn bn tn < 10000000 ->
  all_digits csv -> lenN csv = 3 ->
  dec_val csv 0 = Some (bytesumN (flat_map pbytes ((8, c_begin c) :: (9, itoa_N (encoded_len c hn bn tn)) :: P hn ++ P bn ++ P tn))) ->
  wire_ok c (flat_map pbytes (all_pairs c hn bn tn (encoded_len c hn bn tn) csv)) = true.
Proof.
  intros E10 Emd Hctx HwH HwB HwT Hlk Hlen Hcd Hcl Hcv.
  set (L := encoded_len c hn bn tn) in *.
  destruct (msg_def_shape c hn md Emd) as (rv35 & hn' & -> & Hfm).
  unfold wf_ctx in Hctx. split_ands.
  (* values *)
  assert (Hbeg : val_ok (c_begin c) = true).
  { unfold val_ok. rewrite forallb_forall. intros x Hx.
    match goal with H : forallb (fun b => b <? 256) (c_begin c) = true |- _ => rewrite forallb_forall in H; rewrite (H x Hx) end.
    match goal with H : forallb (fun b => negb (b =? SOH)) (c_begin c) = true |- _ => rewrite forallb_forall in H; rewrite (H x Hx) end.
    reflexivity. }
  set (mid := P (TN 3 35 rv35 [] :: hn') ++ P bn ++ P tn) in *.
  assert (Hpv : Forall pv mid).
  { apply Forall_app. split; [eapply wf_pairs; [apply le_n|exact HwH]|].
    apply Forall_app. split; [eapply wf_pairs; [apply le_n|exact HwB]|eapply wf_pairs; [apply le_n|exact HwT]]. }
  assert (Hall : Forall pv (all_pairs c (TN 3 35 rv35 [] :: hn') bn tn L csv)).
  { unfold all_pairs. constructor; [exact Hbeg|]. constructor; [apply digits_val_ok, itoa_digits|].
    apply Forall_app. split; [exact Hpv|]. constructor; [apply digits_val_ok; exact Hcd|constructor]. }
  unfold wire_ok, tokenize. rewrite tokenize_flat.
  2:{ eapply Forall_impl; [|exact Hall]. intros p Hp. apply val_ok_no_soh. exact Hp. }
  apply andb_true_intro. split.
  - (* framing *)
    set (front := (8, c_begin c) :: (9, itoa_N L) :: mid).
    assert (Heq : all_pairs c (TN 3 35 rv35 [] :: hn') bn tn L csv = front ++ [(10, csv)]) by reflexivity.
    assert (HL : lenN (flat_map pbytes mid) = L).
    { unfold mid. rewrite !flat_map_app, <- !nodes_bytes_pairs, !lenN_app. unfold L, encoded_len. lia. }
    assert (Hfront : lenN (flat_map pbytes front) = lenN (pbytes (8, c_begin c)) + lenN (pbytes (9, itoa_N L)) + L).
    { unfold front. cbn [flat_map]. rewrite !lenN_app, HL. lia. }
    assert (Hbytes : firstN (lenN (flat_map pbytes front)) (flat_map pbytes (all_pairs c (TN 3 35 rv35 [] :: hn') bn tn L csv))
                     = flat_map pbytes front).
    { rewrite Heq, flat_map_app. apply firstN_app_exact. }
    pose proof (last_tok_offs front (10, csv) 0) as Hlast. rewrite <- Heq in Hlast.
    set (bytes := flat_map pbytes (all_pairs c (TN 3 35 rv35 [] :: hn') bn tn L csv)) in *.
    assert (Heq2 : all_pairs c (TN 3 35 rv35 [] :: hn') bn tn L csv =
                   (8, c_begin c) :: (9, itoa_N L) :: (35, rv35) :: (P hn' ++ P bn ++ P tn) ++ [(10, csv)]) by reflexivity.
    unfold frame_ok. rewrite Heq2 in Hlast |- *. rewrite !offs_cons in Hlast |- *. cbv iota. rewrite Hlast.
    cbn [fst snd k_tag k_val k_start k_end N.eqb Pos.eqb andb].
    rewrite list_eqb_refl. cbn [andb]. rewrite decimal_itoa. rewrite Hfront.
    replace (0 + lenN (pbytes (8, c_begin c)) + lenN (pbytes (9, itoa_N L)) <=?
             0 + (lenN (pbytes (8, c_begin c)) + lenN (pbytes (9, itoa_N L)) + L)) with true by (symmetry; apply N.leb_le; lia).
    replace (L =? 0 + (lenN (pbytes (8, c_begin c)) + lenN (pbytes (9, itoa_N L)) + L) -
                  (0 + lenN (pbytes (8, c_begin c)) + lenN (pbytes (9, itoa_N L)))) with true by (symmetry; apply N.eqb_eq; lia).
    cbn [andb]. rewrite Hcl. cbn [N.eqb Pos.eqb andb]. rewrite Hcv.
    apply N.eqb_eq. f_equal. rewrite N.add_0_l, <- Hfront, Hbytes. reflexivity.
  - (* structure *)
    set (hfull := TN 1 8 (c_begin c) [] :: TN 2 9 (itoa_N L) [] :: TN 3 35 rv35 [] :: hn').
    set (tfull := tn ++ [TN (t_pos t10) 10 csv []]).
    assert (Hsplit : all_pairs c (TN 3 35 rv35 [] :: hn') bn tn L csv = P hfull ++ P bn ++ P tfull).
    { unfold all_pairs, hfull, tfull. rewrite P_app. cbn [flat_map npairs app]. rewrite ?app_nil_r.
      rewrite <- !app_assoc. reflexivity. }
    assert (HwHf : wf_nodes (c_header c) 0 hfull = true).
    { assert (P8 : plain_at (c_header c) 8 1 = true) by assumption.
      assert (P9 : plain_at (c_header c) 9 2 = true) by assumption.
      unfold hfull. cbn [wf_nodes n_key]. rewrite (plain_node _ 8 1 _ P8 Hbeg).
      rewrite (plain_node _ 9 2 (itoa_N L) P9 (digits_val_ok _ (itoa_digits L))).
      cbn [N.ltb N.compare Pos.compare Pos.compare_cont andb]. exact HwH. }
    assert (Hw10 : wf_node (c_trailer c) (TN (t_pos t10) 10 csv []) = true).
    { rewrite wf_node_unfold, E10. rewrite N.eqb_refl, (digits_val_ok _ Hcd). cbn [andb].
      match goal with H : match find_trait (g_traits (c_trailer c)) 10 with _ => _ end = true |- _ => rewrite E10 in H; apply andb_prop in H; destruct H as [Hng _] end.
      destruct (t_group t10); [discriminate|reflexivity]. }
    assert (HwTf : wf_nodes (c_trailer c) 0 tfull = true).
    { unfold tfull. apply wf_nodes_snoc; [exact HwT|apply N.ltb_lt; exact Hlk|exact Hw10]. }
    assert (Htne : tfull <> []) by (unfold tfull; intros Hc; apply app_eq_nil in Hc; destruct Hc; discriminate).
    unfold struct_ok.
    assert (Heq2 : all_pairs c (TN 3 35 rv35 [] :: hn') bn tn L csv =
                   (8, c_begin c) :: (9, itoa_N L) :: (35, rv35) :: (P hn' ++ P bn ++ P tn) ++ [(10, csv)]) by reflexivity.
    remember (offs 0 (all_pairs c (TN 3 35 rv35 [] :: hn') bn tn L csv)) as ts eqn:Ets.
    assert (Hlen_ts : length ts = (length (P hfull) + length (P bn) + length (P tfull))%nat).
    { rewrite Ets, offs_length, Hsplit, !app_length. lia. }
    assert (Hts3 : exists t8 t9 t35 l1, ts = t8 :: t9 :: t35 :: l1 /\ k_val t35 = rv35).
    { rewrite Ets, Heq2, !offs_cons. do 4 eexists. split; reflexivity. }
    destruct Hts3 as (t8 & t9 & t35 & l1 & Hts3 & Hv35). rewrite Hts3. rewrite Hv35, Hfm. rewrite <- Hts3.
    set (fuel := S (S (S (length ts + length ts + length ts)))).
    (* header *)
    assert (WmH : wf_meta (tags (md_meta md) ++ tags (c_trailer c)) (c_header c) = true) by assumption.
    assert (WmB : wf_meta (tags (c_header c) ++ tags (c_trailer c)) (md_meta md) = true) by assumption.
    assert (WmT : wf_meta (tags (c_header c) ++ tags (md_meta md)) (c_trailer c) = true) by assumption.
    assert (bHB : disjN (tags (c_header c)) (tags (md_meta md)) = true) by assumption.
    assert (bHT : disjN (tags (c_header c)) (tags (c_trailer c)) = true) by assumption.
    assert (bBT : disjN (tags (md_meta md)) (tags (c_trailer c)) = true) by assumption.
    assert (DHB : disj (tags (c_header c)) (tags (md_meta md))) by exact (disjN_spec _ _ bHB).
    assert (DHT : disj (tags (c_header c)) (tags (c_trailer c))) by exact (disjN_spec _ _ bHT).
    assert (DBT : disj (tags (md_meta md)) (tags (c_trailer c))) by exact (disjN_spec _ _ bBT).
    assert (HheadT : forall outer, (forall x, In x (tags (c_trailer c)) -> In x outer) -> head_in outer (P tfull)).
    { intros outer Hsub. rewrite <- (app_nil_r (P tfull)). apply (head_in_P_app (c_trailer c) 0 tfull); [exact HwTf|exact Htne|exact Hsub]. }
    assert (RH : rest_ok (c_header c) (tags (md_meta md) ++ tags (c_trailer c)) (last_key 0 hfull) (P bn ++ P tfull)).
    { apply rest_ok_of_head. destruct bn as [|xb bn'].
      - cbn [flat_map app]. apply HheadT. intros x Hx. apply in_or_app. right. exact Hx.
      - apply (head_in_P_app (md_meta md) 0 (xb :: bn')); [exact HwB|discriminate|].
        intros x Hx. apply in_or_app. left. exact Hx. }
    assert (RB : rest_ok (md_meta md) (tags (c_header c) ++ tags (c_trailer c)) (last_key 0 bn) (P tfull)).
    { apply rest_ok_of_head. apply HheadT. intros x Hx. apply in_or_app. right. exact Hx. }
    assert (FH : (2 * length (P hfull) + 1 <= fuel)%nat) by (unfold fuel; lia).
    assert (FB : (2 * length (P bn) + 1 <= fuel)%nat) by (unfold fuel; lia).
    assert (FT : (2 * length (P tfull) + 1 <= fuel)%nat) by (unfold fuel; lia).
    destruct (part_ok_nodes (length (P hfull)) (c_header c) (tags (md_meta md) ++ tags (c_trailer c)) hfull 0
                (P bn ++ P tfull) 0 fuel (le_n _) WmH (disj_app_r _ _ _ DHB DHT) HwHf RH FH) as [off1 Hp1].
    rewrite Ets, Hsplit, Hp1.
    destruct (part_ok_nodes (length (P bn)) (md_meta md) (tags (c_header c) ++ tags (c_trailer c)) bn 0
                (P tfull) off1 fuel (le_n _) WmB (disj_app_r _ _ _ (disj_sym _ _ DHB) DBT) HwB RB FB) as [off2 Hp2].
    rewrite Hp2.
    destruct (part_ok_nodes (length (P tfull)) (c_trailer c) (tags (c_header c) ++ tags (md_meta md)) tfull 0
                [] off2 fuel (le_n _) WmT (disj_app_r _ _ _ (disj_sym _ _ DHT) (disj_sym _ _ DBT)) HwTf I FT) as [off3 Hp3].
    rewrite app_nil_r in Hp3. rewrite Hp3. reflexivity.
Qed.

(* ---------------------------------------------------------------- the theorems *)
Theorem c02_wellformed_lemma c m :
  render_ok c -> wf_msg c m = true -> fresh m = true ->
  exists b m', msg_encode c m = Ok (b, m') /\ wire_ok c b = true.
Proof.
  intros HR Hwf _. unfold wf_msg in Hwf.
  destruct (tree_of c (set_value (m_hdr m) Common_MsgType (m_type m))) as [hn|] eqn:Eh; [|discriminate].
  destruct (tree_of c (m_body m)) as [bn|] eqn:Eb; [|discriminate].
  destruct (tree_of c (m_trl m)) as [tn|] eqn:Et; [|discriminate].
  destruct (find_trait (g_traits (c_trailer c)) 10) as [t10|] eqn:E10; [|discriminate].
  destruct (msg_def c hn) as [md|] eqn:Emd; [|discriminate].
  apply andb_prop in Hwf. destruct Hwf as [Hwf Hlen]. apply andb_prop in Hwf. destruct Hwf as [Hwf Hunk].
  apply andb_prop in Hwf. destruct Hwf as [Hwf H89]. apply andb_prop in Hwf. destruct Hwf as [Hwf Hh10].
  apply andb_prop in Hwf. destruct Hwf as [Hwf Hlk]. apply andb_prop in Hwf. destruct Hwf as [Hwf HwT].
  apply andb_prop in Hwf. destruct Hwf as [Hwf HwB]. apply andb_prop in Hwf. destruct Hwf as [Hctx HwH].
  apply N.ltb_lt in Hlen, Hlk.
  destruct (mb_unknown (set_value (m_hdr m) Common_MsgType (m_type m))) eqn:Uh; [|discriminate].
  destruct (mb_unknown (m_body m)) eqn:Ub; [|discriminate].
  destruct (mb_unknown (m_trl m)) eqn:Ut; [|discriminate].
  destruct (encode_shape c m hn bn tn md t10 HR Eh Eb Et E10 Emd Hctx HwH HwB HwT Hh10 H89 Uh Ub Ut Hlen)
    as (csv & m' & Henc & Hcd & Hcl & Hcv & _).
  exists (flat_map pbytes (all_pairs c hn bn tn (encoded_len c hn bn tn) csv)), m'. split; [exact Henc|].
  apply (wire_ok_shape c hn bn tn md t10 csv E10 Emd Hctx HwH HwB HwT Hlk Hlen Hcd Hcl Hcv).
Qed.

Lemma c02_second_encode_refuted_lemma :
  exists c m, render_ok c /\ wf_msg c m = true /\ fresh m = true /\
              wire_ok c (enc_bytes c m) = true /\ wire_ok c (enc_twice c m) = false.
Proof.
  exists ex_ctx, ex_hb. split; [apply render_default_ok; reflexivity|].
  repeat split; vm_compute; reflexivity.
Qed.

Lemma c02_no_delimiter_refuted_lemma :
  exists c m b m', render_ok c /\ fresh m = true /\ msg_encode c m = Ok (b, m') /\ wire_ok c b = false.
Proof.
  exists ex_ctx, ex_list_nofirst. eexists. eexists. split; [apply render_default_ok; reflexivity|].
  split; [vm_compute; reflexivity|]. split; [vm_compute; reflexivity|vm_compute; reflexivity].
Qed.

Lemma c02_nonvacuous_lemma :
  render_ok ex_ctx /\ wf_msg ex_ctx ex_list = true /\ fresh ex_list = true /\
  wire_ok ex_ctx (enc_bytes ex_ctx ex_list) = true.
Proof. split; [apply render_default_ok; reflexivity|]. repeat split; vm_compute; reflexivity. Qed.
