(* Proofs for property C02 (see Props/Properties_C02.v for the statements' meaning). *)
From Coq Require Import NArith ZArith List Bool Lia.
From F8 Require Import Codec.Bytes Codec.Meta Codec.Extract Codec.Decode Codec.Encode Codec.Render
                       Codec.Example C02.Spec_C02.
Import ListNotations.
Local Open Scope N_scope.

(* the bytes of a successful encode, [] otherwise (so that wire_ok is false) *)
Definition enc_bytes (c : ctx) (m : message) : list N :=
  match msg_encode c m with Ok (b, _) => b | _ => [] end.
Definition enc_twice (c : ctx) (m : message) : list N :=
  match msg_encode c m with Ok (_, m') => enc_bytes c m' | _ => [] end.

Lemma c02_second_encode_refuted_lemma :
  exists c m, wire_ok c (enc_bytes c m) = true /\ wire_ok c (enc_twice c m) = false.
Proof. exists ex_ctx, ex_hb. split; vm_compute; reflexivity. Qed.

Lemma c02_no_delimiter_refuted_lemma :
  exists c m b, msg_encode c m = Ok (b, snd (match msg_encode c m with Ok r => r | _ => ([], m) end))
                /\ wire_ok c b = false.
Proof.
  exists ex_ctx, ex_list_nofirst. eexists. split; [vm_compute; reflexivity | vm_compute; reflexivity].
Qed.

Lemma c02_nonvacuous_lemma : wire_ok ex_ctx (enc_bytes ex_ctx ex_list) = true.
Proof. vm_compute. reflexivity. Qed.
