(* Property C02 "Encoded messages are well-formed FIX on the wire" as an executable predicate
   on the encoder's OUTPUT BYTES and the schema metadata.  Written from the property text: an
   independent tokenizer and validator; it uses none of the codec model's functions (only the
   metadata types of Codec/Meta.v and the byte-sum specification of C07).

   wire_ok ctx bytes = true iff
     (a) the bytes are a sequence of tokens  digits '=' value SOH  (tag without leading zero);
     (b) the first three tokens have tags 8, 9, 35, the last one has tag 10;
     (c) the value of 9 is the decimal count of the bytes between the end of the 9-token and
         the start of the 10-token;
     (d) the value of 10 is three digits = (sum of all bytes before the 10-token) mod 256;
     (e) the token sequence is: header tokens, then body tokens (the message type named by
         35), then trailer tokens, nothing else; inside each part the tags belong to that
         part's table and appear in strictly increasing schema position (the position number
         of the trait, whether or not its "position" flag bit is set); a count field with
         value n > 0 of a repeating group is followed by exactly n elements, each starting with
         the group's position-1 field and continuing in strictly increasing position of the
         group's table (recursively); a count field with value 0 is followed by no element. *)
From Coq Require Import NArith ZArith List Bool.
From F8 Require Import Codec.Bytes Codec.Meta C07.Spec_C07.
Import ListNotations.
Local Open Scope N_scope.

Record tok := mkTok { k_tag : N; k_val : list N; k_start : N; k_end : N }.

(* (a) one left-to-right pass; intag = still reading the tag *)
Fixpoint scan (l : list N) (intag : bool) (off start tag : N) (ndig : N) (lead0 : bool)
              (val : list N) : option (list tok) :=
  match l with
  | [] => if intag && (ndig =? 0) then Some [] else None
  | c :: r =>
    if intag then
      if is_digit c then
        scan r true (off + 1) start (tag * 10 + (c - 48)) (ndig + 1)
             (if ndig =? 0 then c =? 48 else lead0) val
      else if (c =? EQC) && negb (ndig =? 0) && negb (lead0 && negb (ndig =? 1))
      then scan r false (off + 1) start tag ndig lead0 []
      else None
    else
      if c =? SOH then
        match scan r true (off + 1) (off + 1) 0 0 false [] with
        | Some ts => Some (mkTok tag (rev val) start (off + 1) :: ts)
        | None => None
        end
      else scan r false (off + 1) start tag ndig lead0 (c :: val)
  end.
Definition tokenize (l : list N) : option (list tok) := scan l true 0 0 0 0 false [].

(* canonical decimal: digits only, no leading zero unless "0" *)
Fixpoint dec_val (l : list N) (acc : N) : option N :=
  match l with
  | [] => Some acc
  | c :: r => if is_digit c then dec_val r (acc * 10 + (c - 48)) else None
  end.
Definition decimal (l : list N) : option N :=
  match l with
  | [] => None
  | [c] => dec_val l 0
  | c :: _ => if c =? 48 then None else dec_val l 0
  end.

(* (e) one part / one group element: tokens whose tags are in [g]'s table, strictly increasing
   schema position, groups expanded.  Returns the remaining tokens.  fuel >= number of tokens. *)
Definition first_tag (g : gmeta) : option N :=
  match filter (fun t => t_pos t =? 1) (g_traits g) with
  | t :: _ => Some (t_fnum t)
  | [] => None
  end.

Fixpoint part_ok (fuel : nat) (g : gmeta) (lastpos : N) (ts : list tok) : option (list tok) :=
  match fuel with O => None | S fuel' =>
  match ts with
  | [] => Some []
  | t :: rest =>
    match find_trait (g_traits g) (k_tag t) with
    | None => Some ts                              (* not of this part: the part ends here *)
    | Some tr =>
      if t_pos tr <=? lastpos then Some ts      (* not increasing: ends here (next element) *)
      else if t_group tr then
        match decimal (k_val t), find_sub (g_subs g) (k_tag t) with
        | Some n, Some sg =>
          match elems_ok fuel' sg n rest with
          | Some rest' => part_ok fuel' g (t_pos tr) rest'
          | None => None
          end
        | _, _ => None
        end
      else part_ok fuel' g (t_pos tr) rest
    end
  end end
with elems_ok (fuel : nat) (sg : gmeta) (n : N) (ts : list tok) : option (list tok) :=
  match fuel with O => None | S fuel' =>
  if n =? 0 then Some ts
  else match ts, first_tag sg with
  | t :: rest, Some ft =>
    if k_tag t =? ft then
      (* the element = its first field (position 1) then the rest in increasing position *)
      match part_ok fuel' sg 0 ts with
      | Some rest' =>
          (* progress: the first field was consumed *)
          if lenN rest' <? lenN ts then elems_ok fuel' sg (n - 1) rest' else None
      | None => None
      end
    else None
  | _, _ => None
  end end.

Definition tags_of (ts : list tok) : list N := map k_tag ts.
Definition bytesumN (l : list N) : N := Z.to_N (bytesum (map Z.of_N l) mod 256).

Fixpoint last_tok (ts : list tok) : option tok :=
  match ts with [] => None | [t] => Some t | _ :: r => last_tok r end.

(* (b) (c) (d): framing *)
Definition frame_ok (c : ctx) (bytes : list N) (ts : list tok) : bool :=
  match ts, last_tok ts with
  | t8 :: t9 :: t35 :: _, Some t10 =>
    (k_tag t8 =? 8) && (k_tag t9 =? 9) && (k_tag t35 =? 35) && (k_tag t10 =? 10) &&
    list_eqb (k_val t8) (c_begin c) &&
    match decimal (k_val t9) with
    | Some n => (k_end t9 <=? k_start t10) && (n =? k_start t10 - k_end t9)
    | None => false
    end &&
    (lenN (k_val t10) =? 3) &&
    match dec_val (k_val t10) 0 with
    | Some v => v =? bytesumN (firstN (k_start t10) bytes)
    | None => false
    end
  | _, _ => false
  end.

(* (e): header, body, trailer in turn, nothing left *)
Definition struct_ok (c : ctx) (ts : list tok) : bool :=
  match ts with
  | _ :: _ :: t35 :: _ =>
    match find_msg (c_msgs c) (k_val t35) with
    | None => false
    | Some md =>
      let fuel := S (S (S (length ts + length ts + length ts))) in
      match part_ok fuel (c_header c) 0 ts with
      | Some r1 =>
        match part_ok fuel (md_meta md) 0 r1 with
        | Some r2 =>
          match part_ok fuel (c_trailer c) 0 r2 with
          | Some [] => true
          | _ => false
          end
        | None => false
        end
      | None => false
      end
    end
  | _ => false
  end.

Definition wire_ok (c : ctx) (bytes : list N) : bool :=
  match tokenize bytes with
  | None => false
  | Some ts => frame_ok c bytes ts && struct_ok c ts
  end.
