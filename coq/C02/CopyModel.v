(* MessageBase::copy_legal(to, force = false) of runtime/message.cpp, as C02 needs it (copy_legal as
   the insertion path of the XCOPY cases).  Transcription, no proofs; C11 has the full model with
   force / move / clone and the theorems about them (coq/C11/Copy.v) -- this file only avoids a
   build dependency on another property's directory.
     for (pp : _fp.get_presence())                       -- the SOURCE's trait table, ascending fnum
       if (pp.present && to->_fp.has(fnum) && !to->_fp.get(fnum))
         { if (pp.group && (gb = find_group(fnum)))
             { gb1 = to->find_add_group(fnum); for (qq : gb->_msgs) { grc = gb1->create_group(true); qq->copy_legal(grc); *gb1 += grc; } }
           to->add_field(get_field(fnum)->copy()); } *)
From Coq Require Import NArith ZArith List Bool.
From F8 Require Import Codec.Bytes Codec.Meta.
Import ListNotations.
Local Open Scope N_scope.

Definition site_copy_null : N := 21.   (* gb1 == nullptr (target has no such group object) / get_field == nullptr *)

Definition legal_absent (to : mbase) (f : N) : bool :=
  match find_trait (mb_fp to) f with Some tr => negb (t_present tr) | None => false end.

Definition elem_copier := mbase -> res mbase.

Fixpoint copy_elems (sg : gmeta) (f : N) (cs : list elem_copier) (to : mbase) : res mbase :=
  match cs with
  | [] => Ok to
  | cq :: r => bind (cq (create_group sg true)) (fun grc => copy_elems sg f r (group_add to f grc))
  end.

Definition copy_step (fields : list (N * list N)) (gcopy : list (N * list elem_copier)) (pp : trait) (to : mbase) : res mbase :=
  let f := t_fnum pp in
  if t_present pp && legal_absent to f then
    bind (if t_group pp then
            match map_find f gcopy with
            | None => Ok to                                  (* find_group(fnum) == nullptr in the source *)
            | Some cs =>
              (* since /repo 6620c2f: gb1 = to->find_add_group(fnum) -- creates the target's group when
                 its deep constructor did not (a null class is still a null dereference) *)
              match find_add_group to f with
              | Ok (to1, sg) => copy_elems sg f cs to1
              | Exc e => Exc e | OOB s => OOB s | Diverge => Diverge | Fuel => Fuel
              end
            end
          else Ok to)
    (fun to1 => match map_find f fields with
                | None => OOB site_copy_null
                | Some v => add_field to1 f v
                end)
  else Ok to.

Fixpoint fold_steps {A} (step : A -> mbase -> res mbase) (l : list A) (to : mbase) : res mbase :=
  match l with [] => Ok to | x :: r => bind (step x to) (fold_steps step r) end.

Fixpoint copy_legal (src : mbase) {struct src} : mbase -> res mbase :=
  match src with
  | MB fp _ fields _ groups _ =>
    let gcopy :=
      (fix gl (gs : list (N * list mbase)) : list (N * list elem_copier) :=
         match gs with
         | [] => []
         | (f, els) :: r =>
           (f, (fix el (es : list mbase) : list elem_copier :=
                  match es with [] => [] | e :: r' => copy_legal e :: el r' end) els) :: gl r
         end) groups in
    fun to => fold_steps (copy_step fields gcopy) fp to
  end.
