(* Whatever the insertion order: MessageBase::add_field keeps _pos sorted by key, and every entry
   sits under the schema position of its field (getPos of its trait). *)
From Coq Require Import NArith ZArith List Bool Lia.
From F8 Require Import Codec.Bytes Codec.Meta.
Import ListNotations.
Local Open Scope N_scope.

Fixpoint sortedb (l : list N) : bool :=
  match l with
  | a :: ((b :: _) as r) => (a <=? b) && sortedb r
  | _ => true
  end.
Definition keys {A} (l : list (N * A)) : list N := map fst l.

(* every _pos entry is filed under getPos of its field's trait (as an unsigned short) *)
Definition filed_ok (fp : list trait) (pos : list (N * (N * list N))) : Prop :=
  forall k f v, In (k, (f, v)) pos -> exists tr, find_trait fp f = Some tr /\ k = pos_key (getPos tr).
Definition pos_inv (m : mbase) : Prop := sortedb (keys (mb_pos m)) = true /\ filed_ok (mb_fp m) (mb_pos m).

Lemma sortedb_cons a l : sortedb (a :: l) = true <-> (match l with b :: _ => a <= b | [] => True end) /\ sortedb l = true.
Proof.
  destruct l as [|b r]; cbn [sortedb]; [tauto|]. rewrite andb_true_iff, N.leb_le. tauto.
Qed.

Lemma insert_sorted {A} (x : A) p : forall l, sortedb (keys l) = true -> sortedb (keys (pos_insert_k p x l)) = true.
Proof.
  induction l as [|[q y] l IH]; intros H; cbn [pos_insert_k]; [reflexivity|].
  destruct (p <? q) eqn:E.
  - cbn [keys map fst]. apply sortedb_cons. split; [apply N.ltb_lt in E; lia|exact H].
  - apply N.ltb_ge in E. cbn [keys map fst] in *. apply sortedb_cons in H. destruct H as [Hh Ht].
    apply sortedb_cons. split; [|apply IH; exact Ht].
    destruct l as [|[q2 y2] l2]; cbn [pos_insert_k map fst]; [exact E|].
    destruct (p <? q2); cbn [map fst]; [exact E|exact Hh].
Qed.

Lemma insert_in {A} (x : A) p : forall l e, In e (pos_insert_k p x l) -> e = (p, x) \/ In e l.
Proof.
  induction l as [|[q y] l IH]; intros e H; cbn [pos_insert_k] in H.
  - destruct H as [H|[]]; left; symmetry; exact H.
  - destruct (p <? q).
    + destruct H as [H|H]; [left; symmetry; exact H|right; exact H].
    + destruct H as [H|H]; [right; left; exact H|]. destruct (IH e H) as [H1|H1]; [left; exact H1|right; right; exact H1].
Qed.

Lemma sorted_head_le : forall (l : list N) a, sortedb (a :: l) = true -> forall b, In b l -> a <= b.
Proof.
  induction l as [|x l IH]; intros a H b Hb; [destruct Hb|]. apply sortedb_cons in H. destruct H as [Hh Ht].
  destruct Hb as [<-|Hb]; [exact Hh|]. specialize (IH x Ht b Hb). lia.
Qed.
Lemma sorted_delete : forall (l1 : list N) x l2, sortedb (l1 ++ x :: l2) = true -> sortedb (l1 ++ l2) = true.
Proof.
  induction l1 as [|a l1 IH]; intros x l2 H; cbn [app] in *.
  - apply sortedb_cons in H. apply H.
  - pose proof (sorted_head_le _ _ H) as Hle. apply sortedb_cons in H. destruct H as [_ Ht].
    apply sortedb_cons. split; [|apply (IH x l2 Ht)].
    destruct (l1 ++ l2) as [|b r] eqn:E; [exact I|]. apply Hle.
    assert (Hin : In b (l1 ++ l2)) by (rewrite E; left; reflexivity).
    apply in_app_or in Hin. apply in_or_app. destruct Hin as [Hin|Hin]; [left; exact Hin|right; right; exact Hin].
Qed.
Lemma remove_split f : forall l k l', pos_remove f l = (k, l') ->
  l' = l \/ exists l1 x l2, l = l1 ++ x :: l2 /\ l' = l1 ++ l2.
Proof.
  induction l as [|[q [g v]] l IH]; intros k l' H; cbn [pos_remove] in H.
  - injection H as _ <-. left. reflexivity.
  - destruct (g =? f).
    + injection H as _ <-. right. exists [], (q, (g, v)), l. split; reflexivity.
    + destruct (pos_remove f l) as [k0 r'] eqn:E. injection H as _ <-.
      destruct (IH k0 r' eq_refl) as [->|(l1 & x & l2 & -> & ->)]; [left; reflexivity|].
      right. exists ((q, (g, v)) :: l1), x, l2. split; reflexivity.
Qed.
Lemma remove_sorted f l k l' : pos_remove f l = (k, l') -> sortedb (keys l) = true -> sortedb (keys l') = true.
Proof.
  intros H Hs. destruct (remove_split f l k l' H) as [->|(l1 & x & l2 & -> & ->)]; [exact Hs|].
  unfold keys in *. rewrite map_app in *. cbn [map] in Hs. apply (sorted_delete _ _ _ Hs).
Qed.

Lemma remove_in f : forall l k l' e, pos_remove f l = (k, l') -> In e l' -> In e l.
Proof.
  induction l as [|[q [g v]] l IH]; intros k l' e H He; cbn [pos_remove] in H.
  - injection H as _ <-. destruct He.
  - destruct (g =? f).
    + injection H as _ <-. right. exact He.
    + destruct (pos_remove f l) as [k0 r'] eqn:E. injection H as _ <-.
      destruct He as [He|He]; [left; exact He|right; apply (IH k0 r' e eq_refl He)].
Qed.
Lemma remove_key f : forall l k l', pos_remove f l = (Some k, l') -> exists v, In (k, (f, v)) l.
Proof.
  induction l as [|[q [g v]] l IH]; intros k l' H; cbn [pos_remove] in H; [discriminate|].
  destruct (g =? f) eqn:E.
  - injection H as <- _. apply N.eqb_eq in E. subst g. exists v. left. reflexivity.
  - destruct (pos_remove f l) as [k0 r'] eqn:E1. injection H as -> _. destruct (IH k r' eq_refl) as [v0 Hv]. exists v0. right. exact Hv.
Qed.

Lemma find_trait_upd_present fp f' f tr : find_trait fp f = Some tr ->
  exists tr', find_trait (upd_trait (set_present true) fp f') f = Some tr' /\ getPos tr' = getPos tr.
Proof.
  induction fp as [|x r IH]; cbn [find_trait upd_trait]; [discriminate|].
  destruct (t_fnum x =? f') eqn:E'.
  - cbn [find_trait]. change (t_fnum (set_present true x)) with (t_fnum x).
    destruct (t_fnum x =? f); [intros H; injection H as <-; eexists; split; reflexivity|intros H; exists tr; split; [exact H|reflexivity]].
  - cbn [find_trait]. destruct (t_fnum x =? f); [intros H; exists tr; split; [exact H|reflexivity]|exact IH].
Qed.

Theorem add_field_keeps_order m f v m' : pos_inv m -> add_field m f v = Ok m' -> pos_inv m'.
Proof.
  intros [Hs Hf]. unfold add_field. destruct (find_trait (mb_fp m) f) as [tr|] eqn:Etr; [|discriminate].
  destruct m as [fp subs fl pos groups unk]. cbn [mb_fp mb_pos] in *.
  assert (Hfiled : forall pos', (forall e, In e pos' -> e = (pos_key (getPos tr), (f, v)) \/ In e pos) ->
                   filed_ok (upd_trait (set_present true) fp f) pos').
  { intros pos' Hin k g w Hk. destruct (Hin _ Hk) as [He|He].
    - injection He as -> -> _. destruct (find_trait_upd_present fp f f tr Etr) as (tr' & H1 & H2). exists tr'. split; [exact H1|rewrite H2; reflexivity].
    - destruct (Hf k g w He) as (tg & Hg1 & Hg2). destruct (find_trait_upd_present fp f g tg Hg1) as (tr' & H1 & H2).
      exists tr'. split; [exact H1|rewrite H2; exact Hg2]. }
  destruct (t_present tr).
  - (* replace *)
    intros H. injection H as <-. unfold replace_field. cbn [mb_fields mb_pos mb_fp].
    destruct (map_find (t_fnum tr) fl); [|split; assumption].
    destruct (pos_remove (t_fnum tr) pos) as [k lr] eqn:Er.
    assert (Hfn : t_fnum tr = f).
    { clear -Etr. induction fp as [|x r IH]; cbn [find_trait] in Etr; [discriminate|].
      destruct (t_fnum x =? f) eqn:E; [injection Etr as <-; apply N.eqb_eq; exact E|exact (IH Etr)]. }
    rewrite Hfn in *.
    unfold mark_present, pos_insert. cbn [mb_fp mb_pos with_fp with_pos with_fields]. split.
    + apply insert_sorted. apply (remove_sorted f pos k lr Er Hs).
    + assert (Hkey : pos_key (match k with Some q => q | None => getPos tr end) = pos_key (getPos tr)).
      { destruct k as [q|]; [|reflexivity]. destruct (remove_key f pos q lr Er) as [v0 Hv0].
        destruct (Hf q f v0 Hv0) as (t2 & Ht2 & Hq). rewrite Etr in Ht2. injection Ht2 as <-. rewrite Hq.
        unfold pos_key. rewrite N.mod_mod by lia. reflexivity. }
      rewrite Hkey. apply Hfiled. intros e He. destruct (insert_in _ _ _ _ He) as [H1|H1]; [left; exact H1|right; exact (remove_in f pos k lr e Er H1)].
  - intros H. injection H as <-. unfold mark_present, add_field_decoder, pos_insert. cbn [mb_fp mb_pos with_fp with_pos with_fields mb_fields]. split.
    + apply insert_sorted. exact Hs.
    + apply Hfiled. intros e He. apply (insert_in _ _ _ _ He).
Qed.

(* a freshly created part / element has an empty _pos *)
Lemma create_group_inv g d : pos_inv (create_group g d).
Proof. split; [reflexivity|]. intros k f v H. destruct H. Qed.

(* any sequence of insertions through the API *)
Fixpoint add_all (m : mbase) (l : list (N * list N)) : res mbase :=
  match l with
  | [] => Ok m
  | (f, v) :: r => bind (add_field m f v) (fun m' => add_all m' r)
  end.
Theorem insertion_order_lemma : forall l g d m', add_all (create_group g d) l = Ok m' -> pos_inv m'.
Proof.
  intros l g d. generalize (create_group_inv g d). generalize (create_group g d).
  induction l as [|[f v] l IH]; intros m Hm m' H; cbn [add_all] in H.
  - injection H as <-. exact Hm.
  - destruct (add_field m f v) as [m1| | | |] eqn:E; cbn [bind] in H; try discriminate.
    apply (IH m1 (add_field_keeps_order m f v m1 Hm E) m' H).
Qed.
