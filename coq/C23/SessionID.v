(* C23: model of FIX8::SessionID's comparison members (include/fix8/session.hpp), strings as byte lists.
     bool operator==(const SessionID& that)
        { return this != &that ? that._senderCompID() == _senderCompID() && that._targetCompID() == _targetCompID() : true; }
     bool operator!=(const SessionID& that)
        { return this != &that ? that._senderCompID() != _senderCompID() || that._targetCompID() != _targetCompID() : false; }
   (since ab2c959; before that repair operator!= was the CONJUNCTION of the component inequalities, F28: kept
   below as sid_ne_orig for the witness only), same_sender_comp_id / same_target_comp_id
   (the mirror test of Session::compid_check) and same_side_*.  Also the line protocol of harness/h_c23.cpp:
     case   "SID <sender1> <target1> <sender2> <target2>"        (hex, "-" = empty)
     result "EQ <a==b> NE <a!=b> SEQ <a==a> SNE <a!=a> MIR <a.same_sender_comp_id(target2)> <a.same_target_comp_id(sender2)>
             SIDE <a.same_side_sender_comp_id(sender2)> <a.same_side_target_comp_id(target2)> ID <a.get_id()> <b.get_id()>"
   (get_id() = the cached printable id made by make_id: "<BeginString>:<sender>-><target>", hex; it is NOT what the
   comparison members look at, and it is not injective: "->" may occur inside a CompID.)
   No proofs in this file. *)
From Coq Require Import NArith ZArith List Bool.
From F8 Require Import Sess.Bytes.
Import ListNotations.
Local Open Scope N_scope.

Record sid := mkSid { sid_snd : bytes; sid_tgt : bytes }.

(* this != &that *)
Definition sid_eq (a b : sid) : bool := beq (sid_snd b) (sid_snd a) && beq (sid_tgt b) (sid_tgt a).
Definition sid_ne (a b : sid) : bool := negb (beq (sid_snd b) (sid_snd a)) || negb (beq (sid_tgt b) (sid_tgt a)).
(* operator!= as it was before ab2c959 (F28); not part of the tied model *)
Definition sid_ne_orig (a b : sid) : bool := negb (beq (sid_snd b) (sid_snd a)) && negb (beq (sid_tgt b) (sid_tgt a)).
(* this == &that *)
Definition sid_eq_self (a : sid) : bool := true.
Definition sid_ne_self (a : sid) : bool := false.

Definition same_sender_comp_id (a : sid) (target : bytes) : bool := beq target (sid_snd a).
Definition same_target_comp_id (a : sid) (sender : bytes) : bool := beq sender (sid_tgt a).
Definition same_side_sender_comp_id (a : sid) (sender : bytes) : bool := beq sender (sid_snd a).
Definition same_side_target_comp_id (a : sid) (target : bytes) : bool := beq target (sid_tgt a).

(* SessionID::make_id: ostr << _beginString << ':' << _senderCompID << "->" << _targetCompID *)
Definition sid_print (begin : bytes) (a : sid) : bytes := (begin ++ [58] ++ sid_snd a ++ [45;62] ++ sid_tgt a)%list.
Definition begin_42 : bytes := [70;73;88;46;52;46;50].           (* the harness builds both identities with "FIX.4.2" *)

(* ---- line protocol ---------------------------------------------------------------------------------- *)
Definition b01 (b : bool) : bytes := [if b then 49 else 48].
Definition kw_SID : bytes := [83;73;68].

Definition is_sid_line (line : bytes) : bool :=
  match split_on 32 line with w :: _ => beq w kw_SID | [] => false end.

Definition parse_sid_line (line : bytes) : option (sid * sid) :=
  match filter (fun t => match t with [] => false | _ => true end) (split_on 32 line) with
  | [w; s1; t1; s2; t2] =>
    if beq w kw_SID then Some (mkSid (unhex s1) (unhex t1), mkSid (unhex s2) (unhex t2)) else None
  | _ => None
  end.

Definition render_sid (eq ne seq sne m1 m2 d1 d2 : bool) (i1 i2 : bytes) : bytes :=
  ([69;81;32] ++ b01 eq ++ [32;78;69;32] ++ b01 ne ++ [32;83;69;81;32] ++ b01 seq ++ [32;83;78;69;32] ++ b01 sne ++
   [32;77;73;82;32] ++ b01 m1 ++ [32] ++ b01 m2 ++ [32;83;73;68;69;32] ++ b01 d1 ++ [32] ++ b01 d2 ++
   [32;73;68;32] ++ hex i1 ++ [32] ++ hex i2)%list.

Definition sid_line (line : bytes) : bytes :=
  match parse_sid_line line with
  | Some (a, b) =>
    render_sid (sid_eq a b) (sid_ne a b) (sid_eq_self a) (sid_ne_self a)
               (same_sender_comp_id a (sid_tgt b)) (same_target_comp_id a (sid_snd b))
               (same_side_sender_comp_id a (sid_snd b)) (same_side_target_comp_id a (sid_tgt b))
               (sid_print begin_42 a) (sid_print begin_42 b)
  | None => [66;65;68]       (* BAD *)
  end.

(* result line -> the eight flags and the two printable ids *)
Definition parse_sid_result (r : bytes) : option (bool * bool * bool * bool * (bool * bool) * (bool * bool) * (bytes * bytes)) :=
  let f (t : bytes) := beq t [49] in
  match filter (fun t => match t with [] => false | _ => true end) (split_on 32 r) with
  | [k1; a; k2; b; k3; c; k4; d; k5; e1; e2; k6; g1; g2; k7; i1; i2] =>
    if beq k1 [69;81] && beq k2 [78;69] && beq k3 [83;69;81] && beq k4 [83;78;69] && beq k5 [77;73;82] && beq k6 [83;73;68;69] &&
       beq k7 [73;68]
    then Some (f a, f b, f c, f d, (f e1, f e2), (f g1, f g2), (unhex i1, unhex i2)) else None
  | _ => None
  end.
