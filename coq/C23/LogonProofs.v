(* C23: Session::process on an inbound Logon (model), acceptor and initiator branches, for every decoder,
   every CompID string, flag, client list and persister.  Proofs only. *)
From Coq Require Import NArith ZArith List Bool Lia.
From F8 Require Import Sess.Bytes Sess.Msg Sess.Persist Sess.Session Sess.Wire Sess.SessLemmas
  C22.Hyp C22.Spec_C22 C22.SendLemmas C22.HbProofs C22.InProofs C23.SessionID C23.SidProofs.
Import ListNotations.
Local Open Scope N_scope.

(* ---- what the Logon says ---------------------------------------------------------------------------------- *)
Definition lg_sci (m : msg) : bytes := match get_field T_SenderCompID (m_hdr m) with Some v => v | None => [] end.
Definition lg_tci (m : msg) : bytes := match get_field T_TargetCompID (m_hdr m) with Some v => v | None => [] end.
Definition lg_reset (m : msg) : bool := bool_field (get_field T_ResetSeqNumFlag (m_body m)).
Definition lg_hbi (m : msg) : N := int_field (get_field T_HeartBtInt (m_body m)).

(* the acceptor's two admission tests *)
Definition acc_idok (s : sess) (m : msg) : bool := negb (pr_ec (s_par s)) || beq (s_sci s) (lg_tci m).
Definition acc_listed (s : sess) (m : msg) : bool :=
  match pr_clients (s_par s) with [] => true | l => mem_bytes (lg_sci m) l end.

(* the sequence numbers after the reset / recovery step of the acceptor branch *)
Definition acc_numbers (reset : bool) (s : sess) : sess :=
  if reset then w_next_recv 1 (w_next_send 1 s)
  else let s1 := recover_seqnums s in
       let s2 := if s_req_send s1 =? 0 then s1 else w_next_send (s_req_send s1) s1 in
       if s_req_recv s2 =? 0 then s2 else w_next_recv (s_req_recv s2) s2.

(* the identity of the session as a SessionID, and the identity built from the Logon: id(tci, sci) *)
Definition own_sid (s : sess) : sid := mkSid (s_snd s) (s_tgt s).
Definition logon_sid (m : msg) : sid := mkSid (lg_tci m) (lg_sci m).

Lemma initiator_test_is_sid_ne : forall s m,
  sid_neq (lg_tci m) (lg_sci m) (s_snd s) (s_tgt s) = sid_ne (own_sid s) (logon_sid m).
Proof. reflexivity. Qed.

Lemma send_next_send : forall sc now s ty body,
  s_closed s = false -> s_batch s = [] -> beq ty mt_sequence_reset = false ->
  forall s' e, send sc now s (fresh ty body false) 0 false = (true, s', e) ->
  s_next_send s' = s_next_send s + 1 /\ s_next_recv s' = s_next_recv s.
Proof.
  intros sc now s ty body CL BT NR s' e H. unfold send in H. cbn [N.eqb] in H.
  rewrite send_process_stages, sp_prep_fresh in H. unfold sp_step in H. cbn [fresh m_eob] in H.
  rewrite BT, CL in H. unfold sp_fin in H. cbn [negb fresh m_custom m_noinc m_type N.eqb andb] in H.
  rewrite NR in H. cbn [negb andb] in H. inversion H; subst. split; reflexivity.
Qed.

Section Logon.
Variable sc : schema.
Hypothesis SOK : schema_ok sc = true.
Variable decode : bytes -> decode_result.
Variable fl : bytes.
Variable now : Z.

Lemma dispatch_logon : forall q m, m_type m = mt_logon ->
  dispatch sc decode now q m = bind (handle_logon sc now q m) (fun r => ret (r, false)).
Proof. intros q m TY. unfold dispatch. rewrite TY. reflexivity. Qed.

(* ---- acceptor: refusal ------------------------------------------------------------------------------------ *)
Theorem acceptor_refuses : forall raw s rest q m,
  find_after pat_34 raw = Some rest -> fast_atoi_u rest SOH 0 = Some q -> decode raw = DecOk m ->
  m_type m = mt_logon -> s_role s = Acceptor -> s_state s <> st_continuous ->
  acc_idok s m && acc_listed s m = false ->
  exists s', process sc decode fl now raw s = (false, s', []) /\
             s_state s' = st_session_terminated /\ is_shutdown s' = true /\ s_hb s' = s_hb s.
Proof.
  intros raw s rest q m F1 F2 D TY RO NC REF.
  rewrite (process_decoded sc decode fl now raw s rest q m F1 F2 D).
  unfold process_body. rewrite (dispatch_logon q m TY).
  apply N.eqb_neq in NC.
  unfold handle_logon, bind, get, set_state, modify, ret. rewrite NC, RO.
  cbn [s_role s_sci s_par w_state].
  fold (lg_tci m). fold (lg_sci m).
  unfold acc_idok, acc_listed in REF.
  destruct (negb (beq (s_sci s) (lg_tci m)) && pr_ec (s_par s)) eqn:C1.
  - cbn [fst snd]. unfold process_catch.
    pose proof (stop_props (w_state st_logon_received s)) as [P1 [P2 [P3 [P4 P5]]]].
    eexists. split; [reflexivity|]. split.
    + unfold update_persist_seqnums. match goal with |- context [if ?c then _ else _] => destruct c end; reflexivity.
    + split.
      * unfold is_shutdown, update_persist_seqnums.
        match goal with |- context [if ?c then _ else _] => destruct c end; cbn; rewrite orb_true_r; reflexivity.
      * unfold update_persist_seqnums.
        match goal with |- context [if ?c then _ else _] => destruct c end; cbn; rewrite P5; reflexivity.
  - assert (L : match pr_clients (s_par s) with [] => false | _ :: _ => negb (mem_bytes (lg_sci m) (pr_clients (s_par s))) end = true).
    { apply andb_false_iff in REF. destruct REF as [R|R].
      - apply orb_false_iff in R. destruct R as [R1 R2]. apply negb_false_iff in R1. rewrite R1, R2 in C1. discriminate.
      - destruct (pr_clients (s_par s)); [discriminate|]. rewrite R. reflexivity. }
    rewrite L. cbn [fst snd]. unfold process_catch.
    pose proof (stop_props (w_state st_logon_received s)) as [P1 [P2 [P3 [P4 P5]]]].
    eexists. split; [reflexivity|]. split.
    + unfold update_persist_seqnums. match goal with |- context [if ?c then _ else _] => destruct c end; reflexivity.
    + split.
      * unfold is_shutdown, update_persist_seqnums.
        match goal with |- context [if ?c then _ else _] => destruct c end; cbn; rewrite orb_true_r; reflexivity.
      * unfold update_persist_seqnums.
        match goal with |- context [if ?c then _ else _] => destruct c end; cbn; rewrite P5; reflexivity.
Qed.

(* the logon completes ONLY when both tests pass *)
Theorem acceptor_only : forall raw s rest q m b s' e,
  find_after pat_34 raw = Some rest -> fast_atoi_u rest SOH 0 = Some q -> decode raw = DecOk m ->
  m_type m = mt_logon -> s_role s = Acceptor -> s_state s <> st_continuous ->
  process sc decode fl now raw s = (b, s', e) -> s_state s' = st_continuous ->
  acc_idok s m && acc_listed s m = true.
Proof.
  intros raw s rest q m b s' e F1 F2 D TY RO NC P ST.
  destruct (acc_idok s m && acc_listed s m) eqn:A; [reflexivity|].
  destruct (acceptor_refuses raw s rest q m F1 F2 D TY RO NC A) as [s2 [P2 [ST2 _]]].
  rewrite P in P2. inversion P2; subst. rewrite ST in ST2. discriminate.
Qed.

(* ---- acceptor: acceptance --------------------------------------------------------------------------------- *)
Lemma enforce_logon_inseq : forall q m s,
  s_state s = st_logon_received -> beq (m_type m) mt_sequence_reset = false -> q = s_next_recv s ->
  enforce sc now q m s = (inl false, s, []).
Proof.
  intros q m s ST NR Q. unfold enforce, bind, get. rewrite ST. cbn [is_established is_live st_logon_received
    st_wait_for_logon st_not_logged_in st_logon_sent st_none st_session_terminated N.eqb Pos.eqb negb andb ret].
  rewrite NR. cbn [negb]. unfold sequence_check, bind, get. subst q. rewrite !N.ltb_irrefl. reflexivity.
Qed.

Lemma logon_fresh : forall h r, exists body,
  generate_logon sc h r = fresh mt_logon body false /\ vals_ok body = true /\
  get_field T_HeartBtInt body = Some (dec h).
Proof.
  intros h r. unfold generate_logon. rewrite new_msg_fresh.
  rewrite (add_body'_fresh sc T_HeartBtInt). rewrite (add_body'_fresh sc T_EncryptMethod).
  pose proof (schema_ok_split sc SOK) as [_ [_ [_ [PA _]]]].
  set (b1 := m_body (add_body' sc T_HeartBtInt (dec h) (fresh mt_logon [] false))).
  assert (V1 : vals_ok b1 = true) by (apply add_body'_vals_ok; [apply clean_nosoh, dec_clean|reflexivity]).
  assert (G1 : get_field T_HeartBtInt b1 = Some (dec h)) by (apply add_body'_get_same; [exact PA|constructor]).
  set (b2 := m_body (add_body' sc T_EncryptMethod s_0 (fresh mt_logon b1 false))).
  assert (V2 : vals_ok b2 = true) by (apply add_body'_vals_ok; [reflexivity|exact V1]).
  assert (G2 : get_field T_HeartBtInt b2 = Some (dec h)).
  { unfold b2. rewrite add_body'_get_other by discriminate. exact G1. }
  destruct r.
  - rewrite (add_body'_fresh sc T_ResetSeqNumFlag). eexists. split; [reflexivity|]. split.
    + apply add_body'_vals_ok; [reflexivity|exact V2].
    + rewrite add_body'_get_other by discriminate. exact G2.
  - exists b2. repeat split; assumption.
Qed.

Theorem acceptor_accepts : forall raw s rest q m,
  find_after pat_34 raw = Some rest -> fast_atoi_u rest SOH 0 = Some q -> decode raw = DecOk m ->
  m_type m = mt_logon -> s_role s = Acceptor -> s_state s <> st_continuous ->
  s_closed s = false -> s_batch s = [] -> nosoh (lg_sci m) = true -> nosoh (lg_tci m) = true ->
  acc_idok s m && acc_listed s m = true ->
  let s1 := acc_numbers (lg_reset m) (w_state st_logon_received s) in
  q = s_next_recv s1 ->
  exists s' out,
    process sc decode fl now raw s = (true, s', [EOut out]) /\
    kind_of out = KLogon (Some (dec (lg_hbi m))) /\
    s_state s' = st_continuous /\ s_hb s' = lg_hbi m /\
    s_snd s' = lg_tci m /\ s_tgt s' = lg_sci m /\
    s_next_send s' = s_next_send s1 + 1 /\ s_next_recv s' = s_next_recv s1 + 1 /\ s_shutdown s' = s_shutdown s.
Proof.
  intros raw s rest q m F1 F2 D TY RO NC CL BT NS1 NS2 ACC s1 Q.
  rewrite (process_decoded sc decode fl now raw s rest q m F1 F2 D).
  unfold process_body. rewrite (dispatch_logon q m TY).
  apply N.eqb_neq in NC.
  unfold handle_logon. unfold bind at 1 2 3. unfold get at 1. rewrite NC.
  unfold bind at 1. unfold set_state at 1, modify at 1. rewrite RO.
  cbn [s_role s_sci s_par w_state].
  fold (lg_tci m). fold (lg_sci m). fold (lg_reset m). fold (lg_hbi m).
  apply andb_true_iff in ACC. destruct ACC as [A1 A2]. unfold acc_idok, acc_listed in A1, A2.
  assert (C1 : negb (beq (s_sci s) (lg_tci m)) && pr_ec (s_par s) = false).
  { apply orb_true_iff in A1. destruct A1 as [A|A].
    - apply negb_true_iff in A. rewrite A. apply andb_false_r.
    - rewrite A. reflexivity. }
  rewrite C1.
  assert (C2 : match pr_clients (s_par s) with [] => false | _ :: _ => negb (mem_bytes (lg_sci m) (pr_clients (s_par s))) end = false).
  { destruct (pr_clients (s_par s)); [reflexivity|]. rewrite A2. reflexivity. }
  rewrite C2.
  (* the numbers *)
  set (s0 := w_state st_logon_received s) in *.
  assert (NUM : forall k : unit -> M bool,
            bind (if lg_reset m then modify (fun s => w_next_recv 1 (w_next_send 1 s))
                  else modify (fun s => let s1 := recover_seqnums s in
                                        let s2 := if s_req_send s1 =? 0 then s1 else w_next_send (s_req_send s1) s1 in
                                        if s_req_recv s2 =? 0 then s2 else w_next_recv (s_req_recv s2) s2)) k s0
            = k tt (acc_numbers (lg_reset m) s0)).
  { intro k. unfold bind, modify, acc_numbers. destruct (lg_reset m);
      match goal with |- context [k tt ?x] => destruct (k tt x) as [[r0 sx] ex] end; reflexivity. }
  rewrite NUM. change (acc_numbers (lg_reset m) s0) with s1.
  unfold bind at 1. unfold modify at 1.
  set (s2 := w_sid (lg_tci m) (lg_sci m) s1).
  assert (ST2 : s_state s2 = st_logon_received).
  { unfold s2, s1, acc_numbers, s0. destruct (lg_reset m); [reflexivity|].
    unfold recover_seqnums. cbn zeta.
    repeat match goal with |- context [match ?x with Some _ => _ | None => _ end] => destruct x as [[? ?]|]
                      | |- context [if ?c then _ else _] => destruct c end; reflexivity. }
  assert (NR2 : s_next_recv s2 = s_next_recv s1) by reflexivity.
  assert (TYR : beq (m_type m) mt_sequence_reset = false) by (rewrite TY; reflexivity).
  unfold bind at 1.
  rewrite (enforce_logon_inseq q m s2 ST2 TYR) by (rewrite NR2; exact Q).
  unfold bind at 1. unfold modify at 1.
  set (s3 := w_hb (lg_hbi m) s2).
  (* the answer *)
  assert (CORE : s_closed s3 = false /\ s_batch s3 = [] /\ s_snd s3 = lg_tci m /\ s_tgt s3 = lg_sci m /\
                 s_next_send s3 = s_next_send s1 /\ s_next_recv s3 = s_next_recv s1 /\ s_shutdown s3 = s_shutdown s /\
                 s_par s3 = s_par s).
  { unfold s3, s2, s1, acc_numbers, s0. destruct (lg_reset m); [repeat split; assumption|].
    unfold recover_seqnums. cbn zeta.
    repeat match goal with |- context [match ?x with Some _ => _ | None => _ end] => destruct x as [[? ?]|]
                      | |- context [if ?c then _ else _] => destruct c end; repeat split; assumption. }
  destruct CORE as [CL3 [BT3 [SN3 [TG3 [NS3 [NRR3 [SH3 PAR3]]]]]]].
  assert (OK3 : sess_ok s3 = true) by (apply sess_ok_join; [exact CL3|exact BT3|rewrite SN3; exact NS2|rewrite TG3; exact NS1]).
  destruct (logon_fresh (lg_hbi m) (pr_rsn (s_par s))) as [body [G [V H108]]].
  destruct (send_fresh_ok sc now s3 mt_logon body false false SOK OK3 eq_refl V)
    as [s4 [out [SE [RW [MT [TG [C [LS OK4]]]]]]]].
  destruct (send_next_send sc now s3 mt_logon body CL3 BT3 eq_refl s4 _ SE) as [NS4 NR4].
  unfold bind at 1. unfold do_send at 1. rewrite G, SE.
  unfold bind, set_state, modify, ret. cbn [fst snd]. unfold process_catch.
  unfold same_core in C.
  destruct C as [Cst [Cnr [_ [_ [Chb [_ [Csn [Ctg [_ [_ [Csh _]]]]]]]]]]].
  eexists. exists out. split; [reflexivity|].
  split.
  { unfold kind_of. rewrite MT. cbn [beq mt_logon mt_heartbeat mt_test_request mt_logout N.eqb Pos.eqb andb].
    fold (tagb T_HeartBtInt). rewrite TG by discriminate. rewrite H108. reflexivity. }
  unfold update_persist_seqnums.
  match goal with |- context [if ?c then _ else _] => destruct c end;
    cbn [s_state s_hb s_snd s_tgt s_next_send s_next_recv w_state w_next_recv w_per is_shutdown s_shutdown];
    (repeat split; [rewrite Chb; reflexivity|rewrite Csn; exact SN3|rewrite Ctg; exact TG3|rewrite NS4, NS3; reflexivity
                   |rewrite NR4, NRR3; reflexivity|rewrite Csh; exact SH3]).
Qed.

(* ---- initiator ---------------------------------------------------------------------------------------------- *)
(* the test `id != _sid` and enforcement: the identity built from the response differs from the session's -> mismatch *)
Theorem initiator_mismatch : forall raw s rest q m,
  find_after pat_34 raw = Some rest -> fast_atoi_u rest SOH 0 = Some q -> decode raw = DecOk m ->
  m_type m = mt_logon -> s_role s = Initiator -> s_state s <> st_continuous ->
  pr_ec (s_par s) = true -> sid_ne (own_sid s) (logon_sid m) = true ->
  exists s', process sc decode fl now raw s = (false, s', []) /\
             s_state s' = st_session_terminated /\ is_shutdown s' = true.
Proof.
  intros raw s rest q m F1 F2 D TY RO NC EC NE.
  rewrite (process_decoded sc decode fl now raw s rest q m F1 F2 D).
  unfold process_body. rewrite (dispatch_logon q m TY).
  apply N.eqb_neq in NC.
  unfold handle_logon, bind, get, set_state, modify, ret. rewrite NC, RO.
  cbn [s_role s_snd s_tgt s_par w_state].
  fold (lg_tci m). fold (lg_sci m). rewrite initiator_test_is_sid_ne, NE, EC.
  cbn [andb fst snd]. unfold process_catch.
  eexists. split; [reflexivity|]. split.
  - unfold update_persist_seqnums. match goal with |- context [if ?c then _ else _] => destruct c end; reflexivity.
  - unfold is_shutdown, update_persist_seqnums.
    match goal with |- context [if ?c then _ else _] => destruct c end; cbn; rewrite orb_true_r; reflexivity.
Qed.

(* in every other case (mirrored CompIDs, or enforcement off) a response with the expected number completes the logon *)
Theorem initiator_accepts : forall raw s rest q m,
  find_after pat_34 raw = Some rest -> fast_atoi_u rest SOH 0 = Some q -> decode raw = DecOk m ->
  m_type m = mt_logon -> s_role s = Initiator -> s_state s <> st_continuous ->
  sid_ne (own_sid s) (logon_sid m) && pr_ec (s_par s) = false ->
  q = s_next_recv s ->
  exists s', process sc decode fl now raw s = (true, s', []) /\
             s_state s' = st_continuous /\ s_next_recv s' = s_next_recv s + 1 /\
             s_snd s' = s_snd s /\ s_tgt s' = s_tgt s /\ s_shutdown s' = s_shutdown s.
Proof.
  intros raw s rest q m F1 F2 D TY RO NC CND Q.
  rewrite (process_decoded sc decode fl now raw s rest q m F1 F2 D).
  unfold process_body. rewrite (dispatch_logon q m TY).
  apply N.eqb_neq in NC.
  unfold handle_logon. unfold bind at 1 2 3. unfold get at 1. rewrite NC.
  unfold bind at 1. unfold set_state at 1, modify at 1. rewrite RO.
  cbn [s_role s_snd s_tgt s_par].
  fold (lg_tci m). fold (lg_sci m). rewrite initiator_test_is_sid_ne, CND.
  assert (TYR : beq (m_type m) mt_sequence_reset = false) by (rewrite TY; reflexivity).
  unfold bind at 1.
  rewrite (enforce_logon_inseq q m (w_state st_logon_received s) eq_refl TYR Q).
  unfold bind, set_state, modify, ret. cbn [fst snd]. unfold process_catch.
  eexists. split; [reflexivity|].
  unfold update_persist_seqnums.
  match goal with |- context [if ?c then _ else _] => destruct c end; repeat split; reflexivity.
Qed.

(* full strength: under enforcement, a response whose CompIDs do not mirror the initiator's identity -- either one
   wrong suffices -- is a mismatch *)
Theorem initiator_not_mirrored : forall raw s rest q m,
  find_after pat_34 raw = Some rest -> fast_atoi_u rest SOH 0 = Some q -> decode raw = DecOk m ->
  m_type m = mt_logon -> s_role s = Initiator -> s_state s <> st_continuous ->
  pr_ec (s_par s) = true -> (lg_tci m <> s_snd s \/ lg_sci m <> s_tgt s) ->
  exists s', process sc decode fl now raw s = (false, s', []) /\
             s_state s' = st_session_terminated /\ is_shutdown s' = true.
Proof.
  intros raw s rest q m F1 F2 D TY RO NC EC NM.
  apply (initiator_mismatch raw s rest q m F1 F2 D TY RO NC EC).
  apply sid_ne_char. unfold own_sid, logon_sid. intro E. inversion E. destruct NM as [N|N]; apply N; congruence.
Qed.

(* and the logon completes under enforcement ONLY for a mirrored response *)
Theorem initiator_only : forall raw s rest q m b s' e,
  find_after pat_34 raw = Some rest -> fast_atoi_u rest SOH 0 = Some q -> decode raw = DecOk m ->
  m_type m = mt_logon -> s_role s = Initiator -> s_state s <> st_continuous -> pr_ec (s_par s) = true ->
  process sc decode fl now raw s = (b, s', e) -> s_state s' = st_continuous ->
  lg_tci m = s_snd s /\ lg_sci m = s_tgt s.
Proof.
  intros raw s rest q m b s' e F1 F2 D TY RO NC EC P ST.
  destruct (sid_ne (own_sid s) (logon_sid m)) eqn:NE.
  - destruct (initiator_mismatch raw s rest q m F1 F2 D TY RO NC EC NE) as [s2 [P2 [ST2 _]]].
    rewrite P in P2. inversion P2; subst. rewrite ST in ST2. discriminate.
  - rewrite sid_ne_negb_eq in NE. apply negb_false_iff in NE. apply sid_eq_char in NE.
    unfold own_sid, logon_sid in NE. inversion NE. split; reflexivity.
Qed.
End Logon.
