(* Property C23 "Logon acceptance and CompID identity are enforced consistently" as an executable
   predicate on observables.  Written from the property text; it uses only the concrete syntax of
   histories / traces and the tag=value tokenizer, never the session model.

   Two kinds of cases:
   (1) "SID <s1> <t1> <s2> <t2>" (harness/h_c23.cpp: the real SessionID members on a = (s1,t1), b = (s2,t2)).
       Session identities compare unequal exactly when they are not equal:
         a == b  <->  s1 = s2 /\ t1 = t2;     a != b  <->  not (a == b);     a == a;   not (a != a);
       the mirror tests used on inbound messages: same_sender_comp_id(target2) <-> target2 = s1,
       same_target_comp_id(sender2) <-> sender2 = t1; the same-side tests likewise.  Identity is the PAIR of
       CompIDs: the printable ids reported at the end of the line play no role (they may coincide for different
       identities, e.g. (A->B, C) and (A, B->C)).
   (2) a session history (harness h_sess).  For every inbound Logon that is the first message of its IN step,
       S = its SenderCompID, T = its TargetCompID, h = HeartBtInt, r = ResetSeqNumFlag is Y, n = its MsgSeqNum:
       acceptor waiting for the logon (state 3), own CompID X, enforcement flag ec, client list L:
           ok  :=  (ec -> T = X)  /\  (L configured -> S listed)
           the logon completes (state 1 afterwards) only if ok; if ok and n is the expected number it does complete;
           if it completes the session has answered with a Logon whose HeartBtInt is h, and when r holds both
           sequence numbers were reset to 1 (the answer carries MsgSeqNum 1; afterwards next_send = next_recv = 2);
           if not ok: no Logon goes out, the session is terminated (state 2) and process returned false;
       initiator that has sent its Logon (state 5), identity X -> Y:
           mirror := T = X /\ S = Y;
           with ec: a response that does not mirror is a mismatch (state 2, process returned false, nothing sent);
           a mirroring response (or any, without ec) with the expected number completes the logon (state 1).
       Expected number, acceptor: 1 if r, else the recv_seqnum argument of start if given, else the control
       record of a file persister if there is one, else the session's current number (previous snapshot);
       initiator: the session's current number (set at start from reset_sequence_numbers / recv_seqnum /
       the control record). *)
From Coq Require Import NArith ZArith List Bool.
From F8 Require Import Sess.Bytes Sess.Msg Sess.Persist Sess.Session Sess.Wire C23.SessionID.
Import ListNotations.
Local Open Scope N_scope.

(* ---- (1) identities ------------------------------------------------------------------------------------ *)
Definition sid_case_ok (a b : sid) (r : bool * bool * bool * bool * (bool * bool) * (bool * bool) * (bytes * bytes)) : bool :=
  let '(eq, ne, seq, sne, (m1, m2), (d1, d2), _) := r in
  let equal := beq (sid_snd a) (sid_snd b) && beq (sid_tgt a) (sid_tgt b) in
  Bool.eqb eq equal && Bool.eqb ne (negb equal) && seq && negb sne &&
  Bool.eqb m1 (beq (sid_tgt b) (sid_snd a)) && Bool.eqb m2 (beq (sid_snd b) (sid_tgt a)) &&
  Bool.eqb d1 (beq (sid_snd b) (sid_snd a)) && Bool.eqb d2 (beq (sid_tgt b) (sid_tgt a)).

Definition c23_sid_ok (case result : bytes) : bool :=
  match parse_sid_line case, parse_sid_result result with
  | Some (a, b), Some r => sid_case_ok a b r
  | _, _ => false
  end.

(* ---- (2) histories --------------------------------------------------------------------------------------- *)
Definition tagb (n : N) : bytes := dec n.
Definition fld (t : N) (raw : bytes) : option bytes := tok_get (tagb t) (tokens raw).
Definition fldv (t : N) (raw : bytes) : bytes := match fld t raw with Some v => v | None => [] end.
Definition is_type (raw ty : bytes) : bool := match fld T_MsgType raw with Some t => beq t ty | None => false end.
Definition flag_Y (v : option bytes) : bool := match v with Some (c :: _) => (c =? 89) || (c =? 121) | _ => false end.
Definition num_eq (a b : bytes) : bool :=
  match undec a, undec b with Some x, Some y => x =? y | _, _ => beq a b end.

Definition out_raws (evs : list event) : list bytes :=
  flat_map (fun e => match e with EOut raw => [raw] | _ => [] end) evs.
Definition any_out (evs : list event) : bool :=
  existsb (fun e => match e with EOut _ => true | EOutRaw _ => true | _ => false end) evs.

(* events of the first processed message of an IN step, and its RET *)
Fixpoint first_group (evs : list event) (cur : list event) : option (list event * Z) :=
  match evs with
  | [] => None
  | ERet z :: _ => Some (rev cur, z)
  | e :: evs' => first_group evs' (e :: cur)
  end.

Record ost := mkO {
  o_sp : startp;
  o_state : option N;
  o_ctrl : option (N * N);
  o_recv : N                       (* next expected inbound number shown by the previous snapshot *)
}.
Definition ost0 : ost := mkO default_sp None None 1.

(* acceptor: the number the Logon has to carry *)
Definition expected_recv (o : ost) (reset : bool) : N :=
  if reset then 1
  else if negb (sp_rs (o_sp o) =? 0) then sp_rs (o_sp o)
  else match sp_pk (o_sp o), o_ctrl o with
       | PFile, Some (_, b) => b
       | _, _ => o_recv o
       end.

Definition snap_is (st : step) (v : N) : bool :=
  match st_snap st with Some sn => sn_state sn =? v | None => false end.
Definition snap_seq_is (st : step) (a b : N) : bool :=
  match st_snap st with Some sn => (sn_send sn =? a) && (sn_recv sn =? b) | None => false end.

(* the logon answer in the events of the message: the first Logon on the wire *)
Definition logon_answer (evs : list event) : option bytes :=
  match filter (fun raw => is_type raw mt_logon) (out_raws evs) with
  | raw :: _ => Some raw
  | [] => None
  end.

Definition acceptor_logon_ok (o : ost) (raw : bytes) (g : list event * Z) (st : step) (alone : bool) : bool :=
  let p := o_sp o in
  let S := fldv T_SenderCompID raw in
  let T := fldv T_TargetCompID raw in
  let r := flag_Y (fld T_ResetSeqNumFlag raw) in
  let idok := negb (pr_ec (sp_par p)) || beq T (sp_snd p) in
  let listed := match pr_clients (sp_par p) with [] => true | l => mem_bytes S l end in
  let ok := idok && listed in
  let in_seq := match undec (fldv T_MsgSeqNum raw) with Some n => n =? expected_recv o r | None => false end in
  if negb ok then
    (* refused: nothing goes out, process returns false, the session is terminated *)
    negb (any_out (fst g)) && (snd g =? 0)%Z && (if alone then snap_is st st_session_terminated else true)
  else if in_seq then
    match logon_answer (fst g) with
    | Some ans =>
      (snd g =? 1)%Z && num_eq (fldv T_HeartBtInt ans) (fldv T_HeartBtInt raw) &&
      (if alone then snap_is st st_continuous else true) &&
      (if r then beq (fldv T_MsgSeqNum ans) [49] && (if alone then snap_seq_is st 2 2 else true) else true)
    | None => false
    end
  else
    (* out of sequence: whatever happens, an answer must still echo the interval *)
    match logon_answer (fst g) with
    | Some ans => num_eq (fldv T_HeartBtInt ans) (fldv T_HeartBtInt raw)
    | None => true
    end.

Definition initiator_logon_ok (o : ost) (raw : bytes) (g : list event * Z) (st : step) (alone : bool) : bool :=
  let p := o_sp o in
  let S := fldv T_SenderCompID raw in
  let T := fldv T_TargetCompID raw in
  let mirror := beq T (sp_snd p) && beq S (sp_tgt p) in
  let in_seq := match undec (fldv T_MsgSeqNum raw) with Some n => n =? o_recv o | None => false end in
  if pr_ec (sp_par p) && negb mirror then
    negb (any_out (fst g)) && (snd g =? 0)%Z && (if alone then snap_is st st_session_terminated else true)
  else if in_seq then
    (snd g =? 1)%Z && (if alone then snap_is st st_continuous else true)
  else true.

Definition c23_step (o : ost) (oper : op) (st : step) : option ost :=
  let state' := match st_snap st with Some sn => Some (sn_state sn) | None => o_state o end in
  let ctrl' := match st_snap st with Some sn => sn_ctrl sn | None => o_ctrl o end in
  let recv' := match st_snap st with Some sn => sn_recv sn | None => o_recv o end in
  match oper with
  | OStart p _ => Some (mkO p state' ctrl' recv')
  | OIn chunks =>
    let ms := fst (frames (concat chunks)) in
    let verdict :=
      match ms, first_group (st_events st) [] with
      | raw :: rest, Some g =>
        let alone := match rest with [] => true | _ => false end in
        if is_type raw mt_logon then
          match sp_role (o_sp o), o_state o with
          | Acceptor, Some 3 => acceptor_logon_ok o raw g st alone
          | Initiator, Some 5 => initiator_logon_ok o raw g st alone
          | _, _ => true
          end
        else true
      | _, _ => true
      end in
    if verdict then Some (mkO (o_sp o) state' ctrl' recv') else None
  | _ => Some (mkO (o_sp o) state' ctrl' recv')
  end.

Fixpoint c23_steps (o : ost) (ops : list op) (tr : trace) : bool :=
  match ops, tr with
  | [], [] => true
  | oper :: ops', st :: tr' =>
    match c23_step o oper st with
    | Some o' => c23_steps o' ops' tr'
    | None => false
    end
  | _, _ => false
  end.

Definition c23_hist_ok (ops : list op) (tr : trace) : bool := c23_steps ost0 ops tr.

(* on the concrete syntax of both lines *)
Definition c23_ok_line (case result : bytes) : bool :=
  if is_sid_line case then c23_sid_ok case result
  else c23_hist_ok (parse_history case) (parse_trace result).
