(* C23: closed witnesses (evaluated by vm_compute).  Definitions only. *)
From Coq Require Import NArith ZArith List Bool.
From F8 Require Import Sess.Bytes Sess.Msg Sess.Persist Sess.Session Sess.Wire C22.Demo.
Import ListNotations.
Local Open Scope N_scope.

Definition id_CLI : bytes := [67;76;73].
Definition id_SRV : bytes := [83;82;86].
Definition id_XXX : bytes := [88;88;88].

(* a Logon response 35=A 49=<snd> 56=<tgt> 34=<seq> 52=<T0> 98=0 108=30 *)
Definition demo_logon (snd tgt : bytes) (seq : N) : msg :=
  mkMsg mt_logon
    [mkF 4 T_SenderCompID snd; mkF 5 T_TargetCompID tgt; mkF 10 T_MsgSeqNum (dec seq); mkF 21 T_SendingTime (fmt_time T0)]
    [mkF 1 T_EncryptMethod [48]; mkF 2 T_HeartBtInt [51;48]] 0 false true.
Definition demo_logon_raw (snd tgt : bytes) (seq : N) : bytes := encode demo_schema (demo_logon snd tgt seq).

(* START I none sid=CLI:SRV hb=30 | IN <Logon from SRV to ...> *)
Definition demo_initiator_ops (snd tgt : bytes) : list op :=
  [OStart demo_start None; OIn [demo_logon_raw snd tgt 1]].

(* START A none sid=SRV:CLI | IN <Logon from CLI to ...> *)
Definition demo_acc_start (ec : bool) (clients : list bytes) : startp :=
  mkStart Acceptor PNone id_SRV id_CLI (mkParams false ec false false clients) 30 0 0.
Definition demo_acceptor_ops (ec : bool) (clients : list bytes) (snd tgt : bytes) : list op :=
  [OStart (demo_acc_start ec clients) None; OIn [demo_logon_raw snd tgt 1]].

(* an initiator that has sent its Logon *)
Definition demo_init_sess : sess :=
  mkSess st_logon_sent 2 1 true T0 0 30 Initiator id_CLI id_SRV [] demo_params [] (p_empty PNone) false false true 0 0.

(* identities whose printable ids coincide: the initiator is (A->B, C); the response comes from B->C to A *)
Definition id_AB : bytes := [65;45;62;66].
Definition id_BC : bytes := [66;45;62;67].
Definition demo_amb_start : startp := mkStart Initiator PNone id_AB [67] demo_params 30 0 0.
Definition demo_amb_ops (snd tgt : bytes) : list op :=
  [OStart demo_amb_start None; OIn [demo_logon_raw snd tgt 1]].
