(* C23: the modelled SessionID comparison members, characterised exactly.  Proofs only. *)
From Coq Require Import NArith ZArith List Bool.
From F8 Require Import Sess.Bytes Sess.SessLemmas C23.SessionID.
Import ListNotations.
Local Open Scope N_scope.

Lemma beq_sym : forall a b, beq a b = beq b a.
Proof.
  intros a b. destruct (beq a b) eqn:E; symmetry.
  - apply beq_eq in E. subst. apply beq_refl.
  - apply beq_neq. apply beq_neq in E. congruence.
Qed.

(* operator== is equality of the two CompIDs *)
Theorem sid_eq_char : forall a b, sid_eq a b = true <-> a = b.
Proof.
  intros [s1 t1] [s2 t2]. unfold sid_eq. cbn [sid_snd sid_tgt]. rewrite andb_true_iff, !beq_eq.
  split; [intros [A B]; subst; reflexivity|intro H; inversion H; auto].
Qed.

(* identity is the PAIR of CompIDs *)
Theorem sid_eq_pair : forall a b, sid_eq a b = true <-> sid_snd a = sid_snd b /\ sid_tgt a = sid_tgt b.
Proof.
  intros a b. unfold sid_eq. rewrite andb_true_iff, !beq_eq. split; intros [A B]; split; congruence.
Qed.

(* ... and not the printable id made by make_id, which is not injective: (A->B, C) and (A, B->C) *)
Definition amb1 : sid := mkSid [65;45;62;66] [67].
Definition amb2 : sid := mkSid [65] [66;45;62;67].
Theorem sid_print_not_injective : forall begin,
  amb1 <> amb2 /\ sid_print begin amb1 = sid_print begin amb2 /\ sid_eq amb1 amb2 = false /\ sid_ne amb1 amb2 = true.
Proof.
  intro begin. split; [discriminate|]. split; [|split; reflexivity].
  unfold sid_print, amb1, amb2. cbn [sid_snd sid_tgt]. f_equal.
Qed.

(* operator!= is the negation of operator== (ab2c959) *)
Theorem sid_ne_negb_eq : forall a b, sid_ne a b = negb (sid_eq a b).
Proof. intros. unfold sid_ne, sid_eq. rewrite negb_andb. reflexivity. Qed.

(* hence true exactly when the identities differ *)
Theorem sid_ne_char : forall a b, sid_ne a b = true <-> a <> b.
Proof.
  intros a b. rewrite sid_ne_negb_eq, negb_true_iff. split.
  - intros H E. apply sid_eq_char in E. congruence.
  - intro H. destruct (sid_eq a b) eqn:E; [|reflexivity]. apply sid_eq_char in E. contradiction.
Qed.

(* the operator as it was before the repair: true exactly when BOTH CompIDs differ ... *)
Theorem sid_ne_orig_char : forall a b, sid_ne_orig a b = true <-> (sid_snd a <> sid_snd b /\ sid_tgt a <> sid_tgt b).
Proof.
  intros a b. unfold sid_ne_orig. rewrite andb_true_iff, !negb_true_iff, !beq_neq.
  split; intros [A B]; split; congruence.
Qed.

(* ... so that A->B against A->C was neither == nor != *)
Theorem sid_ne_orig_refuted : exists a b, a <> b /\ sid_eq a b = false /\ sid_ne_orig a b = false /\ sid_ne a b = true.
Proof.
  exists (mkSid [65] [66]), (mkSid [65] [67]). split; [discriminate|]. repeat split; reflexivity.
Qed.

Theorem sid_self : forall a, sid_eq a a = true /\ sid_ne a a = false /\ sid_eq_self a = true /\ sid_ne_self a = false.
Proof.
  intro a. unfold sid_eq, sid_ne. rewrite !beq_refl. repeat split.
Qed.

(* the mirror test of compid_check *)
Theorem sid_mirror_char : forall a snd tgt,
  (same_sender_comp_id a tgt = true <-> tgt = sid_snd a) /\ (same_target_comp_id a snd = true <-> snd = sid_tgt a).
Proof. intros. unfold same_sender_comp_id, same_target_comp_id. rewrite !beq_eq. split; reflexivity. Qed.
