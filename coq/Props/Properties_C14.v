(* Property C14 -- "Distinct repeating-group definitions never share metadata".
   Only theorem statements: each is closed by [exact] of a lemma proved in
   C14/GroupHashProofs.v and followed by Print Assumptions.
   The model (C14/GroupHash.v) transcribes f8c's parse_groups / group_hash / find_group /
   generate_group_bodies and rothash; a "definition" is the expanded body of a <group>
   (list ritem); own_node is the trait tree a message's own definition calls for (C13/Schema.v);
   f8c_node is the trait tree the modelled generator emits. *)
From Coq Require Import NArith List Bool.
From F8 Require Import C13.SMap C13.Schema C13.Probe C14.GroupHash C14.GroupHashProofs.
Import ListNotations.
Local Open Scope N_scope.

(* rothash r v = L r xor v xor K with L additive over GF(2) (L (a xor b) = L a xor L b, L 0 = 0):
   the hash is an affine map, so collisions can be solved for. *)
Theorem c14_rothash_linear : forall r v,
  rothash r v = N.lxor (N.lxor (rot_l r) v) KROT
  /\ (forall a b, rot_l (N.lxor a b) = N.lxor (rot_l a) (rot_l b))
  /\ rot_l 0 = 0.
Proof. exact rothash_linear_lemma. Qed.
Print Assumptions c14_rothash_linear.

(* the model stays inside uint32_t *)
Theorem c14_rothash_bound : forall r v, r < W32 -> v < W32 -> rothash r v < W32.
Proof. exact rothash_bound_lemma. Qed.
Print Assumptions c14_rothash_bound.

(* ALL collisions between two-member definitions {a,b} and {c,d}: exactly d = L(a xor c) xor b. *)
Theorem c14_pair_collision_iff : forall a b c d,
  rothash (rothash 0 a) b = rothash (rothash 0 c) d <-> d = N.lxor (rot_l (N.lxor a c)) b.
Proof. exact pair_collision_iff_lemma. Qed.
Print Assumptions c14_pair_collision_iff.

(* The hash sees only the SET of member numbers: flat definitions with the same members in
   any order, with any required flags / types / component attribution, always collide. *)
Theorem c14_hash_ignores_order_flags : forall l1 l2,
  forallb (fun x => negb (is_group x)) l1 = true -> forallb (fun x => negb (is_group x)) l2 = true ->
  (forall n, In n (map item_num l1) <-> In n (map item_num l2)) ->
  group_hash l1 = group_hash l2.
Proof. exact hash_ignores_order_flags_lemma. Qed.
Print Assumptions c14_hash_ignores_order_flags.

(* The property is violated: members {1, 24676} and {2, 7} under one count field hash alike
   (0x23036665, the instance d = L(1 xor 2) xor 24676 = 7), so the second message is generated
   with the first definition's traits and its own group element cannot be built. *)
Theorem c14_collision_refuted :
  group_hash [RField 1 15 true []; RField 24676 15 false []] = 587425381
  /\ group_hash [RField 2 15 true []; RField 7 4 true []] = 587425381
  /\ 7 = N.lxor (rot_l (N.lxor 1 2)) 24676
  /\ (exists n, f8c_node FUEL (build_gm (level_defs wA ++ level_defs wB)) wB = Some n
                /\ node_subs n = node_subs (own_node wA)
                /\ node_subs n <> node_subs (own_node wB)
                /\ probe_outcome (fun _ => false) wHdr n [] [PGroup 5000 [[PField 2; PField 7]]] = 1
                /\ probe_outcome (fun _ => false) wHdr (own_node wB) [] [PGroup 5000 [[PField 2; PField 7]]] = 0).
Proof. exact collision_refuted_lemma. Qed.
Print Assumptions c14_collision_refuted.

(* ... and without any collision solving: same members in another order (element encoded in the
   first definition's order), same members with other required flags (element rejected). *)
Theorem c14_order_flags_refuted :
  (exists n, f8c_node FUEL (build_gm (level_defs wA' ++ level_defs wC ++ level_defs wD)) wC = Some n
             /\ node_subs n = node_subs (own_node wA') /\ node_subs n <> node_subs (own_node wC)
             /\ probe_outcome (fun _ => false) wHdr n [] [PGroup 5001 [[PField 13; PField 11; PField 12]]] = 2
             /\ probe_outcome (fun _ => false) wHdr (own_node wC) [] [PGroup 5001 [[PField 13; PField 11; PField 12]]] = 0)
  /\ (exists n, f8c_node FUEL (build_gm (level_defs wA' ++ level_defs wC ++ level_defs wD)) wD = Some n
             /\ node_subs n = node_subs (own_node wA') /\ node_subs n <> node_subs (own_node wD)
             /\ probe_outcome (fun _ => false) wHdr n [] [PGroup 5001 [[PField 11; PField 13]]] = 3
             /\ probe_outcome (fun _ => false) wHdr (own_node wD) [] [PGroup 5001 [[PField 11; PField 13]]] = 0).
Proof. exact order_flags_refuted_lemma. Qed.
Print Assumptions c14_order_flags_refuted.

(* What IS true (partial): if (count field, group_hash) tells the definitions of the schema
   apart -- a decidable premise, evaluated on every schema compiled in the tie -- then every
   level of the schema (header, trailer, each message; any nesting depth below FUEL = 64) is
   generated with the trait tree of its own definitions, i.e. resolved traits = own traits for
   every group at every depth. *)
Theorem c14_sound_if_injective : forall (x : xschema) (its : list ritem),
  defs_injective (schema_defs x) = true -> x_level x its -> (level_depth its < FUEL)%nat ->
  f8c_node FUEL (build_gm (schema_defs x)) its = Some (own_node its).
Proof. exact sound_if_injective_lemma. Qed.
Print Assumptions c14_sound_if_injective.

(* The same per message, with the exact hypothesis whose negation is the classifier of finding
   F18: no definition used by the message is preceded, in f8c's processing order, by a different
   definition with the same key. *)
Theorem c14_sound_if_no_clash : forall fuel all its,
  msg_clash all its = false -> (level_depth its < fuel)%nat ->
  f8c_node fuel (build_gm all) its = Some (own_node its).
Proof. exact f8c_node_own_noclash. Qed.
Print Assumptions c14_sound_if_no_clash.

(* The structural hash recurses: a nested group enters its parent's hash with the hash of its own
   body.  On the definitions NoAllocs{79,80,NoMiscFees{137,138}} / {79,80,NoMiscFees{137,139}} (same
   direct members, different nested members) the model yields 0x7a05739b and 0x7a05739a -- the values
   the pinned f8c prints -- so they are kept apart and the second message keeps its own nested
   group classes. *)
Theorem c14_hash_covers_nested :
  (forall n r c sub, item_hash (RGroup n r c sub) = [([n], group_hash sub)])
  /\ level_nums nhA = level_nums nhB
  /\ group_hash nhA = 2047177627 /\ group_hash nhB = 2047177626
  /\ msg_clash (level_defs nhMsgA ++ level_defs nhMsgB) nhMsgB = false
  /\ f8c_node FUEL (build_gm (level_defs nhMsgA ++ level_defs nhMsgB)) nhMsgB = Some (own_node nhMsgB)
  /\ own_node nhMsgB <> own_node nhMsgA.
Proof. exact (conj item_hash_group_lemma hash_covers_nested_lemma). Qed.
Print Assumptions c14_hash_covers_nested.

(* The value is mixed in with all its bits: with the same running hash, two different values --
   in particular the 32-bit hashes of two nested definitions that differ in any bit, high or low --
   give different results, so a parent with a single nested group inherits every distinction. *)
Theorem c14_rothash_value_injective : forall r v1 v2, rothash r v1 = rothash r v2 -> v1 = v2.
Proof. exact rothash_value_injective_lemma. Qed.
Print Assumptions c14_rothash_value_injective.

(* Non-vacuity: an expanded schema with six stored definitions, among them two DIFFERENT
   definitions of one count field (and one reused unchanged, with a nested group), meets the
   hypotheses of c14_sound_if_injective. *)
Theorem c14_nonvacuous :
  defs_injective (schema_defs nvX) = true
  /\ length (schema_defs nvX) = 6%nat
  /\ (forall m its, In (m, its) (x_msgs nvX) -> (level_depth its < FUEL)%nat)
  /\ (exists a b, In a (schema_defs nvX) /\ In b (schema_defs nvX) /\ fst a = fst b /\ snd a <> snd b).
Proof. exact nonvacuous_lemma. Qed.
Print Assumptions c14_nonvacuous.
