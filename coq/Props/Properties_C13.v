(* Property C13 -- "Schema compiler output implements the schema".
   Only theorem statements: each is closed by [exact] of a lemma proved in C13/WfProofs.v or
   C13/ConformProofs.v and followed by Print Assumptions.
   meta_of_schema (C13/Schema.v) is the SPECIFICATION of the tables f8c has to generate; the C++
   text generation is not modelled but validated per schema on every run (translation validation:
   the compiled output's tables are read back and compared with meta_of_schema on the same schema).
   f8c_meta (C14/GroupHash.v) is the model of what the pinned f8c actually emits. *)
From Coq Require Import NArith List Bool.
From F8 Require Import C13.SMap C13.Schema C13.WfMeta C13.WfProofs C13.Examples C13.Probe
                       C14.GroupHash C13.ConformProofs.
Import ListNotations.
Local Open Scope N_scope.

(* For every valid schema the specified metadata exists and is well-formed: field table, message
   table, component names, every realm and every trait table (at every nesting depth) strictly
   sorted with key = number; positions of a level pairwise different and within 1..n; behind
   every group trait a non-empty group class that has a first field (position 1), and only there;
   every message table entry has a trait tree; 8, 9, 35 in the header and 10 in the trailer are
   plain automatic traits that are not checked for presence.  These are the hypotheses the
   generic codec needs of its metadata. *)
Theorem c13_meta_wf : forall s, wf_schema s = true ->
  exists m, meta_of_schema s = Some m /\ wf_meta m = true.
Proof. exact meta_wf_lemma. Qed.
Print Assumptions c13_meta_wf.

(* The trait tree of every valid level (message, header, trailer, group body). *)
Theorem c13_own_node_wf : forall its, level_ok its = true -> wf_node (own_node its) = true.
Proof. exact wf_own_node_lemma. Qed.
Print Assumptions c13_own_node_wf.

(* Partial conformance of the pinned f8c (its model) to the specification: if (1) expanding the
   messages with f8precomp's depth-3 rule gives what the uniform rule gives, and (2) group_hash
   tells the schema's group definitions apart, f8c generates exactly the specified metadata.
   Both premises are decidable and evaluated on every schema of the tie; their negations are
   the classifiers of the two listed findings. *)
Theorem c13_f8c_conforms_partial : forall s x,
  expand_schema false s = Some x ->
  expand_msgs true s = expand_msgs false s ->
  defs_injective (schema_defs x) = true -> levels_shallow x = true ->
  f8c_meta s = meta_of_schema s.
Proof. exact conforms_partial_lemma. Qed.
Print Assumptions c13_f8c_conforms_partial.

(* Refuted as stated: a valid schema with a required component nested in an optional one, used
   directly in a message, gets mandatory flags the schema does not ask for; a message omitting
   the optional component is then rejected by the generated decoder. *)
Theorem c13_nested_component_refuted :
  wf_schema ex_nested_comp = true
  /\ f8c_meta ex_nested_comp <> meta_of_schema ex_nested_comp
  /\ (exists mm ms h nm ns,
        f8c_meta ex_nested_comp = Some mm /\ meta_of_schema ex_nested_comp = Some ms
        /\ sm_find HEADER (mt_nodes ms) = Some h
        /\ sm_find OO (mt_nodes mm) = Some nm /\ sm_find OO (mt_nodes ms) = Some ns
        /\ probe_outcome (fun _ => false) h ns [PField 49; PField 56; PField 34; PField 52] [PField 2374] = 0
        /\ probe_outcome (fun _ => false) h nm [PField 49; PField 56; PField 34; PField 52] [PField 2374] = 3).
Proof. exact nested_component_refuted_lemma. Qed.
Print Assumptions c13_nested_component_refuted.

(* Non-vacuity: a schema with enumerations, a component used as required and as optional and a
   group (with a nested group) shared by two messages is valid, meets both premises of
   c13_f8c_conforms_partial, and its specified metadata (5 trait trees) is well-formed. *)
Theorem c13_nonvacuous :
  wf_schema ex_clean = true
  /\ (exists x, expand_schema false ex_clean = Some x
                /\ expand_msgs true ex_clean = expand_msgs false ex_clean
                /\ defs_injective (schema_defs x) = true /\ levels_shallow x = true
                /\ length (schema_defs x) = 4%nat)
  /\ (exists m, meta_of_schema ex_clean = Some m /\ wf_meta m = true /\ length (mt_nodes m) = 5%nat).
Proof. exact conforms_nonvacuous_lemma. Qed.
Print Assumptions c13_nonvacuous.
