(* Property C02 -- "Encoded messages are well-formed FIX on the wire".
   Only theorem statements; each is closed by [exact] of a lemma of C02/EncodeProofs.v and
   followed by Print Assumptions.  wire_ok is the independent validator of C02/Spec_C02.v;
   msg_encode is the model of Message::encode (coq/Codec/Encode.v). *)
From Coq Require Import NArith ZArith List Bool.
From F8 Require Import Codec.Bytes Codec.Meta Codec.Extract Codec.Decode Codec.Encode Codec.Render
                       Codec.Example C02.Spec_C02 C02.EncodeProofs.
Import ListNotations.
Local Open Scope N_scope.

(* Finding F05: Message::encode clears the suppress bits of BeginString, BodyLength and
   CheckSum and never restores them, so encoding the same object a second time emits
   8=, 9= and 10= twice: the first output is well-formed, the second is not. *)
Theorem c02_second_encode_refuted :
  exists c m, wire_ok c (enc_bytes c m) = true /\ wire_ok c (enc_twice c m) = false.
Proof. exact c02_second_encode_refuted_lemma. Qed.
Print Assumptions c02_second_encode_refuted.

(* Finding F04: a group element built without its position-1 field is emitted as it is, which
   contradicts the last clause of the property. *)
Theorem c02_no_delimiter_refuted :
  exists c m b, msg_encode c m = Ok (b, snd (match msg_encode c m with Ok r => r | _ => ([], m) end))
                /\ wire_ok c b = false.
Proof. exact c02_no_delimiter_refuted_lemma. Qed.
Print Assumptions c02_no_delimiter_refuted.

(* Non-vacuity: a message with two group elements, the second with two nested elements, all
   fields inserted out of schema order, encodes to bytes accepted by wire_ok. *)
Theorem c02_nonvacuous : wire_ok ex_ctx (enc_bytes ex_ctx ex_list) = true.
Proof. exact c02_nonvacuous_lemma. Qed.
Print Assumptions c02_nonvacuous.
