(* Property C02 -- "Encoded messages are well-formed FIX on the wire".
   Only theorem statements; each is closed by [exact] of a lemma of C02/EncodeProofs.v and
   followed by Print Assumptions.
     msg_encode  = the model of Message::encode on a char buffer (coq/Codec/Encode.v), tied to the real
                   encoder by the correspondence run;
     wire_ok     = the independent validator of C02/Spec_C02.v (tokenizer; 8, 9, 35 first; BodyLength =
                   exact byte count; 10=ddd last = byte sum mod 256 (C07's specification sum); header,
                   body, trailer in turn, each in strictly increasing schema position; every group =
                   count followed by exactly count elements each starting with the position-1 field);
     wf_msg      = decidable well-formedness of the object (C02/WfC02.v), evaluated at run time on
                   every generated message: per message type the metadata is unambiguous (wf_ctx),
                   every present field sits in _pos under its schema position, rendered values contain
                   no SOH, every group count field's value is the number of its elements, every
                   element is non-empty and starts with its position-1 field, no _unknown bytes, and
                   the body is shorter than 10^7 bytes;
     fresh       = the suppress bits of 8, 9, 10 are still set (the object was never encoded);
     render_ok   = the per-type rendering leaves canonical decimal ints < 2^31 and strings unchanged
                   (proved for render_default: C02/RenderProofs.v render_default_ok). *)
From Coq Require Import NArith ZArith List Bool.
From F8 Require Import Codec.Bytes Codec.Meta Codec.Extract Codec.Decode Codec.Encode Codec.Render
                       Codec.Example C02.Spec_C02 C02.WfC02 C02.AuxProofs C02.EncodeProofs C02.InsertProofs.
Import ListNotations.
Local Open Scope N_scope.

(* For EVERY schema context and EVERY well-formed, never-encoded message object (any message
   type, any subset of fields, any number of group elements nested to any depth -- and, since
   wf_msg speaks about the object and not about how it was built, whatever the insertion order
   was) the encoder succeeds and its output satisfies all clauses of the property. *)
Theorem c02_wellformed : forall c m,
  render_ok c -> wf_msg c m = true -> fresh m = true ->
  exists b m', msg_encode c m = Ok (b, m') /\ wire_ok c b = true.
Proof. exact c02_wellformed_lemma. Qed.
Print Assumptions c02_wellformed.

(* "Regardless of insertion order", at the level of the API: for EVERY sequence of add_field calls
   (any fields, any order, repeats included) on a freshly created part or group element, the
   resulting _pos is sorted by key and every entry is filed under getPos of its field's trait --
   so encode, which walks _pos, emits the fields in schema position order. *)
Theorem c02_insertion_order : forall l g d m',
  add_all (create_group g d) l = Ok m' -> pos_inv m'.
Proof. exact insertion_order_lemma. Qed.
Print Assumptions c02_insertion_order.

(* Finding F05: Message::encode clears the suppress bits of BeginString, BodyLength and
   CheckSum and never restores them, so encoding the same (well-formed, fresh) object a second
   time emits 8=, 9= and 10= twice: the first output is well-formed, the second is not. *)
Theorem c02_second_encode_refuted :
  exists c m, render_ok c /\ wf_msg c m = true /\ fresh m = true /\
              wire_ok c (enc_bytes c m) = true /\ wire_ok c (enc_twice c m) = false.
Proof. exact c02_second_encode_refuted_lemma. Qed.
Print Assumptions c02_second_encode_refuted.

(* Finding F04: a group element built without its position-1 field is emitted as it is, which
   contradicts the last clause of the property (wf_msg excludes such objects). *)
Theorem c02_no_delimiter_refuted :
  exists c m b m', render_ok c /\ fresh m = true /\ msg_encode c m = Ok (b, m') /\ wire_ok c b = false.
Proof. exact c02_no_delimiter_refuted_lemma. Qed.
Print Assumptions c02_no_delimiter_refuted.

(* Non-vacuity: a message with two group elements, the second with two nested elements, all
   fields inserted out of schema order, meets every hypothesis of c02_wellformed. *)
Theorem c02_nonvacuous :
  render_ok ex_ctx /\ wf_msg ex_ctx ex_list = true /\ fresh ex_list = true /\
  wire_ok ex_ctx (enc_bytes ex_ctx ex_list) = true.
Proof. exact c02_nonvacuous_lemma. Qed.
Print Assumptions c02_nonvacuous.
