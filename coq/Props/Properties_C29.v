(* Property C29 — "Log and store rotation keeps generations and stays in bounds".
   Only theorem statements: each is closed by [exact] of a lemma proved under C29/ and
   followed by Print Assumptions.

   Vocabulary (coq/C29/Rotate.v, coq/C29/Spec_C29.v): a directory [dir] maps file names to
   contents ([lookup]); [rotate name rotnum append compress force d] is FileLogger::rotate(force)
   and [initialise name rotnum purge d] the directory effect of FilePersister::initialise, both
   with the std::vector accesses instrumented ([OOB] = index outside the vector), as repaired by
   a64fc7d ([rotate_orig]/[initialise_orig] are the routines before the repair);
   [gen_log name compress k] is generation k of a log (k = 0: the live file [name]; k >= 1:
   name.k, with ".gz" appended when the compress flag is set), [gen_db]/[gen_idx] the store's
   data and index generations (name, name.k / name.idx, name.k.idx); cap = 1024 is
   Logger::max_rotation and [kept rotnum] = min rotnum cap. *)
From Coq Require Import NArith List Ascii Bool.
From F8 Require Import C29.Rotate C29.Spec_C29 C29.OracleProofs C29.Main C29.Sweep.
Import ListNotations.
Local Open Scope char_scope.
Local Open Scope N_scope.

(* No out-of-bounds access, whatever the configured count, the flags and the directory. *)
Theorem c29_bounds : forall name rotnum append compress force d,
  exists d', rotate name rotnum append compress force d = Ok d'.
Proof. exact c29_bounds_lemma. Qed.
Print Assumptions c29_bounds.

(* Generations shifted (all directories, all names, all counts): after a rotation that takes
   place (count >= 1, and not append-mode unless forced) the live file is fresh and generation k
   holds what generation k-1 held, 1 <= k <= min(count,cap).  A missing generation k-1 leaves a
   hole at k, except that the oldest kept generation survives when nothing is shifted onto it. *)
Theorem c29_shift : forall name rotnum append compress force d d',
  0 < rotnum -> (append = false \/ force = true) ->
  rotate name rotnum append compress force d = Ok d' ->
  lookup d' name = Some [] /\
  forall k, 1 <= k <= kept rotnum ->
    lookup d' (gen_log name compress k) =
    match lookup d (gen_log name compress (k - 1)) with
    | Some c => Some c
    | None => if k =? kept rotnum then lookup d (gen_log name compress k) else None
    end.
Proof. exact c29_shift_lemma. Qed.
Print Assumptions c29_shift.

(* At most min(count,cap) generations are kept: if no generation beyond that number existed
   before, none exists afterwards (the count of generations is then at most min(count,cap)). *)
Theorem c29_cap : forall name rotnum append compress force d d',
  rotate name rotnum append compress force d = Ok d' ->
  (forall k, kept rotnum < k -> lookup d (gen_log name compress k) = None) ->
  forall k, kept rotnum < k -> lookup d' (gen_log name compress k) = None.
Proof. exact c29_cap_lemma. Qed.
Print Assumptions c29_cap.

(* Other files are never touched: every name that is not one of the generations 0..min(count,cap)
   keeps its content (or stays absent). *)
Theorem c29_untouched : forall name rotnum append compress force d d',
  rotate name rotnum append compress force d = Ok d' ->
  forall x, (forall k, k <= kept rotnum -> x <> gen_log name compress k) -> lookup d' x = lookup d x.
Proof. exact c29_untouched_lemma. Qed.
Print Assumptions c29_untouched.

(* Append-mode logs are not rotated unless forced: the directory is unchanged except that a
   missing live file is created empty. *)
Theorem c29_append : forall name rotnum compress d,
  exists d', rotate name rotnum true compress false d = Ok d' /\
    (forall x, x <> name -> lookup d' x = lookup d x) /\
    lookup d' name = match lookup d name with Some c => Some c | None => Some [] end.
Proof. exact c29_append_lemma. Qed.
Print Assumptions c29_append.

(* The store: no out-of-bounds access for any count ... *)
Theorem c29_store_bounds : forall name rotnum purge d,
  exists d', initialise name rotnum purge d = Ok d'.
Proof. exact c29_store_bounds_lemma. Qed.
Print Assumptions c29_store_bounds.

(* ... purging with rotation shifts the data file and its .idx companion in step, both live
   files fresh ... *)
Theorem c29_store_shift : forall name rotnum d d',
  0 < rotnum -> initialise name rotnum true d = Ok d' ->
  lookup d' name = Some [] /\ lookup d' (name ++ ["."; "i"; "d"; "x"]) = Some [] /\
  forall k, 1 <= k <= kept rotnum ->
    lookup d' (gen_db name k) =
      match lookup d (gen_db name (k - 1)) with
      | Some c => Some c
      | None => if k =? kept rotnum then lookup d (gen_db name k) else None
      end /\
    lookup d' (gen_idx name k) =
      match lookup d (gen_idx name (k - 1)) with
      | Some c => Some c
      | None => if k =? kept rotnum then lookup d (gen_idx name k) else None
      end.
Proof. exact c29_store_shift_lemma. Qed.
Print Assumptions c29_store_shift.

(* ... and nothing else is touched, with or without purge (so no generation beyond
   min(count,cap) comes into existence). *)
Theorem c29_store_untouched : forall name rotnum purge d d',
  initialise name rotnum purge d = Ok d' ->
  forall x, (forall k, k <= kept rotnum -> x <> gen_db name k /\ x <> gen_idx name k) ->
  lookup d' x = lookup d x.
Proof. exact c29_store_untouched_lemma. Qed.
Print Assumptions c29_store_untouched.

(* The property at full strength: the executable oracle (Spec_C29.c29_ok: generations shifted,
   at most min(count,cap) kept, other files untouched, append-mode not rotated unless forced, no
   out-of-bounds access) holds on EVERY run of the model -- any configured count, any directory,
   any sequence of constructor / rotate / write / initialise operations. *)
Theorem c29_model_ok : forall c ops d,
  exists tr, run c ops d = Trace tr /\ c29_ok c d ops (Trace tr) = true.
Proof. exact model_ok. Qed.
Print Assumptions c29_model_ok.

(* The routines as they were before the repair a64fc7d (loop index starting at the configured
   count) violated the bounds clause: count 1025 indexes rlst[1025] of a 1025-element vector
   (logger) and dblst[1025] (store), and so does every count above the cap. *)
Theorem c29_oob_orig_refuted :
  (exists rotnum d, rotate_orig w_log rotnum false false false d = OOB /\
                    initialise_orig w_db rotnum true d = OOB) /\
  (forall name rotnum append compress force d, cap < rotnum ->
     (append = false \/ force = true) -> rotate_orig name rotnum append compress force d = OOB) /\
  (forall name rotnum d, cap < rotnum -> initialise_orig name rotnum true d = OOB).
Proof. exact c29_oob_orig_refuted_lemma. Qed.
Print Assumptions c29_oob_orig_refuted.

(* The property's finite range of counts, 0..1100, swept by evaluation of the instrumented
   model (log "log" / store "db" in an empty directory): none is out of bounds ... *)
Theorem c29_sweep_log : forall r, r <= 1100 ->
  rotate ["l"; "o"; "g"] r false false false [] <> OOB.
Proof. exact sweep_log_lemma. Qed.
Print Assumptions c29_sweep_log.

Theorem c29_sweep_store : forall r, r <= 1100 ->
  initialise ["d"; "b"] r true [] <> OOB.
Proof. exact sweep_store_lemma. Qed.
Print Assumptions c29_sweep_store.

(* ... while before the repair exactly 1025..1100 were. *)
Theorem c29_sweep_log_orig : forall r, r <= 1100 ->
  (rotate_orig ["l"; "o"; "g"] r false false false [] = OOB <-> 1024 < r).
Proof. exact sweep_log_orig_lemma. Qed.
Print Assumptions c29_sweep_log_orig.

(* Non-vacuity: count 3 on {log=A, log.1=B, log.2=E, log.3=C, log.4=D, other=X} meets the
   hypotheses of c29_shift; the result is {log="", log.1=A, log.2=B, log.3=E, log.4=D, other=X}
   (C dropped, log.4 and other untouched); with count 1025 (kept = 1024) everything shifts by one
   and nothing is dropped; the oracle accepts the three-step run constructor / write / forced
   rotation. *)
Theorem c29_nonvacuous :
  0 < 3 /\ kept 3 = 3 /\ kept 1025 = 1024 /\
  (forall x, In x [w_log; (w_log ++ ["."; "1"]); (w_log ++ ["."; "2"]); (w_log ++ ["."; "3"]);
                   (w_log ++ ["."; "4"]); ["o"; "t"; "h"; "e"; "r"]] ->
     match rotate w_log 3 false false false nv_dir with
     | Ok d' => lookup d' x =
         lookup [ (w_log, []); (w_log ++ ["."; "1"], ["A"]); (w_log ++ ["."; "2"], ["B"]);
                  (w_log ++ ["."; "3"], ["E"]); (w_log ++ ["."; "4"], ["D"]);
                  (["o"; "t"; "h"; "e"; "r"], ["X"]) ] x
     | _ => False
     end) /\
  (forall x, In x [w_log; (w_log ++ ["."; "1"]); (w_log ++ ["."; "2"]); (w_log ++ ["."; "3"]);
                   (w_log ++ ["."; "4"]); (w_log ++ ["."; "5"]); ["o"; "t"; "h"; "e"; "r"]] ->
     match rotate w_log 1025 false false false nv_dir with
     | Ok d' => lookup d' x =
         lookup [ (w_log, []); (w_log ++ ["."; "1"], ["A"]); (w_log ++ ["."; "2"], ["B"]);
                  (w_log ++ ["."; "3"], ["E"]); (w_log ++ ["."; "4"], ["C"]); (w_log ++ ["."; "5"], ["D"]);
                  (["o"; "t"; "h"; "e"; "r"], ["X"]) ] x
     | _ => False
     end) /\
  c29_ok (mkcfg w_log 3 false false) nv_dir [OpRotate false; OpWrite ["w"]; OpRotate true]
         (run (mkcfg w_log 3 false false) [OpRotate false; OpWrite ["w"]; OpRotate true] nv_dir) = true.
Proof. exact c29_nonvacuous_lemma. Qed.
Print Assumptions c29_nonvacuous.
