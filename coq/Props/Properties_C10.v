(* Property C10 -- "Enumerated-value lookups describe only the actual value".
   Only theorem statements; each is closed by [exact] of a lemma proved in C10/RealmProofs.v
   (bisection lemmas in C12/BisectProofs.v) and followed by Print Assumptions.
   Model: C10/Realm.v (RealmBase::is_valid / get_rlm_idx, the printer's description lookup) over
   the libstdc++ bisection model C12/Bisect.v;  oracle: C10/Spec_C10.v (linear scan). *)
From Coq Require Import Arith List Bool ZArith.
From F8 Require Import C12.Bisect C12.BisectProofs C10.Realm C10.Spec_C10 C10.RealmProofs.
Import ListNotations.

(* The comparators of the realm element types are strict total orders: signed char / int /
   (finite) double as integers under <, std::string under lexicographic byte order. *)
Theorem c10_orders : strict_total Z.ltb /\ strict_total str_ltb.
Proof. exact (conj Zltb_strict_total str_ltb_strict_total). Qed.
Print Assumptions c10_orders.

(* std::lower_bound is modelled, not assumed: on a sorted array it returns the number of
   elements smaller than the key (and never reads outside the array / runs out of fuel). *)
Theorem c10_lower_bound_count : forall (A : Type) (lt : A -> A -> bool), strict_total lt ->
  forall (l : list A) (v : A), sortedb lt l = true -> lower_bound lt l v = Some (count_lt lt l v).
Proof. exact (@o_lower_bound_sorted). Qed.
Print Assumptions c10_lower_bound_count.

(* No lookup on any realm, sorted or not, reads out of bounds or runs out of fuel. *)
Theorem c10_idx_total : forall (A : Type) (lt : A -> A -> bool) fixed k (S : list A) v,
  exists r, get_rlm_idx_gen lt fixed k S v = Some r.
Proof. exact (@idx_total). Qed.
Print Assumptions c10_idx_total.

(* Set realms: the validity check is membership. *)
Theorem c10_is_valid_set : forall (A : Type) (lt : A -> A -> bool), strict_total lt ->
  forall (S : list A) (v : A), sortedb lt S = true ->
  exists b, is_valid lt dt_set S v = Some b /\ (b = true <-> In v S).
Proof. exact (@is_valid_set_In). Qed.
Print Assumptions c10_is_valid_set.

(* Range realms: the validity check is range inclusion. *)
Theorem c10_is_valid_range : forall (lo hi v : Z) (b : bool),
  is_valid Z.ltb dt_range [lo; hi] v = Some b -> (b = true <-> (lo <= v <= hi)%Z).
Proof. exact is_valid_range_Z_lemma. Qed.
Print Assumptions c10_is_valid_range.

(* What get_rlm_idx computes on the pinned tree: lower_bound's index, no equality test. *)
Theorem c10_idx_char : forall (A : Type) (lt : A -> A -> bool), strict_total lt ->
  forall (S : list A) (v : A), sortedb lt S = true ->
  exists r, get_rlm_idx lt dt_set S v = Some r /\
            forall i, r = Some i <-> (i = count_lt lt S v /\ i < length S).
Proof. exact (@idx_char). Qed.
Print Assumptions c10_idx_char.

(* REFUTED: a value that is not a member but is below the maximum gets an index -- that of the
   next larger member (Side '0' -> index 0, the description of '1' = BUY). *)
Theorem c10_idx_refuted :
  exists (S : list Z) (v : Z) (i : nat) (y : Z),
    sortedb Z.ltb S = true /\ ~ In v S /\
    get_rlm_idx Z.ltb dt_set S v = Some (Some i) /\ nth_error S i = Some y /\ y <> v /\
    c10_idx_ok Z.ltb S v (Some i) = false.
Proof. exact idx_refuted_lemma. Qed.
Print Assumptions c10_idx_refuted.

(* ... and that is the only way it goes wrong: a non-member gets either no index (when it is
   above every member) or the index of the smallest member above it. *)
Theorem c10_idx_nonmember : forall (A : Type) (lt : A -> A -> bool), strict_total lt ->
  forall (S : list A) (v : A), sortedb lt S = true -> ~ In v S ->
  (forall i, get_rlm_idx lt dt_set S v = Some (Some i) ->
     exists y, nth_error S i = Some y /\ lt v y = true /\
               forall j z, j < i -> nth_error S j = Some z -> lt z v = true) /\
  (get_rlm_idx lt dt_set S v = Some None <-> forall y, In y S -> lt y v = true).
Proof. exact (@idx_nonmember). Qed.
Print Assumptions c10_idx_nonmember.

(* PARTIAL: member values get exactly their own index. *)
Theorem c10_idx_partial : forall (A : Type) (lt : A -> A -> bool), strict_total lt ->
  forall (S : list A) (v : A) (i : nat), sortedb lt S = true -> nth_error S i = Some v ->
  get_rlm_idx lt dt_set S v = Some (Some i).
Proof. exact (@idx_member). Qed.
Print Assumptions c10_idx_partial.

(* PARTIAL, against the oracle: for a member, or a value above every member
   (off_defect = member || all members smaller), index and printed description meet the
   specification; the validity check meets it for every value. *)
Theorem c10_oracle_idx_partial : forall (A : Type) (lt : A -> A -> bool), strict_total lt ->
  forall (S : list A) (v : A) r, sortedb lt S = true -> off_defect lt S v = true ->
  get_rlm_idx lt dt_set S v = Some r -> c10_idx_ok lt S v r = true.
Proof. exact (@model_idx_ok_partial). Qed.
Print Assumptions c10_oracle_idx_partial.

Theorem c10_oracle_desc_partial : forall (A : Type) (lt : A -> A -> bool), strict_total lt ->
  forall (D : Type) (eqD : D -> D -> bool), (forall d, eqD d d = true) ->
  forall (S : list A) (descs : list D) (v : A) r,
  sortedb lt S = true -> off_defect lt S v = true -> length descs = length S ->
  describe lt dt_set S descs v = Some r -> c10_desc_ok lt eqD S descs v r = true.
Proof. exact (@model_desc_ok_partial). Qed.
Print Assumptions c10_oracle_desc_partial.

Theorem c10_oracle_valid : forall (A : Type) (lt : A -> A -> bool), strict_total lt ->
  forall (S : list A) (v : A) b, sortedb lt S = true ->
  is_valid lt dt_set S v = Some b -> c10_valid_ok lt dt_set S v b = true.
Proof. exact (@model_valid_ok). Qed.
Print Assumptions c10_oracle_valid.

(* REFUTED for range realms: the index is 0 (the lower bound's description) for every value,
   even one outside the range. *)
Theorem c10_idx_range_refuted :
  exists (lo hi v : Z),
    is_valid Z.ltb dt_range [lo; hi] v = Some false /\
    get_rlm_idx Z.ltb dt_range [lo; hi] v = Some (Some 0%nat) /\
    c10_idx_ok Z.ltb [lo; hi] v (Some 0%nat) = false.
Proof. exact idx_range_refuted_lemma. Qed.
Print Assumptions c10_idx_range_refuted.

(* The repaired lookup (equality test after lower_bound, candidate D8) is exact. *)
Theorem c10_idx_fixed_exact : forall (A : Type) (lt : A -> A -> bool), strict_total lt ->
  forall (S : list A) (v : A), sortedb lt S = true ->
  exists r, get_rlm_idx_gen lt true dt_set S v = Some r /\
            forall i, r = Some i <-> nth_error S i = Some v.
Proof. exact (@idx_fixed_exact). Qed.
Print Assumptions c10_idx_fixed_exact.

(* Non-vacuity: the Side realm '1'..'9' is sorted; '5' is a member (index 4), 'A' is above all
   members (no index), '0' is in the defect zone; a string realm likewise. *)
Theorem c10_nonvacuous :
  sortedb Z.ltb side_realm = true /\
  off_defect Z.ltb side_realm 53%Z = true /\ off_defect Z.ltb side_realm 65%Z = true /\
  off_defect Z.ltb side_realm 48%Z = false /\
  get_rlm_idx Z.ltb dt_set side_realm 53%Z = Some (Some 4%nat) /\
  get_rlm_idx Z.ltb dt_set side_realm 65%Z = Some None /\
  is_valid Z.ltb dt_set side_realm 53%Z = Some true /\
  is_valid Z.ltb dt_set side_realm 48%Z = Some false /\
  sortedb str_ltb [[67]; [78]; [82]]%Z = true /\
  get_rlm_idx str_ltb dt_set [[67]; [78]; [82]]%Z [78%Z] = Some (Some 1%nat).
Proof. exact nonvacuous_lemma. Qed.
Print Assumptions c10_nonvacuous.
