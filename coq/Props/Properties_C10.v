(* Property C10 -- "Enumerated-value lookups describe only the actual value".
   Only theorem statements; each is closed by [exact] of a lemma proved in C10/RealmProofs.v
   (bisection lemmas in C12/BisectProofs.v) and followed by Print Assumptions.
   Model: C10/Realm.v (RealmBase::is_valid / get_rlm_idx, the printer's description lookup) over
   the libstdc++ bisection model C12/Bisect.v;  oracle: C10/Spec_C10.v (linear scan). *)
From Coq Require Import Arith List Bool ZArith.
From F8 Require Import C12.Bisect C12.BisectProofs C10.Realm C10.Spec_C10 C10.RealmProofs.
Import ListNotations.

(* The comparators of the realm element types are strict total orders: signed char / int /
   (finite) double as integers under <, std::string under lexicographic byte order. *)
Theorem c10_orders : strict_total Z.ltb /\ strict_total str_ltb.
Proof. exact (conj Zltb_strict_total str_ltb_strict_total). Qed.
Print Assumptions c10_orders.

(* std::lower_bound is modelled, not assumed: on a sorted array it returns the number of
   elements smaller than the key (and never reads outside the array / runs out of fuel). *)
Theorem c10_lower_bound_count : forall (A : Type) (lt : A -> A -> bool), strict_total lt ->
  forall (l : list A) (v : A), sortedb lt l = true -> lower_bound lt l v = Some (count_lt lt l v).
Proof. exact (@o_lower_bound_sorted). Qed.
Print Assumptions c10_lower_bound_count.

(* No lookup on any realm, sorted or not, reads out of bounds or runs out of fuel. *)
Theorem c10_idx_total : forall (A : Type) (lt : A -> A -> bool) fixed k (S : list A) v,
  exists r, get_rlm_idx_gen lt fixed k S v = Some r.
Proof. exact (@idx_total). Qed.
Print Assumptions c10_idx_total.

(* Set realms: the validity check is membership. *)
Theorem c10_is_valid_set : forall (A : Type) (lt : A -> A -> bool), strict_total lt ->
  forall (S : list A) (v : A), sortedb lt S = true ->
  exists b, is_valid lt dt_set S v = Some b /\ (b = true <-> In v S).
Proof. exact (@is_valid_set_In). Qed.
Print Assumptions c10_is_valid_set.

(* Range realms: the validity check is range inclusion. *)
Theorem c10_is_valid_range : forall (lo hi v : Z) (b : bool),
  is_valid Z.ltb dt_range [lo; hi] v = Some b -> (b = true <-> (lo <= v <= hi)%Z).
Proof. exact is_valid_range_Z_lemma. Qed.
Print Assumptions c10_is_valid_range.

(* MAIN: set realms, the code since 63dae2a (lower_bound followed by an equality test).  An index
   is reported exactly for the members of the domain, and it is that member's position. *)
Theorem c10_idx_exact : forall (A : Type) (lt : A -> A -> bool), strict_total lt ->
  forall (S : list A) (v : A), sortedb lt S = true ->
  exists r, get_rlm_idx lt dt_set S v = Some r /\
            forall i, r = Some i <-> nth_error S i = Some v.
Proof. exact (@idx_exact). Qed.
Print Assumptions c10_idx_exact.

Theorem c10_idx_exists_iff_member : forall (A : Type) (lt : A -> A -> bool), strict_total lt ->
  forall (S : list A) (v : A), sortedb lt S = true ->
  exists r, get_rlm_idx lt dt_set S v = Some r /\ ((exists i, r = Some i) <-> In v S).
Proof. exact (@idx_exists_iff_member). Qed.
Print Assumptions c10_idx_exists_iff_member.

(* The printer (description chosen by that index): a description is shown exactly for members,
   and it is the one paired with the value. *)
Theorem c10_desc_exact : forall (A : Type) (lt : A -> A -> bool), strict_total lt ->
  forall (D : Type) (S : list A) (descs : list D) (v : A),
  sortedb lt S = true -> length descs = length S ->
  exists r, describe lt dt_set S descs v = Some r /\
            forall d, r = Some d <-> exists i, nth_error S i = Some v /\ nth_error descs i = Some d.
Proof. exact (@desc_exact). Qed.
Print Assumptions c10_desc_exact.

(* Against the oracle (Spec_C10, linear scan), for every value: index, description, validity. *)
Theorem c10_oracle_idx : forall (A : Type) (lt : A -> A -> bool), strict_total lt ->
  forall (S : list A) (v : A) r, sortedb lt S = true ->
  get_rlm_idx lt dt_set S v = Some r -> c10_idx_ok lt S v r = true.
Proof. exact (@model_idx_ok). Qed.
Print Assumptions c10_oracle_idx.

Theorem c10_oracle_desc : forall (A : Type) (lt : A -> A -> bool), strict_total lt ->
  forall (D : Type) (eqD : D -> D -> bool), (forall d, eqD d d = true) ->
  forall (S : list A) (descs : list D) (v : A) r,
  sortedb lt S = true -> length descs = length S ->
  describe lt dt_set S descs v = Some r -> c10_desc_ok lt eqD S descs v r = true.
Proof. exact (@model_desc_ok). Qed.
Print Assumptions c10_oracle_desc.

Theorem c10_oracle_valid : forall (A : Type) (lt : A -> A -> bool), strict_total lt ->
  forall (S : list A) (v : A) b, sortedb lt S = true ->
  is_valid lt dt_set S v = Some b -> c10_valid_ok lt dt_set S v b = true.
Proof. exact (@model_valid_ok). Qed.
Print Assumptions c10_oracle_valid.

(* The ORIGINAL routine (before 63dae2a: lower_bound's index with no equality test) violated the
   property: a non-member below the maximum got the index -- and description -- of the next
   larger member (Side '0' -> index 0 = BUY). *)
Theorem c10_idx_orig_refuted :
  exists (S : list Z) (v : Z) (i : nat) (y : Z),
    sortedb Z.ltb S = true /\ ~ In v S /\
    get_rlm_idx_orig Z.ltb dt_set S v = Some (Some i) /\ nth_error S i = Some y /\ y <> v /\
    c10_idx_ok Z.ltb S v (Some i) = false.
Proof. exact idx_refuted_lemma. Qed.
Print Assumptions c10_idx_orig_refuted.

(* The field object (Field<T,field>::is_valid / get_rlm_idx, one wrapper per specialisation): the
   realm function is applied to the WHOLE value of the field -- validity of a field with a set
   realm is membership of the whole value; a field without a realm is valid and has no index. *)
Theorem c10_field_is_valid : forall (A : Type) (lt : A -> A -> bool), strict_total lt ->
  forall (S : list A) (v : A), sortedb lt S = true ->
  exists b, field_is_valid lt (Some (dt_set, S)) v = Some b /\ (b = true <-> In v S).
Proof. exact (@field_is_valid_In). Qed.
Print Assumptions c10_field_is_valid.

Theorem c10_field_no_realm : forall (A : Type) (lt : A -> A -> bool) (v : A),
  field_is_valid lt None v = Some true /\ field_get_rlm_idx lt None v = Some None.
Proof. exact (@field_no_realm). Qed.
Print Assumptions c10_field_no_realm.

Theorem c10_field_idx : forall (A : Type) (lt : A -> A -> bool) fixed k (S : list A) (v : A),
  field_get_rlm_idx_gen lt fixed (Some (k, S)) v = get_rlm_idx_gen lt fixed k S v.
Proof. exact (@field_idx_is_realm_idx). Qed.
Print Assumptions c10_field_idx.

Theorem c10_oracle_field_valid : forall (A : Type) (lt : A -> A -> bool), strict_total lt ->
  forall (rlm : option (rkind * list A)) (v : A) b,
  match rlm with Some (dt_set, R) => sortedb lt R = true
               | Some (dt_range, R) => exists lo hi, R = [lo; hi] | None => True end ->
  field_is_valid lt rlm v = Some b -> c10_field_valid_ok lt rlm v b = true.
Proof. exact (@model_field_valid_ok). Qed.
Print Assumptions c10_oracle_field_valid.

(* REFUTED for range realms (still true of the code): the index is 0 (the lower bound's description) for every value,
   even one outside the range. *)
Theorem c10_idx_range_refuted :
  exists (lo hi v : Z),
    is_valid Z.ltb dt_range [lo; hi] v = Some false /\
    get_rlm_idx Z.ltb dt_range [lo; hi] v = Some (Some 0%nat) /\
    c10_idx_ok Z.ltb [lo; hi] v (Some 0%nat) = false.
Proof. exact idx_range_refuted_lemma. Qed.
Print Assumptions c10_idx_range_refuted.

(* Non-vacuity: the Side realm '1'..'9' is sorted; '5' is a member (index 4, its own description),
   'A' and '0' are not (no index, no description); a string realm likewise. *)
Theorem c10_nonvacuous :
  sortedb Z.ltb side_realm = true /\
  get_rlm_idx Z.ltb dt_set side_realm 53%Z = Some (Some 4%nat) /\
  get_rlm_idx Z.ltb dt_set side_realm 65%Z = Some None /\
  get_rlm_idx Z.ltb dt_set side_realm 48%Z = Some None /\
  describe Z.ltb dt_set side_realm [1; 2; 3; 4; 5; 6; 7; 8; 9]%Z 53%Z = Some (Some 5%Z) /\
  describe Z.ltb dt_set side_realm [1; 2; 3; 4; 5; 6; 7; 8; 9]%Z 48%Z = Some None /\
  is_valid Z.ltb dt_set side_realm 53%Z = Some true /\
  is_valid Z.ltb dt_set side_realm 48%Z = Some false /\
  sortedb str_ltb [[67]; [78]; [82]]%Z = true /\
  get_rlm_idx str_ltb dt_set [[67]; [78]; [82]]%Z [78%Z] = Some (Some 1%nat).
Proof. exact nonvacuous_lemma. Qed.
Print Assumptions c10_nonvacuous.
