(* Property C28 — "Loggers write every accepted line exactly once, in order".
   Only theorem statements: each is closed by [exact] of a lemma proved in C28/LoggerQProofs.v,
   C28/OracleLink.v, C28/OrigWitness.v or C28/MidWitness.v and followed by Print Assumptions.

   Vocabulary.  [run sched (init m d vf ps)]: the interleaving model of C28/LoggerQ.v (the code after
   the repairs c53d854, 4b85524 and aa7ec53) started with level mask m and one program (list of
   (level, text) submit calls) per producer thread, executed under the schedule [sched] (a list
   of thread ids: P i, Cons = the logger's own thread, Stop = the thread calling stop()); every
   "forall sched" below is for ALL schedules, any number of producers and any programs.  One
   step of a thread is one atomic action: a whole send (the level test is thread-local, the push
   is atomic by C30), one load of _stopping (the sample), one try_pop, one line written, one of the three
   statements of stop().
   [file c] is the content of the log FILE, i.e. what has been flushed from the stream (the model
   keeps the ofstream's buffer [obuf] apart; the unbuffered path of process_logline ends every
   line with endl, which flushes); "written" below always means: in [file c].
   Ghost: [pushed c] all queue pushes so far, in order; [wrote c] the queue elements written so
   far, in file order (the file holds their texts: first clause of c28_order); [q_src x] the
   submit call (producer, call number) an element stems from (None: stop()'s marker);
   [elems m vf i 0 p] the elements producer i creates for the calls of p at enabled levels, in call
   order; [from i] selects the elements of producer i.
   "ACCEPTED BEFORE stop()" is made precise by [at_stop c]: the value of [pushed] at the step in
   which the stopping thread executed _stopping.request_stop() (theorem c28_at_stop).
   The multi-producer queue is abstracted as an atomic FIFO; that abstraction is licensed by
   property C30 (coq/C30), not proved here. *)
From Coq Require Import ZArith List Bool.
From F8 Require Import C28.Spec_C28 C28.LoggerQ C28.LoggerQProofs C28.OracleLink.
From F8 Require C28.LoggerQOrig C28.OrigWitness C28.LoggerQMid C28.MidWitness.
Import ListNotations.

(* Order: what is written of one producer is, in order, an initial part of the lines it
   submitted at enabled levels; a file line holds, behind its number, [line_of d x] (with the
   direction flag the field " in"/"out" and a blank, then the text of x; otherwise the text) and
   the numbers are [nums d 0 0 (wrote c)] (see c28_numbering_plain / c28_numbering_direction). *)
Theorem c28_order : forall m d vf ps sched i p, nth_error ps i = Some p ->
  let c := run sched (init m d vf ps) in
  prefix (filter (from i) (wrote c)) (elems m vf i 0 p) /\
  map snd (file c) = map (line_of d) (wrote c) /\
  map fst (file c) = nums d 0 0 (wrote c).
Proof. exact c28_order_lemma. Qed.
Print Assumptions c28_order.

(* Consecutive sequence numbers, logger WITHOUT the direction flag: the lines carry 1, 2, 3, ...
   in file order, whatever val they were submitted with (one counter, _sequence). *)
Theorem c28_numbering_plain : forall m vf ps sched,
  let c := run sched (init m false vf ps) in
  map fst (file c) = seq 1 (length (file c)).
Proof. exact c28_numbering_plain_lemma. Qed.
Print Assumptions c28_numbering_plain.

(* Consecutive sequence numbers, logger WITH the direction flag: two independent series (counters
   _sequence / _osequence chosen by val): the numbers of the lines submitted with val <> 0 (marked
   " in"), in file order, are 1, 2, 3, ..., and so are the numbers of the lines submitted with
   val = 0 (marked "out").  [stream true b W N] selects from the numbers N those of the elements
   of W that use _sequence (b = true) resp. _osequence (b = false). *)
Theorem c28_numbering_direction : forall m vf ps sched,
  let c := run sched (init m true vf ps) in
  stream true true (wrote c) (map fst (file c)) = seq 1 (cnt true true (wrote c)) /\
  stream true false (wrote c) (map fst (file c)) = seq 1 (cnt true false (wrote c)) /\
  length (file c) = length (wrote c).
Proof. exact c28_numbering_direction_lemma. Qed.
Print Assumptions c28_numbering_direction.

(* Levels (and "every written line was submitted"): every written element is call k of some
   producer i, carries exactly the text of that call, and the call's level is enabled. *)
Theorem c28_levels : forall m d vf ps sched x, In x (wrote (run sched (init m d vf ps))) ->
  exists i k p lev, q_src x = Some (i, k) /\ nth_error ps i = Some p /\
                    nth_error p k = Some (lev, q_text x) /\ enabled m lev = true.
Proof. exact c28_levels_lemma. Qed.
Print Assumptions c28_levels.

(* At most once: no submit call is written twice. *)
Theorem c28_at_most_once : forall m d vf ps sched,
  NoDup (map q_src (wrote (run sched (init m d vf ps)))).
Proof. exact c28_once_lemma. Qed.
Print Assumptions c28_at_most_once.

(* Return values: every completed submit call returned true -- in particular every call whose
   line was accepted (enabled level) reports success.  (At a disabled level send also returns
   true: "return is_loggable(lev) ? enqueue(...) : true"; the oracle does not judge that.) *)
Theorem c28_return_exact : forall m d vf ps sched i p, nth_error ps i = Some p ->
  exists st done, nth_error (prods (run sched (init m d vf ps))) i = Some st /\
                  p = done ++ todo st /\ rets st = map (fun _ => true) done.
Proof. exact c28_return_exact_lemma. Qed.
Print Assumptions c28_return_exact.

(* ... so the oracle's return-value clause holds once the producers have made all their calls. *)
Theorem c28_return_ok : forall m d vf ps sched,
  all_done (run sched (init m d vf ps)) = true ->
  rets_ok m ps (o_rets (observe (run sched (init m d vf ps)))) = true.
Proof. exact c28_return_ok_lemma. Qed.
Print Assumptions c28_return_ok.

(* What "accepted before stop()" means: [at_stop] of any later state is the queue history at
   the step in which stop() executed request_stop. *)
Theorem c28_at_stop : forall c1 s2, stopper c1 = SIdle ->
  at_stop (run s2 (step c1 Stop)) = pushed c1.
Proof. exact c28_at_stop_lemma. Qed.
Print Assumptions c28_at_stop.

(* Every line accepted before stop() is written exactly once before stop() returns: for ALL
   schedules, when stop() has returned, every element of [at_stop] (the queue history at the
   stop request) is among the written elements, and no submit call is written twice.
   Hypothesis [no_marker]: no program submits an empty text at an enabled level (finding
   C28-empty-line-stops-logger).  Why it holds: the logger thread leaves its loop either on the
   marker, which stop() pushes after the request and which is therefore behind every element of
   [at_stop] in the FIFO, or after a try_pop that found the queue empty with a sample of
   _stopping that was true, i.e. taken after the request: everything pushed before the request
   was pushed before that try_pop, so it has been popped and written. *)
Theorem c28_all_written : forall m d vf ps, no_marker m ps = true -> forall sched,
  let c := run sched (init m d vf ps) in
  stopper c = SDone ->
  (forall x, In x (at_stop c) -> In x (wrote c)) /\ NoDup (map q_src (wrote c)).
Proof. exact c28_all_written_lemma. Qed.
Print Assumptions c28_all_written.

(* The INTERMEDIATE code (after 4b85524, before aa7ec53; model C28/LoggerQMid.v) loaded _stopping
   only after an unsuccessful try_pop: the logger thread finds the queue empty, a line is
   accepted, stop() requests the stop, the thread loads _stopping = true and leaves; stop()
   returns, the accepted line is never written. *)
Theorem c28_stop_window_intermediate_refuted :
  exists m ps sched,
    let c := LoggerQMid.run sched (LoggerQMid.init m ps) in
    LoggerQMid.stopper c = LoggerQMid.SDone /\
    LoggerQMid.at_stop c = [{| LoggerQMid.q_src := Some (O, O); LoggerQMid.q_text := [65%Z] |}] /\
    map LoggerQMid.rets (LoggerQMid.prods c) = [[true]] /\
    LoggerQMid.wrote c = [] /\ LoggerQMid.file c = [] /\
    file_complete false m (fun _ _ => 0%Z) ps (LoggerQMid.observe c) = false.
Proof. exact MidWitness.c28_stop_window_intermediate_refuted_lemma. Qed.
Print Assumptions c28_stop_window_intermediate_refuted.

(* stop() called after all producers have made their calls (the situation of the property and
   of the correspondence runs): every line submitted at an enabled level is in the file, in
   order, when stop() has returned. *)
Theorem c28_all_written_done : forall m d vf ps s1 s2,
  no_marker m ps = true ->
  let c1 := run s1 (init m d vf ps) in
  stopper c1 = SIdle -> all_done c1 = true ->
  let c2 := run s2 (step c1 Stop) in
  stopper c2 = SDone ->
  forall i p, nth_error ps i = Some p -> filter (from i) (wrote c2) = elems m vf i 0 p.
Proof. exact c28_all_written_done_lemma. Qed.
Print Assumptions c28_all_written_done.

(* The oracle applied to the real log file, on the model: when the texts of the calls at enabled
   levels are pairwise distinct (in the correspondence runs every text carries producer and call
   number), its soundness half (sequence numbers; every file line is the next unwritten line of
   some producer: order, at most once, levels) holds after EVERY schedule ... *)
Theorem c28_oracle_sound : forall m d vf ps sched,
  NoDup (concat (must_all d m vf 0 ps)) ->
  file_sound d m vf ps (observe (run sched (init m d vf ps))) = true.
Proof. exact c28_oracle_sound_lemma. Qed.
Print Assumptions c28_oracle_sound.

(* ... and the whole oracle c28_ok (soundness, completeness, return values) holds under the
   hypotheses of c28_all_written_done. *)
Theorem c28_oracle_ok : forall m d vf ps s1 s2,
  NoDup (concat (must_all d m vf 0 ps)) -> no_marker m ps = true ->
  stopper (run s1 (init m d vf ps)) = SIdle -> all_done (run s1 (init m d vf ps)) = true ->
  stopper (run s2 (step (run s1 (init m d vf ps)) Stop)) = SDone ->
  c28_ok d m vf ps (observe (run s2 (step (run s1 (init m d vf ps)) Stop))) = true.
Proof. exact c28_oracle_ok_lemma. Qed.
Print Assumptions c28_oracle_ok.

(* A submitted line with an empty text is taken for the stop marker: the logger thread exits and
   nothing behind it is written, even if stop() is called only after waiting for the queue. *)
Theorem c28_empty_line_refuted :
  exists m ps,
    let o := run_case m false (fun _ _ => 0%Z) [] ps in
    o_stopped o = true /\ o_file o = [(1%nat, [65%Z])] /\ file_complete false m (fun _ _ => 0%Z) ps o = false.
Proof. exact c28_empty_line_refuted_lemma. Qed.
Print Assumptions c28_empty_line_refuted.

(* The code BEFORE repair 4b85524 (model C28/LoggerQOrig.v): a line accepted before stop() was
   called is never written and stop() returns (the loop tested _stopping before it looked at the
   queue). *)
Theorem c28_lost_lines_orig_refuted :
  exists m ps sched,
    let c := LoggerQOrig.run sched (LoggerQOrig.init m ps) in
    LoggerQOrig.stopper c = LoggerQOrig.SDone /\
    map LoggerQOrig.rets (LoggerQOrig.prods c) = [[false]] /\
    LoggerQOrig.pushed c = [{| LoggerQOrig.q_src := Some (O, O); LoggerQOrig.q_text := [65%Z] |};
                            {| LoggerQOrig.q_src := None; LoggerQOrig.q_text := [] |}] /\
    LoggerQOrig.file c = [] /\
    file_complete false m (fun _ _ => 0%Z) ps (LoggerQOrig.observe c) = false.
Proof. exact OrigWitness.c28_lost_lines_orig_refuted_lemma. Qed.
Print Assumptions c28_lost_lines_orig_refuted.

(* The code BEFORE repair c53d854: everything else satisfied, send returned false for an
   accepted line (enqueue returned try_push(le) == 0). *)
Theorem c28_return_orig_refuted :
  exists m ps sched,
    let o := LoggerQOrig.observe (LoggerQOrig.run sched (LoggerQOrig.init m ps)) in
    file_sound false m (fun _ _ => 0%Z) ps o = true /\ file_complete false m (fun _ _ => 0%Z) ps o = true /\
    o_rets o = [[false]] /\ rets_ok m ps (o_rets o) = false.
Proof. exact OrigWitness.c28_return_orig_refuted_lemma. Qed.
Print Assumptions c28_return_orig_refuted.

(* Non-vacuity: two producers, five calls (one at a disabled level); stop() is requested while
   all four accepted lines are still queued and the logger thread has not run: the hypotheses of
   c28_all_written_done / c28_oracle_ok hold, the four lines are in the file, the oracle accepts. *)
Theorem c28_nonvacuous :
  no_marker 18 nv_ps = true /\
  let c1 := run [P 1; P 0; P 1; P 0; P 0] (init 18 false (fun _ _ => 0%Z) nv_ps) in
  stopper c1 = SIdle /\ all_done c1 = true /\ length (queue c1) = 4%nat /\
  let c2 := run (Stop :: repeat Cons 15 ++ [Stop; Stop]) (step c1 Stop) in
  stopper c2 = SDone /\
  file c2 = [(1%nat, [68%Z]); (2%nat, [65%Z]); (3%nat, [69%Z]); (4%nat, [67%Z])] /\
  map rets (prods c2) = [[true; true; true]; [true; true]] /\
  c28_ok false 18 (fun _ _ => 0%Z) nv_ps (observe c2) = true.
Proof. exact c28_nonvacuous_lemma. Qed.
Print Assumptions c28_nonvacuous.

(* Non-vacuity of the numbering theorems: the same programs with val arguments 0, 1, 2 mixed, run
   with the direction flag (two series 1,2 / 1,2, lines marked " in"/"out") and without it (one
   series 1..4); the oracle accepts both and rejects two-series numbers when the flag is not set. *)
Theorem c28_nonvacuous_direction :
  (let o := run_case 18 true nv_vf [1; 0; 1; 0]%nat nv_ps in
   o_file o = [(1%nat, [32; 105; 110; 32; 68]%Z); (1%nat, [111; 117; 116; 32; 65]%Z);
               (2%nat, [111; 117; 116; 32; 69]%Z); (2%nat, [32; 105; 110; 32; 67]%Z)] /\
   c28_ok true 18 nv_vf nv_ps o = true) /\
  (let o := run_case 18 false nv_vf [1; 0; 1; 0]%nat nv_ps in
   o_file o = [(1%nat, [68%Z]); (2%nat, [65%Z]); (3%nat, [69%Z]); (4%nat, [67%Z])] /\
   c28_ok false 18 nv_vf nv_ps o = true) /\
  c28_ok false 18 nv_vf nv_ps
    {| o_rets := [[true; true; true]; [true; true]];
       o_file := [(1%nat, [68%Z]); (1%nat, [65%Z]); (2%nat, [69%Z]); (2%nat, [67%Z])]; o_stopped := true |} = false.
Proof. exact c28_nonvacuous_direction_lemma. Qed.
Print Assumptions c28_nonvacuous_direction.
