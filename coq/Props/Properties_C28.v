(* Property C28 — "Loggers write every accepted line exactly once, in order".
   Only theorem statements: each is closed by [exact] of a lemma proved in C28/LoggerQProofs.v
   and followed by Print Assumptions.

   Vocabulary.  [run sched (init m ps)]: the interleaving model of C28/LoggerQ.v started with
   level mask m and one program (list of (level, text) submit calls) per producer thread,
   executed under the schedule [sched] (a list of thread ids: P i, Cons = the logger's own
   thread, Stop = the thread calling stop()); every statement below is for ALL schedules, any
   number of producers and any programs.  [wrote c] = the queue elements written so far, in
   file order (ghost; the file holds their texts: first clause of c28_order); [q_src x] = the
   submit call (producer, call number) an element stems from; [elems m i 0 p] = the elements
   producer i creates for the calls of p at enabled levels, in call order; [from i] selects the
   elements of producer i.  The multi-producer queue is abstracted as an atomic FIFO; that
   abstraction is licensed by property C30 (coq/C30), not proved here. *)
From Coq Require Import ZArith List Bool.
From F8 Require Import C28.Spec_C28 C28.LoggerQ C28.LoggerQProofs C28.OracleLink.
Import ListNotations.

(* Order: what is written of one producer is, in order, an initial part of the lines it
   submitted at enabled levels; the file carries the sequence numbers 1, 2, 3, ... *)
Theorem c28_order : forall m ps sched i p, nth_error ps i = Some p ->
  let c := run sched (init m ps) in
  prefix (filter (from i) (wrote c)) (elems m i 0 p) /\
  map snd (file c) = map q_text (wrote c) /\
  map fst (file c) = seq 1 (length (file c)).
Proof. exact c28_order_lemma. Qed.
Print Assumptions c28_order.

(* Levels (and "every written line was submitted"): every written element is call k of some
   producer i, carries exactly the text of that call, and the call's level is enabled. *)
Theorem c28_levels : forall m ps sched x, In x (wrote (run sched (init m ps))) ->
  exists i k p lev, q_src x = Some (i, k) /\ nth_error ps i = Some p /\
                    nth_error p k = Some (lev, q_text x) /\ enabled m lev = true.
Proof. exact c28_levels_lemma. Qed.
Print Assumptions c28_levels.

(* Exactly once, the part that is true: no submit call is written twice (with c28_levels: every
   written line stems from exactly one submit call).  That every accepted line IS written is
   false: c28_lost_lines_refuted. *)
Theorem c28_exactly_once_partial : forall m ps sched,
  NoDup (map q_src (wrote (run sched (init m ps)))).
Proof. exact c28_once_lemma. Qed.
Print Assumptions c28_exactly_once_partial.

(* Completeness under the hypothesis that holds when stop() is called after the queue has been
   drained: if at some moment all producers are done, the queue is empty, the logger thread is
   alive and stop() has not begun ([quiesced], a boolean), then whenever stop() has returned
   later, every line submitted at an enabled level is written (in order). *)
Theorem c28_all_written_partial : forall m ps s1 s2,
  let c1 := run s1 (init m ps) in
  quiesced c1 = true ->
  let c2 := run s2 c1 in
  stopper c2 = SDone ->
  forall i p, nth_error ps i = Some p -> filter (from i) (wrote c2) = elems m i 0 p.
Proof. exact c28_all_written_partial_lemma. Qed.
Print Assumptions c28_all_written_partial.

(* Without that hypothesis: a line accepted before stop() was called is never written and
   stop() returns (the logger thread tests _stopping before it looks at the queue). *)
Theorem c28_lost_lines_refuted :
  exists m ps sched,
    let c := run sched (init m ps) in
    stopper c = SDone /\
    map rets (prods c) = [[false]] /\
    pushed c = [{| q_src := Some (O, O); q_text := [65%Z] |}; {| q_src := None; q_text := [] |}] /\
    file c = [] /\
    file_complete m ps (observe c) = false.
Proof. exact c28_lost_lines_refuted_lemma. Qed.
Print Assumptions c28_lost_lines_refuted.

(* Return values: in every run every completed submit call returned false exactly when its
   level was enabled, i.e. exactly when the line was accepted (enqueue returns
   try_push(...) == 0) ... *)
Theorem c28_return_exact : forall m ps sched i p, nth_error ps i = Some p ->
  exists st done, nth_error (prods (run sched (init m ps))) i = Some st /\
                  p = done ++ todo st /\ rets st = map (fun l => negb (enabled m (fst l))) done.
Proof. exact c28_return_exact_lemma. Qed.
Print Assumptions c28_return_exact.

(* ... so the return-value clause of the property fails even in a run in which everything else
   is satisfied. *)
Theorem c28_return_refuted :
  exists m ps sched,
    let o := observe (run sched (init m ps)) in
    file_sound m ps o = true /\ file_complete m ps o = true /\
    o_rets o = [[false]] /\ rets_ok m ps (o_rets o) = false.
Proof. exact c28_return_refuted_lemma. Qed.
Print Assumptions c28_return_refuted.

(* A submitted line with an empty text is taken for the stop marker: the logger thread exits and
   nothing behind it is written, even if stop() is called only after waiting for the queue. *)
Theorem c28_empty_line_refuted :
  exists m ps,
    let o := run_case true 0 m [] ps in
    o_stopped o = true /\ o_file o = [(1%nat, [65%Z])] /\ file_complete m ps o = false.
Proof. exact c28_empty_line_refuted_lemma. Qed.
Print Assumptions c28_empty_line_refuted.

(* The oracle applied to the real log file, on the model: when the texts of the calls at enabled
   levels are pairwise distinct (in the correspondence runs every text carries producer and call
   number), its soundness half (sequence numbers 1,2,3...; every file line is the next unwritten
   line of some producer: order, exactly-once, levels) holds after EVERY schedule ... *)
Theorem c28_oracle_sound : forall m ps sched,
  NoDup (concat (map (must_write m) ps)) ->
  file_sound m ps (observe (run sched (init m ps))) = true.
Proof. exact c28_oracle_sound_lemma. Qed.
Print Assumptions c28_oracle_sound.

(* ... and its completeness half (stop() has returned and nothing accepted is missing) holds under
   the hypothesis of c28_all_written_partial. *)
Theorem c28_oracle_complete_partial : forall m ps s1 s2,
  NoDup (concat (map (must_write m) ps)) ->
  quiesced (run s1 (init m ps)) = true ->
  stopper (run s2 (run s1 (init m ps))) = SDone ->
  file_complete m ps (observe (run s2 (run s1 (init m ps)))) = true.
Proof. exact c28_oracle_complete_partial_lemma. Qed.
Print Assumptions c28_oracle_complete_partial.

(* Non-vacuity of c28_all_written_partial: two producers, five calls (one at a disabled level),
   queue drained, then stop(): the hypothesis holds and the four accepted lines are in the file. *)
Theorem c28_nonvacuous :
  let c1 := run (fst (sched_pushes 18 [1; 0; 1; 0]%nat nv_ps) ++ repeat Cons 15) (init 18 nv_ps) in
  quiesced c1 = true /\
  let c2 := run [Stop; Cons; Cons; Cons; Stop; Stop] c1 in
  stopper c2 = SDone /\
  file c2 = [(1%nat, [68%Z]); (2%nat, [65%Z]); (3%nat, [69%Z]); (4%nat, [67%Z])] /\
  map rets (prods c2) = [[false; true; false]; [false; false]].
Proof. exact c28_nonvacuous_lemma. Qed.
Print Assumptions c28_nonvacuous.

(* What WOULD hold after the two small repairs (not claimed, the code is as it is):
   (a) enqueue returns try_push(le) (or "!= 0"): then rets = map (enabled m) done, the
       return-value clause holds and c28_return_refuted disappears;
   (b) the logger thread leaves its loop only through the empty marker (while (true), or test
       _stopping only after try_pop found nothing): then the marker pushed by stop() is behind
       every line accepted before it in the FIFO, so c28_all_written_partial holds without the
       [quiesced] hypothesis for all lines pushed before stop()'s marker;
   (c) an empty text submitted by a producer must not be the marker (a separate flag in
       LogElement): then c28_empty_line_refuted disappears. *)
