(* Property C20 "Sequence gaps are recovered with a conformant counterparty".
   Vocabulary (coq/C20):  Peer.run_with_peer = the session model coq/Sess driven against the executable
   specification of a conformant counterparty; Spec_C20.c20_ok = the property on the resulting history and
   trace; Classify.bitem = one inbound message as the session classifies it (application / Heartbeat / Reject /
   SequenceReset-GapFill with its number, PossDupFlag, NewSeqNo); BurstProofs.is_item decode s raw it = "the raw
   bytes carry that number (Session::process' scan for 34=) and decode to such a message with the CompIDs s
   expects"; tiles pos l past = "the items cover the numbers pos .. past-1 consecutively";
   aligned s pos = state continuous and next expected number pos; ahead s pos = state resend_request_sent or
   continuous and next expected number pos+1; good s = reader running, session active, not shut down, past the logon phase;
   dels / retl = the DELIVER events / the return values of Session::process in an event list.
   The stream theorems hold for EVERY schema, EVERY decoder, EVERY session configuration and persister. *)
From Coq Require Import NArith ZArith List Bool.
From F8 Require Import Sess.Bytes Sess.Msg Sess.Persist Sess.Session Sess.SimpleCodec Sess.Wire
  C20.Scenario C20.Peer C20.Spec_C20 C20.Classify C20.SessFacts C20.BurstProofs C20.HistoryProofs C20.CheckProofs
  C20.PeerProofs C20.Example C20.WitnessProofs.
Import ListNotations.
Local Open Scope N_scope.

(* The property is FALSE of fix8 (finding F26).  Witness: Logon 1, message 2 arrives, 3 and 4 are lost, 5 arrives:
   ResendRequest(3,0) goes out but process still increments the expected number to 4; the conformant replay of
   3,4,5 (PossDupFlag=Y) is accepted as "low" and leaves 7; the counterparty's next message 6 is refused
   (process returns false, the session stops) and 7 is never read: not alive, 6 and 7 not delivered, not aligned.
   States: logon_sent, continuous, continuous, resend_request_sent from then on. *)
Theorem c20_refuted :
  exists acts, let '(ops, tr) := run_with_peer mini (simple_decode mini []) [] acts in
    c20_ok mini acts ops tr = false /\ alive ops tr = false /\ Spec_C20.delivered mini acts tr = false /\
    Spec_C20.aligned acts tr = false /\ c20_class ops tr = 2 /\
    recvs tr = [1; 2; 3; 4; 7; 7; 7] /\ states tr = [5; 1; 1; 12; 12; 12; 12].
Proof. exists w_replay_only. exact replay_only_fails. Qed.
Print Assumptions c20_refuted.

(* Second witness: an acceptor expecting 1 receives the counterparty's Logon numbered 4: InvalidMsgSequence in
   state logon_received, a Logout goes out and the session stops (states wait_for_logon, logoff_sent). *)
Theorem c20_logon_refuted :
  exists acts, let '(ops, tr) := run_with_peer mini (simple_decode mini []) [] acts in
    c20_ok mini acts ops tr = false /\ alive ops tr = false /\ c20_class ops tr = 1 /\
    recvs tr = [1; 1; 1] /\ states tr = [3; 7; 7].
Proof. exists w_high_logon. exact high_logon_fails. Qed.
Print Assumptions c20_logon_refuted.

(* Third witness (new): a Reject (35=3) is handed to the default handle_reject without any sequence check.  3 is
   lost, the Reject numbered 4 arrives: no ResendRequest, the expected number simply becomes 4; when 5 arrives the
   session asks for 4.. only.  Application message 3 is never requested and never delivered, although the session
   stays alive and ends "aligned". *)
Theorem c20_reject_refuted :
  exists acts, let '(ops, tr) := run_with_peer mini (simple_decode mini []) [] acts in
    c20_ok mini acts ops tr = false /\ alive ops tr = true /\ Spec_C20.delivered mini acts tr = false /\
    Spec_C20.aligned acts tr = true /\ c20_class ops tr = 3 /\
    deliveries [68] 3 (all_events tr) = [] /\ recvs tr = [1; 2; 3; 4; 5; 6; 7].
Proof. exists w_reject_reveals. exact reject_reveals_fails. Qed.
Print Assumptions c20_reject_refuted.

(* ... for every session state, every number and every decoder: a Reject is answered with false, writes nothing,
   delivers nothing and increments the expected number, whatever its MsgSeqNum. *)
Theorem c20_reject_unchecked :
  forall sc decode fl now raw q m s,
  arrives decode raw q m -> m_type m = mt_reject ->
  exists s', process sc decode fl now raw s = (false, s', []) /\ post s s' (s_state s) (s_next_recv s + 1).
Proof. exact process_reject. Qed.
Print Assumptions c20_reject_unchecked.

(* The refutation is not an accident of the witness.  For EVERY gap -- the session aligned at pos, any message
   (application or Heartbeat) numbered q > pos arrives -- and EVERY burst of retransmissions covering pos .. q
   that contains no GapFill (a counterparty that replays everything), the session delivers the replayed
   application messages but is left expecting q+2, and the counterparty's next new application message, correctly
   numbered q+1, ends the session: process returns false, shutdown, the message is never delivered. *)
Theorem c20_refuted_every_gap :
  forall sc decode fl now g rawg burst braws t rawn l s evs pos q,
  good s -> BurstProofs.aligned s pos -> is_item decode s rawg g -> reveals g q -> pos < q ->
  Forall2 (is_item decode s) braws burst -> tiles pos burst (q + 1) -> forallb item_dup burst = true ->
  has_gap burst = false ->
  is_item decode s rawn (BApp t (q + 1) false) ->
  exists s' evs',
    reader_loop sc decode fl now (rawg :: braws ++ rawn :: l) s evs = (s', evs ++ evs')%list /\
    s_shutdown s' = true /\ s_reader s' = false /\ s_next_recv s' = q + 2 /\
    dels evs' = item_dels burst /\ retl evs' = (1%Z :: item_rets sc burst ++ [0%Z])%list.
Proof. exact gap_without_gapfill_dies. Qed.
Print Assumptions c20_refuted_every_gap.

(* One gap, all sizes and positions: the message that reveals the gap is not delivered (RET 1, ResendRequest);
   the burst is processed message by message with the invariant "expected = position + 1, state
   resend_request_sent" until the first GapFill, "expected = position, state continuous" after it.  With a
   GapFill anywhere in the burst -- in particular a final one whose NewSeqNo is the counterparty's next number --
   the session ends aligned at q+1; without, one ahead.  Every application message of the burst is delivered. *)
Theorem c20_gap_and_burst :
  forall sc decode fl now g rawg burst braws l s evs pos q,
  good s -> BurstProofs.aligned s pos -> is_item decode s rawg g -> reveals g q -> pos < q ->
  Forall2 (is_item decode s) braws burst -> tiles pos burst (q + 1) -> forallb item_dup burst = true ->
  exists s' evs',
    reader_loop sc decode fl now (rawg :: braws ++ l) s evs = reader_loop sc decode fl now l s' (evs ++ evs')%list /\
    good s' /\ cfg s s' /\ (if has_gap burst then BurstProofs.aligned s' (q + 1) else ahead s' (q + 1)) /\
    dels evs' = item_dels burst /\ retl evs' = (1%Z :: item_rets sc burst).
Proof. exact gap_and_burst. Qed.
Print Assumptions c20_gap_and_burst.

(* The burst alone, from ANY running state that is one ahead -- resend_request_sent, or continuous when the message
   that revealed the gap was the counterparty's own ResendRequest and the session has meanwhile SERVED it
   (resend_request_received -> continuous wipes out "our resend is outstanding"): retransmissions below the expected
   number are accepted on their PossDupFlag alone, whatever the state; the first GapFill re-aligns. *)
Theorem c20_burst_one_ahead :
  forall sc decode fl now items raws l s evs pos past,
  Forall2 (is_item decode s) raws items -> tiles pos items past -> good s -> ahead s pos -> dup_until_gap items ->
  exists s' evs',
    reader_loop sc decode fl now (raws ++ l) s evs = reader_loop sc decode fl now l s' (evs ++ evs')%list /\
    good s' /\ cfg s s' /\ (if has_gap items then BurstProofs.aligned s' past else ahead s' past) /\
    dels evs' = item_dels items /\ retl evs' = item_rets sc items.
Proof. exact run_ahead. Qed.
Print Assumptions c20_burst_one_ahead.

(* Gap revealed by the counterparty's ResendRequest (both sides lost messages).  The episode grammar of
   c20_gapfill_partial does NOT include this revealing step (`reveals` admits application messages and Heartbeats: what
   handle_resend_request does to the state depends on the session's own store -- with F21's empty record it stays in
   resend_request_received for good); it is covered by c20_burst_one_ahead plus this witness: the session has sent 2,
   the counterparty's 3 is lost, its ResendRequest [2,0] numbered 4 arrives: the session sends ResendRequest(3,0), serves
   the request from its file persister and is left in state CONTINUOUS expecting 4 = one ahead of 3; the burst
   (replay 3, GapFill 4->5) meets the hypotheses of c20_burst_one_ahead for that state; the run satisfies c20_ok
   (expected numbers 1,2,3,3,4,5,6,7; every state after the Logon is continuous). *)
Theorem c20_rr_reveals_example :
  (let '(ops, tr) := run_with_peer mini (simple_decode mini []) [] w_rr_reveals in
   c20_ok mini w_rr_reveals ops tr = true /\ c20_class ops tr = 0 /\
   recvs tr = [1; 2; 3; 3; 4; 5; 6; 7] /\ states tr = [5; 1; 1; 1; 1; 1; 1; 1]) /\
  (exists s, s_after_rr = Some s /\ good s /\ ahead s 3 /\ s_state s = st_continuous /\
             Forall2 (is_item dec_mini s) (chunks_at w_rr_reveals 5) burst_rr /\ tiles 3 burst_rr (4 + 1) /\
             forallb item_dup burst_rr = true /\ has_gap burst_rr = true).
Proof. exact rr_example. Qed.
Print Assumptions c20_rr_reveals_example.

(* c20_gapfill_partial: whole streams.  A stream is a sequence of episodes: one message in sequence, or a message
   above the expected number followed by the burst answering the ResendRequest.  HYPOTHESIS (in eps_ok): every
   burst contains a GapFill.  Then the session stays alive (good), ends in state continuous expecting exactly
   the number after the stream (= the counterparty's next number), and the deliveries are exactly the application
   messages of the in-sequence episodes and of the bursts: every lost application message is delivered. *)
Theorem c20_gapfill_partial :
  forall sc decode fl now eps l s evs pos past,
  good s -> BurstProofs.aligned s pos -> eps_ok decode s pos eps past ->
  exists s' evs',
    reader_loop sc decode fl now (flat_map ep_raws eps ++ l) s evs = reader_loop sc decode fl now l s' (evs ++ evs')%list /\
    good s' /\ cfg s s' /\ BurstProofs.aligned s' past /\
    dels evs' = flat_map ep_dels eps /\ retl evs' = flat_map (ep_rets sc) eps.
Proof. exact history_recovers. Qed.
Print Assumptions c20_gapfill_partial.

(* c20_nogap: no losses.  Every stream of consecutively numbered messages (application, Heartbeat, Reject,
   unsolicited GapFill), of any length, keeps the session aligned; the deliveries are exactly its application
   messages, in order, each once (their numbers are pairwise distinct), with the PossDupFlag they carry. *)
Theorem c20_nogap :
  forall sc decode fl now items raws l s evs pos past,
  Forall2 (is_item decode s) raws items -> tiles pos items past -> good s -> BurstProofs.aligned s pos ->
  (exists s' evs',
    reader_loop sc decode fl now (raws ++ l) s evs = reader_loop sc decode fl now l s' (evs ++ evs')%list /\
    good s' /\ cfg s s' /\ BurstProofs.aligned s' past /\ dels evs' = item_dels items /\ retl evs' = item_rets sc items) /\
  NoDup (map del_seq (item_dels items)).
Proof. exact nogap_exact. Qed.
Print Assumptions c20_nogap.

(* The hypotheses of c20_gap_and_burst are met by real bytes: the counterparty specification's own messages for
   "3 lost, Heartbeat 4 lost, 5 arrives" (burst = replay 3, GapFill 4->5, replay 5), decoded by Sess.SimpleCodec,
   against the model's session state after Logon and message 2. *)
Theorem c20_gapfill_nonvacuous :
  exists s rawg,
    s_at3 = Some s /\ chunks_at w_with_gapfill 3 = [rawg] /\
    good s /\ BurstProofs.aligned s 3 /\
    is_item dec_mini s rawg (BApp [68] 5 false) /\
    Forall2 (is_item dec_mini s) (chunks_at w_with_gapfill 4) burst_w /\
    tiles 3 burst_w (5 + 1) /\ forallb item_dup burst_w = true /\ has_gap burst_w = true.
Proof. exact gapfill_instance. Qed.
Print Assumptions c20_gapfill_nonvacuous.

(* ... and on that scenario the run of the counterparty specification against the session model satisfies c20_ok
   (expected numbers 1,2,3,4,6,7,8: resynchronised by the GapFill); without loss every message is delivered
   exactly once, never PossDup. *)
Theorem c20_gapfill_example :
  (let '(ops, tr) := run_with_peer mini (simple_decode mini []) [] w_with_gapfill in
   c20_ok mini w_with_gapfill ops tr = true /\ c20_class ops tr = 0 /\
   recvs tr = [1; 2; 3; 4; 6; 7; 8] /\ states tr = [5; 1; 1; 12; 1; 1; 1]) /\
  (let '(ops, tr) := run_with_peer mini (simple_decode mini []) [] w_no_loss in
   c20_ok mini w_no_loss ops tr = true /\ c20_exact mini w_no_loss tr = true /\ c20_class ops tr = 0).
Proof. split; [exact with_gapfill_recovers|exact no_loss_exact]. Qed.
Print Assumptions c20_gapfill_example.

(* run_with_peer is the session model of coq/Sess on the history it records: for every schema and scenario the
   trace it returns is Sess.Wire.run_history of the operations it returns (the history given to the real session). *)
Theorem c20_run_is_session_model :
  forall sc acts, let '(ops, tr) := run_with_peer sc (simple_decode sc []) [] acts in tr = run_history sc ops.
Proof. exact run_with_peer_is_run_history. Qed.
Print Assumptions c20_run_is_session_model.

(* The counterparty specification's answer to a ResendRequest has the shape the stream theorems assume: for remembered
   messages numbered consecutively n .. past-1 (after an open gap-fill run starting at g < n, if any) and ANY decisions,
   the burst built by Peer.replay_items -- application messages and chosen Rejects replayed, everything else covered by
   SequenceReset-GapFills -- tiles the range exactly, and every item carries PossDupFlag. *)
Theorem c20_peer_burst_tiles :
  forall l gs past d n,
  consec l n past -> (match gs with Some g => g < n | None => True end) ->
  tiles (match gs with Some g => g | None => n end) (map shape (fst (replay_items l gs past d))) past /\
  forallb item_dup (map shape (fst (replay_items l gs past d))) = true.
Proof. exact replay_items_tiles. Qed.
Print Assumptions c20_peer_burst_tiles.
