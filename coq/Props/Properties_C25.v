(* Property C25 -- "Concurrent senders get unique consecutive sequence numbers".
   Only theorem statements; each is closed by [exact] of a lemma proved in C25/ConcProofs.v / C25/OracleProofs.v.

   The model (C25/Conc.v) is the interleaving model of DESIGN section 4: a thread = program counter + locals,
   one list element of a schedule = ONE atomic action of that thread, [trun]/[prun] = fold over the schedule.
   Number of threads, their programs and the schedule are arbitrary and unbounded.
     pm_thread   : a Session::send / send_batch call is one critical section of _con_spl = one step (applies
                   Sess.Session.send / send_batch).
     pm_pipeline : take _con_spl / ONE push / release _con_spl are steps of an application thread (single writes
                   push WITHOUT the lock), pop + send_process is the step of the writer thread; the queue is an
                   atomic FIFO (licence: C30).
   Vocabulary (C25/ConcProofs.v):
     s0                   the session when the threads are started; n0 = s_next_send s0
     expect s0 n ms       the wire bytes of ms sent one after the other: the k-th is `wire_at s0 (n+k) m` = m with the
                          session's CompIDs, MsgSeqNum n+k and SendingTime now, encoded (c25_wire_content says what
                          a receiver reads in it)
     apps s0 n ms         [(n+k, wire_at s0 (n+k) m) | the k-th message m is an application message]
     t_lin / p_pushed     ghost: (thread, message) in the order of the critical sections / of the pushes
     sent_by t lin        the messages of thread t in lin, in order;  norm = set_eob true (write_batch clears the
                          end_of_batch flag of all but the last message of a vector; nothing else is changed)
     call                 CSend = send(Message*, ..), CSendRef = send(Message&, ..) (the by-reference overload), CBatch =
                          send_batch: ALL public send entry points; in pm_thread each is one critical section of _con_spl
     progs_okp            progs_ok without CSendRef (it throws while pipelining: nothing is submitted)
     progs_ok             every submitted message is plain (no custom sequence number / no_increment / SequenceReset,
                          MsgSeqNum and PossDupFlag not preset, SOH- and NUL-free values, schema admin flag = session-
                          level type) and has end_of_batch at its default
     good s0              C17's state invariant: socket open, CompIDs SOH/NUL-free, store strictly increasing and below
                          next_send, next_send <> 0 (c25_after_start: holds after every START)
   NOT proved (ASSUMPTIONS of the suite): that pthread_spin_lock gives mutual exclusion, that the queue primitives are
   atomic, that there is no data race -- the last one is what the TSan tier looks at. *)
From Coq Require Import NArith ZArith List Bool.
From F8 Require Import Sess.Bytes Sess.Msg Sess.Persist Sess.Session Sess.SimpleCodec Sess.Wire
  Sess.SessLemmas Sess.SendLemmas Sess.Demo C16.Spec_C16 C16.C16Proofs C17.Spec_C17 C17.C17Proofs
  C25.Conc C25.Syntax C25.Spec_C25 C25.ConcProofs C25.OracleProofs.
Import ListNotations.
Local Open Scope N_scope.

(* c25_threaded: pm_thread, for ALL schedules, thread counts and programs, at every point of the run:
   the wire is exactly the messages that have been through a critical section, in that order, each once, carrying
   n0, n0+1, ...; nothing is left in the batch buffer; next_send = n0 + their number; the store has grown by exactly
   the application messages among them under their numbers with their wire bytes (sentrel is C17's relation between
   wire classification and store, its consequence for the oracle is c25_oracle_threaded); and per thread what has
   been sent followed by what is still to be sent is the thread's program -- every submitted message is transmitted
   exactly once, in program order -- and every call has returned the number of its messages. *)
Theorem c25_threaded : forall (sc : schema) (now : Z),
  wf_schema sc = true -> nonul (sc_begin sc) = true ->
  forall (s0 : sess) (progs : list (list call)) (sched : list nat),
  good s0 -> s_batch s0 = [] -> progs_ok sc progs ->
  let c := trun sc now sched (tinit s0 progs) in
  let lin := map snd (t_lin c) in
  t_wire c = map EOut (expect sc now s0 (s_next_send s0) lin) /\
  s_next_send (t_sess c) = s_next_send s0 + N.of_nat (length lin) /\
  s_batch (t_sess c) = [] /\
  sentrel (s_next_send s0) (infos_of sc now s0 (s_next_send s0) lin) (apps sc now s0 (s_next_send s0) lin) /\
  (p_attached (s_per s0) = true ->
   p_store (s_per (t_sess c)) = (p_store (s_per s0) ++ apps sc now s0 (s_next_send s0) lin)%list) /\
  (p_attached (s_per s0) = false -> p_store (s_per (t_sess c)) = p_store (s_per s0)) /\
  length (t_threads c) = length progs /\
  (forall t th, nth_error (t_threads c) t = Some th ->
     exists p, nth_error progs t = Some p /\
               prog_msgs p = (map norm (sent_by t (t_lin c)) ++ prog_msgs (tt_prog th))%list /\
               map call_ret p = (tt_rets th ++ map call_ret (tt_prog th))%list).
Proof. exact c25_threaded_lemma. Qed.
Print Assumptions c25_threaded.

(* c25_pipelined: pm_pipeline, for ALL schedules (application threads pushing, with and without _con_spl, and the
   writer thread popping), at every point of the run: what the writer has popped is a prefix of what has been pushed
   (wire order = queue order); wire ++ batch buffer = the popped messages numbered n0, n0+1, ..., each once, in queue
   order -- this includes a foreign single message queued between the messages of a batch --, the buffer is empty
   whenever the last popped message closes a batch; next_send and store as in c25_threaded; per thread what has been
   pushed, what is left of the vector being pushed and what is still to be called is the thread's program.
   And when every thread has finished and the queue is drained ([quiescent]), everything submitted is on the wire. *)
Theorem c25_pipelined : forall (sc : schema) (now : Z),
  wf_schema sc = true -> nonul (sc_begin sc) = true ->
  forall (s0 : sess) (progs : list (list call)) (sched : list actor),
  good s0 -> s_batch s0 = [] -> progs_okp sc progs ->
  let c := prun sc now sched (pinit s0 progs) in
  map snd (p_pushed c) = (p_popped c ++ p_queue c)%list /\
  (exists pend out,
     p_wire c = map EOut out /\ s_batch (p_sess c) = concat (map (encode sc) pend) /\
     (out ++ map (encode sc) pend)%list = expect sc now s0 (s_next_send s0) (p_popped c) /\
     (p_popped c = [] \/ m_eob (last (p_popped c) (new_msg [])) = true -> pend = [])) /\
  s_next_send (p_sess c) = s_next_send s0 + N.of_nat (length (p_popped c)) /\
  sentrel (s_next_send s0) (infos_of sc now s0 (s_next_send s0) (p_popped c)) (apps sc now s0 (s_next_send s0) (p_popped c)) /\
  (p_attached (s_per s0) = true ->
   p_store (s_per (p_sess c)) = (p_store (s_per s0) ++ apps sc now s0 (s_next_send s0) (p_popped c))%list) /\
  (p_attached (s_per s0) = false -> p_store (s_per (p_sess c)) = p_store (s_per s0)) /\
  length (p_threads c) = length progs /\
  (forall t th, nth_error (p_threads c) t = Some th ->
     exists p, nth_error progs t = Some p /\
               prog_msgs p = (map norm (sent_by t (p_pushed c)) ++ pc_rest (pt_pc th) ++ prog_msgs (pt_prog th))%list) /\
  (quiescent c = true ->
     p_popped c = map snd (p_pushed c) /\
     p_wire c = map EOut (expect sc now s0 (s_next_send s0) (map snd (p_pushed c))) /\ s_batch (p_sess c) = [] /\
     forall t p, nth_error progs t = Some p -> prog_msgs p = map norm (sent_by t (p_pushed c))).
Proof. exact c25_pipelined_lemma. Qed.
Print Assumptions c25_pipelined.

(* c25_foreign_in_batch: the non-obvious case on its own.  The queue holds b1..bi (end_of_batch = false), a foreign
   single x (end_of_batch = true), then the rest of the batch marked by write_batch.  The writer buffers b1..bi, x
   flushes the buffer with b1..bi in front, the rest is buffered and flushed by the last message: all messages go
   out, each once, in queue order, numbered consecutively, nothing stays buffered, and the application messages are
   stored under their numbers with their wire bytes. *)
Theorem c25_foreign_in_batch : forall (sc : schema) (now : Z),
  wf_schema sc = true -> nonul (sc_begin sc) = true ->
  forall (s0 s : sess) (l1 l2 : list msg) (x : msg),
  good s -> s_batch s = [] -> frame s0 s ->
  Forall (msg_ok25 sc) (l1 ++ l2) -> msg_ok25 sc x -> l2 <> [] ->
  let queue := (map (set_eob false) l1 ++ [x] ++ mark_eob l2)%list in
  let n := s_next_send s in
  exists s',
    seq_run sc now s queue = (N.of_nat (length l1 + 1 + length l2), s', map EOut (expect sc now s0 n (l1 ++ [x] ++ l2))) /\
    s_batch s' = [] /\ s_next_send s' = n + N.of_nat (length l1 + 1 + length l2) /\
    (p_attached (s_per s) = true -> p_store (s_per s') = (p_store (s_per s) ++ apps sc now s0 n (l1 ++ [x] ++ l2))%list).
Proof. exact c25_foreign_in_batch_lemma. Qed.
Print Assumptions c25_foreign_in_batch.

(* c25_wire_content: what a receiver reads in the k-th expected wire message: a new message (no PossDupFlag) whose
   MsgSeqNum is n, whose MsgType is the submitted one and whose non-header fields are exactly the submitted body. *)
Theorem c25_wire_content : forall (sc : schema) (now : Z), wf_schema sc = true ->
  forall (s0 : sess), wf_sess s0 = true ->
  forall (n : N) (m : msg), plain_msg m = true ->
  new_msg_of (wire_at sc now s0 n m) = Some (session_type (m_type m), n, wire_at sc now s0 n m) /\
  (sorted_out m -> wire_item (wire_at sc now s0 n m) = body_item m).
Proof. exact c25_wire_content_lemma. Qed.
Print Assumptions c25_wire_content.

(* c25_oracle_threaded / c25_oracle_pipelined: the oracle c25_phase_ok (C25/Spec_C25.v: numbers consecutive from the
   start number, wire = an interleaving of the per-thread submission sequences with nothing added or missing, store =
   wire for application messages, none for administrative ones) accepts what the model produces under EVERY schedule
   once all threads have finished (and, pm_pipeline, the queue is drained) -- provided header fields are standard
   header fields, body fields are not, and the submitted (type, body) items are pairwise different (the generated
   cases carry thread id and index in every body; the greedy interleaving check needs it). *)
Theorem c25_oracle_threaded : forall (sc : schema) (now : Z),
  wf_schema sc = true -> nonul (sc_begin sc) = true ->
  forall (s0 : sess) (progs : list (list call)) (sched : list nat),
  good s0 -> s_batch s0 = [] -> progs_ok sc progs -> Forall sorted_out (all_msgs progs) -> distinct (subm progs) ->
  let c := trun sc now sched (tinit s0 progs) in
  (forall t th, nth_error (t_threads c) t = Some th -> tt_prog th = []) ->
  exists wire,
    t_wire c = map EOut wire /\
    c25_phase_ok (s_next_send s0) (subm progs) wire (s_next_send (t_sess c)) (p_attached (s_per s0))
                 (apps sc now s0 (s_next_send s0) (map snd (t_lin c))) = true.
Proof. exact c25_oracle_threaded_lemma. Qed.
Print Assumptions c25_oracle_threaded.

Theorem c25_oracle_pipelined : forall (sc : schema) (now : Z),
  wf_schema sc = true -> nonul (sc_begin sc) = true ->
  forall (s0 : sess) (progs : list (list call)) (sched : list actor),
  good s0 -> s_batch s0 = [] -> progs_okp sc progs -> Forall sorted_out (all_msgs progs) -> distinct (subm progs) ->
  let c := prun sc now sched (pinit s0 progs) in
  quiescent c = true ->
  exists wire,
    p_wire c = map EOut wire /\
    c25_phase_ok (s_next_send s0) (subm progs) wire (s_next_send (p_sess c)) (p_attached (s_per s0))
                 (apps sc now s0 (s_next_send s0) (map snd (p_pushed c))) = true.
Proof. exact c25_oracle_pipelined_lemma. Qed.
Print Assumptions c25_oracle_pipelined.

(* c25_numbers: what acceptance by the oracle means for the numbers, on the model's or the implementation's output:
   the messages at two different positions are new messages carrying start + position -- pairwise different,
   increasing by one per message -- and next_send ends at start + number of messages. *)
Theorem c25_numbers : forall start subm wire next att stored i j wi wj,
  c25_phase_ok start subm wire next att stored = true ->
  nth_error wire i = Some wi -> nth_error wire j = Some wj -> (i < j)%nat ->
  exists ai aj, new_msg_of wi = Some (ai, start + N.of_nat i, wi) /\ new_msg_of wj = Some (aj, start + N.of_nat j, wj) /\
                start + N.of_nat i < start + N.of_nat j /\ next = start + N.of_nat (length wire).
Proof. exact c25_numbers_lemma. Qed.
Print Assumptions c25_numbers.

(* c25_after_start: the hypotheses on s0 hold for the session right after any START (both roles, any persister, any
   start number): the theorems above apply to every concurrent phase that follows a START. *)
Theorem c25_after_start : forall (sc : schema) (p : startp) (t : option Z),
  wf_schema sc = true -> nonul (sc_begin sc) = true -> wf_admin sc = true -> wf_start17 p = true ->
  exists s, w_sess (fst (snapshot (fst (run_op sc world0 (OStart p t))))) = Some s /\ good s /\ s_batch s = [].
Proof. exact c25_after_start_lemma. Qed.
Print Assumptions c25_after_start.

(* c25_nonvacuous: the hypotheses are met by a session after START and two threads (a batch of three orders; an
   order and a Heartbeat).  Under the pipelined schedule d_sched_pipe the second thread's order is queued INSIDE the
   first thread's batch (queue order a, x, b, c, heartbeat with end_of_batch false, true, false, true, true): the wire
   carries 2, 3, 4, 5, 6, the four application messages are stored under 2..5, nothing stays buffered, the calls
   return 3 and 1, 1.  Under the threaded schedule [1; 0; 1] the batch is one critical section and thread 1 uses the
   by-reference overload. *)
Theorem c25_nonvacuous :
  wf_schema demo_schema = true /\ nonul (sc_begin demo_schema) = true /\
  good d_s0 /\ s_batch d_s0 = [] /\ progs_okp demo_schema d_progs /\ progs_ok demo_schema d_progs_ref /\ s_next_send d_s0 = 2 /\
  (let c := prun demo_schema T0 d_sched_pipe (pinit d_s0 d_progs) in
   quiescent c = true /\
   map (fun m => (m_body m, m_eob m)) (p_popped c) =
     [(m_body (d_o 97), false); (m_body (d_o 120), true); (m_body (d_o 98), false); (m_body (d_o 99), true); (m_body d_hb, true)] /\
   map fst (p_pushed c) = [0; 1; 0; 0; 1]%nat /\
   seqs_of (p_wire c) = [2; 3; 4; 5; 6] /\ map fst (p_store (s_per (p_sess c))) = [2; 3; 4; 5] /\
   s_next_send (p_sess c) = 7 /\ s_batch (p_sess c) = [] /\ map pt_rets (p_threads c) = [[Some 3]; [Some 1; Some 1]]) /\
  (let c := trun demo_schema T0 d_sched_thread (tinit d_s0 d_progs_ref) in
   map fst (t_lin c) = [1; 0; 0; 0; 1]%nat /\ seqs_of (t_wire c) = [2; 3; 4; 5; 6] /\
   map fst (p_store (s_per (t_sess c))) = [2; 3; 4; 5] /\ map tt_rets (t_threads c) = [[3]; [1; 1]]).
Proof. exact c25_nonvacuous_lemma. Qed.
Print Assumptions c25_nonvacuous.
