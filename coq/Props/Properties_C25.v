(* placeholder while the tie is being built *)
From Coq Require Import NArith List.
From F8 Require Import C25.Conc.
Theorem c25_placeholder : True.
Proof. exact I. Qed.
Print Assumptions c25_placeholder.
