(* Property C09 -- "Date/time field codecs are calendar-correct inverses".
   Only theorem statements: each is closed by [exact] of a lemma proved under C09/ and followed
   by Print Assumptions.  Model: C09/DateTime.v (fix8 as pinned; [_gen true] = time_to_epoch
   evaluated in 64 bits).  Specification/oracle: C09/Spec_C09.v. *)
From Coq Require Import ZArith List Bool.
From F8 Require Import C09.DateTime C09.Spec_C09 C09.CalendarSweeps C09.DigitProofs C09.PrintProofs
  C09.ParseProofs C09.RoundtripProofs.
Import ListNotations.
Local Open Scope Z_scope.

(* The model's calendar (the stand-in for gmtime_r) agrees with the specification's calendar on
   every one of the 47482 days 1970-01-01 .. 2099-12-31: the date it gives is valid, is a date of
   1970..2099, and the specification maps it back to the day.  (Complete sweep.) *)
Theorem c09_calendar : forall d, 0 <= d < DAYS ->
  let '(y, m, dd) := civil_of_days d in c09_civil_ok d y m dd = true /\ 1970 <= y <= 2099.
Proof. exact civil_of_days_ok. Qed.
Print Assumptions c09_calendar.

(* time_to_epoch is the inverse of the calendar: for every valid date of 1970..2099 (complete
   sweep) and every time of day it returns the second count of that civil time -- in 64 bits
   always, as pinned (int arithmetic) when the count fits an int. *)
Theorem c09_epoch_inverse : forall wide y m d h mi s,
  1970 <= y <= 2099 -> valid_date y m d = true -> 0 <= h < 24 -> 0 <= mi < 60 -> 0 <= s < 60 ->
  (wide = true \/ days_from_civil y m d * 86400 + h * 3600 + mi * 60 + s <= INT_MAX) ->
  time_to_epoch_gen wide (mk_tm y m d h mi s) 0 false
  = Some (days_from_civil y m d * 86400 + h * 3600 + mi * 60 + s, false).
Proof. intros; apply time_to_epoch_valid; assumption. Qed.
Print Assumptions c09_epoch_inverse.

(* parse_decimal inverts format0: every width, every value that fits the width. *)
Theorem c09_digits : forall w n, 0 <= n < 10 ^ Z.of_nat w ->
  parse_decimal w (format0 n w) 0 false = Some (n, false, []).
Proof. exact digits_roundtrip. Qed.
Print Assumptions c09_digits.

(* Pinned code, whole range 1970..2100, every nanosecond tick count: the six printed texts
   (UTCTimestamp, UTCTimeOnly, UTCDateOnly, LocalMktDate, MonthYear 6 and 8) have the canonical
   shape and denote the instant's calendar components. *)
Theorem c09_texts : forall t, in_range t = true -> c09_texts_ok t (observe (roundtrip t)) = true.
Proof. exact texts_ok. Qed.
Print Assumptions c09_texts.

(* Pinned code: for every tick count before 2038-01-19T03:14:08 the texts are right AND the
   string constructors give back the component (instant truncated to ms, time of day, day, first
   of month); no undefined int operation is executed. *)
Theorem c09_roundtrip_partial : forall t, 0 <= t < 2147483648 * NS_SEC ->
  c09_ok t (observe (roundtrip t)) = true /\ forallb (fun p => ub_free (snd p)) (roundtrip t) = true.
Proof. exact roundtrip_partial_lemma. Qed.
Print Assumptions c09_roundtrip_partial.

(* ... and from there on it does not: at 2038-01-19T03:14:08 the int expression of
   time_to_epoch overflows (undefined behaviour; wraps to a negative second count). *)
Theorem c09_y2038_refuted : exists t, in_range t = true /\ c09_ok t (observe (roundtrip t)) = false /\
  forallb (fun p => ub_free (snd p)) (roundtrip t) = false.
Proof. exact y2038_refuted_lemma. Qed.
Print Assumptions c09_y2038_refuted.

(* With time_to_epoch's expression evaluated in time_t (the proposed repair) the property holds
   on its whole range. *)
Theorem c09_roundtrip_wide : forall t, in_range t = true -> c09_ok t (observe (roundtrip_gen true t)) = true.
Proof. exact roundtrip_wide_lemma. Qed.
Print Assumptions c09_roundtrip_wide.

(* The string constructors invert EVERY well-formed text of the range, not only the ones print()
   produces (17 and 21 character timestamps, 8 and 12 character times, dates, both MonthYear forms). *)
Theorem c09_parse_partial : forall wide k s v, denote k s = Some v -> in_range v = true ->
  (wide = true \/ v < 2147483648 * NS_SEC) ->
  field_parse_gen wide (mkind k) s = Ticks v false.
Proof. exact parse_follows_denote. Qed.
Print Assumptions c09_parse_partial.
