(* Property C09 -- "Date/time field codecs are calendar-correct inverses".
   Only theorem statements: each is closed by [exact] of a lemma proved under C09/ and followed
   by Print Assumptions.  Model: C09/DateTime.v (fix8 as pinned; [_orig] = time_to_epoch evaluated
   in int as before the repair 4d1009d).  Specification/oracle: C09/Spec_C09.v. *)
From Coq Require Import ZArith List Bool.
From F8 Require Import C09.DateTime C09.Spec_C09 C09.CalendarSweeps C09.DigitProofs C09.PrintProofs
  C09.ParseProofs C09.RoundtripProofs C09.LogProofs.
Import ListNotations.
Local Open Scope Z_scope.

(* The model's calendar (the stand-in for gmtime_r) agrees with the specification's calendar on
   every one of the 47482 days 1970-01-01 .. 2099-12-31: the date it gives is valid, is a date of
   1970..2099, and the specification maps it back to the day.  (Complete sweep.) *)
Theorem c09_calendar : forall d, 0 <= d < DAYS ->
  let '(y, m, dd) := civil_of_days d in c09_civil_ok d y m dd = true /\ 1970 <= y <= 2099.
Proof. exact civil_of_days_ok. Qed.
Print Assumptions c09_calendar.

(* time_to_epoch is the inverse of the calendar: for every valid date of 1970..2099 (complete
   sweep) and every time of day it returns the second count of that civil time. *)
Theorem c09_epoch_inverse : forall y m d h mi s,
  1970 <= y <= 2099 -> valid_date y m d = true -> 0 <= h < 24 -> 0 <= mi < 60 -> 0 <= s < 60 ->
  time_to_epoch (mk_tm y m d h mi s) 0 false
  = (days_from_civil y m d * 86400 + h * 3600 + mi * 60 + s, false).
Proof. exact epoch_inverse_lemma. Qed.
Print Assumptions c09_epoch_inverse.

(* parse_decimal inverts format0: every width, every value that fits the width. *)
Theorem c09_digits : forall w n, 0 <= n < 10 ^ Z.of_nat w ->
  parse_decimal w (format0 n w) 0 false = Some (n, false, []).
Proof. exact digits_roundtrip. Qed.
Print Assumptions c09_digits.

(* The property, codec part: for EVERY nanosecond tick count of 1970-01-01 .. 2100-01-01 (so in
   particular every millisecond instant) the six printed texts (UTCTimestamp, UTCTimeOnly,
   UTCDateOnly, LocalMktDate, MonthYear 6 and 8) have the canonical shape and denote the instant's
   calendar components, and the string constructors give back exactly that component (instant
   truncated to ms, time of day, day, first of the month); no undefined operation is executed. *)
Theorem c09_roundtrip : forall t, in_range t = true ->
  c09_ok t (observe (roundtrip t)) = true /\ forallb (fun p => ub_free (snd p)) (roundtrip t) = true.
Proof. exact roundtrip_lemma. Qed.
Print Assumptions c09_roundtrip.

(* The string constructors invert EVERY well-formed text of the range, not only the ones print()
   produces (17 and 21 character timestamps, 8 and 12 character times, dates, both MonthYear forms). *)
Theorem c09_parse : forall k s v, denote k s = Some v -> in_range v = true ->
  field_parse (mkind k) s = Ticks v false.
Proof. exact parse_lemma. Qed.
Print Assumptions c09_parse.

(* Robustness of the string constructors (since da4ab8c): whatever the characters are -- month
   00, 13, 99, non-digits, bytes >= 0x80 -- a text of at least min_text_len characters (16 for a
   timestamp, 7 for a time, 5 for the dates) always yields a field: nothing outside the NUL
   terminated text and outside time_to_epoch's table is read. *)
Theorem c09_parse_total_partial : forall wide k s, (min_text_len k <= length s)%nat ->
  exists t ub, field_parse_gen wide (mkind k) s = Ticks t ub.
Proof. exact parse_total_lemma. Qed.
Print Assumptions c09_parse_total_partial.

(* ... a shorter one is read past its end ("2014" as a UTCTimestamp: the parser reads 17 bytes
   whatever the length). *)
Theorem c09_parse_overrun_refuted : exists k s, is_now s = false /\ field_parse (mkind k) s = OOB.
Proof. exact parse_overrun_refuted_lemma. Qed.
Print Assumptions c09_parse_overrun_refuted.

(* The code before the repair 4d1009d (time_to_epoch evaluated in int, [roundtrip_orig]) violated
   the property from 2038-01-19T03:14:08 on: signed overflow, the timestamp parses to a negative
   tick count ... *)
Theorem c09_y2038_orig_refuted : exists t, in_range t = true /\ c09_ok t (observe (roundtrip_orig t)) = false /\
  forallb (fun p => ub_free (snd p)) (roundtrip_orig t) = false.
Proof. exact y2038_orig_refuted_lemma. Qed.
Print Assumptions c09_y2038_orig_refuted.

(* ... and was right exactly up to there. *)
Theorem c09_roundtrip_orig_partial : forall t, 0 <= t < 2147483648 * NS_SEC ->
  c09_ok t (observe (roundtrip_orig t)) = true /\ forallb (fun p => ub_free (snd p)) (roundtrip_orig t) = true.
Proof. exact roundtrip_orig_partial_lemma. Qed.
Print Assumptions c09_roundtrip_orig_partial.

(* Log timestamps (GetTimeAsStringMS, gm form; with TZ=UTC also the localtime form): the text shows
   the calendar fields of the instant with seconds in 00..59 and is less than one unit of the last
   printed place away from it -- at precision 0 always; at precisions 1..9 whenever the second of
   the minute is below 59 or the fraction does not round up to a whole second (at nine places it
   never does).  The seconds value is the binary64 computation (secs%60) + nsecs/1e9 printed by
   printf, modelled exactly. *)
Theorem c09_log_partial : forall secs nsecs d, log_in_range secs nsecs d = true ->
  (d = 0%nat \/ secs mod 60 < 59 \/ 2 * nsecs + 10 ^ (9 - Z.of_nat d) < 2 * NS_SEC) ->
  c09_log_ok secs nsecs d (log_render secs nsecs d) = true.
Proof. exact log_partial_lemma. Qed.
Print Assumptions c09_log_partial.

(* ... and otherwise it can show second 60: 1970-01-01 00:00:59.9999996 at six places is printed
   as "1970-01-01 00:00:60.000000" (finding F16). *)
Theorem c09_log_seconds_refuted : exists secs nsecs d, log_in_range secs nsecs d = true /\
  log_seconds d (log_render secs nsecs d) = Some 60 /\ c09_log_ok secs nsecs d (log_render secs nsecs d) = false.
Proof. exact log_seconds_refuted_lemma. Qed.
Print Assumptions c09_log_seconds_refuted.

(* Non-vacuity: 2000-02-29T23:59:59.999 meets the hypothesis of c09_roundtrip and yields the
   expected texts "20000229-23:59:59.999", "23:59:59.999", "20000229", "20000229", "200002",
   "20000229" with their components; "2000-02-29 23:59:59.500000" meets those of c09_log_partial. *)
Theorem c09_nonvacuous :
  in_range 951868799999000000 = true /\
  observe (roundtrip 951868799999000000) =
    [([50; 48; 48; 48; 48; 50; 50; 57; 45; 50; 51; 58; 53; 57; 58; 53; 57; 46; 57; 57; 57], Some 951868799999000000);
     ([50; 51; 58; 53; 57; 58; 53; 57; 46; 57; 57; 57], Some 86399999000000);
     ([50; 48; 48; 48; 48; 50; 50; 57], Some 951782400000000000);
     ([50; 48; 48; 48; 48; 50; 50; 57], Some 951782400000000000);
     ([50; 48; 48; 48; 48; 50], Some 949363200000000000);
     ([50; 48; 48; 48; 48; 50; 50; 57], Some 951782400000000000)] /\
  log_in_range 951868799 499999999 6 = true /\
  2 * 499999999 + 10 ^ (9 - Z.of_nat 6) < 2 * NS_SEC /\
  log_render 951868799 499999999 6 =
    [50; 48; 48; 48; 45; 48; 50; 45; 50; 57; 32; 50; 51; 58; 53; 57; 58; 53; 57; 46; 53; 48; 48; 48; 48; 48].
Proof. exact nonvacuous_lemma. Qed.
Print Assumptions c09_nonvacuous.
