(* Property C01 -- "Message encode/decode round trip preserves every field".
   Only theorem statements; each is closed by [exact] of a lemma of C01/*.v and followed by
   Print Assumptions.
     roundtrip c m = msg_encode, then factory (strict, checksum verified) on the bytes, then
                     msg_encode of the decoded object -- the models of Message::encode and
                     Message::factory of coq/Codec, tied to the real code by the correspondence run;
     extract_element = the model of MessageBase::extract_element with the caller's buffer sizes. *)
From Coq Require Import NArith ZArith List Bool.
From F8 Require Import Codec.Bytes Codec.Meta Codec.Extract Codec.Decode Codec.Encode Codec.Render Codec.Example
                       C02.Spec_C02 C02.WfC02 C02.TokenProofs C02.AuxProofs C02.EncodeProofs
                       C01.Spec_C01 C01.WfC01 C01.WfGroups C01.ExtractProofs C01.FlatTheorem C01.GroupRoundtripTheorem C01.RoundtripProofs.
Import ListNotations.
Local Open Scope N_scope.

(* The tokenising primitive inverts the printing of one field, for every tag, every value without
   SOH, every continuation, whenever the window and the caller's buffers are large enough
   (tag digits < tcap, value length < vcap: 2048 in decode/decode_group). *)
Theorem c01_extract_inverts_print : forall f v rest sz tcap vcap,
  no_soh v -> lenN (pbytes (f, v)) <= sz -> lenN (itoa_N f) < tcap -> lenN v < vcap ->
  extract_element (pbytes (f, v) ++ rest) sz tcap vcap = XOk (itoa_N f) v (lenN (pbytes (f, v))).
Proof. exact extract_field. Qed.
Print Assumptions c01_extract_inverts_print.

(* The round trip, for EVERY schema context and EVERY message object satisfying the decidable
   hypotheses (all evaluated at run time on the generated messages):
     wf_msg, fresh  -- as in C02 (unambiguous metadata, fields under their schema positions, ...);
     vals_canonical -- every value text stored in the object is a fixed point of its type's rendering
                       (so the printed content below IS the content the message was built with; negative
                       ints are canonical since a8219b1; value-changing floats are excluded and refuted below);
     c01_flat       -- C01/WfC01.v: no repeating-group ELEMENT (count fields may be present with 0),
                       no Length-typed field besides BodyLength, no trailer field besides CheckSum;
                       every value canonical for its type (render = identity: the vals_canonical of
                       the design), < 2048 bytes, no SOH/NUL; tags < 65536; MsgType < 32 bytes;
                       fields legal and not repeated; mandatory fields of header/body/trailer present;
                       the header/trailer constructors as the generated code has them.
   Then: the encoder succeeds, Message::factory (strict mode, checksum verified) succeeds on
   exactly those bytes, the decoded object has the same content (the same printed (tag, value)
   sequence in header, body and trailer, and the same message type), and encoding the decoded
   object gives byte-identical output.  Any message type, any subset of fields, any values in
   the canonical domain, any insertion order.
   NOT covered by this theorem (covered by the differential run only): messages with group
   elements (any depth), Length/data pairs, trailer fields. *)
Theorem c01_roundtrip_partial : forall c m,
  render_ok c -> wf_msg c m = true -> fresh m = true -> vals_canonical c m = true -> c01_flat c m = true ->
  exists b m1 m' m2,
    msg_encode c m = Ok (b, m1) /\ factory c real_caps b false false = Ok m' /\
    msg_encode c m' = Ok (b, m2) /\
    content c m <> None /\ content c m' = content c m /\ m_type m' = m_type m.
Proof. exact c01_roundtrip_partial_lemma. Qed.
Print Assumptions c01_roundtrip_partial.

(* THE ROUND TRIP WITH REPEATING GROUPS.  Same statement as c01_roundtrip_partial with c01_flat
   replaced by c01_groups (C01/WfGroups.v, decidable, evaluated at run time on generated messages):
     the BODY is any content tree accepted by wf_msg (every element non-empty and starting with its
     position-1 field, every count field's value = number of its elements, no tag of a group at an
     enclosing level: wf_ctx "unambiguous") whose nodes are decodable (dnodes_ok: legal, positioned,
     value canonical / < 2048 bytes / no SOH, NUL; a count field carries elements exactly when the
     decoder looks for them; every element has its mandatory fields and no tag twice) --
     ANY number of elements nested to ANY depth;
     the header has no group element and no Length-typed field, the trailer carries only CheckSum,
     the body has no Length-typed field at message level (inside elements they are plain fields).
   Proof: byte-level port of DESIGN Appendix A.4 (C01/GroupRoundtripDecode.v DE_all: decode_group
   inverts encode_group by induction on the tree size, suffix lemma for the field loop, explicit
   fuel bound 3 tokens + 3), lifted through dec_loop / mbase_decode / msg_decode / factory and the
   re-encoding of the decoded object.
   Still excluded (covered by the differential run only): group elements in the HEADER (FIX44
   NoHops), trailer fields (Signature), Length/data pairs at message level (C06 proves the dec_loop
   turn for an adjacent pair; pairs inside groups are mishandled by the decoder: C06's finding). *)
Theorem c01_roundtrip_groups_partial : forall c m,
  render_ok c -> wf_msg c m = true -> fresh m = true -> vals_canonical c m = true -> c01_groups c m = true ->
  exists b m1 m' m2,
    msg_encode c m = Ok (b, m1) /\ factory c real_caps b false false = Ok m' /\
    msg_encode c m' = Ok (b, m2) /\
    content c m <> None /\ content c m' = content c m /\ m_type m' = m_type m.
Proof. exact c01_roundtrip_groups_partial_lemma. Qed.
Print Assumptions c01_roundtrip_groups_partial.

(* Non-vacuity of c01_roundtrip_groups_partial: two group elements, the second with two nested ones. *)
Theorem c01_groups_nonvacuous :
  render_ok ex_ctx /\ wf_msg ex_ctx ex_list = true /\ fresh ex_list = true /\ vals_canonical ex_ctx ex_list = true /\
  c01_groups ex_ctx ex_list = true.
Proof. exact c01_groups_nonvacuous_lemma. Qed.
Print Assumptions c01_groups_nonvacuous.

(* Non-vacuity of c01_roundtrip_partial's hypotheses, on a Heartbeat whose MsgSeqNum is the NEGATIVE
   integer -5: since a8219b1 negative ints are canonical, i.e. inside the theorem's domain. *)
Theorem c01_partial_nonvacuous :
  render_ok ex_ctx /\ wf_msg ex_ctx ex_hb_neg = true /\ fresh ex_hb_neg = true /\ vals_canonical ex_ctx ex_hb_neg = true /\
  c01_flat ex_ctx ex_hb_neg = true /\ hdr_val ex_hb_neg 34 = Some [45; 53].
Proof. exact c01_partial_nonvacuous_lemma. Qed.
Print Assumptions c01_partial_nonvacuous.

(* Finding F01, FIXED in /repo a8219b1: with the rendering of the ORIGINAL fast_atoi (no sign
   handling: render_default_orig / fast_atoi_i32_orig) negative integers did not survive: a
   well-formed message built with MsgSeqNum = "-5" was encoded as 34=-25, decoded as -25 and
   re-encoded differently (-275).  With the repaired function the same message is inside the
   domain of c01_roundtrip_partial (see c01_partial_nonvacuous). *)
Theorem c01_negative_int_orig_refuted :
  exists m b m' b2, render_ok ex_ctx_orig /\ c_render ex_ctx_orig = render_default_orig /\
    wf_msg ex_ctx_orig m = true /\ fresh m = true /\
    hdr_val m 34 = Some [45; 53] /\
    roundtrip ex_ctx_orig m = Ok (b, m', b2) /\
    hdr_val m' 34 = Some [45; 50; 53] /\
    list_eqb b b2 = false.
Proof. exact c01_negative_int_orig_refuted_lemma. Qed.
Print Assumptions c01_negative_int_orig_refuted.

(* Float finding (conditional on the observed behaviour of the real float conversion, which is
   modelled by C08, not here): with a rendering that prints 2147483648.0 as 2.147484e+09 -- what
   fast_atof / modp_dtoa do for |v| >= 2^31 (sprintf "%e", 7 significant digits) -- an OrderQty
   built as 2147483648.0 decodes as 2.147484e+09 (= 2147484000).  The tie-branch carry of DESIGN
   F02 (0.995 -> 0.1) was repaired in /repo a6c4c45. *)
Theorem c01_float_refuted :
  exists c m b m' b2,
    c_render c ft_float big_txt = big_out /\
    first_elem_val m 73 38 = Some big_txt /\
    roundtrip c m = Ok (b, m', b2) /\
    first_elem_val m' 73 38 = Some big_out.
Proof. exact c01_float_refuted_lemma. Qed.
Print Assumptions c01_float_refuted.

(* Non-vacuity: a message with two group elements, the second with two nested elements, fields
   inserted out of order, round-trips: the decoded object has a content tree and re-encodes to
   the same bytes. *)
Theorem c01_nonvacuous :
  exists b m', render_ok ex_ctx /\ wf_msg ex_ctx ex_list = true /\ fresh ex_list = true /\
    roundtrip ex_ctx ex_list = Ok (b, m', b) /\
    tree_of ex_ctx (m_body m') <> None.
Proof. exact c01_nonvacuous_lemma. Qed.
Print Assumptions c01_nonvacuous.
