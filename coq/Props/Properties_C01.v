(* Property C01 -- "Message encode/decode round trip preserves every field".
   Only theorem statements; each is closed by [exact] of a lemma of C01/*.v and followed by
   Print Assumptions.
     roundtrip c m = msg_encode, then factory (strict, checksum verified) on the bytes, then
                     msg_encode of the decoded object -- the models of Message::encode and
                     Message::factory of coq/Codec, tied to the real code by the correspondence run;
     extract_element = the model of MessageBase::extract_element with the caller's buffer sizes. *)
From Coq Require Import NArith ZArith List Bool.
From F8 Require Import Codec.Bytes Codec.Meta Codec.Extract Codec.Decode Codec.Encode Codec.Render Codec.Example
                       C02.Spec_C02 C02.WfC02 C02.TokenProofs C02.AuxProofs C02.EncodeProofs
                       C01.Spec_C01 C01.ExtractProofs C01.RoundtripProofs.
Import ListNotations.
Local Open Scope N_scope.

(* The tokenising primitive inverts the printing of one field, for every tag, every value without
   SOH, every continuation, whenever the window and the caller's buffers are large enough
   (tag digits < tcap, value length < vcap: 2048 in decode/decode_group). *)
Theorem c01_extract_inverts_print : forall f v rest sz tcap vcap,
  no_soh v -> lenN (pbytes (f, v)) <= sz -> lenN (itoa_N f) < tcap -> lenN v < vcap ->
  extract_element (pbytes (f, v) ++ rest) sz tcap vcap = XOk (itoa_N f) v (lenN (pbytes (f, v))).
Proof. exact extract_field. Qed.
Print Assumptions c01_extract_inverts_print.

(* Finding F01: negative integers do not survive.  fast_atoi ignores the sign character: a
   well-formed message built with MsgSeqNum = "-5" is encoded as 34=-25, decoded as -25 and
   re-encoded differently (-275). *)
Theorem c01_negative_int_refuted :
  exists c m b m' b2, render_ok c /\ wf_msg c m = true /\ fresh m = true /\
    hdr_val m 34 = Some [45; 53] /\
    roundtrip c m = Ok (b, m', b2) /\
    hdr_val m' 34 = Some [45; 50; 53] /\
    list_eqb b b2 = false.
Proof. exact c01_negative_int_refuted_lemma. Qed.
Print Assumptions c01_negative_int_refuted.

(* Finding F02 (conditional on the observed behaviour of the real float conversion, which is
   modelled by C08, not here): with a rendering that prints 0.995 as 0.1 -- what fast_atof /
   modp_dtoa at precision 2 do -- an OrderQty built as 0.995 decodes as 0.1. *)
Theorem c01_float_refuted :
  exists c m b m' b2,
    c_render c ft_float [48; 46; 57; 57; 53] = [48; 46; 49] /\
    first_elem_val m 73 38 = Some [48; 46; 57; 57; 53] /\
    roundtrip c m = Ok (b, m', b2) /\
    first_elem_val m' 73 38 = Some [48; 46; 49].
Proof. exact c01_float_refuted_lemma. Qed.
Print Assumptions c01_float_refuted.

(* Non-vacuity: a message with two group elements, the second with two nested elements, fields
   inserted out of order, round-trips: the decoded object has a content tree and re-encodes to
   the same bytes. *)
Theorem c01_nonvacuous :
  exists b m', render_ok ex_ctx /\ wf_msg ex_ctx ex_list = true /\ fresh ex_list = true /\
    roundtrip ex_ctx ex_list = Ok (b, m', b) /\
    tree_of ex_ctx (m_body m') <> None.
Proof. exact c01_nonvacuous_lemma. Qed.
Print Assumptions c01_nonvacuous.
