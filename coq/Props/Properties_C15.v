(* Property C15 — "Socket reader frames the byte stream exactly".
   Only theorem statements: each is closed by [exact] of a lemma proved in C15/ReaderProofs.v and
   followed by Print Assumptions.

   Model: C15/Reader.v  (FIXReader::sockRead / read / execute, MessageBase::extract_element with
   its caller's buffers tag[32] / val[2048] instrumented, fast_atoi<unsigned>).
   Oracle: C15/Spec_C15.v (c15_ok, written from the FIX framing rules).
   [model_ok p chunks closed] = c15_ok applied to the model's run on [chunks].
   [wf_params p] = sanity of the reader's constants (holds for the pinned tree: c15_nonvacuous).
   [frame_ok p m] = m is a valid frame for the oracle (8=<begin>|9=<n>|<n bytes>10=ddd|, n >= 1,
   n <= _max_msg_len - _bg_sz - 7, BodyLength written with at most ValSz-1 = 2047 characters).
   extract_element is the one repaired by commit d48d8ce (bounded by the callers' arrays), the field
   tests of FIXReader::read those of cb750d0 (whole tag) and b287a2f (first BodyLength character);
   [safe_params p] = the buffers exist and the constants do not wrap. *)
From Coq Require Import NArith List Bool Arith.
From F8 Require Import C15.Reader C15.Spec_C15 C15.ReaderProofs.
Import ListNotations.

(* sockRead(n) returns exactly the next n bytes of the stream and leaves the rest, however the
   stream is cut into chunks (every receiveBytes call may return any non-empty part of a chunk). *)
Theorem c15_sockread_chunking : forall (chunks : sock) (n : nat),
  n <= length (concat chunks) ->
  exists rest, sock_read n chunks = (Some (firstn n (concat chunks)), rest) /\
               concat rest = skipn n (concat chunks).
Proof. exact sockread_chunking_lemma. Qed.
Print Assumptions c15_sockread_chunking.

(* For EVERY stream, valid or not: what the reader hands on and how it ends depends only on the
   concatenated bytes, never on the chunk boundaries. *)
Theorem c15_chunking_independent : forall p chunks1 chunks2 closed,
  concat chunks1 = concat chunks2 -> run p chunks1 closed = run p chunks2 closed.
Proof. exact chunking_independent_lemma. Qed.
Print Assumptions c15_chunking_independent.

(* Any sequence of valid frames, in any chunking: exactly those frames are handed to the session,
   byte-identical and in order; the reader then waits (or sees the peer's close); no error, no
   out-of-bounds write (the result contains no EOob). *)
Theorem c15_frames_exact : forall p msgs chunks closed,
  wf_params p = true -> Forall (fun m => frame_ok p m = true) msgs ->
  concat chunks = concat msgs ->
  run p chunks closed = (msgs, if closed then EPeerReset else EWait).
Proof. exact frames_exact_lemma. Qed.
Print Assumptions c15_frames_exact.

(* the same, stated with the oracle *)
Theorem c15_valid_streams_ok : forall p msgs chunks closed,
  wf_params p = true -> Forall (fun m => frame_ok p m = true) msgs ->
  concat chunks = concat msgs ->
  model_ok p chunks closed = true.
Proof. exact valid_streams_ok_lemma. Qed.
Print Assumptions c15_valid_streams_ok.

(* Corrupted preamble after any valid frames, any chunking — BodyLength made of digits (fewer than
   2048) whose value, AS THE CODE READS IT (mod 2^32: the one hypothesis that remains from a defect,
   the 32-bit wrap), is zero or above the limit: InvalidBodyLength,
   exactly the valid frames handed on, oracle satisfied.  (dec w < 2^32 makes "mod" vanish; for
   dec w >= 2^32 the hypothesis can fail: c15_bodylength_wrap_refuted.) *)
Theorem c15_bad_bodylength_partial : forall p msgs chunks w tail closed,
  wf_params p = true -> Forall (fun m => frame_ok p m = true) msgs ->
  concat chunks = concat msgs ++ header (p_begin p) ++ w ++ [SOH] ++ tail ->
  w <> [] -> Forall (fun b => isdigit b = true) w -> length w < p_valcap p ->
  ((dec w mod W32 =? 0) || (len_limit p <? dec w mod W32))%N = true ->
  run p chunks closed = (msgs, EBadLen (dec w mod W32)%N) /\ model_ok p chunks closed = true.
Proof. exact bad_bodylength_lemma. Qed.
Print Assumptions c15_bad_bodylength_partial.

(* Non-numeric BodyLength: a byte that is neither digit nor SOH after any number (also zero) of
   digits -- since b287a2f the first character is checked too, so the former hypothesis "the first
   character is a digit" is gone: IllegalMessage (InvalidBodyLength(0) if the value starts with NUL),
   or out of bytes; exactly the valid frames are handed on; oracle satisfied. *)
Theorem c15_nonnumeric_bodylength_partial : forall p msgs chunks ds0 c tail closed,
  wf_params p = true -> Forall (fun m => frame_ok p m = true) msgs ->
  concat chunks = concat msgs ++ header (p_begin p) ++ ds0 ++ [c] ++ tail ->
  Forall (fun b => isdigit b = true) ds0 -> isdigit c = false -> nosoh c = true ->
  length ds0 <= p_valcap p ->
  (exists e, run p chunks closed = (msgs, e) /\
             match e with EWait | EPeerReset | EIllegal _ => True | EBadLen n => n = 0%N | _ => False end) /\
  model_ok p chunks closed = true.
Proof. exact nonnumeric2_lemma. Qed.
Print Assumptions c15_nonnumeric_bodylength_partial.

(* Wrong tags (since cb750d0 the whole tag is compared): a first tag other than "8" (any digit
   string shorter than tag[] whose '=' stands within the fixed-size first read), or, after a correct
   "8=<begin>|", a second tag other than "9" (at most 2 digits: later bytes are covered by the digit
   loop): IllegalMessage or out of bytes, exactly the valid frames handed on, oracle satisfied. *)
Theorem c15_bad_tag_partial : forall p msgs chunks t z closed,
  wf_params p = true -> Forall (fun m => frame_ok p m = true) msgs ->
  Forall (fun b => isdigit b = true) t -> length t < p_tagcap p ->
  ((concat chunks = concat msgs ++ t ++ [EQS] ++ z /\ t <> [56%N] /\ length t + 1 <= bg_sz p) \/
   (concat chunks = concat msgs ++ [56; 61]%N ++ p_begin p ++ [SOH] ++ t ++ [EQS] ++ z /\ t <> [57%N] /\ length t <= 2)) ->
  (exists e, run p chunks closed = (msgs, e) /\ illegal_or_eos_end e) /\ model_ok p chunks closed = true.
Proof. exact bad_tag_lemma. Qed.
Print Assumptions c15_bad_tag_partial.

(* Wrong BeginString: "8=" v SOH with v different from the session's BeginString AS A C STRING (the
   one hypothesis that remains from a defect: a v equal to it up to a NUL byte is accepted, see
   c15_beginstring_nul_refuted),
   SOH-free, and short enough for the field to end within the fixed-size first read (|v| <= |begin|+3;
   e.g. FIX.4.4 or FIXT.1.1 against FIX.4.2): nothing but the valid frames is handed on and the
   reader ends with InvalidVersion(v), or IllegalMessage, or is out of bytes. *)
Theorem c15_bad_beginstring_partial : forall p msgs chunks v tail closed,
  wf_params p = true -> Forall (fun m => frame_ok p m = true) msgs ->
  concat chunks = concat msgs ++ [56; 61]%N ++ v ++ [SOH] ++ tail ->
  Forall (fun c => nosoh c = true) v -> length v + 3 <= bg_sz p -> length v < p_valcap p ->
  list_eqb (cstr v) (p_begin p) = false ->
  (exists e, run p chunks closed = (msgs, e) /\
             match e with
             | EWait | EPeerReset | EIllegal _ => True
             | EBadVersion t => t = cstr v
             | _ => False
             end) /\
  model_ok p chunks closed = true.
Proof. exact bad_beginstring_lemma. Qed.
Print Assumptions c15_bad_beginstring_partial.

(* The fuel of the model's loops is always enough and the classification of endings is complete:
   for every configuration, stream and chunking the run ends in one of Wait / PeerReset /
   IllegalMessage / InvalidVersion / InvalidBodyLength / out-of-bounds write. *)
Theorem c15_fuel_enough : forall p chunks closed, snd (run p chunks closed) <> EOther.
Proof. exact fuel_enough_lemma. Qed.
Print Assumptions c15_fuel_enough.

(* No out-of-bounds write for ANY stream, chunking and configuration with existing buffers: the
   instrumented writes into msg_buf / tag / val never reach their capacity. *)
Theorem c15_no_oob : forall p chunks closed,
  safe_params p = true -> snd (run p chunks closed) <> EOob.
Proof. exact no_oob_lemma. Qed.
Print Assumptions c15_no_oob.

(* Over-long tags and values (the former overflow inputs), after any valid frames, any chunking:
   a run of >= TagSz digits where the first or the second tag is read, or a first / second field
   value of >= ValSz bytes: the reader ends with IllegalMessage (or is out of bytes), and exactly
   the valid frames are handed on.  ([long_field_rest] spells out the four positions; a longer run
   is covered by putting its remainder into [tail].) *)
Theorem c15_long_field_error : forall p msgs chunks rest closed,
  wf_params p = true -> Forall (fun m => frame_ok p m = true) msgs ->
  concat chunks = concat msgs ++ rest -> long_field_rest p rest ->
  exists e, run p chunks closed = (msgs, e) /\
            match e with EWait | EPeerReset | EIllegal _ => True | _ => False end.
Proof. exact long_field_lemma. Qed.
Print Assumptions c15_long_field_error.

(* F19 (repaired by d48d8ce): with the ORIGINAL extract_element 32 digits overflowed tag[32] (31 did
   not) and a 2048-byte value overflowed val[2048] (2047 did not); with the repaired one the same
   streams are refused with IllegalMessage and satisfy the oracle. *)
Theorem c15_overflow_orig_refuted :
  (extract_element_orig P42 w_tag32 = EEOob SiteTag /\
   extract_element_orig P42 w_tag31 = EERet 0 (repeat 55%N 31) [] /\
   extract_element_orig P42 (w_val1 2048) = EEOob SiteVal /\
   extract_element_orig P42 (w_val1 2047) = EERet (N.to_nat 2050) [56%N] (repeat 49%N (N.to_nat 2047))) /\
  (run P42 [w_tag32] true = ([], EIllegal w_tag32) /\ model_ok P42 [w_tag32] true = true) /\
  (run P42 [w_val1 2048] true = ([], EIllegal (w_val1 2048)) /\ model_ok P42 [w_val1 2048] true = true) /\
  (run P42 [w_val2 2048] true = ([], EIllegal (w_val2 2048)) /\ model_ok P42 [w_val2 2048] true = true).
Proof. exact overflow_orig_refuted_lemma. Qed.
Print Assumptions c15_overflow_orig_refuted.

(* F19, not repaired: BodyLength 2^32+5 is read as 5: the oracle says corrupted preamble
   (oversized), the reader hands a 5-byte-body frame on. *)
Theorem c15_bodylength_wrap_refuted :
  run P42 [w_wrap] true = ([w_wrap], EPeerReset) /\
  spec_frame fix42 (len_limit P42) (max_width P42) w_wrap = FBad /\ model_ok P42 [w_wrap] true = false.
Proof. exact bodylength_wrap_refuted_lemma. Qed.
Print Assumptions c15_bodylength_wrap_refuted.

(* Repaired by cb750d0 / b287a2f: with the ORIGINAL field tests "9=:" was BodyLength 10 and tags
   88 / 93 passed for 8 / 9 (a frame with a corrupted preamble was handed on); with the repaired
   tests the same streams are refused, nothing is handed on, the oracle holds. *)
Theorem c15_lenient_orig_refuted :
  (run_orig P42 [w_colon] true = ([w_colon], EPeerReset) /\
   spec_frame fix42 (len_limit P42) (max_width P42) w_colon = FBad /\
   fst (run P42 [w_colon] true) = [] /\ model_ok P42 [w_colon] true = true) /\
  (run_orig P42 [w_tag88] true = ([w_tag88], EPeerReset) /\
   spec_frame fix42 (len_limit P42) (max_width P42) w_tag88 = FBad /\
   fst (run P42 [w_tag88] true) = [] /\ model_ok P42 [w_tag88] true = true) /\
  (run_orig P42 [w_tag93] true = ([w_tag93], EPeerReset) /\
   spec_frame fix42 (len_limit P42) (max_width P42) w_tag93 = FBad /\
   fst (run P42 [w_tag93] true) = [] /\ model_ok P42 [w_tag93] true = true).
Proof. exact lenient_orig_refuted_lemma. Qed.
Print Assumptions c15_lenient_orig_refuted.

(* Not repaired: "FIX.4.2\0" passes for FIX.4.2 (C-string compare) and the frame with the NUL is
   handed to the session. *)
Theorem c15_beginstring_nul_refuted :
  run P42 [w_nul] true = ([w_nul], EPeerReset) /\
  spec_frame fix42 (len_limit P42) (max_width P42) w_nul = FBad /\ model_ok P42 [w_nul] true = false.
Proof. exact beginstring_nul_refuted_lemma. Qed.
Print Assumptions c15_beginstring_nul_refuted.

(* Non-vacuity: the pinned configuration is well-formed; two concrete frames (one with leading
   zeros in BodyLength) satisfy frame_ok, are delivered in 1-byte chunks and come out exactly; the
   corrupted-preamble hypotheses are met by "9=8173" and "8=FIX.4.4". *)
Theorem c15_nonvacuous :
  wf_params P42 = true /\
  forallb (frame_ok P42) [nv_m1; nv_m2] = true /\
  concat (one_byte_chunks (nv_m1 ++ nv_m2)) = concat [nv_m1; nv_m2] /\
  run P42 (one_byte_chunks (nv_m1 ++ nv_m2)) false = ([nv_m1; nv_m2], EWait) /\
  run P42 [nv_badlen] true = ([nv_m1], EBadLen 8173%N) /\
  run P42 [nv_badver] true = ([nv_m1], EBadVersion nv_v44).
Proof. exact nonvacuous_lemma. Qed.
Print Assumptions c15_nonvacuous.
