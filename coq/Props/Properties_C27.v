(* Property C27 -- "File persister survives process crashes without corruption".
   Only theorem statements: each is closed by [exact] of a lemma proved in C27/CrashProofs.v and
   followed by Print Assumptions.

   Model (C27/Crash.v on top of C26/FilePersist.v): the disk is (index bytes, data bytes); every
   API call is compiled to the lseek/write calls of filepersist.cpp in program order; the process
   dies after [k] completed calls and the disk keeps exactly their effect (TRUSTED, not proved:
   each call is atomic and durable, none is reordered); reopening replays the index file.
   [c27_result pre k after] = (number of operations of [pre] that had returned, their results,
   the results of [after] on the reopened store).  [c27_ok] (C27/Spec_C27.v) is the property: the
   answers after the reopen are those of the store contract started from the state after the
   completed operations (or after the operation in progress as well): completed messages
   byte-identical, no number returns bytes never stored for it, control record = last completed,
   further stores accepted and retrievable. *)
From Coq Require Import PeanoNat NArith List Bool.
From F8 Require Import C26.SMap C26.PersistSpec C26.MemPersist C26.FilePersist C26.FileProofs
  C26.SpecProofs C27.Crash C27.Spec_C27 C27.CrashProofs.
Import ListNotations.
Local Open Scope N_scope.

(* For control-first histories (never_lost: the control record is never written over a message's
   index entry; negation = F31, not repaired) and EVERY crash point k -- between API calls, inside
   a control put, inside a get, and at every call boundary inside a message put, including
   between its data write and its index write (tree since a892b9a) -- all four clauses hold,
   whatever is done afterwards ([after]: any reads and further stores). *)
Theorem c27_atomic_partial : forall pre k after,
  ops_wf (pre ++ OReopen :: after) = true -> zero_free (pre ++ OReopen :: after) = true ->
  never_lost pre = true -> no_reopen after = true ->
  c27_ok pre after (c27_result pre k after) = true.
Proof. exact c27_atomic_partial_lemma. Qed.
Print Assumptions c27_atomic_partial.

(* in particular every crash point between two API calls *)
Theorem c27_between_ops_partial : forall pre k after,
  ops_wf (pre ++ OReopen :: after) = true -> zero_free (pre ++ OReopen :: after) = true ->
  never_lost pre = true -> no_reopen after = true ->
  crash_between file_empty pre k = true ->
  c27_ok pre after (c27_result pre k after) = true.
Proof. exact c27_between_ops_partial_lemma. Qed.
Print Assumptions c27_between_ops_partial.

(* F31 -- not never_lost: put(1,"MSG-ONE"); control put (2,1); put(2,"MSG-TWO"); all three
   return; no crash inside anything (k = 10 = all calls); reopen: get(1) fails.  The control
   write at index offset 0 overwrote message 1's index entry.  Every other hypothesis holds. *)
Theorem c27_control_refuted :
  ops_wf (f31_pre ++ OReopen :: f31_after) = true /\ zero_free (f31_pre ++ OReopen :: f31_after) = true /\
  no_reopen f31_after = true /\ crash_between file_empty f31_pre 10 = true /\
  never_lost f31_pre = false /\
  c27_result f31_pre 10 f31_after =
    Some (3%nat, [RBool true; RBool true; RBool true],
          [RCtl (Some (2, 1)); RBytes None; RBytes (Some [77; 83; 71; 45; 84; 87; 79])]) /\
  c27_ok f31_pre f31_after (c27_result f31_pre 10 f31_after) = false.
Proof. exact c27_control_refuted_lemma. Qed.
Print Assumptions c27_control_refuted.

(* F32, the code BEFORE a892b9a (repaired; index record written before the data): the process dies
   after the third call of put(2,"BBBBBB"); after the reopen get(2) failed, put(2,..) was refused
   (2 "occupied"), and after put(3,"CCCCCCCC") get(2) returned "CCCCCC" -- bytes never stored under
   2.  The repaired order on the same input: 2 is absent, put(2,"DD") is accepted and returned. *)
Theorem c27_order_orig_refuted :
  ops_wf (f32_pre ++ OReopen :: f32_after) = true /\ zero_free (f32_pre ++ OReopen :: f32_after) = true /\
  no_reopen f32_after = true /\ never_lost f32_pre = true /\
  crash_torn file_empty f32_pre 9 = true /\
  c27_result_orig f32_pre 9 f32_after =
    Some (2%nat, [RBool true; RBool true],
          [RBytes None; RBool false; RBool true; RBytes (Some [67; 67; 67; 67; 67; 67])]) /\
  c27_ok f32_pre f32_after (c27_result_orig f32_pre 9 f32_after) = false /\
  c27_result f32_pre 9 f32_after =
    Some (2%nat, [RBool true; RBool true],
          [RBytes None; RBool true; RBool true; RBytes (Some [68; 68])]).
Proof. exact c27_order_orig_refuted_lemma. Qed.
Print Assumptions c27_order_orig_refuted.

(* Non-vacuity: a control-first history killed BETWEEN the data write and the index write of
   put(2,[13;14]) meets all hypotheses of c27_atomic_partial and is not a between-calls point: the
   orphan bytes are in the data file, 2 is absent, the last completed control record (5,6) and the
   completed message are there, and the further stores are accepted and returned. *)
Theorem c27_nonvacuous :
  ops_wf (nv_pre ++ OReopen :: nv_after) = true /\ zero_free (nv_pre ++ OReopen :: nv_after) = true /\
  never_lost nv_pre = true /\ no_reopen nv_after = true /\
  crash_torn file_empty nv_pre 11 = true /\ crash_between file_empty nv_pre 11 = false /\
  option_map (fun o => d_dat (o_disk o)) (c27_model nv_pre 11 nv_after) = Some [10; 11; 12; 13; 14] /\
  c27_result nv_pre 11 nv_after =
    Some (3%nat, [RBool true; RBool true; RBool true],
          [RCtl (Some (5, 6)); RBytes (Some [10; 11; 12]); RBytes None; RBool true; RBool true;
           RCtl (Some (7, 8)); RBytes (Some [15])]).
Proof. exact c27_nonvacuous_lemma. Qed.
Print Assumptions c27_nonvacuous.

(* The hypotheses do not restrict control values below the range of the API type: sender/target
   8193 (larger than any message size), 2^31 (a negative int32 in the index record's _size field)
   and 2^32-1 are admitted, and the control record after the reopen is the last completed one. *)
Theorem c27_control_range_nonvacuous :
  ops_wf (cb_pre ++ OReopen :: cb_after) = true /\ zero_free (cb_pre ++ OReopen :: cb_after) = true /\
  never_lost cb_pre = true /\ no_reopen cb_after = true /\
  crash_between file_empty cb_pre 8 = true /\
  c27_result cb_pre 8 cb_after =
    Some (3%nat, [RBool true; RBool true; RBool true],
          [RCtl (Some (65536, 2147483648)); RBytes (Some [1; 2]); RBool true;
           RCtl (Some (8192, 4294967295))]) /\
  c27_result cb_pre 2 cb_after =
    Some (1%nat, [RBool true],
          [RCtl (Some (4294967295, 8193)); RBytes None; RBool true; RCtl (Some (8192, 4294967295))]).
Proof. exact c27_control_range_nonvacuous_lemma. Qed.
Print Assumptions c27_control_range_nonvacuous.
