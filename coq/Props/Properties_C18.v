(* Property C18 "Resend requests are answered with a complete, faithful replay".

   All general theorems are about Sess.Session.handle_resend_request (the transcription of
   Session::handle_resend_request + retrans_callback scenarios #1..#8 + the persisters' range get) for
   EVERY schema, decoder, clock value, session state, store and range that meet the stated hypotheses;
   they are proved by induction over the live iteration of the store (C18/ReplayProofs.v).  The
   session state s is the one in which the request is dispatched; `ready` says that enforce lets the
   request through without side effect (in sequence, CompIDs right), the session is not already replaying
   and the socket is open; `ready_store` says always_seqnum_assign is off and a persister is attached whose
   store has ascending keys and holds only strings the decoder accepts.  The hypotheses are satisfiable
   (c18_nonvacuous, c18_nonvacuous_oracle). *)
From Coq Require Import NArith ZArith List Bool.
From F8 Require Import Sess.Bytes Sess.Msg Sess.Persist Sess.Session Sess.SimpleCodec Sess.Wire Sess.SessLemmas.
From F8 Require Import C18.Spec_C18 C18.Replay C18.ReplayProofs C18.PlanProofs C18.FaithProofs C18.Exact C18.OracleProofs
                       C18.BridgeProofs C18.C18Proofs C18.Witness C18.WitnessProofs.
Import ListNotations.
Local Open Scope N_scope.

(* 1. The answer is the replay plan (Replay.plan): for all stores and ranges the events are exactly the
      [state hypothesis: `ready` demands only (s_state s =? resend_request_received) = false -- EVERY other
       state answers, see 14-16 for the states enforce itself changes]
      plan's gap fills and resent records in order, next_send afterwards is the plan's, the state is
      `continuous` again and the store is untouched. *)
Theorem c18_replay_plan : forall sc decode now s seqnum m,
  nosoh (sc_begin sc) = true -> is_admin sc mt_sequence_reset = true ->
  ready sc decode now s seqnum m -> ready_store decode s ->
  range_bad (req_begin m) (req_end m) = false ->
  exists s',
    handle_resend_request sc decode now seqnum m s =
      (inl true, s', out sc now decode s (fst (plan (p_store (s_per s)) (s_next_send s) (req_begin m) (req_end m)))) /\
    s_next_send s' = snd (plan (p_store (s_per s)) (s_next_send s) (req_begin m) (req_end m)) /\
    s_state s' = st_continuous /\ p_store (s_per s') = p_store (s_per s).
Proof. exact replay_plan. Qed.
Print Assumptions c18_replay_plan.

(* 2. COMPLETE, ORDERED, FAITHFUL (always_seqnum_assign off): what is resent is exactly the set of stored
      records with Begin <= number <= End (End = 0: the last stored one), in ascending order, and each goes
      out as the decoded stored message with its own MsgSeqNum, PossDupFlag=Y, OrigSendingTime = its stored
      SendingTime, a fresh SendingTime, every other header field and the whole body unchanged. *)
Theorem c18_resent_partial : forall sc decode now s seqnum m,
  schema_ok sc = true ->
  ready sc decode now s seqnum m -> ready_store decode s ->
  forallb (record_ok decode) (p_store (s_per s)) = true ->
  range_bad (req_begin m) (req_end m) = false ->
  exists s' items,
    handle_resend_request sc decode now seqnum m s = (inl true, s', out sc now decode s items) /\
    (forall k raw, In (k, raw) (resent items) <->
                   In (k, raw) (p_store (s_per s)) /\ req_begin m <= k <= finish_of (p_store (s_per s)) (req_end m)) /\
    sorted_from (req_begin m - 1) (resent items) = true /\
    Forall (fun kr => faithful_wire sc decode now (fst kr) (snd kr) (wire sc decode now s (PMsg (fst kr) (snd kr))))
           (resent items).
Proof. exact resent_partial. Qed.
Print Assumptions c18_resent_partial.

(* 3. GAP FILLS INSIDE THE REPLAY ARE EXACT (scenarios #2/#3, since /repo 930506b), for all stores and ranges:
      each one is read by the oracle's parser as MsgSeqNum = a, NewSeqNo = k where a is the first number of
      a gap (Begin, or the number after a stored record), k is the number of the next stored record in the
      range, and nothing is stored in [a, k). *)
Theorem c18_gapfill_exact : forall sc decode now s seqnum m,
  schema_ok sc = true -> nosoh (s_snd s) = true -> nosoh (s_tgt s) = true ->
  ready sc decode now s seqnum m -> ready_store decode s ->
  range_bad (req_begin m) (req_end m) = false ->
  exists s' loop_items final,
    handle_resend_request sc decode now seqnum m s =
      (inl true, s', out sc now decode s (loop_items ++ [final])) /\
    forall a k, In (PGap a k) loop_items ->
      parse_out (wire sc decode now s (PGap a k)) = IGap a k /\
      req_begin m <= a /\ a < k /\
      (exists raw, In (k, raw) (p_store (s_per s)) /\ k <= finish_of (p_store (s_per s)) (req_end m)) /\
      (forall k' raw', In (k', raw') (p_store (s_per s)) -> ~ (a <= k' < k)) /\
      (a = req_begin m \/ exists raw', In (a - 1, raw') (p_store (s_per s))).
Proof. exact gapfill_exact. Qed.
Print Assumptions c18_gapfill_exact.

(* 4. F22 BEFORE the repair, on Session.retrans_record_orig (the callback as it was): for every state the gap
      fill in front of a record k > Begin carries MsgSeqNum = next_send instead of Begin; witness in the
      state of c18_nonvacuous (store {3}, next_send 4, request [1,0]): `34=4 ... 36=3`.  After the repair
      the same history is answered `34=1 ... 36=3` and the oracle accepts it. *)
Theorem c18_gapfill_seq_orig_refuted : forall sc decode now s b k raw,
  schema_ok sc = true -> nosoh (s_snd s) = true -> nosoh (s_tgt s) = true ->
  s_closed s = false -> s_batch s = [] -> pr_asa (s_par s) = false -> p_attached (s_per s) = true ->
  resendable decode (k, raw) = true -> b < k ->
  exists s' w evs,
    retrans_record_orig sc decode now b 0 k raw s = (inl true, s', EOut w :: evs) /\
    parse_out w = IGap (s_next_send s) k.
Proof. exact gapfill_seq_orig_refuted. Qed.
Print Assumptions c18_gapfill_seq_orig_refuted.

Theorem c18_gapfill_seq_orig_witness : orig_first_item = IGap 4 3.
Proof. exact gapfill_seq_orig_witness. Qed.
Print Assumptions c18_gapfill_seq_orig_witness.

Theorem c18_gapfill_seq_repaired :
  c18_ok_line line_f22 (run_line schema0 line_f22) = true /\
  c18_judged_line line_f22 (run_line schema0 line_f22) = 1 /\
  map brief (answer_items schema0 line_f22) =
    [IGap 1 3; IMsg [(dec T_MsgType, [68]); (dec T_MsgSeqNum, dec 3)]; IGap 4 5].
Proof. exact gapfill_seq_repaired. Qed.
Print Assumptions c18_gapfill_seq_repaired.

(* 5. The remaining defect, witness: store {2,4}, next_send 5, request [2,3]: the final gap fill is `34=3 36=5`,
      declaring the stored message 4 skipped; the oracle rejects the trace. *)
Theorem c18_overreach_refuted :
  c18_ok_line line_overreach (run_line schema0 line_overreach) = false /\
  map brief (answer_items schema0 line_overreach) =
    [IMsg [(dec T_MsgType, [68]); (dec T_MsgSeqNum, dec 2)]; IGap 3 5].
Proof. exact overreach_refuted. Qed.
Print Assumptions c18_overreach_refuted.

(* 6. Without a persister (scenarios #7/#8): exactly one gap fill, MsgSeqNum = Begin,
      NewSeqNo = max (Begin+1) next_send, and next_send becomes that number. *)
Theorem c18_nopersister : forall sc decode now s seqnum m,
  schema_ok sc = true -> nosoh (s_snd s) = true -> nosoh (s_tgt s) = true ->
  ready sc decode now s seqnum m -> p_attached (s_per s) = false ->
  range_bad (req_begin m) (req_end m) = false ->
  exists s' w,
    handle_resend_request sc decode now seqnum m s = (inl true, s', [EOut w]) /\
    parse_out w = IGap (req_begin m) (N.max (req_begin m + 1) (s_next_send s)) /\
    s_next_send s' = N.max (req_begin m + 1) (s_next_send s) /\ s_state s' = s_state s.
Proof. exact nopersister. Qed.
Print Assumptions c18_nopersister.

(* 7. Continuation: the answer always ends with a gap fill, and next_send afterwards is the NewSeqNo it
      announces (every send increments from there: property C16). *)
Theorem c18_continue : forall sc decode now s seqnum m,
  schema_ok sc = true -> nosoh (s_snd s) = true -> nosoh (s_tgt s) = true ->
  ready sc decode now s seqnum m -> ready_store decode s ->
  range_bad (req_begin m) (req_end m) = false ->
  exists s' evs w a,
    handle_resend_request sc decode now seqnum m s = (inl true, s', (evs ++ [EOut w])%list) /\
    parse_out w = IGap a (s_next_send s') /\ s_state s' = st_continuous /\
    p_store (s_per s') = p_store (s_per s).
Proof. exact continue_after. Qed.
Print Assumptions c18_continue.

(* 8. Validity: (End < Begin and End <> 0) or Begin = 0 is answered by exactly one Reject, which is a new
      message (next_send + 1); nothing is replayed. *)
Theorem c18_reject_invalid : forall sc decode now s seqnum m,
  nosoh (sc_begin sc) = true ->
  ready sc decode now s seqnum m ->
  range_bad (req_begin m) (req_end m) = true ->
  exists s',
    handle_resend_request sc decode now seqnum m s =
      (inl true, s', [EOut (encode sc (fst (stamp sc now s (reject_msg sc seqnum m))))]) /\
    m_type (reject_msg sc seqnum m) = mt_reject /\
    s_next_send s' = s_next_send s + 1 /\ s_state s' = s_state s.
Proof. exact reject_invalid. Qed.
Print Assumptions c18_reject_invalid.

(* 9. END TO END, for every store and range: provided End = 0 or nothing is stored beyond End
      (nothing_stored_beyond: the final gap fill still announces next_send, the one remaining defect) the bytes
      the model emits satisfy the ORACLE Spec_C18.answer_ok -- holes in front of and between stored messages
      included.  exact_ok = the decoder neither drops nor reorders tokens of the stored strings (the codec's own
      properties C03/C04); keys_below = what is stored was sent.  The negation of nothing_stored_beyond is the
      classifier of the known finding.
      [c18_ok applies answer_ok to `original_store` = the stored numbers with, under each number, the message as it
       was ORIGINALLY TRANSMITTED (first new OUT event carrying that MsgSeqNum); for the model this is the store
       itself: send_process stores the very bytes it hands to the socket (property C17).] *)
Theorem c18_answer_ok_partial : forall sc decode now, schema_ok sc = true -> forall s seqnum m,
  nosoh (s_snd s) = true -> nosoh (s_tgt s) = true ->
  (exists r, enforce sc now seqnum m s = (inl r, s, [])) ->
  (s_state s =? st_resend_request_received) = false -> s_closed s = false -> s_batch s = [] ->
  pr_asa (s_par s) = false -> p_attached (s_per s) = true ->
  store_wf (p_store (s_per s)) = true -> N.of_nat (length (p_store (s_per s))) <= 100000 ->
  forallb (record_ok decode) (p_store (s_per s)) = true ->
  forallb (exact_ok sc decode) (p_store (s_per s)) = true ->
  keys_below (s_next_send s) (p_store (s_per s)) = true ->
  range_bad (req_begin m) (req_end m) = false ->
  nothing_stored_beyond (p_store (s_per s)) (s_next_send s) (req_end m) = true ->
  exists s' evs,
    handle_resend_request sc decode now seqnum m s = (inl true, s', evs) /\
    answer_ok (p_store (s_per s)) seqnum (s_next_send s) (req_begin m) (req_end m) (outs evs) (s_next_send s') = true.
Proof. exact answer_ok_partial. Qed.
Print Assumptions c18_answer_ok_partial.

(* 10. always_seqnum_assign ON (outside the property, recorded for the report): store {2}, next_send 3,
       request [2,6]: the single stored message goes out FIVE times as new messages 3..7 -- each copy is
       stored under its new number and reached again by the live iteration -- and the final gap fill
       re-uses MsgSeqNum 7. *)
Theorem c18_asa_refuted :
  map brief (answer_items schema0 line_asa) =
    [IMsg [(dec T_MsgType, [68]); (dec T_MsgSeqNum, dec 3)]; IMsg [(dec T_MsgType, [68]); (dec T_MsgSeqNum, dec 4)];
     IMsg [(dec T_MsgType, [68]); (dec T_MsgSeqNum, dec 5)]; IMsg [(dec T_MsgType, [68]); (dec T_MsgSeqNum, dec 6)];
     IMsg [(dec T_MsgType, [68]); (dec T_MsgSeqNum, dec 7)]; IGap 7 8].
Proof. exact asa_refuted. Qed.
Print Assumptions c18_asa_refuted.

(* 11. The oracle is not trivially false: a complete replay (store {2,3}, request [2,0]) is judged and accepted. *)
Theorem c18_oracle_accepts :
  c18_ok_line line_good (run_line schema0 line_good) = true /\
  c18_judged_line line_good (run_line schema0 line_good) = 1.
Proof. exact good_accepted. Qed.
Print Assumptions c18_oracle_accepts.

(* 12. The hypotheses of 1-3, 7 hold in a reachable state with a hole in front of a stored message
       (store {3}, next_send 4, request [1,0]; the plan has the gap fills (1,3) and (4,5) and resends 3) ... *)
Theorem c18_nonvacuous :
  schema_ok schema0 = true /\ nosoh (s_snd s_f22) = true /\ nosoh (s_tgt s_f22) = true /\
  ready schema0 (dec_fn schema0) (w_now w_f22) s_f22 2 m_f22 /\
  ready_store (dec_fn schema0) s_f22 /\
  forallb (record_ok (dec_fn schema0)) (p_store (s_per s_f22)) = true /\
  range_bad (req_begin m_f22) (req_end m_f22) = false /\
  map fst (p_store (s_per s_f22)) = [3] /\ s_next_send s_f22 = 4 /\ req_begin m_f22 = 1 /\ req_end m_f22 = 0 /\
  gaps (fst (plan (p_store (s_per s_f22)) (s_next_send s_f22) (req_begin m_f22) (req_end m_f22))) = [(1, 3); (4, 5)] /\
  map fst (resent (fst (plan (p_store (s_per s_f22)) (s_next_send s_f22) (req_begin m_f22) (req_end m_f22)))) = [3].
Proof. exact nonvacuous. Qed.
Print Assumptions c18_nonvacuous.

(* 13. ... and those of 9 in a reachable state with two stored messages (store {2,3}, next_send 4, request [2,0]). *)
Theorem c18_nonvacuous_oracle :
  schema_ok schema0 = true /\ nosoh (s_snd s_good) = true /\ nosoh (s_tgt s_good) = true /\
  (exists r, enforce schema0 (w_now w_good) 2 m_good s_good = (inl r, s_good, [])) /\
  (s_state s_good =? st_resend_request_received) = false /\ s_closed s_good = false /\ s_batch s_good = [] /\
  pr_asa (s_par s_good) = false /\ p_attached (s_per s_good) = true /\
  store_wf (p_store (s_per s_good)) = true /\
  forallb (record_ok (dec_fn schema0)) (p_store (s_per s_good)) = true /\
  forallb (exact_ok schema0 (dec_fn schema0)) (p_store (s_per s_good)) = true /\
  keys_below (s_next_send s_good) (p_store (s_per s_good)) = true /\
  range_bad (req_begin m_good) (req_end m_good) = false /\
  nothing_stored_beyond (p_store (s_per s_good)) (s_next_send s_good) (req_end m_good) = true /\
  map fst (p_store (s_per s_good)) = [2; 3] /\ s_next_send s_good = 4 /\ req_begin m_good = 2 /\ req_end m_good = 0.
Proof. exact nonvacuous_oracle. Qed.
Print Assumptions c18_nonvacuous_oracle.

(* 14. EVERY ESTABLISHED SUB-STATE.  enforce lets the request through and leaves (s1, e1) -- s1 differs from s
       when the request's own number is ahead (16).  Whatever the state s1 is, other than
       resend_request_received (test_request_sent, resend_request_sent, logoff_sent, ...), the answer is e1
       followed by the whole plan, and it ends with a gap fill announcing the next_send left behind: a valid
       request is never dropped.  (A session that returns without output in state X <> 13 contradicts this.) *)
Theorem c18_replay_plan_any_state : forall sc decode now s seqnum m r s1 e1,
  schema_ok sc = true -> nosoh (s_snd s1) = true -> nosoh (s_tgt s1) = true ->
  enforce sc now seqnum m s = (inl r, s1, e1) ->
  (s_state s1 =? st_resend_request_received) = false ->
  s_closed s1 = false -> s_batch s1 = [] -> ready_store decode s1 ->
  range_bad (req_begin m) (req_end m) = false ->
  exists s' evs w a,
    handle_resend_request sc decode now seqnum m s = (inl true, s', (e1 ++ evs ++ [EOut w])%list) /\
    (evs ++ [EOut w])%list =
      out sc now decode s1 (fst (plan (p_store (s_per s1)) (s_next_send s1) (req_begin m) (req_end m))) /\
    parse_out w = IGap a (s_next_send s') /\
    s_next_send s' = snd (plan (p_store (s_per s1)) (s_next_send s1) (req_begin m) (req_end m)) /\
    s_state s' = st_continuous /\ p_store (s_per s') = p_store (s_per s1).
Proof. exact replay_plan_any_state. Qed.
Print Assumptions c18_replay_plan_any_state.

(* 15. ... and the one exception, exactly as in the code: while a replay is running (state
       resend_request_received after enforce) the request produces nothing beyond what enforce emitted. *)
Theorem c18_unanswered_only_while_replaying : forall sc decode now s seqnum m r s1 e1,
  enforce sc now seqnum m s = (inl r, s1, e1) ->
  (s_state s1 =? st_resend_request_received) = true ->
  handle_resend_request sc decode now seqnum m s = (inl true, s1, e1).
Proof. exact unanswered_only_while_replaying. Qed.
Print Assumptions c18_unanswered_only_while_replaying.

(* 16. The request's own MsgSeqNum is above the expected one (state continuous, CompIDs right): enforce sends
       OUR ResendRequest [next_recv, 0] (a new message: next_send + 1) and moves to resend_request_sent; the
       answer follows, planned from next_send + 1, and the state is continuous afterwards. *)
Theorem c18_replay_plan_ahead : forall sc decode now s seqnum m,
  nosoh (sc_begin sc) = true -> is_admin sc mt_sequence_reset = true -> is_admin sc mt_resend_request = true ->
  s_state s = st_continuous ->
  compid_check m s = (inl tt, s, []) ->
  beq (m_type m) mt_sequence_reset = false ->
  s_next_recv s < seqnum ->
  s_closed s = false -> s_batch s = [] -> ready_store decode s ->
  range_bad (req_begin m) (req_end m) = false ->
  exists s' s1,
    s_state s1 = st_resend_request_sent /\ s_next_send s1 = s_next_send s + 1 /\
    handle_resend_request sc decode now seqnum m s =
      (inl true, s',
       (EOut (encode sc (fst (stamp sc now s (generate_resend_request sc (s_next_recv s) 0)))) ::
        out sc now decode s1 (fst (plan (p_store (s_per s)) (s_next_send s + 1) (req_begin m) (req_end m))))) /\
    s_next_send s' = snd (plan (p_store (s_per s)) (s_next_send s + 1) (req_begin m) (req_end m)) /\
    s_state s' = st_continuous /\ p_store (s_per s') = p_store (s_per s).
Proof. exact replay_plan_ahead. Qed.
Print Assumptions c18_replay_plan_ahead.

(* 17. Witnesses on the complete model: store {2,3}, request [2,0] delivered (a) with its number ahead, (b) in
       state test_request_sent, (c) in state resend_request_sent: answered in full, JUDGED and accepted by the
       oracle; the same traces with the answer left out (a session that drops the request) are rejected. *)
Theorem c18_states_judged :
  judged_ok_dropped_bad line_ahead = (true, 1, false) /\
  judged_ok_dropped_bad line_testreq = (true, 1, false) /\ nth 7 (states_of line_testreq) 0 = st_test_request_sent /\
  judged_ok_dropped_bad line_sent = (true, 1, false) /\ nth 7 (states_of line_sent) 0 = st_resend_request_sent /\
  map brief (answer_items schema0 line_ahead) =
    [IMsg [(dec T_MsgType, [50]); (dec T_MsgSeqNum, dec 4)];
     IMsg [(dec T_MsgType, [68]); (dec T_MsgSeqNum, dec 2)]; IMsg [(dec T_MsgType, [68]); (dec T_MsgSeqNum, dec 3)];
     IGap 4 5].
Proof. exact states_judged. Qed.
Print Assumptions c18_states_judged.
