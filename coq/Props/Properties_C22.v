(* Property C22 "Heartbeat and test-request supervision follows the protocol".
   The theorems are about the session model coq/Sess/Session.v (a transcription of runtime/session.cpp tied
   to the real code byte for byte by the correspondence run).  They hold for EVERY schema with
   schema_ok sc = true (evaluated by the driver on the metadata of the generated code at run time), every
   decoder, every session state with sess_ok (socket open, no half-built batch, printable CompIDs) and every
   heartbeat interval H >= 1.  Thresholds, exactly:  elapsed now t = floor((now - t) / 1 s);
   hb_due H now ls  <->  H <= elapsed now ls;   period H = H + H / 5 (integer division);
   quiet_due H now lr  <->  period H < elapsed now lr.   (The model computes with truncation toward zero as
   the C++ does; HbProofs.hb_due_quot / quiet_due_quot show that the two agree at these thresholds.) *)
From Coq Require Import NArith ZArith List Bool.
From F8 Require Import Sess.Bytes Sess.Msg Sess.Persist Sess.Session Sess.Wire
  C22.Hyp C22.Spec_C22 C22.SendLemmas C22.HbProofs C22.Invariant C22.InProofs C22.Timeline C22.TraceProofs C22.Demo.
Import ListNotations.
Local Open Scope N_scope.

(* The supervision tick, exactly: what it puts on the wire (in this order, nothing else), the new state,
   the new last_sent; last_received and the interval are untouched; it terminates exactly on the Logout. *)
Theorem c22_tick_exact : forall sc, schema_ok sc = true -> forall now s,
  sess_ok s = true -> is_shutdown s = false -> 1 <= s_hb s ->
  let H := s_hb s in
  let hb := hb_due H now (s_last_sent s) in
  let q := quiet_due H now (s_last_recv s) in
  let pend := s_state s =? st_test_request_sent in
  exists s' evs,
    heartbeat_service sc now s = (true, s', evs) /\ all_out evs = true /\
    outs evs = ((if hb then [KHeartbeat None] else []) ++
                (if q then (if pend then [KLogout] else [KTestRequest (Some txt_test)]) else []))%list /\
    s_state s' = (if q then (if pend then st_session_terminated else st_test_request_sent) else s_state s) /\
    s_last_sent s' = (if hb || q then now else s_last_sent s) /\
    s_last_recv s' = s_last_recv s /\ s_hb s' = s_hb s /\
    is_shutdown s' = q && pend /\ (q && pend = false -> sess_ok s' = true).
Proof. exact tick_exact. Qed.
Print Assumptions c22_tick_exact.

(* floor(now - last_sent) >= H  ->  a Heartbeat (without TestReqID) is the first message of this tick. *)
Theorem c22_heartbeat : forall sc, schema_ok sc = true -> forall now s,
  sess_ok s = true -> is_shutdown s = false -> 1 <= s_hb s ->
  hb_due (s_hb s) now (s_last_sent s) = true ->
  exists s' raw rest,
    heartbeat_service sc now s = (true, s', EOut raw :: rest) /\ kind_of raw = KHeartbeat None /\
    s_last_sent s' = now.
Proof. exact heartbeat_due. Qed.
Print Assumptions c22_heartbeat.

(* floor(now - last_recv) > H + H/5 and state <> test_request_sent  ->  TestRequest (TestReqID "TEST"),
   no Logout, state := test_request_sent; last_received is NOT touched (the root of F27). *)
Theorem c22_testreq : forall sc, schema_ok sc = true -> forall now s,
  sess_ok s = true -> is_shutdown s = false -> 1 <= s_hb s ->
  quiet_due (s_hb s) now (s_last_recv s) = true -> s_state s <> st_test_request_sent ->
  exists s' evs,
    heartbeat_service sc now s = (true, s', evs) /\
    existsb (fun k => match k with KTestRequest (Some id) => beq id txt_test | _ => false end) (outs evs) = true /\
    existsb is_lo (outs evs) = false /\
    s_state s' = st_test_request_sent /\ s_last_recv s' = s_last_recv s /\ s_hb s' = s_hb s /\
    sess_ok s' = true /\ is_shutdown s' = false.
Proof. exact testreq_due. Qed.
Print Assumptions c22_testreq.

(* Conversely: below the threshold the tick sends no Heartbeat, and a TestRequest goes out in no situation
   other than the one of c22_testreq. *)
Theorem c22_only : forall sc, schema_ok sc = true -> forall now s,
  sess_ok s = true -> is_shutdown s = false -> 1 <= s_hb s ->
  (hb_due (s_hb s) now (s_last_sent s) = false ->
   exists s' evs, heartbeat_service sc now s = (true, s', evs) /\ existsb is_hb (outs evs) = false) /\
  (quiet_due (s_hb s) now (s_last_recv s) = false \/ s_state s = st_test_request_sent ->
   exists s' evs, heartbeat_service sc now s = (true, s', evs) /\ existsb is_tr (outs evs) = false).
Proof. intros sc SOK now s OK LIVE H1. split; [apply heartbeat_only|apply testreq_only]; assumption. Qed.
Print Assumptions c22_only.

(* An inbound TestRequest that passes the session rules (enforce raises no exception) is answered, in the
   same call of process, by a Heartbeat carrying the same TestReqID; for every decoder. *)
Theorem c22_testreq_answer : forall sc, schema_ok sc = true -> forall decode fl now raw s rest q m id b s1 e1,
  sess_ok s = true ->
  find_after pat_34 raw = Some rest -> fast_atoi_u rest SOH 0 = Some q -> decode raw = DecOk m ->
  m_type m = mt_test_request -> get_field T_TestReqID (m_body m) = Some id -> id <> [] -> no_soh id = true ->
  enforce sc now q m s = (inl b, s1, e1) ->
  exists s' out,
    process sc decode fl now raw s = (true, s', (e1 ++ [EOut out])%list) /\
    kind_of out = KHeartbeat (Some id) /\ s_state s' = s_state s1.
Proof. exact testreq_answer. Qed.
Print Assumptions c22_testreq_answer.

(* An inbound Heartbeat that passes the session rules while a TestRequest is outstanding returns the session
   to normal operation (continuous). *)
Theorem c22_hb_resets : forall sc, schema_ok sc = true -> forall decode fl now raw s rest q m b s1 e1,
  sess_ok s = true ->
  find_after pat_34 raw = Some rest -> fast_atoi_u rest SOH 0 = Some q -> decode raw = DecOk m ->
  m_type m = mt_heartbeat -> s_state s = st_test_request_sent ->
  enforce sc now q m s = (inl b, s1, e1) ->
  exists s', process sc decode fl now raw s = (true, s', e1) /\ s_state s' = st_continuous.
Proof. exact hb_resets. Qed.
Print Assumptions c22_hb_resets.

(* The whole inbound path (process with every handler and the resend machinery, any decoder, any bytes) never
   ENTERS test_request_sent, sets last_sent to `now` exactly when it writes to the socket, and leaves
   last_received alone (the reader loop sets it): the invariant behind the trace theorems. *)
Theorem c22_inbound_invariant : forall sc decode fl now raw s b s' e,
  process sc decode fl now raw s = (b, s', e) ->
  (s_state s' = st_test_request_sent -> s_state s = st_test_request_sent) /\
  (if has_out e then s_last_sent s' = now else s_last_sent s' = s_last_sent s) /\
  s_last_recv s' = s_last_recv s.
Proof. exact P_process. Qed.
Print Assumptions c22_inbound_invariant.

(* For ALL timelines of ticks / receptions / sends (any instants, any messages, any decoder): the timestamp
   the Heartbeat rule uses is the instant of the latest step that put bytes on the wire, and the one the
   TestRequest/Logout rule uses is the instant of the latest reception. *)
Theorem c22_timestamps_trace : forall sc decode fl ops s,
  s_last_sent (tl_final sc decode fl s ops) = last_out_instant (s_last_sent s) (tl_run sc decode fl s ops) /\
  s_last_recv (tl_final sc decode fl s ops) = last_in_instant (s_last_recv s) (tl_run sc decode fl s ops).
Proof. intros. split; [apply trace_last_sent|apply trace_last_recv]. Qed.
Print Assumptions c22_timestamps_trace.

(* Trace form of the Heartbeat rule: in any timeline, a tick of a running session at which the observable
   silence on the outbound side has lasted >= H whole seconds starts with a Heartbeat. *)
Theorem c22_trace_heartbeat : forall sc decode fl ops s0 a r b t,
  schema_ok sc = true ->
  tl_run sc decode fl s0 ops = (a ++ r :: b)%list -> r_op r = TTick t ->
  sess_ok (r_pre r) = true -> is_shutdown (r_pre r) = false -> 1 <= s_hb (r_pre r) ->
  hb_due (s_hb (r_pre r)) t (last_out_instant (s_last_sent s0) a) = true ->
  exists raw rest, r_evs r = EOut raw :: rest /\ kind_of raw = KHeartbeat None.
Proof. exact trace_heartbeat. Qed.
Print Assumptions c22_trace_heartbeat.

(* The tick meets the property's rule (the oracle's c22_step for TICK: exact list of messages and new state)
   whenever measuring the period from the last reception or from the TestRequest gives the same verdict.
   The hypothesis is what F27 violates; its negation is the classifier of the known finding. *)
Theorem c22_logout_partial : forall sc, schema_ok sc = true -> forall now s tp,
  sess_ok s = true -> is_shutdown s = false -> 1 <= s_hb s ->
  let H := s_hb s in
  let pend := s_state s =? st_test_request_sent in
  (pend = true -> quiet_due H now (s_last_recv s) = quiet_due H now (Z.max tp (s_last_recv s))) ->
  exists s' evs,
    heartbeat_service sc now s = (true, s', evs) /\
    let w := tick_wants H pend now (s_last_sent s) (s_last_recv s) tp in
    match_outs w (outs evs) = true /\
    s_state s' = (if has_want WLo w then st_session_terminated
                  else if has_want WTr w then st_test_request_sent else s_state s).
Proof. exact tick_meets_spec_partial. Qed.
Print Assumptions c22_logout_partial.

(* What is true of the supervision Logout in every timeline: it happens only in state test_request_sent --
   which only an earlier supervision tick can have entered and no step since has left (no Heartbeat was
   accepted in between) -- and only when nothing was received for more than the period; it terminates. *)
Theorem c22_trace_logout_partial : forall sc decode fl ops s0 a r b t,
  schema_ok sc = true -> s_state s0 <> st_test_request_sent ->
  tl_run sc decode fl s0 ops = (a ++ r :: b)%list -> r_op r = TTick t ->
  sess_ok (r_pre r) = true -> is_shutdown (r_pre r) = false -> 1 <= s_hb (r_pre r) ->
  existsb is_lo (outs (r_evs r)) = true ->
  has_origin a /\
  quiet_due (s_hb (r_pre r)) t (last_in_instant (s_last_recv s0) a) = true /\
  s_state (r_post r) = st_session_terminated.
Proof. exact trace_logout_partial. Qed.
Print Assumptions c22_trace_logout_partial.

(* F27 (DESIGN section 5): _last_received is not touched when the TestRequest goes out, so the NEXT tick, one
   second later, sees the same condition in state test_request_sent and logs out: the peer gets one tick, not
   another H + 20 %.  (1) For every admissible schema: H = 30, TestRequest at T0+37 s, Logout at T0+38 s although
   the property's rule (tick_wants) asks for no Logout.  (2) The same on whole histories with the oracle: an
   initiator that never hears from its peer, ticks at +1 s and +2 s: the model's trace violates c22_ok at the
   third step; with the second tick after more than the period (+38 s) the oracle has nothing to object. *)
Theorem c22_logout_refuted :
  (forall sc, schema_ok sc = true ->
   let s := demo_sess in
   let t1 := (T0 + 37 * NS)%Z in
   let t2 := (t1 + NS)%Z in
   exists s1 e1 s2 e2,
     heartbeat_service sc t1 s = (true, s1, e1) /\ existsb is_tr (outs e1) = true /\ existsb is_lo (outs e1) = false /\
     heartbeat_service sc t2 s1 = (true, s2, e2) /\ existsb is_lo (outs e2) = true /\
     s_state s2 = st_session_terminated /\
     elapsed t2 t1 = 1%Z /\ period (s_hb s1) = 36 /\
     has_want WLo (tick_wants (s_hb s1) true t2 (s_last_sent s1) (s_last_recv s1) t1) = false) /\
  (schema_ok demo_schema = true /\
   c22_ok demo_f27_ops (run_history demo_schema demo_f27_ops) = false /\
   c22_first_bad ost0 demo_f27_ops (run_history demo_schema demo_f27_ops) 0 = 2 /\
   c22_ok demo_fine_ops (run_history demo_schema demo_fine_ops) = true).
Proof. split; [exact logout_next_tick|vm_compute; repeat split]. Qed.
Print Assumptions c22_logout_refuted.

(* The hypotheses are satisfiable by a non-trivial input: the demo schema is admissible, the demo session
   (continuous, H = 30, last sent/received at T0) meets sess_ok / running / H >= 1, at T0+30 s the Heartbeat is
   due and the TestRequest is not, at T0+37 s both are; and the hypothesis of c22_logout_partial is met by a
   pending session whose TestRequest has been out for more than the period. *)
Theorem c22_nonvacuous :
  schema_ok demo_schema = true /\ sess_ok demo_sess = true /\ is_shutdown demo_sess = false /\ 1 <= s_hb demo_sess /\
  hb_due 30 (T0 + 30 * NS)%Z (s_last_sent demo_sess) = true /\ quiet_due 30 (T0 + 30 * NS)%Z (s_last_recv demo_sess) = false /\
  hb_due 30 (T0 + 30 * NS - 1)%Z (s_last_sent demo_sess) = false /\
  quiet_due 30 (T0 + 37 * NS)%Z (s_last_recv demo_sess) = true /\ quiet_due 30 (T0 + 37 * NS - 1)%Z (s_last_recv demo_sess) = false /\
  quiet_due 30 (T0 + 74 * NS)%Z (s_last_recv demo_sess) = quiet_due 30 (T0 + 74 * NS)%Z (Z.max (T0 + 37 * NS)%Z (s_last_recv demo_sess)).
Proof. vm_compute. repeat split; discriminate. Qed.
Print Assumptions c22_nonvacuous.
