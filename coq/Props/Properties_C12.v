(* Property C12 -- "Metadata lookup tables behave as exact maps".
   Only theorem statements; each is closed by [exact] of a lemma proved in C12/TablesProofs.v or
   C12/PresortedProofs.v (bisection lemmas in C12/BisectProofs.v), followed by Print Assumptions.
   Models: C12/Bisect.v (libstdc++ lower_bound / upper_bound / equal_range), C12/Tables.v
   (GeneratedTable::_find, F8MetaCntx::_flu/find_be, FieldTrait_Hash_Array find, reverse maps),
   C12/Presorted.v (presorted_set state machine);  oracle: C12/Spec_C12.v. *)
From Coq Require Import Arith List Bool ZArith.
From F8 Require Import C12.Bisect C12.BisectProofs C12.Tables C12.Presorted C12.Spec_C12
                       C12.TablesProofs C12.PresortedProofs.
Import ListNotations.

(* The bisection algorithms are modelled and proved, not assumed: on a strictly sorted array
   equal_range returns (number of smaller elements, number of not-larger elements); the range is
   one element wide exactly for members. *)
Theorem c12_equal_range_count : forall (A : Type) (lt : A -> A -> bool), strict_total lt ->
  forall (l : list A) (v : A), sortedb lt l = true ->
  equal_range lt l v = Some (count_lt lt l v, count_le lt l v).
Proof. exact (@o_equal_range_sorted). Qed.
Print Assumptions c12_equal_range_count.

Theorem c12_equal_range_member : forall (A : Type) (lt : A -> A -> bool), strict_total lt ->
  forall (l : list A) (v : A), sortedb lt l = true ->
  exists a b, equal_range lt l v = Some (a, b) /\ a = count_lt lt l v /\
              (In v l -> nth_error l a = Some v /\ b = a + 1) /\ (~ In v l -> b = a).
Proof. exact (@o_equal_range_member). Qed.
Print Assumptions c12_equal_range_member.

(* GeneratedTable::_find / find_ptr (message table under strcmp, field table under <):
   on a table sorted by key, find_ptr k yields v exactly when (k, v) is a pair of the table. *)
Theorem c12_generated_exact : forall (K : Type) (ltK : K -> K -> bool), strict_total ltK ->
  forall (V : Type) (T : list (K * V)) (k : K), sortedb ltK (map fst T) = true ->
  exists r, gt_find_ptr ltK T k = Some r /\ forall v, r = Some v <-> In (k, v) T.
Proof. exact (@gt_find_ptr_exact). Qed.
Print Assumptions c12_generated_exact.

Theorem c12_generated_index_exact : forall (K : Type) (ltK : K -> K -> bool), strict_total ltK ->
  forall (keys : list K) (k : K), sortedb ltK keys = true ->
  exists r, gt_find ltK keys k = Some r /\ forall i, r = Some i <-> nth_error keys i = Some k.
Proof. exact (@gt_find_exact). Qed.
Print Assumptions c12_generated_index_exact.

(* F8MetaCntx::find_be over the direct-index array _flu built by the constructor. *)
Theorem c12_flu_exact : forall (keys : list Z) (k : Z),
  sortedb Z.ltb keys = true -> nonneg_keys keys = true -> keys <> [] ->
  nth_error keys (length keys - 1) <> Some 0%Z ->
  exists r, find_be keys k = Some r /\ forall i, r = Some i <-> nth_error keys i = Some k.
Proof. exact find_be_exact. Qed.
Print Assumptions c12_flu_exact.

(* The hash-array find of a message's / group's field-trait set. *)
Theorem c12_ftha_exact : forall (keys : list Z) (k : Z),
  sortedb Z.ltb keys = true -> nonneg_keys keys = true -> keys <> [] ->
  exists r, ftha_find keys keys k = Some r /\ forall i, r = Some i <-> nth_error keys i = Some k.
Proof. exact ftha_find_exact. Qed.
Print Assumptions c12_ftha_exact.

(* Reverse name lookups (fields: an empty name finds nothing; messages: no such test). *)
Theorem c12_reverse_exact : forall (ce : bool) (names : list (list Z)) (n : list Z),
  NoDup names -> (ce = true -> n <> []) ->
  forall j, reverse_find ce names n = Some j <-> nth_error names j = Some n.
Proof. exact reverse_find_exact. Qed.
Print Assumptions c12_reverse_exact.

(* An exact index is what the oracle accepts (so the models above meet it on sorted tables). *)
Theorem c12_lookup_oracle : forall (K : Type) (ltK : K -> K -> bool), strict_total ltK ->
  forall (eqK : K -> K -> bool), (forall a b, eqK a b = true <-> a = b) ->
  forall (keys : list K) (k : K) r, sortedb ltK keys = true ->
  gt_find ltK keys k = Some r -> c12_lookup_ok eqK keys k r = true.
Proof. exact (@gt_find_ok). Qed.
Print Assumptions c12_lookup_oracle.

(* presorted_set, any history: starting from any state satisfying the invariant
   (no hash array, _sz <= _rsz, 0 < _rsz, block of _rsz slots, first _sz slots strictly sorted)
   every operation succeeds without an access outside the allocated block, ALL answers -- including
   the iterator returned by insert -- and the sizes are those of the sorted list of unique keys,
   and size <= rsize throughout. *)
Theorem c12_presorted_invariant : forall (ops : list op) (s : pset), ps_wf s ->
  exists s' rs, ps_run s ops = Some (s', rs) /\ ps_wf s' /\
    map fst rs = spec_run (abs s) ops /\
    Forall (fun x => snd (fst x) <= snd x) rs.
Proof. exact ps_run_refines. Qed.
Print Assumptions c12_presorted_invariant.

(* ... in particular for a set built by the array constructor from a sorted table (non-empty, or
   with a positive reserve), and for the empty set with a positive reserve. *)
Theorem c12_presorted_refines : forall (tab : list elem) (reserve : nat) (ops : list op),
  keys_sorted tab = true -> (tab <> [] \/ 0 < reserve) ->
  exists s' rs, ps_run (ps_init_array tab reserve) ops = Some (s', rs) /\
    map fst rs = spec_run tab ops /\
    Forall (fun x => snd (fst x) <= snd x) rs.
Proof. exact presorted_refines_lemma. Qed.
Print Assumptions c12_presorted_refines.

Theorem c12_presorted_empty_refines : forall (reserve : nat) (ops : list op), 0 < reserve ->
  exists s' rs, ps_run (ps_init_explicit 0 reserve) ops = Some (s', rs) /\
    map fst rs = spec_run [] ops /\
    Forall (fun x => snd (fst x) <= snd x) rs.
Proof. exact presorted_empty_refines_lemma. Qed.
Print Assumptions c12_presorted_empty_refines.

(* ... so the oracle accepts every history of the model. *)
Theorem c12_presorted_oracle : forall (tab : list elem) (reserve : nat) (ops : list op),
  keys_sorted tab = true -> (tab <> [] \/ 0 < reserve) ->
  exists s' rs, ps_run (ps_init_array tab reserve) ops = Some (s', rs) /\ c12_ps_ok tab ops (map fst rs) = true.
Proof. exact presorted_oracle_lemma. Qed.
Print Assumptions c12_presorted_oracle.

(* insert (code since 5f81ca8): the iterator returned is never stale, and the position it reports
   holds exactly the inserted element in the new state. *)
Theorem c12_insert_never_stale : forall s e s' ok pos stale,
  ps_wf s -> ps_insert s e = Some (s', RInsert ok pos stale) -> stale = false.
Proof. exact insert_never_stale_lemma. Qed.
Print Assumptions c12_insert_never_stale.

Theorem c12_insert_position : forall s e s' pos,
  ps_wf s -> ps_insert s e = Some (s', RInsert true pos false) ->
  exists i, pos = Some i /\ nth_error (abs s') i = Some e /\ i < p_sz s'.
Proof. exact insert_position. Qed.
Print Assumptions c12_insert_position.

(* The ORIGINAL insert (before 5f81ca8) returned an iterator into the block it had just deleted
   exactly when it had to grow; witness: a full two-element set, insert of a third key. *)
Theorem c12_insert_stale_orig_char : forall s e s' ok pos stale,
  ps_wf s -> ps_insert_orig s e = Some (s', RInsert ok pos stale) ->
  (stale = true <-> (ok = true /\ p_sz s <> 0 /\ p_sz s = p_rsz s)).
Proof. exact insert_orig_stale_lemma. Qed.
Print Assumptions c12_insert_stale_orig_char.

Theorem c12_insert_stale_orig_refuted :
  ps_wf full_set /\
  (exists s', ps_insert_orig full_set (3, 0)%Z = Some (s', RInsert true (Some 2) true)) /\
  (exists s', ps_insert full_set (3, 0)%Z = Some (s', RInsert true (Some 2) false) /\
              nth_error (abs s') 2 = Some (3, 0)%Z).
Proof. exact stale_orig_refuted_lemma. Qed.
Print Assumptions c12_insert_stale_orig_refuted.

(* REFUTED (corner constructors): an empty set with reserve 0 writes past its zero-length block
   on the first insert; a set built by the hash-array constructor faults on inserting an absent
   key (null insert position, uninitialised _rsz) while lookups and duplicate inserts work; the
   explicit constructor with a non-zero size claims elements it never allocated. *)
Theorem c12_reserve0_refuted : ps_run (ps_init_explicit 0 0) [OInsert (1, 0)%Z] = None.
Proof. exact reserve0_refuted_lemma. Qed.
Print Assumptions c12_reserve0_refuted.

Theorem c12_hash_insert_refuted :
  ps_run (ps_init_hash [(1, 0); (5, 0)]%Z) [OFind 5%Z; OInsert (5, 1)%Z] <> None /\
  ps_run (ps_init_hash [(1, 0); (5, 0)]%Z) [OInsert (2, 0)%Z] = None.
Proof. exact hash_insert_refuted_lemma. Qed.
Print Assumptions c12_hash_insert_refuted.

Theorem c12_explicit_size_refuted : ps_run (ps_init_explicit 3 30) [OFind 1%Z] = None.
Proof. exact explicit_size_refuted_lemma. Qed.
Print Assumptions c12_explicit_size_refuted.

(* Non-vacuity: a concrete history with hits, misses, a duplicate insert, a range insert that
   stops at a duplicate, clear and re-insert. *)
Theorem c12_nonvacuous :
  let tab := [(1, 10); (4, 40); (9, 90)]%Z in
  let ops := [OFind 4; OFind 5; OFindA 5; OInsert (5, 50); OInsert (4, 41); OAt 2; OAt 9;
              OInsertRange [(2, 20); (7, 70); (2, 21); (8, 80)]; OFind 8; OClear; OFind 1; OInsert (3, 30); OFind 3]%Z in
  keys_sorted tab = true /\
  exists s' rs, ps_run (ps_init_array tab 30) ops = Some (s', rs) /\
    map (fun x => fst (fst x)) rs =
      [RFind (Some 1); RFind None; RFindA (Some 2) false; RInsert true (Some 2) false;
       RInsert false None false; RAt (Some (5, 50)%Z); RAt None; RRange; RFind None; RClear; RFind None;
       RInsert true (Some 0) false; RFind (Some 0)].
Proof. exact presorted_nonvacuous_lemma. Qed.
Print Assumptions c12_nonvacuous.
