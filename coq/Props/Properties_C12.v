(* Property C12 -- "Metadata lookup tables behave as exact maps".
   Only theorem statements; each is closed by [exact] of a lemma proved in C12/TablesProofs.v or
   C12/PresortedProofs.v (bisection lemmas in C12/BisectProofs.v), followed by Print Assumptions.
   Models: C12/Bisect.v (libstdc++ lower_bound / upper_bound / equal_range), C12/Tables.v
   (GeneratedTable::_find, F8MetaCntx::_flu/find_be, FieldTrait_Hash_Array find, reverse maps),
   C12/Presorted.v (presorted_set state machine);  oracle: C12/Spec_C12.v. *)
From Coq Require Import Arith List Bool ZArith.
From F8 Require Import C12.Bisect C12.BisectProofs C12.Tables C12.Presorted C12.Spec_C12
                       C12.TablesProofs C12.PresortedProofs.
Import ListNotations.

(* The bisection algorithms are modelled and proved, not assumed: on a strictly sorted array
   equal_range returns (number of smaller elements, number of not-larger elements); the range is
   one element wide exactly for members. *)
Theorem c12_equal_range_count : forall (A : Type) (lt : A -> A -> bool), strict_total lt ->
  forall (l : list A) (v : A), sortedb lt l = true ->
  equal_range lt l v = Some (count_lt lt l v, count_le lt l v).
Proof. exact (@o_equal_range_sorted). Qed.
Print Assumptions c12_equal_range_count.

Theorem c12_equal_range_member : forall (A : Type) (lt : A -> A -> bool), strict_total lt ->
  forall (l : list A) (v : A), sortedb lt l = true ->
  exists a b, equal_range lt l v = Some (a, b) /\ a = count_lt lt l v /\
              (In v l -> nth_error l a = Some v /\ b = a + 1) /\ (~ In v l -> b = a).
Proof. exact (@o_equal_range_member). Qed.
Print Assumptions c12_equal_range_member.

(* GeneratedTable::_find / find_ptr (message table under strcmp, field table under <):
   on a table sorted by key, find_ptr k yields v exactly when (k, v) is a pair of the table. *)
Theorem c12_generated_exact : forall (K : Type) (ltK : K -> K -> bool), strict_total ltK ->
  forall (V : Type) (T : list (K * V)) (k : K), sortedb ltK (map fst T) = true ->
  exists r, gt_find_ptr ltK T k = Some r /\ forall v, r = Some v <-> In (k, v) T.
Proof. exact (@gt_find_ptr_exact). Qed.
Print Assumptions c12_generated_exact.

Theorem c12_generated_index_exact : forall (K : Type) (ltK : K -> K -> bool), strict_total ltK ->
  forall (keys : list K) (k : K), sortedb ltK keys = true ->
  exists r, gt_find ltK keys k = Some r /\ forall i, r = Some i <-> nth_error keys i = Some k.
Proof. exact (@gt_find_exact). Qed.
Print Assumptions c12_generated_index_exact.

(* F8MetaCntx::find_be over the direct-index array _flu built by the constructor. *)
Theorem c12_flu_exact : forall (keys : list Z) (k : Z),
  sortedb Z.ltb keys = true -> nonneg_keys keys = true -> keys <> [] ->
  nth_error keys (length keys - 1) <> Some 0%Z ->
  exists r, find_be keys k = Some r /\ forall i, r = Some i <-> nth_error keys i = Some k.
Proof. exact find_be_exact. Qed.
Print Assumptions c12_flu_exact.

(* The hash-array find of a message's / group's field-trait set. *)
Theorem c12_ftha_exact : forall (keys : list Z) (k : Z),
  sortedb Z.ltb keys = true -> nonneg_keys keys = true -> keys <> [] ->
  exists r, ftha_find keys keys k = Some r /\ forall i, r = Some i <-> nth_error keys i = Some k.
Proof. exact ftha_find_exact. Qed.
Print Assumptions c12_ftha_exact.

(* Reverse name lookups (fields: an empty name finds nothing; messages: no such test). *)
Theorem c12_reverse_exact : forall (ce : bool) (names : list (list Z)) (n : list Z),
  NoDup names -> (ce = true -> n <> []) ->
  forall j, reverse_find ce names n = Some j <-> nth_error names j = Some n.
Proof. exact reverse_find_exact. Qed.
Print Assumptions c12_reverse_exact.

(* An exact index is what the oracle accepts (so the models above meet it on sorted tables). *)
Theorem c12_lookup_oracle : forall (K : Type) (ltK : K -> K -> bool), strict_total ltK ->
  forall (eqK : K -> K -> bool), (forall a b, eqK a b = true <-> a = b) ->
  forall (keys : list K) (k : K) r, sortedb ltK keys = true ->
  gt_find ltK keys k = Some r -> c12_lookup_ok eqK keys k r = true.
Proof. exact (@gt_find_ok). Qed.
Print Assumptions c12_lookup_oracle.

(* presorted_set, any history: starting from any state satisfying the invariant
   (no hash array, _sz <= _rsz, 0 < _rsz, block of _rsz slots, first _sz slots strictly sorted)
   every operation succeeds without an access outside the allocated block, ALL answers -- including
   the iterator returned by insert -- and the sizes are those of the sorted list of unique keys,
   and size <= rsize throughout. *)
Theorem c12_presorted_invariant : forall (ops : list op) (s : pset), ps_wf s ->
  exists s' rs, ps_run s ops = Some (s', rs) /\ ps_wf s' /\
    map fst rs = spec_run (abs s) ops /\
    Forall (fun x => snd (fst x) <= snd x) rs.
Proof. exact ps_run_refines. Qed.
Print Assumptions c12_presorted_invariant.

(* ... in particular for a set built by the array constructor from a sorted table with ANY reserve
   (0 included: calc_reserve keeps at least one slot since 432f45d), and for the explicit
   constructor with any size and reserve (an empty set with room, since a311e58). *)
Theorem c12_presorted_refines : forall (tab : list elem) (reserve : nat) (ops : list op),
  keys_sorted tab = true ->
  exists s' rs, ps_run (ps_init_array tab reserve) ops = Some (s', rs) /\
    map fst rs = spec_run tab ops /\
    Forall (fun x => snd (fst x) <= snd x) rs.
Proof. exact presorted_refines_lemma. Qed.
Print Assumptions c12_presorted_refines.

Theorem c12_presorted_explicit_refines : forall (sz reserve : nat) (ops : list op),
  exists s' rs, ps_run (ps_init_explicit sz reserve) ops = Some (s', rs) /\
    map fst rs = spec_run [] ops /\
    Forall (fun x => snd (fst x) <= snd x) rs.
Proof. exact presorted_explicit_refines_lemma. Qed.
Print Assumptions c12_presorted_explicit_refines.

(* Sets built by the hash-array constructor (every message's field-trait set; since b713cdd the
   first insert detaches the hash array and positions come from the sorted array).  Constructor
   precondition: a non-empty table strictly sorted by non-negative key.  PARTIAL in the history:
   [hist_ok HIntact tab ops] = while the hash array is still attached, find(key, answer) is only
   asked for present keys and no lookup happens between a clear() and the next insert; every
   history is allowed from the first insert on. *)
Theorem c12_presorted_hash_partial : forall (tab : list elem) (ops : list op),
  keys_sorted tab = true -> nonneg_keys (map fst tab) = true -> tab <> [] ->
  hist_ok HIntact tab ops = true ->
  exists s' rs, ps_run (ps_init_hash tab) ops = Some (s', rs) /\
    map fst rs = spec_run tab ops /\
    Forall (fun x => snd (fst x) <= snd x) rs.
Proof. exact presorted_hash_refines_lemma. Qed.
Print Assumptions c12_presorted_hash_partial.

(* the same from any reachable state: detached (ps_wf), hash array attached, or cleared while attached *)
Theorem c12_presorted_general : forall (ops : list op) (s : pset) (m : hmode),
  inv s m -> hist_ok m (abs s) ops = true ->
  exists s' rs, ps_run s ops = Some (s', rs) /\ map fst rs = spec_run (abs s) ops /\
                Forall (fun x => snd (fst x) <= snd x) rs.
Proof. exact ps_run_refines_gen. Qed.
Print Assumptions c12_presorted_general.

(* REFUTED (what the repairs do not cover): with the hash array attached find(key, answer) reports a
   null position for an absent key, and after clear() the stale hash array still finds a cleared key. *)
Theorem c12_hash_residual_refuted :
  let s := ps_init_hash [(1, 0); (5, 0); (9, 0)]%Z in
  ps_step s (OFindA 2%Z) = Some (s, RFindA None false) /\
  fst (spec_step [(1, 0); (5, 0); (9, 0)]%Z (OFindA 2%Z)) = [(1, 0); (5, 0); (9, 0)]%Z /\
  snd (spec_step [(1, 0); (5, 0); (9, 0)]%Z (OFindA 2%Z)) = RFindA (Some 1) false /\
  (exists s1 rs, ps_run s [OClear; OFind 5%Z] = Some (s1, rs) /\
                 map fst rs = [(RClear, 0); (RFind (Some 1), 0)] /\
                 spec_run [(1, 0); (5, 0); (9, 0)]%Z [OClear; OFind 5%Z] = [(RClear, 0); (RFind None, 0)]).
Proof. exact hash_residual_refuted_lemma. Qed.
Print Assumptions c12_hash_residual_refuted.

(* ... so the oracle accepts every history of the model. *)
Theorem c12_presorted_oracle : forall (tab : list elem) (reserve : nat) (ops : list op),
  keys_sorted tab = true ->
  exists s' rs, ps_run (ps_init_array tab reserve) ops = Some (s', rs) /\ c12_ps_ok tab ops (map fst rs) = true.
Proof. exact presorted_oracle_lemma. Qed.
Print Assumptions c12_presorted_oracle.

(* insert (code since 5f81ca8): the iterator returned is never stale, and the position it reports
   holds exactly the inserted element in the new state. *)
Theorem c12_insert_never_stale : forall s e s' ok pos stale,
  ps_wf s -> ps_insert s e = Some (s', RInsert ok pos stale) -> stale = false.
Proof. exact insert_never_stale_lemma. Qed.
Print Assumptions c12_insert_never_stale.

Theorem c12_insert_position : forall s e s' pos,
  ps_wf s -> ps_insert s e = Some (s', RInsert true pos false) ->
  exists i, pos = Some i /\ nth_error (abs s') i = Some e /\ i < p_sz s'.
Proof. exact insert_position. Qed.
Print Assumptions c12_insert_position.

(* The ORIGINAL insert (before 5f81ca8) returned an iterator into the block it had just deleted
   exactly when it had to grow; witness: a full two-element set, insert of a third key. *)
Theorem c12_insert_stale_orig_char : forall s e s' ok pos stale,
  ps_wf s -> ps_insert_orig s e = Some (s', RInsert ok pos stale) ->
  (stale = true <-> (ok = true /\ p_sz s <> 0 /\ p_sz s = p_rsz s)).
Proof. exact insert_orig_stale_lemma. Qed.
Print Assumptions c12_insert_stale_orig_char.

Theorem c12_insert_stale_orig_refuted :
  ps_wf full_set /\
  (exists s', ps_insert_orig full_set (3, 0)%Z = Some (s', RInsert true (Some 2) true)) /\
  (exists s', ps_insert full_set (3, 0)%Z = Some (s', RInsert true (Some 2) false) /\
              nth_error (abs s') 2 = Some (3, 0)%Z).
Proof. exact stale_orig_refuted_lemma. Qed.
Print Assumptions c12_insert_stale_orig_refuted.

(* The three constructor defects as they were before the repairs (kept as witnesses), each next to
   the current behaviour: reserve 0 on an empty set (before 432f45d: _rsz = 0, the first insert
   writes past a zero-length block); insert of a new key into a hash-built set (before b713cdd: null
   position and uninitialised _rsz); the explicit constructor with a size (before a311e58: _sz = sz
   over a null array). *)
Theorem c12_reserve0_orig_refuted :
  ps_insert (ps_init_explicit_orig 0 0) (1, 0)%Z = None /\
  (exists s', ps_insert (ps_init_explicit 0 0) (1, 0)%Z = Some (s', RInsert true (Some 0) false)).
Proof. exact reserve0_orig_refuted_lemma. Qed.
Print Assumptions c12_reserve0_orig_refuted.

Theorem c12_hash_insert_orig_refuted :
  ps_insert_gen true (ps_init_hash_orig [(1, 0); (5, 0)]%Z) (2, 0)%Z = None /\
  (exists s', ps_insert (ps_init_hash [(1, 0); (5, 0)]%Z) (2, 0)%Z = Some (s', RInsert true (Some 1) false) /\
              abs s' = [(1, 0); (2, 0); (5, 0)]%Z).
Proof. exact hash_insert_orig_refuted_lemma. Qed.
Print Assumptions c12_hash_insert_orig_refuted.

Theorem c12_explicit_size_orig_refuted :
  ps_find (ps_init_explicit_orig 3 30) 1%Z = None /\ ps_find (ps_init_explicit 3 30) 1%Z = Some None.
Proof. exact explicit_size_orig_refuted_lemma. Qed.
Print Assumptions c12_explicit_size_orig_refuted.

(* Non-vacuity: a concrete history with hits, misses, a duplicate insert, a range insert that
   stops at a duplicate, clear and re-insert. *)
Theorem c12_nonvacuous :
  let tab := [(1, 10); (4, 40); (9, 90)]%Z in
  let ops := [OFind 4; OFind 5; OFindA 5; OInsert (5, 50); OInsert (4, 41); OAt 2; OAt 9;
              OInsertRange [(2, 20); (7, 70); (2, 21); (8, 80)]; OFind 8; OClear; OFind 1; OInsert (3, 30); OFind 3]%Z in
  keys_sorted tab = true /\
  exists s' rs, ps_run (ps_init_array tab 30) ops = Some (s', rs) /\
    map (fun x => fst (fst x)) rs =
      [RFind (Some 1); RFind None; RFindA (Some 2) false; RInsert true (Some 2) false;
       RInsert false None false; RAt (Some (5, 50)%Z); RAt None; RRange; RFind None; RClear; RFind None;
       RInsert true (Some 0) false; RFind (Some 0)].
Proof. exact presorted_nonvacuous_lemma. Qed.
Print Assumptions c12_nonvacuous.
