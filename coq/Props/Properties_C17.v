(* Property C17 -- "Sent application messages are stored exactly as transmitted".
   Only theorem statements; each is closed by [exact] of a lemma proved in C17/C17Proofs.v.
   The oracle c17_ok (C17/Spec_C17.v): with a persister attached, every new application message put on
   the wire during an operation is among the entries that entered the persister during that operation,
   under its own MsgSeqNum with exactly its wire bytes; no new administrative message is (neither its
   number nor its bytes). *)
From Coq Require Import NArith ZArith List Bool.
From F8 Require Import Sess.Bytes Sess.Msg Sess.Persist Sess.Session Sess.SimpleCodec Sess.Wire
  Sess.SessLemmas Sess.SendLemmas Sess.Demo C16.Spec_C16 C16.C16Proofs C17.Spec_C17 C17.C17Proofs.
Import ListNotations.
Local Open Scope N_scope.

(* c17_store: the property at full strength for send-side histories (any length, both roles, memory / file /
   no persister, any start number, any schema whose admin flags are the session-level types): a START
   followed by plain SEND / BATCH / CLOCK operations with SOH- and NUL-free field contents satisfies the
   oracle -- every transmitted new application message, sent singly or in ANY position of a batch, is stored
   under its MsgSeqNum with exactly the wire bytes, and no administrative message is stored.
   (plain = no custom sequence number, no no_increment, not a SequenceReset, MsgSeqNum / PossDupFlag not
   preset: with a custom number the key is next_send, see c17_custom_refuted.) *)
Theorem c17_store : forall (sc : schema) (p : startp) (t : option Z) (ops : list op),
  wf_schema sc = true -> nonul (sc_begin sc) = true -> wf_admin sc = true ->
  wf_start17 p = true -> forallb plain_op17 ops = true ->
  c17_ok (OStart p t :: ops) (run_history sc (OStart p t :: ops)) = true.
Proof. exact c17_store_partial_lemma. Qed.
Print Assumptions c17_store.

(* the same at the level of one Session::send_process call, for every state between operations or inside a
   batch and for every position, the message that flushes a non-empty batch buffer included: the store grows
   by exactly (next_send, wire bytes) for an application message and not at all for an administrative one. *)
Theorem c17_store_step : forall sc now s m pend,
  wf_schema sc = true -> nonul (sc_begin sc) = true ->
  plain17 sc m = true -> good s -> s_batch s = concat (map (encode sc) pend) ->
  p_attached (s_per s) = true ->
  p_store (s_per (snd (fst (send_process sc now s m)))) =
  (p_store (s_per s) ++ if session_type (m_type m) then [] else [(s_next_send s, wire sc now s m)])%list.
Proof. exact c17_store_step_lemma. Qed.
Print Assumptions c17_store_step.

(* c17_store_orig_refuted (F21, repaired by d862447): in a state with a non-empty batch buffer the ORIGINAL
   send_process stored the flushing application message (number 3, 81 wire bytes) as the EMPTY string --
   ptr had been redirected to the batch buffer, which is cleared before _persist->put; the code as it is
   now stores the 81 bytes. *)
Theorem c17_store_orig_refuted :
  s_next_send sb1 = 3 /\ s_batch sb1 <> [] /\
  last_stored (send_process_orig demo_schema T0 sb1 m_order) = Some 0%nat /\
  last_stored (send_process demo_schema T0 sb1 m_order) = Some 81%nat /\
  length (wire demo_schema T0 sb1 m_order) = 81%nat.
Proof. exact c17_store_orig_refuted_lemma. Qed.
Print Assumptions c17_store_orig_refuted.

(* a custom sequence number: the message travels as 7 but is stored under next_send = 2. *)
Theorem c17_custom_refuted :
  all_new_seqs (run_history demo_schema h_custom17) = map dec [1; 7] /\
  map fst (store_lengths (run_history demo_schema h_custom17)) = [2] /\
  c17_ok h_custom17 (run_history demo_schema h_custom17) = false.
Proof. exact c17_custom_refuted_lemma. Qed.
Print Assumptions c17_custom_refuted.

(* non-vacuity of c17_store: singles, a batch with an application message last, a batch of one, a batch of two
   application messages meet the hypotheses; nine messages 1..9 go out, the six application ones are stored;
   the two-order batch that used to lose its last message satisfies the oracle. *)
Theorem c17_nonvacuous :
  wf_schema demo_schema = true /\ nonul (sc_begin demo_schema) = true /\ wf_admin demo_schema = true /\
  wf_start17 (demo_init PFile) = true /\ forallb plain_op17 h_plain17 = true /\
  all_new_seqs (run_history demo_schema (OStart (demo_init PFile) None :: h_plain17)) = map dec [1; 2; 3; 4; 5; 6; 7; 8; 9] /\
  stored_keys (run_history demo_schema (OStart (demo_init PFile) None :: h_plain17)) = [2; 3; 5; 7; 8; 9] /\
  c17_ok h_batch2 (run_history demo_schema h_batch2) = true.
Proof. exact c17_nonvacuous_lemma. Qed.
Print Assumptions c17_nonvacuous.
